#!/bin/sh
# Builds the framework from files on disk only (offline).
set -e
cd "$(dirname "$0")"
export CARGO_NET_OFFLINE=true
(cd harness && cargo build --release --offline --bin rkh --bin sbx_service --bin c14_dates && (cargo build --release --offline || true))
(cd lean && lake build)
# the rink CLI binary used by the C20 check (cold build ~1-2 min; the check rebuilds incrementally)
(cd /repo && CARGO_TARGET_DIR=/verif/.cache/cli-target cargo build --offline -p rink)
