import Rink.Driver.Alloc
import Rink.Driver.Eval
import Rink.Driver.Sandbox
import Rink.Driver.Digits
import Rink.Driver.Expr
import Rink.Driver.Subst
import Rink.Driver.Cache
import Rink.Driver.Load
import Rink.Driver.Dates

def main (args : List String) : IO UInt32 := do
  match args with
  | ["alloc"] => Rink.Driver.Alloc.main; return 0
  | ["dates"] => Rink.Driver.Dates.main; return 0
  | ["loadt", path] => Rink.Driver.Load.loadtMain path; return 0
  | "load" :: rest => Rink.Driver.Load.loadMain rest; return 0
  | ["defs", path] => Rink.Driver.Load.defsMain path; return 0
  | ["cache"] => Rink.Driver.Cache.main; return 0
  | ["subst", dump] => Rink.Driver.Subst.main dump; return 0
  | ["expr"] => Rink.Driver.Expr.main; return 0
  | ["digits"] => Rink.Driver.Digits.main; return 0
  | ["sandbox"] => Rink.Driver.Sandbox.main; return 0
  | ["eval", dump] => Rink.Driver.Eval.main dump; return 0
  | ["ctxok", dump] => Rink.Driver.Eval.ctxokMain dump; return 0
  | _ => IO.eprintln "usage: rinkmodel <alloc | eval DUMP>"; return 2
