import Rink.Driver.Alloc

def main (args : List String) : IO UInt32 := do
  match args with
  | ["alloc"] => Rink.Driver.Alloc.main; return 0
  | _ => IO.eprintln "usage: rinkmodel <alloc|...>"; return 2
