import Rink.Model.Eval
/-!
Reference semantics for C01: arithmetic expression trees and their value in unbounded
rational arithmetic (`denote`), `none` where the mathematical result is undefined.
Import-free (core only).
-/
namespace Rink.Spec
open Rink

inductive AExp where
  | lit (q : Rat)
  | add (l r : AExp) | sub (l r : AExp)
  | mul (l r : AExp)          -- explicit `*`
  | juxt (l r : AExp)         -- juxtaposition
  | div (l r : AExp)          -- `/`
  | frac (l r : AExp)         -- `|`
  | pow (b : AExp) (k : Int)  -- integer power, exponent written as a (signed) literal
  | mod (l r : AExp)
  | shl (l r : AExp) | shr (l r : AExp)
  | and (l r : AExp) | or (l r : AExp) | xor (l r : AExp)
  | neg (e : AExp) | pos (e : AExp)
deriving Repr

def two31 : Rat := 2147483648

/-- truncation toward zero of a rational -/
def trunc (x : Rat) : Int := Int.tdiv x.num x.den

/-- truncated remainder: the unique `r = a - b·n` with `n = trunc (a/b)` -/
def tmod (a b : Rat) : Rat := a - b * (trunc (a / b) : Rat)

def isInt (x : Rat) : Bool := x.den == 1

/-- `a · 2^k` for an integer `k` of either sign -/
def scale2 (a : Rat) (k : Int) : Rat :=
  if k ≥ 0 then a * ((2 ^ k.natAbs : Nat) : Rat) else a / ((2 ^ k.natAbs : Nat) : Rat)

def ipow (a : Rat) (k : Int) : Rat :=
  if k < 0 then 1 / a ^ k.natAbs else a ^ k.natAbs

def shiftArg (b : Rat) : Option Int :=
  if b.abs ≥ two31 then none else if b.den ≠ 1 then none else some b.num

def bitArgs (a b : Rat) : Option (Int × Int) :=
  if a.den = 1 ∧ b.den = 1 then some (a.num, b.num) else none

def denote : AExp → Option Rat
  | .lit q => some q
  | .add l r => do let a ← denote l; let b ← denote r; pure (a + b)
  | .sub l r => do let a ← denote l; let b ← denote r; pure (a - b)
  | .mul l r => do let a ← denote l; let b ← denote r; pure (a * b)
  | .juxt l r => do let a ← denote l; let b ← denote r; pure (a * b)
  | .div l r => do let a ← denote l; let b ← denote r; if b = 0 then none else pure (a / b)
  | .frac l r => do let a ← denote l; let b ← denote r; if b = 0 then none else pure (a / b)
  | .pow b k => do
      let a ← denote b
      if (k : Rat).abs ≥ two31 then none
      else if k < 0 ∧ a = 0 then none else pure (ipow a k)
  | .mod l r => do let a ← denote l; let b ← denote r; if b = 0 then none else pure (tmod a b)
  | .shl l r => do let a ← denote l; let b ← denote r; let k ← shiftArg b; pure (scale2 a k)
  | .shr l r => do let a ← denote l; let b ← denote r; let k ← shiftArg b; pure (scale2 a (-k))
  | .and l r => do let a ← denote l; let b ← denote r; let (x, y) ← bitArgs a b; pure ((IntBits.land x y : Int) : Rat)
  | .or l r => do let a ← denote l; let b ← denote r; let (x, y) ← bitArgs a b; pure ((IntBits.lor x y : Int) : Rat)
  | .xor l r => do let a ← denote l; let b ← denote r; let (x, y) ← bitArgs a b; pure ((IntBits.lxor x y : Int) : Rat)
  | .neg e => do let a ← denote e; pure (-a)
  | .pos e => denote e

def constE (q : Rat) : Expr := .const (.rational q)

/-- the `Expr` the parser builds for the tree (see `Props/C01.lean`, `parse_renders`) -/
def toExpr : AExp → Expr
  | .lit q => constE q
  | .add l r => .binop .add (toExpr l) (toExpr r)
  | .sub l r => .binop .sub (toExpr l) (toExpr r)
  | .mul l r => .mul [toExpr l, toExpr r]
  | .juxt l r => .mul [toExpr l, toExpr r]
  | .div l r => .binop .frac (toExpr l) (toExpr r)
  | .frac l r => .binop .frac (toExpr l) (toExpr r)
  | .pow b k => .binop .pow (toExpr b)
      (if k < 0 then .unary .negative (constE (k.natAbs : Nat)) else constE (k.natAbs : Nat))
  | .mod l r => .binop .mod (toExpr l) (toExpr r)
  | .shl l r => .binop .shl (toExpr l) (toExpr r)
  | .shr l r => .binop .shr (toExpr l) (toExpr r)
  | .and l r => .binop .and (toExpr l) (toExpr r)
  | .or l r => .binop .or (toExpr l) (toExpr r)
  | .xor l r => .binop .xor (toExpr l) (toExpr r)
  | .neg e => .unary .negative (toExpr e)
  | .pos e => .unary .positive (toExpr e)

/-- what `evalExpr` must answer for a tree: the exact rational, dimensionless, or an error;
`unsupported` (the "astronomically large" guard) is the only other permitted answer. -/
def Agrees (r : Outcome Number) (s : Option Rat) : Prop :=
  match r with
  | .unsupported _ => True
  | .ok n => ∃ q, n = ⟨.rational q, []⟩ ∧ s = some q
  | .err _ => s = none
  | .panic _ => False

end Rink.Spec
