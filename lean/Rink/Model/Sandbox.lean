/-!
Message-level model of `sandbox/src/parent.rs::run_task` and `sandbox/src/child.rs`.

One `serve` = one `Sandbox::execute`: the parent task takes the request from the channel,
writes it to the child's stdin, waits (with the time limit) for a frame on the child's stdout,
sends a reply to the caller and, for some outcomes, kills the child and spawns a new one with
fresh pipes.

* A child generation owns its own pipes (`out` = frames written by the child and not yet read
  by the parent); a restart drops them, so a late frame of an abandoned request can only ever
  be read by a parent that is still attached to that generation.
* Writing to a child that has already exited either still succeeds into the pipe buffer or
  fails with EPIPE — a scheduling race the model leaves to a `choice : Bool`.
* `restartOnErrorReply = true` is the code after the `fix:` commit (a child that answered
  with an error frame has exited and is replaced at once); `false` is the code before it.

Not modelled (runtime): real time, async-std scheduling, ctrl-c delivery, pipe capacity.
-/
namespace Rink.Sandbox

inductive Req where
  | normal (id : Nat)
  | panic
  /-- runs past the time limit, then (if still alive) answers with `id` -/
  | overrun (id : Nat)
  /-- allocates beyond the memory limit: the allocator refuses, the child aborts without a reply -/
  | oom
  /-- the child exits without a reply -/
  | exit
  | large (id : Nat)
deriving Repr, DecidableEq

inductive Frame where
  | ok (id : Nat)
  | errPanic
deriving Repr, DecidableEq

inductive Rep where
  | ok (id : Nat)
  | panic
  | timeout
  | crashed
  /-- the parent task has ended: `execute` fails on its channels -/
  | dead
deriving Repr, DecidableEq

structure Child where
  alive : Bool
  /-- frames written to stdout and not yet read by the parent -/
  out : List Frame
  /-- a frame the child will still write after the parent stopped waiting (late reply) -/
  late : Option Frame
deriving Repr, DecidableEq

structure Parent where
  taskAlive : Bool
  gen : Nat
  child : Child
deriving Repr, DecidableEq

def freshChild : Child := { alive := true, out := [], late := none }
def init : Parent := { taskAlive := true, gen := 0, child := freshChild }

/-- what the child does with a request it reads -/
def childHandle (c : Child) : Req → Child
  | .normal id | .large id => { c with out := c.out ++ [.ok id] }
  | .panic => { c with out := c.out ++ [.errPanic], alive := false }   -- reply, then `exit(1)`
  | .overrun id => { c with late := some (.ok id) }
  | .oom | .exit => { c with alive := false }

def restart (p : Parent) : Parent := { p with gen := p.gen + 1, child := freshChild }

/-- one `execute`. `choice` resolves the write-to-dead-child race (consulted only then). -/
def serve (restartOnErrorReply : Bool) (p : Parent) (r : Req) (choice : Bool) : Parent × Rep :=
  if !p.taskAlive then (p, .dead) else
  -- write the request
  let delivered : Option Child :=
    if p.child.alive then some (childHandle p.child r)
    else if choice then some p.child      -- buffered, never read
    else none                             -- EPIPE
  match delivered with
  | none => ({ p with taskAlive := false }, .dead)
  | some c =>
    -- a late frame of an earlier request is in the pipe before anything written now
    let c := match p.child.late with
      | some f => if p.child.alive then { c with out := f :: c.out, late := c.late } else c
      | none => c
    match c.out with
    | .ok id :: rest => ({ p with child := { c with out := rest } }, .ok id)
    | .errPanic :: rest =>
      let p' := { p with child := { c with out := rest } }
      (if restartOnErrorReply then restart p' else p', .panic)
    | [] =>
      if c.alive then (restart { p with child := c }, .timeout)     -- nothing arrives in time
      else (restart { p with child := c }, .crashed)                -- EOF

/-- the outcome that belongs to a request -/
def ownOutcome : Req → Rep
  | .normal id | .large id => .ok id
  | .panic => .panic
  | .overrun _ => .timeout
  | .oom | .exit => .crashed

def run (fix : Bool) (p : Parent) : List (Req × Bool) → Parent × List Rep
  | [] => (p, [])
  | (r, ch) :: rest =>
    let (p', rep) := serve fix p r ch
    let (p'', reps) := run fix p' rest
    (p'', rep :: reps)

/-- at idle: task alive, child alive, nothing unread, nothing pending -/
def Good (p : Parent) : Prop := p.taskAlive = true ∧ p.child = freshChild

end Rink.Sandbox
