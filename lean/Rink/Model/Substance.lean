import Rink.Model.Number
/-!
Model of `core/src/runtime/substance.rs` (`Substance::get`, `Mul`, `Div`) and
`core/src/parsing/formula.rs` (`substance_from_formula`).
-/
namespace Rink

structure Property where
  input : Number
  inputName : String
  output : Number
  outputName : String
deriving Repr, Inhabited, DecidableEq

structure Substance where
  amount : Number
  name : String
  /-- `BTreeMap<String, Property>` in key order -/
  props : List (String × Property)
deriving Repr, Inhabited, DecidableEq

namespace Substance

/-- the loop of the dimensioned branch of `get`: the first property (in key order) whose output
or input name is `name` decides -/
def getLoop (amount : Number) (name : String) : List (String × Property) → Outcome Number
  | [] => .err .generic
  | (_, p) :: rest =>
    if name == p.outputName then
      -- output · (amount / input): the amount may be zero, the sides of a property never are
      match Number.div amount p.input with
      | .ok ratio => if ratio.dimless then .ok (Number.mul p.output ratio) else .err .conformance
      | r => r
    else if name == p.inputName then
      match Number.div amount p.output with
      | .ok ratio => if ratio.dimless then .ok (Number.mul p.input ratio) else .err .conformance
      | r => r
    else getLoop amount name rest

/-- `Substance::get` -/
def get (s : Substance) (name : String) : Outcome Number :=
  if s.amount.dimless then
    match s.props.lookup name with
    | none => .err .generic
    | some p =>
      match Number.div (Number.mul s.amount p.output) p.input with
      | .ok v => .ok v
      | .err _ => .panic "Non-zero property"
      | r => r
  else getLoop s.amount name s.props

def mul (s : Substance) (n : Number) : Substance := { s with amount := Number.mul s.amount n }
def div (s : Substance) (n : Number) : Outcome Substance := do
  let a ← Number.div s.amount n
  pure { s with amount := a }

end Substance

/-! ### chemical formulas -/
namespace Formula

inductive Tok where
  | symbol (s : String)
  | count (n : Nat)
  | error
deriving Repr, DecidableEq

def isUpper (c : Char) : Bool := 'A' ≤ c && c ≤ 'Z'
def isLower (c : Char) : Bool := 'a' ≤ c && c ≤ 'z'
def isDigit (c : Char) : Bool := '0' ≤ c && c ≤ '9'

def takeDigits : List Char → List Char × List Char
  | [] => ([], [])
  | c :: cs => if isDigit c then let (d, r) := takeDigits cs; (c :: d, r) else ([], c :: cs)

/-- the formula tokenizer; `none` where `u32::from_str` fails (count ≥ 2^32): after the fix that
is an error token, not a panic -/
def tokenize : Nat → List Char → List Tok
  | 0, _ => []
  | _, [] => []
  | fuel + 1, c :: cs =>
    if isUpper c then
      match cs with
      | d :: r => if isLower d then .symbol (String.ofList [c, d]) :: tokenize fuel r
                  else .symbol (String.ofList [c]) :: tokenize fuel cs
      | [] => [.symbol (String.ofList [c])]
    else if isDigit c then
      let (ds, r) := takeDigits cs
      let n := (c :: ds).foldl (fun a d => a * 10 + (d.toNat - 48)) 0
      (if n < 4294967296 then .count n else .error) :: tokenize fuel r
    else .error :: tokenize fuel cs

/-- `formula_symbols`: the element symbols of a text that has the shape of a formula (symbols and
counts only) -/
def formulaSymbols (name : String) : Option (List String) :=
  if name.isEmpty then none else
  let ts := tokenize (name.length + 1) name.toList
  if ts.any (fun t => t == .error) then none
  else some (ts.filterMap fun t => match t with | .symbol s => some s | _ => none)

/-- Σ countᵢ · molarMass(symᵢ) over the token list; `none` = not a formula of known symbols -/
def sumLoop (molarMass : String → Option Rat) : List Tok → Rat → Option Rat
  | [], acc => some acc
  | .symbol s :: .count n :: rest, acc =>
    match molarMass s with
    | none => none
    | some m => sumLoop molarMass rest (acc + m * (n : Rat))
  | .symbol s :: rest, acc =>
    match molarMass s with
    | none => none
    | some m => sumLoop molarMass rest (acc + m)
  | _ :: _, _ => none

/-- the dimensionality every element's molar mass must have to be summed (after the fix: a
symbol whose `molar_mass` is in some other unit makes the name "not a formula") -/
def molarMassUnit : Dim := [("kg", 1), ("mol", -1)]

/-- molar mass (kg/mol) of a formula; an empty string is not a formula (after the fix) -/
def molarMass (mm : String → Option Rat) (formula : String) : Option Rat :=
  if formula.isEmpty then none else
  sumLoop mm (tokenize (formula.length + 1) formula.toList) 0

end Formula
end Rink
