import Rink.Model.Parse
import Rink.Model.Digits
/-!
Model of `Display for Expr` (`core/src/ast/expr.rs`) — the text Rink prints for an
expression (definitions, echoed operands, `ExprString` serialisation).
`Precedence` and the per-operator tables mirror `Precedence::from` / `Precedence::next`.
-/
namespace Rink.Print
open Rink

inductive Prec where
  | term | plus | pow | mul | div | add | equals
deriving Repr, DecidableEq, Inhabited

def Prec.rank : Prec → Nat
  | .term => 0 | .plus => 1 | .pow => 2 | .mul => 3 | .div => 4 | .add => 5 | .equals => 6

instance : LT Prec := ⟨fun a b => a.rank < b.rank⟩
instance (a b : Prec) : Decidable (a < b) := by unfold LT.lt instLTPrec; exact inferInstance

/-- `Precedence::from` -/
def precOf : BinOp → Prec
  | .add | .sub => .add
  | .pow => .pow
  | .frac | .shl | .shr | .mod | .and | .or | .xor => .div
  | .equals => .equals

/-- `Precedence::next` -/
def precNext : BinOp → Prec
  | .add | .sub => .div
  | .pow => .term
  | .frac | .shl | .shr | .mod | .and | .or | .xor => .mul
  | .equals => .add

/-- precedence at which the right operand is printed: same level for the right-associative
`^`, the next tighter level for everything else (left-associative and `=`) -/
def precRight (op : BinOp) : Prec :=
  match op with
  | .pow => precOf op
  | _ => precNext op

def symbol : BinOp → String
  | .add => " + " | .sub => " - " | .frac => " / " | .pow => "^" | .equals => " = "
  | .shl => " << " | .shr => " >> " | .mod => " mod " | .and => " and " | .or => " or " | .xor => " xor "

def constText (sizeInBase : Nat → Nat → Nat) : Numeric → String
  | .rational q => String.ofList (Digits.ratToString sizeInBase q 10 .default).2
  | .float => "<float>"

def startsWithSign (s : String) : Bool :=
  match s.toList with
  | c :: _ => c == '-' || c == '+' || c == '−'
  | [] => false

def parenIf (b : Bool) (s : String) : String := if b then "(" ++ s ++ ")" else s

/-- `write_ident`: a name is written as is when the query lexer reads it back as that one
identifier (`plain`), in double quotes with `"` and `\` escaped otherwise -/
def identText (plain : String → Bool) (name : String) : String :=
  if plain name then name
  else "\"" ++ String.ofList (name.toList.flatMap fun c => if c == '"' || c == '\\' then ['\\', c] else [c]) ++ "\""

/-- a quote string with `'`, line break and tab written as the escapes the lexer accepts -/
def quoteText (s : String) : String :=
  "'" ++ String.ofList (s.toList.flatMap fun c =>
    if c == '\'' then ['\\', '\''] else if c == '\n' then ['\\', 'n'] else if c == '\t' then ['\\', 't'] else [c]) ++ "'"

/-- the lexer's verdict used by `write_ident`: the text is exactly one identifier token, itself -/
def plainIdent (cc : Lex.CharClass) (name : String) : Bool :=
  Lex.lex cc name.toList == [.ident name, .eof] && !name.startsWith ">"

/-- a name that is itself an attribute word is written as an attribute followed by the rest of
the name (`international` = `int` + `ernational`), the way the parser builds such a name -/
def attrText (plain : String → Bool) (name : String) : String :=
  let words := ["int", "UKSJJ", "UKB", "UKC", "UKK", "british", "survey", "irish", "aust", "roman", "egyptian", "greek", "olympic"]
  let split := words.findSome? fun w =>
    match attrFromName w with
    | some attr => if name.startsWith attr then some (w, (name.drop attr.length).toString) else none
    | none => none
  match split with
  | some (w, rest) => w ++ " " ++ (if rest.isEmpty then "\"\"" else identText plain rest)
  | none => identText plain name

mutual
/-- `recurse(expr, fmt, prec)` -/
def display (sz : Nat → Nat → Nat) (plain : String → Bool) : Expr → Prec → String
  | .unit name, _ =>
    if name == "of" then "(of)"
    else if (attrFromName name).isSome then attrText plain name
    else identText plain name
  | .quote s, _ => quoteText s
  | .const v, _ => constText sz v
  | .date _, _ => "NYI: date expr Display"
  | .binop op l r, prec =>
    parenIf (prec < precOf op) (display sz plain l (precNext op) ++ symbol op ++ display sz plain r (precRight op))
  | .unary .positive e, _ => "+" ++ display sz plain e .plus
  | .unary .negative e, _ => "-" ++ display sz plain e .plus
  | .unary (.degree d) e, prec => parenIf (prec < .mul) (display sz plain e .mul ++ " " ++ d.display)
  | .mul es, prec => parenIf (prec < .mul) (displayMul sz plain es true)
  | .call f args, _ => f.name ++ "(" ++ displayArgs sz plain args true ++ ")"
  | .ofProp p e, prec => parenIf (prec < .add) (identText plain p ++ " of " ++ display sz plain e .mul)
  | .error msg, _ => "<error: " ++ msg ++ ">"

/-- factors of a product, space separated; a factor that is not the first and whose text
starts with a sign is parenthesised (otherwise `a -b` would read as a subtraction) -/
def displayMul (sz : Nat → Nat → Nat) (plain : String → Bool) : List Expr → Bool → String
  | [], _ => ""
  | e :: es, first =>
    let t := display sz plain e .pow
    let t := if !first && startsWithSign t then "(" ++ t ++ ")" else t
    (if first then t else " " ++ t) ++ displayMul sz plain es false

def displayArgs (sz : Nat → Nat → Nat) (plain : String → Bool) : List Expr → Bool → String
  | [], _ => ""
  | e :: es, first => (if first then "" else ", ") ++ display sz plain e .equals ++ displayArgs sz plain es false
end

/-- `impl Display for Expr` -/
def render (sz : Nat → Nat → Nat) (cc : Lex.CharClass) (e : Expr) : String := display sz (plainIdent cc) e .equals

end Rink.Print
