import Rink.Model.Lex
/-!
Model of the recursive-descent parser in `core/src/parsing/text_query.rs`
(`parse_term … parse_eq`, `parse_function`, `parse_unitlist`, `parse_offset`, `parse_query`).

The token stream is the lexed list; `peek` is its head (`eof` when exhausted, as
`TokenIterator` keeps returning `Eof`).  All functions are structurally recursive on a fuel
argument that is decremented at every call; `parseFuel` gives a fuel that is never exhausted
(16 per token plus slack: every call chain between two consumed tokens is at most 9 deep).
-/
namespace Rink.Parse
open Rink

def peek (ts : List Token) : Token := ts.headD .eof

def adv : List Token → List Token
  | [] => []
  | .eof :: r => .eof :: r
  | _ :: r => r

/-- marker message for literals whose value is astronomically large (not evaluated) -/
def hugeMarker : String := "\x00huge"
def hugeExp : Nat := 100000

def digitVal (c : Char) : Nat :=
  if '0' ≤ c && c ≤ '9' then c.toNat - 48
  else if 'a' ≤ c && c ≤ 'z' then c.toNat - 87
  else c.toNat - 55

def natOfDigits (base : Nat) (s : String) : Nat :=
  s.toList.foldl (fun a d => a * base + digitVal d) 0

/-- `i32::from_str` on the exponent text (optional leading `-`, decimal digits) -/
def parseI32 (s : String) : Option Int :=
  let cs := s.toList
  let (neg, ds) := match cs with | '-' :: r => (true, r) | _ => (false, cs)
  if ds.isEmpty then none
  else
    let v : Int := (natOfDigits 10 (String.ofList ds) : Nat)
    let v := if neg then -v else v
    if -2147483648 ≤ v ∧ v ≤ 2147483647 then some v else none

/-- `Number::from_parts` -/
def fromParts (int : String) (frac exp : Option String) : Outcome Numeric :=
  let num : Rat := (natOfDigits 10 int : Nat)
  let fr : Rat := match frac with
    | some f => ((natOfDigits 10 f : Nat) : Rat) / ((10 ^ f.length : Nat) : Rat)
    | none => 0
  match exp with
  | none => .ok (.rational (num + fr))
  | some e =>
    match parseI32 e with
    | none => .err .generic
    | some e =>
      if e.natAbs > hugeExp then .unsupported "huge literal exponent"
      else
        let p : Rat := ((10 ^ e.natAbs : Nat) : Rat)
        .ok (.rational ((num + fr) * (if e < 0 then 1 / p else p)))

def constOf (o : Outcome Numeric) : Expr :=
  match o with
  | .ok v => .const v
  | .unsupported _ => .error hugeMarker
  | _ => .error "literal"

def parseRadix (s : String) (base : Nat) : Expr := .const (.rational ((natOfDigits base s : Nat) : Rat))

/-- `%` suffix loop of `parse_suffix` -/
def percentLoop (left : Expr) : List Token → Expr × List Token
  | .percent :: r => percentLoop (Expr.newMul [left, .unit "percent"]) r
  | ts => (left, ts)

def juxtStops : Token → Bool
  | .asterisk | .slash | .comma | .equals | .plus | .minus | .dashArrow | .rpar | .newline
  | .dLAngle | .dRAngle | .kwMod | .kwAnd | .kwOr | .kwXor | .comment | .eof => true
  | _ => false

def divOp : Token → Option BinOp
  | .slash => some .frac
  | .dLAngle => some .shl
  | .dRAngle => some .shr
  | .kwMod => some .mod
  | .kwAnd => some .and
  | .kwOr => some .or
  | .kwXor => some .xor
  | _ => none

def outOfFuel : Expr := .error "\x00fuel"

mutual
def parseTerm : Nat → List Token → Expr × List Token
  | 0, ts => (outOfFuel, ts)
  | fuel + 1, ts =>
    let rest := adv ts
    match peek ts with
    | .ident id =>
      match Func.fromName id with
      | some f => parseFunction fuel f rest
      | none =>
        match attrFromName id with
        | some attr =>
          match peek rest with
          | .ident name => (.unit (attr ++ name), adv rest)
          | _ => (.error "Attribute must be followed by ident", rest)
        | none =>
          match peek rest with
          | .ident "of" =>
            let (e, r) := parseJuxt fuel (adv rest)
            (.ofProp id e, r)
          | _ => (.unit id, rest)
    | .quote s => (.quote s, rest)
    | .decimal i f e => (constOf (fromParts i f e), rest)
    | .hex s => (parseRadix s 16, rest)
    | .oct s => (parseRadix s 8, rest)
    | .bin s => (parseRadix s 2, rest)
    | .plus => let (e, r) := parseTerm fuel rest; (.unary .positive e, r)
    | .minus => let (e, r) := parseTerm fuel rest; (.unary .negative e, r)
    | .lpar =>
      let (e, r) := parseEq fuel rest
      match peek r with
      | .rpar => (e, adv r)
      | _ => (.error "Expected `)`", adv r)
    | .percent => (.unit "percent", rest)
    | .date toks => (.date toks, rest)
    | .comment => parseTerm fuel rest
    | _ => (.error "Expected term", rest)

def parseFunction : Nat → Func → List Token → Expr × List Token
  | 0, _, ts => (outOfFuel, ts)
  | fuel + 1, f, ts =>
    match peek ts with
    | .lpar => funcArgs fuel f [] (adv ts)
    | _ => let (e, r) := parsePow fuel ts; (.call f [e], r)

def funcArgs : Nat → Func → List Expr → List Token → Expr × List Token
  | 0, _, _, ts => (outOfFuel, ts)
  | fuel + 1, f, args, ts =>
    match peek ts with
    | .rpar => (.call f args, adv ts)
    | _ =>
      let (e, r) := parseEq fuel ts
      let args := args ++ [e]
      match peek r with
      | .comma => funcArgs fuel f args (adv r)
      | .rpar => funcArgs fuel f args r
      | _ => (.error "Expected `,` or `)`", r)

def parseSuffix : Nat → List Token → Expr × List Token
  | 0, ts => (outOfFuel, ts)
  | fuel + 1, ts =>
    let (left, r) := parseTerm fuel ts
    percentLoop left r

def parsePow : Nat → List Token → Expr × List Token
  | 0, ts => (outOfFuel, ts)
  | fuel + 1, ts =>
    let (left, r) := parseSuffix fuel ts
    match peek r with
    | .caret => let (right, r') := parsePow fuel (adv r); (.binop .pow left right, r')
    | _ => (left, r)

def parseFrac : Nat → List Token → Expr × List Token
  | 0, ts => (outOfFuel, ts)
  | fuel + 1, ts =>
    let (left, r) := parsePow fuel ts
    match peek r with
    | .pipe => let (right, r') := parsePow fuel (adv r); (.binop .frac left right, r')
    | _ => (left, r)

def parseJuxt : Nat → List Token → Expr × List Token
  | 0, ts => (outOfFuel, ts)
  | fuel + 1, ts =>
    let (e, r) := parseFrac fuel ts
    juxtLoop fuel [e] r

def juxtLoop : Nat → List Expr → List Token → Expr × List Token
  | 0, _, ts => (outOfFuel, ts)
  | fuel + 1, terms, ts =>
    let t := peek ts
    if juxtStops t then (Expr.newMul terms, ts)
    else match t with
      | .degree d => juxtLoop fuel [.unary (.degree d) (Expr.newMul terms)] (adv ts)
      | _ => let (e, r) := parseFrac fuel ts; juxtLoop fuel (terms ++ [e]) r

def parseDiv : Nat → List Token → Expr × List Token
  | 0, ts => (outOfFuel, ts)
  | fuel + 1, ts =>
    let (e, r) := parseJuxt fuel ts
    divLoop fuel [e] r

def divLoop : Nat → List Expr → List Token → Expr × List Token
  | 0, _, ts => (outOfFuel, ts)
  | fuel + 1, terms, ts =>
    match peek ts with
    | .asterisk => let (e, r) := parseJuxt fuel (adv ts); divLoop fuel (terms ++ [e]) r
    | t =>
      match divOp t with
      | some op =>
        let left := Expr.newMul terms
        let (e, r) := parseJuxt fuel (adv ts)
        divLoop fuel [.binop op left e] r
      | none => (Expr.newMul terms, ts)

def parseAdd : Nat → List Token → Expr × List Token
  | 0, ts => (outOfFuel, ts)
  | fuel + 1, ts =>
    let (e, r) := parseDiv fuel ts
    addLoop fuel e r

def addLoop : Nat → Expr → List Token → Expr × List Token
  | 0, _, ts => (outOfFuel, ts)
  | fuel + 1, left, ts =>
    match peek ts with
    | .plus => let (e, r) := parseDiv fuel (adv ts); addLoop fuel (.binop .add left e) r
    | .minus => let (e, r) := parseDiv fuel (adv ts); addLoop fuel (.binop .sub left e) r
    | _ => (left, ts)

def parseEq : Nat → List Token → Expr × List Token
  | 0, ts => (outOfFuel, ts)
  | fuel + 1, ts =>
    let (left, r) := parseAdd fuel ts
    match peek r with
    | .equals => let (right, r') := parseAdd fuel (adv r); (.binop .equals left right, r')
    | _ => (left, r)
end

def parseFuel (ts : List Token) : Nat := 16 * ts.length + 64

/-- `parse_unitlist` on a copy of the iterator -/
def parseUnitlist : List Token → Bool → List String → Option (List String × List Token)
  | [], _, _ => none
  | t :: r, expecting, acc =>
    match t, expecting with
    | .ident s, true => parseUnitlist r false (acc ++ [s])
    | .comma, false => parseUnitlist r true acc
    | .semicolon, false => parseUnitlist r true acc
    | .eof, false => if acc.length > 1 then some (acc, .eof :: r) else none
    | .newline, false => if acc.length > 1 then some (acc, r) else none
    | .comment, false => if acc.length > 1 then some (acc, r) else none
    | _, _ => none

/-- `parse_offset`: `+HH:MM` / `-HH:MM` -/
def parseOffset (ts : List Token) : Option Int :=
  match ts with
  | s :: .decimal h none none :: .colon :: .decimal m none none :: _ =>
    let sign : Option Int := match s with | .plus => some 1 | .minus => some (-1) | _ => none
    match sign with
    | some sg =>
      if h.length = 2 ∧ m.length = 2 then
        some (sg * ((natOfDigits 10 h : Nat) * 3600 + (natOfDigits 10 m : Nat) * 60 : Nat))
      else none
    | none => none
  | _ => none

def digitsKw : String → Option Digits
  | "frac" | "fraction" | "ratio" => some .fraction
  | "sci" | "scientific" => some .scientific
  | "eng" | "engineering" => some .engineering
  | _ => none

def baseKw : String → Option Nat
  | "hex" | "hexadecimal" | "base16" => some 16
  | "oct" | "octal" | "base8" => some 8
  | "bin" | "binary" | "base2" => some 2
  | _ => none

/-- `u64::from_str_radix(int, 10)`: `none` on overflow -/
def parseU64 (s : String) : Option Nat :=
  let v := natOfDigits 10 s
  if v < 18446744073709551616 then some v else none

/-- `nesting_depth`: open parentheses plus the current run of prefix operators, maximised over
the token stream up to the first `eof` -/
def nestingDepth : List Token → Nat → Nat → Nat → Nat
  | [], _, _, mx => mx
  | .eof :: _, _, _, mx => mx
  | .lpar :: r, depth, _, mx => nestingDepth r (depth + 1) 0 (max mx (depth + 1))
  | .rpar :: r, depth, _, mx => nestingDepth r (depth - 1) 0 (max mx (depth - 1))
  | .plus :: r, depth, run, mx => nestingDepth r depth (run + 1) (max mx (depth + run + 1))
  | .minus :: r, depth, run, mx => nestingDepth r depth (run + 1) (max mx (depth + run + 1))
  | _ :: r, depth, _, mx => nestingDepth r depth 0 (max mx depth)

def maxNesting : Nat := 128

/-- `parse_query`; `isTz` decides `is_valid_timezone` (chrono-tz's table is not modelled) -/
def parseQuery (isTz : String → Bool) (ts : List Token) : Query :=
  if nestingDepth ts 0 0 0 > maxNesting then .error "Expression is nested too deeply" else
  let fuel := parseFuel ts
  let special : Option Query :=
    match ts with
    | .ident "factorize" :: r => some (.factorize (parseEq fuel r).1)
    | .ident "units" :: r =>
      let r := match r with
        | .ident "for" :: r' => r'
        | .ident "of" :: r' => r'
        | _ => r
      some (.unitsFor (parseEq fuel r).1)
    | .ident "search" :: .ident s :: _ => some (.search s)
    | _ => none
  match special with
  | some q => q
  | none =>
    -- note: `search` not followed by an ident falls through with `search` consumed
    let ts := match ts with
      | .ident "search" :: r => r
      | _ => ts
    let (left, r) := parseEq fuel ts
    match peek r with
    | .dashArrow =>
      let r := adv r
      match parseUnitlist r true [] with
      | some (l, _) => .convert left (.list l) none .default
      | none =>
        -- digits
        let dres : Except String (Digits × List Token) :=
          match r with
          | .ident "digits" :: r1 =>
            match r1 with
            | .decimal i none none :: r2 =>
              match parseU64 i with
              | some v => .ok (.digits v, r2)
              | none => .error "Failed to parse digits"
            | _ => .ok (.fullInt, r1)
          | .ident s :: r1 =>
            match digitsKw s with
            | some d => .ok (d, r1)
            | none => .ok (.default, r)
          | _ => .ok (.default, r)
        match dres with
        | .error e => .error e
        | .ok (digits, r) =>
          let bres : Except String (Option Nat × List Token) :=
            match r with
            | .ident "base" :: r1 =>
              match r1 with
              | .decimal i none none :: r2 =>
                match parseU64 i with
                | some v => if 2 ≤ v ∧ v ≤ 36 then .ok (some v, r2) else .error "Unsupported base"
                | none => .error "Failed to parse base"
              | _ => .error "Expected decimal base"
            | .ident s :: r1 =>
              match baseKw s with
              | some b => .ok (some b, r1)
              | none => .ok (none, r)
            | _ => .ok (none, r)
          match bres with
          | .error e => .error e
          | .ok (base, r) =>
            let right : Conversion :=
              match peek r with
              | .eof => .none
              | .degree d =>
                -- a temperature scale is a conversion target only on its own (comments aside)
                if peek ((adv r).dropWhile fun t => t == .comment) == .eof then .degree d else .expr (parseEq fuel r).1
              | .plus | .minus =>
                match parseOffset r with
                | some off => .offset off
                | none => .expr (parseEq fuel r).1
              | .ident s => if isTz s then .timezone s else .expr (parseEq fuel r).1
              | _ => .expr (parseEq fuel r).1
            .convert left right base digits
    | _ => .expr left

end Rink.Parse
