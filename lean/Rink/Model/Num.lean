import Rink.Model.Outcome
/-!
Model of `core/src/types/{bigint,bigrat,numeric}.rs` arithmetic.

`Numeric.rational q` is exact (`q : Rat`, Lean core's normalised rationals, which is what
`num_rational::Ratio<BigInt>` maintains).  `Numeric.float` has no payload: the model never
looks inside a machine float.  Every operation that would have to (mixed float arithmetic
whose value decides a later branch) answers `unsupported`.
-/
namespace Rink

inductive Numeric where
  | rational (q : Rat)
  | float
deriving Repr, Inhabited, DecidableEq

namespace Numeric

def one : Numeric := .rational 1
def zero : Numeric := .rational 0
def ofInt (i : Int) : Numeric := .rational i

/-- `num_binop!`: both rational → exact; otherwise float. -/
def add : Numeric → Numeric → Numeric
  | .rational a, .rational b => .rational (a + b)
  | _, _ => .float
def sub : Numeric → Numeric → Numeric
  | .rational a, .rational b => .rational (a - b)
  | _, _ => .float
def mul : Numeric → Numeric → Numeric
  | .rational a, .rational b => .rational (a * b)
  | _, _ => .float
def neg : Numeric → Numeric
  | .rational a => .rational (-a)
  | .float => .float
def abs : Numeric → Numeric
  | .rational a => .rational a.abs
  | .float => .float

/-- `&a / &b`: `num_rational` panics on a zero divisor. -/
def div : Numeric → Numeric → Outcome Numeric
  | .rational a, .rational b => if b = 0 then .panic "Ratio div: denominator == 0" else .ok (.rational (a / b))
  | _, _ => .ok .float

/-- Truncated remainder of rationals (`num_rational` `Rem`): `a - b * trunc(a / b)`. -/
def ratRem (a b : Rat) : Rat :=
  let q := a / b
  a - b * ((Int.tdiv q.num q.den : Int) : Rat)

/-- `&a % &b` -/
def rem : Numeric → Numeric → Outcome Numeric
  | .rational a, .rational b => if b = 0 then .panic "BigInt rem by zero" else .ok (.rational (ratRem a b))
  | _, _ => .ok .float

/-- `Numeric::pow(i32)` for `exp ≥ 0` -/
def powNat : Numeric → Nat → Numeric
  | .rational a, n => .rational (a ^ n)
  | .float, _ => .float

/-- `Numeric::pow(exp: i32)`; negative exponents divide one by the positive power. -/
def pow (x : Numeric) (exp : Int) : Outcome Numeric :=
  if exp < 0 then div one (powNat x exp.natAbs) else .ok (powNat x exp.natAbs)

/-- `div_rem`: quotient truncated toward zero (BigInt `/`), and the remainder. -/
def divRem : Numeric → Numeric → Outcome (Numeric × Numeric)
  | .rational a, .rational b =>
    if b = 0 then .panic "div_rem: denominator == 0"
    else
      let q := a / b
      let fl : Int := Int.tdiv q.num q.den
      .ok (.rational fl, .rational (a - b * (fl : Rat)))
  | _, _ => .ok (.float, .float)

def isZero : Numeric → Bool
  | .rational a => a == 0
  | .float => false   -- `Float(0.0)` is decided by the caller as `unsupported`

def asInt? : Numeric → Option Int
  | .rational a => if a.den = 1 then some a.num else none
  | .float => none

def lt : Numeric → Numeric → Option Bool
  | .rational a, .rational b => some (decide (a < b))
  | _, _ => none

end Numeric

/-! Bit operations on `Int` with two's-complement semantics (what `num_bigint` implements). -/
namespace IntBits

def ldiff (m n : Nat) : Nat := m ^^^ (m &&& n)

def land : Int → Int → Int
  | .ofNat m, .ofNat n => (m &&& n : Nat)
  | .ofNat m, .negSucc n => (ldiff m n : Nat)
  | .negSucc m, .ofNat n => (ldiff n m : Nat)
  | .negSucc m, .negSucc n => .negSucc (m ||| n)

def lor : Int → Int → Int
  | .ofNat m, .ofNat n => (m ||| n : Nat)
  | .ofNat m, .negSucc n => .negSucc (ldiff n m)
  | .negSucc m, .ofNat n => .negSucc (ldiff m n)
  | .negSucc m, .negSucc n => .negSucc (m &&& n)

def lxor : Int → Int → Int
  | .ofNat m, .ofNat n => (m ^^^ n : Nat)
  | .ofNat m, .negSucc n => .negSucc (m ^^^ n)
  | .negSucc m, .ofNat n => .negSucc (m ^^^ n)
  | .negSucc m, .negSucc n => (m ^^^ n : Nat)

end IntBits
end Rink
