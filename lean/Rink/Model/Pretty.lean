import Rink.Model.Eval
import Rink.Model.Digits
/-!
Model of the display path: `algorithms/fast_decompose.rs`, `Number::{pretty_unit, prettify,
to_parts_digits, unit_to_string}`, `Context::show`.
-/
namespace Rink.Pretty
open Rink

structure Parts where
  rawValue : Option Number := none
  exact : Option String := none
  approx : Option String := none
  factor : Option String := none
  divfactor : Option String := none
  rawUnit : Option Dim := none
  unit : Option String := none
  quantity : Option String := none
  dimensions : Option String := none
  rawDimensions : Option Dim := none
deriving Repr

def sgn (i : Int) : Int := if i > 0 then 1 else if i < 0 then -1 else 0

/-- `Number::unit_to_string` -/
def unitToString (u : Dim) : String :=
  let num := u.filter (fun (_, p) => p ≥ 0)
  let frac := u.filter (fun (_, p) => p < 0)
  let show1 := fun (x : String × Int) (p : Int) => if p != 1 then s!"{x.1}^{p}" else x.1
  let a := " ".intercalate (num.map fun x => show1 x x.2)
  let b := (frac.map fun x => " " ++ show1 x (-x.2))
  if frac.isEmpty then a
  else
    -- the Rust builds " a b / c d" and drops the first character
    let full := (if num.isEmpty then "" else " " ++ a) ++ " /" ++ String.join b
    (full.drop 1).toString

/-- dimensionality of `value / unit^i` (value one) -/
def divPow (v : Dim) (u : Dim) (i : Int) : Dim := Dim.mul v ((Dim.pow u i).map fun (k, p) => (k, -p))

def score (d : Dim) : Int := d.foldl (fun a (_, p) => a + 1 + (p.natAbs : Int)) 0

/-- the sign test that keeps `fast_decompose` from introducing new base units -/
def okUnit (vunit unit : Dim) : Bool :=
  unit.all fun (dim, pow) =>
    let vpow := Dim.get vunit dim
    let snum := sgn (vpow - pow)
    !(snum != 0 && snum != sgn vpow)

abbrev Best := Option (String × Dim × Int × Int)

/-- try power `i` of one derived unit against the best candidate so far -/
def candStep (vunit unit : Dim) (name : String) (best : Best) (i : Int) : Best :=
  let sc := score (divPow vunit unit i)
  match best with
  | some (_, _, _, cur) => if sc < cur then some (name, unit, i, sc) else best
  | none => some (name, unit, i, sc)

def entryStep (vunit : Dim) (best : Best) (entry : Dim × String) : Best :=
  if !okUnit vunit entry.1 then best
  else candStep vunit entry.1 entry.2 (candStep vunit entry.1 entry.2 (candStep vunit entry.1 entry.2 best (-1)) 1) 2

/-- `fast_decompose` -/
def fastDecompose (vunit : Dim) (derived : List (Dim × String)) : Dim :=
  match derived.foldl (entryStep vunit) none with
  | some (name, unit, pow, sc) =>
    if sc < score vunit then Dim.insert (divPow vunit unit pow) name pow else vunit
  | none => vunit

/-- `pretty_unit`: decompose, then replace base-unit ids by their long names -/
def prettyUnit (reg : Registry) (vunit : Dim) : Dim :=
  Dim.fromList ((fastDecompose vunit reg.decomposition).map fun (k, p) => ((reg.longName k).getD k, p))

def siPrefixes : List String :=
  ["milli", "micro", "nano", "pico", "femto", "atto", "zepto", "yocto", "kilo", "mega", "giga", "tera", "peta", "exa", "zetta", "yotta"]

def prefixSearch (val : Rat) (name : String) (k : Int) : List (String × Numeric) → Option (Rat × String)
  | [] => none
  | (p, v) :: rest =>
    if !siPrefixes.contains p then prefixSearch val name k rest else
    match v with
    | .float => prefixSearch val name k rest
    | .rational pv =>
      let lo : Rat := if k < 0 then 1 / pv ^ k.natAbs else pv ^ k.natAbs
      let hiBase := pv * 1000
      let hi : Rat := if k < 0 then 1 / hiBase ^ k.natAbs else hiBase ^ k.natAbs
      if val.abs ≥ lo && val.abs < hi then
        some (val / lo, if name == "gram" && p == "mega" then "tonne" else p ++ name)
      else prefixSearch val name k rest

/-- `prettify` for an exact value: `(value, unit)`; `none` = float value (outside the model) -/
def prettify (reg : Registry) (n : Number) : Option Number :=
  let unit := prettyUnit reg n.unit
  -- (after the fix) an SI prefix is chosen only for exponents between -64 and 64
  let single := (Dim.asSingle unit).filter fun nk => decide (-64 ≤ nk.2) && decide (nk.2 ≤ 64)
  match single, n.value with
  | some (name, k), .rational q =>
    let (val, name', k') :=
      if name == "kg" || name == "kilogram" then (q * (if k < 0 then 1 / (1000 : Rat) ^ k.natAbs else (1000 : Rat) ^ k.natAbs), "gram", k)
      else if name == "bit" && k == 1 then (q / 8, "byte", 1)
      else (q, name, k)
    match prefixSearch val name' k' reg.prefixes with
    | some (v, uname) => some ⟨.rational v, Dim.newDim uname k'⟩
    | none => some ⟨.rational val, Dim.newDim name' k'⟩
  | some _, .float => none
  | none, _ => some ⟨n.value, unit⟩

def numericValue (sizeInBase : Nat → Nat → Nat) (v : Numeric) (base : Nat) (digits : Digits) :
    Option (Option String × Option String) :=
  match v with
  | .rational q =>
    let (e, a) := Digits.stringRepr sizeInBase q base digits
    some (e.map String.ofList, a.map String.ofList)
  | .float => none

def quantityOf (reg : Registry) (unit : Dim) : Option String :=
  match reg.quantity unit with
  | some q => some q
  | none => match Dim.asSingle unit with
    | some (u, p) => if p == 1 then some u else some s!"{u}^{p}"
    | none => none

/-- the number whose numeral and unit are displayed -/
def displayNumber (reg : Registry) (n : Number) (digits : Digits) : Option Number :=
  if digits == .default then prettify reg n else some ⟨n.value, prettyUnit reg n.unit⟩

/-- `to_parts_digits` -/
def toPartsDigits (sizeInBase : Nat → Nat → Nat) (reg : Registry) (n : Number) (base : Nat) (digits : Digits) : Option Parts :=
  (displayNumber reg n digits).bind fun value =>
  (numericValue sizeInBase value.value base digits).bind fun ea =>
    some { rawValue := some n, exact := ea.1, approx := ea.2,
           unit := if value.unit != n.unit then some (unitToString value.unit) else none,
           rawUnit := if value.unit != n.unit then some value.unit else none,
           quantity := quantityOf reg n.unit, dimensions := some (unitToString n.unit), rawDimensions := some n.unit }

def toParts (sizeInBase : Nat → Nat → Nat) (reg : Registry) (n : Number) : Option Parts :=
  toPartsDigits sizeInBase reg n 10 .default

/-- `Context::show` -/
def showConv (sizeInBase : Nat → Nat → Nat) (reg : Registry) (raw bottom : Number) (names : List (String × Int))
    (const : Numeric) (base : Nat) (digits : Digits) : Option Parts :=
  match numericValue sizeInBase raw.value base digits, toParts sizeInBase reg bottom, const with
  | some (e, a), some bp, .rational c =>
    some { bp with rawValue := some raw, exact := e, approx := a,
                   factor := if c.num != 1 then some (toString c.num) else none,
                   divfactor := if c.den != 1 then some (toString c.den) else none,
                   unit := some (unitToString names), rawUnit := some names }
  | _, _, _ => none

end Rink.Pretty
