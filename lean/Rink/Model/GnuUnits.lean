import Rink.Model.Parse
/-!
Model of `core/src/loader/gnu_units.rs`: the tokenizer and parser of definition files.
-/
namespace Rink.Gnu
open Rink

inductive Tok where
  | eof | newline
  | doc (s : String)
  | ident (s : String)
  | number (int : String) (frac exp : Option String)
  | lpar | rpar | bang | slash | pipe | caret | plus | dash | asterisk | question | lbrace | rbrace
  | error (msg : String)
deriving Repr, DecidableEq, Inhabited

def isIdent (c : Char) : Bool :=
  !(c == ' ' || c == '\t' || c == '\n' || c == '\r' || c == '(' || c == ')' || c == '/' || c == '|' ||
    c == '^' || c == '+' || c == '*' || c == '\\' || c == '#')

def isDec (c : Char) : Bool := '0' ≤ c && c ≤ '9'

def span (p : Char → Bool) : List Char → List Char × List Char
  | [] => ([], [])
  | c :: cs => if p c then let (d, r) := span p cs; (c :: d, r) else ([], c :: cs)

def str (cs : List Char) : String := String.ofList cs

/-- consume through the end of the line -/
def toEol : List Char → List Char × List Char
  | [] => ([], [])
  | c :: cs => if c == '\n' then ([], cs) else let (d, r) := toEol cs; (c :: d, r)

def dquote : List Char → List Char → List Char × List Char
  | acc, [] => (acc, [])
  | acc, c :: cs =>
    if c == '\\' then
      match cs with
      | d :: r => dquote (acc ++ [d]) r
      | [] => (acc, [])
    else if c == '"' then (acc, cs)
    else dquote (acc ++ [c]) cs
termination_by _ cs => cs.length

/-- the optional sign of an exponent -/
def expSign : List Char → List Char × List Char
  | '-' :: r => (['-'], r)
  | '+' :: r => ([], r)
  | r => ([], r)

def lexNumber (x : Char) (cs : List Char) : Tok × List Char :=
  let (int, r1) := if x != '.' then (let (d, r) := span isDec cs; (x :: d, r)) else (['0'], cs)
  let hasDot := x == '.' || r1.head? == some '.'
  let r2 := if x != '.' && hasDot then r1.tail else r1
  let (fd, r3) := if hasDot then span isDec r2 else ([], r2)
  let frac := if hasDot && !fd.isEmpty then some (str fd) else none
  match r3 with
  | e :: r4 =>
    if e == 'e' || e == 'E' then
      let (sign, r5) := expSign r4
      let (ed, r6) := span isDec r5
      let buf := sign ++ ed
      (.number (str int) frac (if buf.isEmpty then none else some (str buf)), r6)
    else (.number (str int) frac none, r3)
  | [] => (.number (str int) frac none, r3)

/-- one call of `TokenIterator::next` (fuel covers the whitespace / continuation recursion) -/
def next : Nat → List Char → Tok × List Char
  | 0, cs => (.eof, cs)
  | _, [] => (.eof, [])
  | fuel + 1, c :: cs =>
    if c == ' ' || c == '\t' then next fuel cs
    else if c == '\r' then (match cs with | '\n' :: r => (.newline, r) | _ => (.newline, cs))
    else if c == '\n' then (.newline, cs)
    else if c == '!' then (.bang, cs)
    else if c == '(' then (.lpar, cs)
    else if c == ')' then (.rpar, cs)
    else if c == '/' then (.slash, cs)
    else if c == '|' then (.pipe, cs)
    else if c == '^' then (.caret, cs)
    else if c == '-' then (.dash, cs)
    else if c == '+' then (.plus, cs)
    else if c == '*' then (.asterisk, cs)
    else if c == '{' then (.lbrace, cs)
    else if c == '}' then (.rbrace, cs)
    else if c == '?' then
      (match cs with
       | '?' :: r => let (d, r') := toEol r; (.doc (str d), r')
       | _ => (.question, cs))
    else if c == '\\' then
      (match cs with
       | '\r' :: '\n' :: r => next fuel r
       | '\r' :: _ :: r => (.error "Expected LF or CRLF line endings", r)
       | ['\r'] => (.error "Expected LF or CRLF line endings", [])
       | '\n' :: r => next fuel r
       | _ :: r => (.error "Invalid escape", r)
       | [] => (.error "Unexpected EOF", []))
    else if c == '#' then let (_, r) := toEol cs; (.newline, r)
    else if isDec c || c == '.' then lexNumber c cs
    else if c == '"' then let (b, r) := dquote [] cs; (.ident (str b), r)
    else if isIdent c then let (b, r) := span isIdent cs; (.ident (str (c :: b)), r)
    else (.error "Unknown character", cs)

def lexAll : Nat → List Char → List Tok
  | 0, _ => [.eof]
  | _, [] => [.eof]
  | fuel + 1, cs =>
    let (t, r) := next (fuel + 1) cs     -- the remaining input is never longer than the fuel
    match t with
    | .eof => [.eof]
    | _ => t :: lexAll fuel r

def lex (cs : List Char) : List Tok := lexAll (cs.length + 1) cs

/-! ### parser -/

def peek (ts : List Tok) : Tok := ts.headD .eof
def adv : List Tok → List Tok
  | [] => []
  | .eof :: r => .eof :: r
  | _ :: r => r

def outOfFuel : Expr := .error "\x00fuel"

def mulStops : Tok → Bool
  | .slash | .plus | .dash | .rpar | .newline | .eof => true
  | _ => false

mutual
def pTerm : Nat → List Tok → Expr × List Tok
  | 0, ts => (outOfFuel, ts)
  | fuel + 1, ts =>
    let rest := adv ts
    match peek ts with
    | .ident name =>
      (match peek rest with
       | .ident "of" => let (e, r) := pMul fuel (adv rest); (.ofProp name e, r)
       | _ => (.unit name, rest))
    | .number i f e => (Parse.constOf (Parse.fromParts i f e), rest)
    | .plus => let (e, r) := pTerm fuel rest; (.unary .positive e, r)
    | .dash => let (e, r) := pTerm fuel rest; (.unary .negative e, r)
    | .slash => let (e, r) := pTerm fuel rest; (.binop .frac (.const .one) e, r)
    | .lpar =>
      let (e, r) := pAdd fuel rest
      (match peek r with
       | .rpar => (e, adv r)
       | _ => (.error "Expected )", adv r))
    | _ => (.error "Expected term", rest)

def pPow : Nat → List Tok → Expr × List Tok
  | 0, ts => (outOfFuel, ts)
  | fuel + 1, ts =>
    let (left, r) := pTerm fuel ts
    match peek r with
    | .caret => let (right, r') := pPow fuel (adv r); (.binop .pow left right, r')
    | .pipe => let (right, r') := pPow fuel (adv r); (.binop .frac left right, r')
    | _ => (left, r)

def pMul : Nat → List Tok → Expr × List Tok
  | 0, ts => (outOfFuel, ts)
  | fuel + 1, ts =>
    let (e, r) := pPow fuel ts
    pMulLoop fuel [e] r

def pMulLoop : Nat → List Expr → List Tok → Expr × List Tok
  | 0, _, ts => (outOfFuel, ts)
  | fuel + 1, terms, ts =>
    let t := peek ts
    if mulStops t then (Expr.newMul terms, ts)
    else match t with
      | .asterisk => pMulLoop fuel terms (adv ts)
      | _ => let (e, r) := pPow fuel ts; pMulLoop fuel (terms ++ [e]) r

def pDiv : Nat → List Tok → Expr × List Tok
  | 0, ts => (outOfFuel, ts)
  | fuel + 1, ts =>
    let (e, r) := pMul fuel ts
    pDivLoop fuel e r

def pDivLoop : Nat → Expr → List Tok → Expr × List Tok
  | 0, _, ts => (outOfFuel, ts)
  | fuel + 1, left, ts =>
    match peek ts with
    | .slash => let (e, r) := pMul fuel (adv ts); pDivLoop fuel (.binop .frac left e) r
    | _ => (left, ts)

def pAdd : Nat → List Tok → Expr × List Tok
  | 0, ts => (outOfFuel, ts)
  | fuel + 1, ts =>
    let (left, r) := pDiv fuel ts
    match peek r with
    | .plus => let (right, r') := pAdd fuel (adv r); (.binop .add left right, r')
    | .dash => let (right, r') := pAdd fuel (adv r); (.binop .sub left right, r')
    | _ => (left, r)
end

/-! ### definitions -/

structure PropDef where
  name : String
  input : Expr
  inputName : String
  output : Expr
  outputName : String
  doc : Option String
deriving Repr, Inhabited

inductive Def where
  | baseUnit (longName : Option String)
  | prefix_ (expr : Expr) (isLong : Bool)
  | unit (expr : Expr)
  | quantity (expr : Expr)
  | substance (symbol : Option String) (props : List PropDef)
  | category (displayName : String)
  | error (msg : String)
deriving Repr, Inhabited

structure DefEntry where
  name : String
  defn : Def
  doc : Option String
  category : Option String
deriving Repr, Inhabited

def skipLine : List Tok → List Tok
  | [] => []
  | .newline :: r => .newline :: r
  | .eof :: r => .eof :: r
  | _ :: r => skipLine r

/-- `MAX_NESTING` of the definitions parser -/
def maxNesting : Nat := 128

/-- `nesting_depth`: parentheses and operators in the rest of the line (each adds a level to the
tree the recursive parser builds) -/
def nestingDepth : List Tok → Nat
  | [] => 0
  | .newline :: _ => 0
  | .eof :: _ => 0
  | t :: r =>
    (match t with
     | .lpar | .plus | .dash | .slash | .caret | .pipe => 1
     | .ident "of" => 1
     | _ => 0) + nestingDepth r

/-- `parse_bounded`: an expression nested too deeply is skipped (to the end of its line) and
becomes an error node -/
def bounded (p : Nat → List Tok → Expr × List Tok) (fuel : Nat) (ts : List Tok) : Expr × List Tok :=
  if nestingDepth ts > maxNesting then (.error "Expression is nested too deeply", skipLine ts) else p fuel ts

def joinDoc (old : Option String) (line : String) : Option String :=
  match old with
  | none => some line.trimAscii.toString
  | some o => some (o.trimAscii.toString ++ " " ++ line.trimAscii.toString)

/-- the property block of a substance, entered after `{`; returns (props, rest) -/
def propsLoop (exprFuel : Nat) : Nat → List PropDef → Option String → List Tok → List PropDef × List Tok
  | 0, acc, _, ts => (acc, ts)
  | fuel + 1, acc, pdoc, ts =>
    let rest := adv ts
    match peek ts with
    | .newline => propsLoop exprFuel fuel acc pdoc rest
    | .eof => (acc, rest)
    | .doc line => propsLoop exprFuel fuel acc (joinDoc pdoc line) rest
    | .rbrace => (acc, rest)
    | .ident name =>
      (match peek rest with
       | .ident "const" =>
         (match peek (adv rest) with
          | .ident inputName =>
            let (output, r) := bounded pDiv exprFuel (adv (adv rest))
            propsLoop exprFuel fuel (acc ++ [{ name := name, input := .const .one, inputName := inputName,
                                               output := output, outputName := name, doc := pdoc }]) none r
          | _ => (acc, adv (adv rest)))
       | .ident outputName =>
         let (output, r) := bounded pMul exprFuel (adv rest)
         (match peek r with
          | .slash =>
            (match peek (adv r) with
             | .ident inputName =>
               let (input, r2) := bounded pMul exprFuel (adv (adv r))
               propsLoop exprFuel fuel (acc ++ [{ name := name, input := input, inputName := inputName,
                                                  output := output, outputName := outputName, doc := pdoc }]) none r2
             | _ => (acc, adv (adv r)))
          | _ => (acc, adv r))
       | _ => (acc, adv rest))
    | _ => (acc, rest)

structure PState where
  defs : List DefEntry := []
  doc : Option String := none
  category : Option String := none
  symbols : List (String × String) := []

def symInsert (l : List (String × String)) (k v : String) : List (String × String) :=
  (k, v) :: l.filter (fun x => x.1 != k)

/-- the main loop of `parse` -/
def parseLoop (exprFuel : Nat) : Nat → PState → List Tok → PState
  | 0, st, _ => st
  | fuel + 1, st, ts =>
    let rest := adv ts
    match peek ts with
    | .newline => parseLoop exprFuel fuel st rest
    | .eof => st
    | .bang =>
      (match peek rest with
       | .ident "category" =>
         (match peek (adv rest), peek (adv (adv rest)) with
          | .ident short, .ident display =>
            parseLoop exprFuel fuel { st with defs := st.defs ++ [{ name := short, defn := .category display, doc := none, category := none }],
                                              category := some short } (adv (adv (adv rest)))
          | _, _ => parseLoop exprFuel fuel st (adv (adv (adv rest))))
       | .ident "endcategory" => parseLoop exprFuel fuel { st with category := none } (adv rest)
       | .ident "symbol" =>
         (match peek (adv rest), peek (adv (adv rest)) with
          | .ident subst, .ident sym => parseLoop exprFuel fuel { st with symbols := symInsert st.symbols subst sym } (adv (adv (adv rest)))
          | _, _ => parseLoop exprFuel fuel st (adv (adv (adv rest))))
       | .ident _ => parseLoop exprFuel fuel st (skipLine (adv rest))
       | _ => parseLoop exprFuel fuel st (skipLine (adv rest)))
    | .doc line => parseLoop exprFuel fuel { st with doc := joinDoc st.doc line } rest
    | .ident name =>
      if name.endsWith "-" then
        let (expr, r) := bounded pAdd exprFuel rest
        let n1 := (name.dropEnd 1).toString
        let (n, isLong) := if n1.endsWith "-" then ((n1.dropEnd 1).toString, false) else (n1, true)
        parseLoop exprFuel fuel { st with defs := st.defs ++ [{ name := n, defn := .prefix_ expr isLong, doc := st.doc, category := st.category }], doc := none } r
      else
        (match peek rest with
         | .bang =>
           let r := adv rest
           let (long, r) := match peek r with
             | .ident l => (some l, adv r)
             | _ => (none, r)
           parseLoop exprFuel fuel { st with defs := st.defs ++ [{ name := name, defn := .baseUnit long, doc := st.doc, category := st.category }], doc := none } r
         | .question =>
           let (expr, r) := bounded pAdd exprFuel (adv rest)
           parseLoop exprFuel fuel { st with defs := st.defs ++ [{ name := name, defn := .quantity expr, doc := st.doc, category := st.category }], doc := none } r
         | .lbrace =>
           let (props, r) := propsLoop exprFuel fuel [] none (adv rest)
           parseLoop exprFuel fuel { st with defs := st.defs ++ [{ name := name, defn := .substance none props, doc := st.doc, category := st.category }], doc := none } r
         | _ =>
           let (expr, r) := bounded pAdd exprFuel rest
           parseLoop exprFuel fuel { st with defs := st.defs ++ [{ name := name, defn := .unit expr, doc := st.doc, category := st.category }], doc := none } r)
    | _ => parseLoop exprFuel fuel st rest

/-- `parse_str` -/
def parseStr (text : String) : List DefEntry :=
  let ts := lex text.toList
  let fuel := 4 * ts.length + 64
  let st := parseLoop fuel fuel {} ts
  st.defs.map fun d =>
    match d.defn with
    | .substance _ props => { d with defn := .substance ((st.symbols.find? fun x => x.1 == d.name).map (·.2)) props }
    | _ => d

end Rink.Gnu
