import Rink.Model.Dim
import Rink.Model.Num
/-!
Model of `core/src/types/number.rs` (arithmetic part) — the code as it stands after the
`fix:` commits recorded in /verif/known_findings.json (zero divisors and negative shift
counts are errors / exact results, not panics or hangs).
-/
namespace Rink

structure Number where
  value : Numeric
  unit : Dim
deriving Repr, Inhabited, DecidableEq

namespace Number

def one : Number := ⟨.one, []⟩
def ofNumeric (v : Numeric) : Number := ⟨v, []⟩
def oneUnit (name : String) : Number := ⟨.one, Dim.baseUnit name⟩
def dimless (n : Number) : Bool := n.unit.isEmpty

/-- results whose exact value would need more than about 2^24 bits are not computed -/
def hugeBits : Nat := 16777216

def bitSize : Numeric → Nat
  | .rational q => (Nat.log2 q.num.natAbs + 1) + (Nat.log2 q.den + 1)
  | .float => 64

def add (a b : Number) : Outcome Number :=
  if a.unit != b.unit then .err .generic else .ok ⟨a.value.add b.value, a.unit⟩
def sub (a b : Number) : Outcome Number :=
  if a.unit != b.unit then .err .generic else .ok ⟨a.value.sub b.value, a.unit⟩
def neg (a : Number) : Number := ⟨a.value.neg, a.unit⟩
def mul (a b : Number) : Number := ⟨a.value.mul b.value, Dim.mul a.unit b.unit⟩

/-- `invert`; only reached with a non-zero value -/
def invert (a : Number) : Outcome Number := do
  let v ← Numeric.div .one a.value
  pure ⟨v, a.unit.map fun (k, p) => (k, -p)⟩

/-- `&a / &b` (`None` = "Division by zero") -/
def div (a b : Number) : Outcome Number :=
  match b.value with
  | .rational q => if q = 0 then .err .generic else do let i ← invert b; pure (mul a i)
  | .float => .unsupported "division by a float (zero test on f64)"

/-- `powi` -/
def powi (a : Number) (e : Int) : Outcome Number :=
  -- unit exponents must stay inside i64 ("Exponent is too large")
  if a.unit.any (fun kp => kp.2 * e ≤ -9223372036854775808 || kp.2 * e > 9223372036854775807) then .err .generic else
  if e.natAbs * bitSize a.value > hugeBits then .unsupported "huge power" else do
  let v ← a.value.pow e
  pure ⟨v, Dim.pow a.unit e⟩

/-- `root(exp)`: float result; unit exponents must divide -/
def root (a : Number) (e : Int) : Outcome Number :=
  match a.value with
  | .float => .unsupported "sign of a float"
  | .rational q =>
    if q < 0 then .err .generic
    else if a.unit.any (fun (_, p) => p % e != 0) then .err .generic
    else .ok ⟨.float, a.unit.map fun (k, p) => (k, p / e)⟩

def two31 : Rat := 2147483648

/-- `Number::pow` -/
def pow (a exp : Number) : Outcome Number :=
  if !exp.dimless then .err .generic else
  match exp.value with
  | .float => .unsupported "float exponent"
  | .rational e =>
    if e.abs ≥ two31 then .err .generic
    else if e.den = 1 then
      (match a.value with
       | .rational q => if e.num < 0 ∧ q = 0 then .err .generic else powi a e.num
       | .float => powi a e.num)
    else if e.num = 1 ∧ e.den < 2147483648 then root a e.den
    else if !a.dimless then .err .generic
    else .ok ⟨.float, a.unit⟩

/-- common part of `shl`/`shr`: the integer shift count -/
def shiftCount (exp : Number) : Outcome Int :=
  if !exp.dimless then .err .generic else
  match exp.value with
  | .float => .unsupported "float shift count"
  | .rational e =>
    if e.abs ≥ two31 then .err .generic
    else if e.den ≠ 1 then .err .generic
    else .ok e.num

def shiftBy (a : Number) (k : Int) : Outcome Number :=
  if k.natAbs + bitSize a.value > hugeBits then .unsupported "huge shift" else
  let p : Numeric := .rational ((2 ^ k.natAbs : Nat) : Rat)
  if k ≥ 0 then .ok ⟨a.value.mul p, a.unit⟩
  else do let v ← a.value.div p; pure ⟨v, a.unit⟩

def shl (a exp : Number) : Outcome Number := do let k ← shiftCount exp; shiftBy a k
def shr (a exp : Number) : Outcome Number := do let k ← shiftCount exp; shiftBy a (-k)

def rem (a b : Number) : Outcome Number :=
  if a.unit != b.unit then .err .generic else
  match b.value with
  | .rational q => if q = 0 then .err .generic else do
      let v ← a.value.rem b.value
      pure ⟨v, a.unit⟩
  | .float => .ok ⟨.float, a.unit⟩

def bitop (f : Int → Int → Int) (a b : Number) : Outcome Number :=
  if !a.dimless || !b.dimless then .err .generic else
  match a.value.asInt?, b.value.asInt? with
  | some x, some y => .ok ⟨.rational (f x y), a.unit⟩
  | _, _ => .err .generic

def and := bitop IntBits.land
def or := bitop IntBits.lor
def xor := bitop IntBits.lxor

end Number
end Rink
