import Rink.Model.Num
import Rink.Gen.TempConsts
/-! Model of `core/src/ast/*.rs` and the token type of `parsing/text_query.rs`. -/
namespace Rink

inductive Degree where
  | celsius | fahrenheit | reaumur | romer | delisle | newton
deriving Repr, DecidableEq, Inhabited

inductive DateTok where
  | literal (s : String)
  | number (int : String) (frac : Option String)
  | colon | dash | space | plus
deriving Repr, DecidableEq, Inhabited

inductive BinOp where
  | add | sub | frac | pow | equals | shl | shr | mod | and | or | xor
deriving Repr, DecidableEq, Inhabited

inductive UnaryOp where
  | negative | positive | degree (d : Degree)
deriving Repr, DecidableEq, Inhabited

inductive Func where
  | sqrt | exp | ln | log2 | log10 | sin | cos | tan | asin | acos | atan
  | sinh | cosh | tanh | asinh | acosh | atanh | log | hypot | atan2
deriving Repr, DecidableEq, Inhabited

inductive Expr where
  | unit (name : String)
  | quote (s : String)
  | const (v : Numeric)
  | date (toks : List DateTok)
  | binop (op : BinOp) (l r : Expr)
  | unary (op : UnaryOp) (e : Expr)
  | mul (es : List Expr)
  | ofProp (prop : String) (e : Expr)
  | call (f : Func) (args : List Expr)
  | error (msg : String)
deriving Repr, Inhabited

inductive Digits where
  | default | fullInt | digits (n : Nat) | fraction | scientific | engineering
deriving Repr, DecidableEq, Inhabited

inductive Conversion where
  | none
  | expr (e : Expr)
  | degree (d : Degree)
  | list (names : List String)
  | offset (secs : Int)
  | timezone (name : String)
deriving Repr, Inhabited

inductive Query where
  | expr (e : Expr)
  | convert (e : Expr) (c : Conversion) (base : Option Nat) (digits : Digits)
  | factorize (e : Expr)
  | unitsFor (e : Expr)
  | search (s : String)
  | error (msg : String)
deriving Repr, Inhabited

inductive Token where
  | newline | comment
  | ident (s : String)
  | decimal (int : String) (frac exp : Option String)
  | hex (s : String) | oct (s : String) | bin (s : String)
  | quote (s : String)
  | slash | pipe | semicolon | equals | caret | eof | lpar | rpar | plus | minus | asterisk
  | dashArrow | colon | dLAngle | dRAngle | kwMod | kwXor | kwOr | kwAnd
  | date (toks : List DateTok)
  | comma
  | degree (d : Degree)
  | percent
  | error (msg : String)
deriving Repr, DecidableEq, Inhabited

def Func.fromName : String → Option Func
  | "sqrt" => some .sqrt | "exp" => some .exp | "ln" => some .ln | "log2" => some .log2
  | "log10" => some .log10 | "sin" => some .sin | "cos" => some .cos | "tan" => some .tan
  | "asin" => some .asin | "acos" => some .acos | "atan" => some .atan | "sinh" => some .sinh
  | "cosh" => some .cosh | "tanh" => some .tanh | "asinh" => some .asinh | "acosh" => some .acosh
  | "atanh" => some .atanh | "log" => some .log | "hypot" => some .hypot | "atan2" => some .atan2
  | _ => none

def Func.name : Func → String
  | .sqrt => "sqrt" | .exp => "exp" | .ln => "ln" | .log2 => "log2" | .log10 => "log10"
  | .sin => "sin" | .cos => "cos" | .tan => "tan" | .asin => "asin" | .acos => "acos"
  | .atan => "atan" | .sinh => "sinh" | .cosh => "cosh" | .tanh => "tanh" | .asinh => "asinh"
  | .acosh => "acosh" | .atanh => "atanh" | .log => "log" | .hypot => "hypot" | .atan2 => "atan2"

def attrFromName : String → Option String
  | "int" | "international" => some "int"
  | "UKSJJ" => some "UKSJJ" | "UKB" => some "UKB" | "UKC" => some "UKC" | "UKK" => some "UKK"
  | "imperial" | "british" | "UK" => some "br"
  | "survey" | "geodetic" => some "survey"
  | "irish" => some "irish"
  | "aust" | "australian" => some "aust"
  | "roman" => some "roman" | "egyptian" => some "egyptian" | "greek" => some "greek"
  | "olympic" => some "olympic"
  | _ => none

def Degree.key : Degree → String
  | .celsius => "celsius" | .fahrenheit => "fahrenheit" | .reaumur => "reaumur"
  | .romer => "romer" | .delisle => "delisle" | .newton => "newton"

/-- `Degree::name_base_scale` : (zero-point constant, scale unit) — read from the table that
`rkh tables` regenerates from the compiled code on every run (`Rink/Gen/TempConsts.lean`). -/
def Degree.baseScale (d : Degree) : String × String :=
  match Gen.degreeNames.lookup d.key with
  | some p => p
  | none => ("", "")

/-- `Display for Degree`, likewise regenerated -/
def Degree.display (d : Degree) : String :=
  match Gen.degreeDisplay.lookup d.key with
  | some s => s
  | none => ""

/-- `Expr::new_mul` -/
def Expr.newMul : List Expr → Expr
  | [e] => e
  | es => .mul es

end Rink
