/-
Model of `sandbox/src/alloc.rs` (`Alloc<System>` as a `GlobalAlloc`).

Every Rust statement that touches an atomic is one constructor of the program counter
`PC`; a thread advances by exactly one atomic step per `Ev.adv`.  The limit is constant
(`set_limit` is documented as "call early" and is not part of the property's operation
set), so the `limit.load` at the head of every operation is merged into the start event.

Ghost state (not present in the Rust): the list of live blocks, the blocks held by an
in-flight `dealloc`/`realloc`, and `cover`/`coverBy` used only by the peak invariant.

This file imports nothing outside core so that the driver links as a `lean_exe`.
-/
namespace Rink.Alloc

inductive PC where
  | idle
  /-- alloc / alloc_zeroed: about to `used.fetch_add(size)` -/
  | aAdd (size : Nat) (zeroed : Bool)
  /-- `new_size` computed; about to compare with the limit -/
  | aChk (size newSize : Nat)
  /-- `max.fetch_max` done; about to call `parent.alloc` -/
  | aPar (size : Nat)
  /-- refused or parent returned null: about to `used.fetch_sub(size)` -/
  | aUndo (size : Nat)
  /-- dealloc: about to call `parent.dealloc` (block still live) -/
  | dPar (size : Nat)
  /-- block released; about to `used.fetch_sub(size)` -/
  | dSub (size : Nat)
  /-- realloc: about to `used.fetch_add(new)` -/
  | rAdd (old new : Nat)
  | rChk (old new newUsed : Nat)
  /-- `max.fetch_max` done; about to call `parent.realloc` -/
  | rPar (old new : Nat)
  /-- refused or parent null: about to `used.fetch_sub(new)`; old block intact -/
  | rSubNew (old new : Nat)
  /-- parent succeeded: about to `used.fetch_sub(old)`; block now has size `new` -/
  | rSubOld (old new : Nat)
deriving Repr, DecidableEq, Inhabited

inductive Op where
  | alloc (size : Nat) (zeroed : Bool)
  | dealloc (idx : Nat)
  | realloc (idx : Nat) (new : Nat)
deriving Repr, DecidableEq

inductive Res where
  | ptr | null | unit
deriving Repr, DecidableEq

structure State where
  used : Nat
  max : Nat
  limit : Nat
  /-- ghost: sizes of live blocks not currently held by an in-flight operation -/
  blocks : List Nat
  pcs : List PC
  /-- ghost: `used` right after the most recent accepted `fetch_add` (or at reset) -/
  cover : Nat
  /-- ghost: the thread whose accepted `fetch_add` set `cover`, while it matters -/
  coverBy : Option Nat
deriving Repr

def init (limit threads : Nat) : State :=
  { used := 0, max := 0, limit := limit, blocks := [], pcs := List.replicate threads .idle,
    cover := 0, coverBy := none }

inductive Ev where
  | start (t : Nat) (op : Op)
  /-- advance thread `t` by one atomic step; `parentOk` is consulted only at a parent call -/
  | adv (t : Nat) (parentOk : Bool)
  /-- `reset_max`, modelled as one atomic step (see `Props/C19.lean` for the two-step race) -/
  | reset
deriving Repr

def setPc (s : State) (t : Nat) (pc : PC) : State := { s with pcs := s.pcs.set t pc }

def step (s : State) : Ev → State × Option Res
  | .reset => ({ s with max := s.used, cover := s.used, coverBy := none }, none)
  | .start t op =>
    match s.pcs[t]? with
    | some .idle =>
      match op with
      | .alloc size z => (setPc s t (.aAdd size z), none)
      | .dealloc i =>
        match s.blocks[i]? with
        | some sz => ({ s with blocks := s.blocks.eraseIdx i, pcs := s.pcs.set t (.dPar sz) }, none)
        | none => (s, none)
      | .realloc i new =>
        match s.blocks[i]? with
        | some sz => ({ s with blocks := s.blocks.eraseIdx i, pcs := s.pcs.set t (.rAdd sz new) }, none)
        | none => (s, none)
    | _ => (s, none)
  | .adv t ok =>
    match s.pcs[t]? with
    | some (.aAdd size _) =>
      let ns := s.used + size
      if ns ≤ s.limit then
        ({ s with used := ns, pcs := s.pcs.set t (.aChk size ns), cover := ns, coverBy := some t }, none)
      else
        ({ s with used := ns, pcs := s.pcs.set t (.aChk size ns) }, none)
    | some (.aChk size ns) =>
      if ns ≤ s.limit then
        ({ s with max := Nat.max s.max ns, pcs := s.pcs.set t (.aPar size) }, none)
      else (setPc s t (.aUndo size), none)
    | some (.aPar size) =>
      if ok then ({ s with blocks := s.blocks ++ [size], pcs := s.pcs.set t .idle }, some .ptr)
      else (setPc s t (.aUndo size), none)
    | some (.aUndo size) =>
      ({ s with used := s.used - size, pcs := s.pcs.set t .idle }, some .null)
    | some (.dPar size) => (setPc s t (.dSub size), none)
    | some (.dSub size) =>
      ({ s with used := s.used - size, pcs := s.pcs.set t .idle }, some .unit)
    | some (.rAdd old new) =>
      let nu := s.used + new
      if nu ≤ s.limit then
        ({ s with used := nu, pcs := s.pcs.set t (.rChk old new nu), cover := nu, coverBy := some t }, none)
      else
        ({ s with used := nu, pcs := s.pcs.set t (.rChk old new nu) }, none)
    | some (.rChk old new nu) =>
      if nu ≤ s.limit then
        ({ s with max := Nat.max s.max nu, pcs := s.pcs.set t (.rPar old new) }, none)
      else (setPc s t (.rSubNew old new), none)
    | some (.rPar old new) =>
      if ok then (setPc s t (.rSubOld old new), none) else (setPc s t (.rSubNew old new), none)
    | some (.rSubNew old new) =>
      ({ s with used := s.used - new, blocks := s.blocks ++ [old], pcs := s.pcs.set t .idle }, some .null)
    | some (.rSubOld old new) =>
      ({ s with used := s.used - old, blocks := s.blocks ++ [new], pcs := s.pcs.set t .idle }, some .ptr)
    | _ => (s, none)

/-- Run a list of events, collecting the results of completed operations. -/
def run (s : State) : List Ev → State × List Res
  | [] => (s, [])
  | e :: es =>
    let (s', r) := step s e
    let (s'', rs) := run s' es
    (s'', match r with | some x => x :: rs | none => rs)

def runState (s : State) (es : List Ev) : State := es.foldl (fun s e => (step s e).1) s

/-- Bytes charged to `used` by an in-flight operation. -/
def PC.charge : PC → Nat
  | .aChk size _ => size
  | .aPar size => size
  | .aUndo size => size
  | .dSub size => size
  | .rChk _ new _ => new
  | .rPar _ new => new
  | .rSubNew _ new => new
  | .rSubOld old _ => old
  | _ => 0

/-- Size of the live block held by an in-flight `dealloc`/`realloc`. -/
def PC.held : PC → Nat
  | .dPar size => size
  | .rAdd old _ => old
  | .rChk old _ _ => old
  | .rPar old _ => old
  | .rSubNew old _ => old
  | .rSubOld _ new => new
  | _ => 0

/-- Charge of an operation that has passed (or will pass) the limit check and has not yet
been turned into a live block. -/
def PC.accepted (limit : Nat) : PC → Nat
  | .aChk size ns => if ns ≤ limit then size else 0
  | .aPar size => size
  | .rChk _ new nu => if nu ≤ limit then new else 0
  | .rPar _ new => new
  | _ => 0

def sumBy (f : PC → Nat) (l : List PC) : Nat := (l.map f).sum

def State.charges (s : State) : Nat := sumBy PC.charge s.pcs
def State.heldTotal (s : State) : Nat := sumBy PC.held s.pcs
def State.acceptedTotal (s : State) : Nat := sumBy (PC.accepted s.limit) s.pcs
/-- Total size of live allocations (what the property calls "usage"). -/
def State.live (s : State) : Nat := s.blocks.sum + s.heldTotal

def State.quiescent (s : State) : Prop := ∀ pc ∈ s.pcs, pc = .idle

instance (s : State) : Decidable s.quiescent := by unfold State.quiescent; infer_instance

/-- Single-threaded execution of one whole operation on thread 0 (used by the driver):
start, then advance until idle again. Every operation takes at most 5 atomic steps. -/
def runOp (s : State) (op : Op) (parentOk : Bool) : State × Option Res :=
  let s0 := (step s (.start 0 op)).1
  let rec go (fuel : Nat) (s : State) : State × Option Res :=
    match fuel with
    | 0 => (s, none)
    | fuel + 1 =>
      match s.pcs[0]? with
      | some PC.idle => (s, none)
      | _ =>
        let (s', r) := step s (.adv 0 parentOk)
        match r with
        | some x => (s', some x)
        | none => go fuel s'
  go 6 s0

end Rink.Alloc
