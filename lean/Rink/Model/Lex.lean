import Rink.Model.Ast
/-!
Model of `TokenIterator::next` (`core/src/parsing/text_query.rs`).

The Unicode predicates of the Rust standard library that the lexer consults
(`char::is_alphanumeric`, `char::is_whitespace`) are parameters (`CharClass`): the harness
sends, with every request, which non-ASCII characters of that request satisfy them, so no
Unicode table is duplicated here and lexer theorems hold for an arbitrary classifier.
`is_digit(10)`, `is_digit(16)` and `to_ascii_lowercase` are ASCII-only in Rust and are
modelled directly.
-/
namespace Rink.Lex

structure CharClass where
  isAlnum : Char → Bool
  isWs : Char → Bool

def asciiClass : CharClass :=
  { isAlnum := fun c => c.isAlphanum, isWs := fun c => c == ' ' || ('\t' ≤ c && c ≤ '\r') }

def isDec (c : Char) : Bool := '0' ≤ c && c ≤ '9'
def isHex (c : Char) : Bool := isDec c || ('a' ≤ c && c ≤ 'f') || ('A' ≤ c && c ≤ 'F')
def isOct (c : Char) : Bool := '0' ≤ c && c ≤ '7'
def isBin (c : Char) : Bool := c == '0' || c == '1'
def isSep (c : Char) : Bool := c == '\u2009' || c == '_'

/-- digits satisfying `p`, skipping the separators U+2009 and `_`; returns (digits, rest) -/
def digitsSep (p : Char → Bool) : List Char → List Char × List Char
  | [] => ([], [])
  | c :: cs =>
    if p c then let (d, r) := digitsSep p cs; (c :: d, r)
    else if isSep c then digitsSep p cs
    else ([], c :: cs)

/-- plain `take_while` (no separators) -/
def span (p : Char → Bool) : List Char → List Char × List Char
  | [] => ([], [])
  | c :: cs => if p c then let (d, r) := span p cs; (c :: d, r) else ([], c :: cs)

def str (cs : List Char) : String := String.ofList cs

/-- `// …` : consume through the newline (or end of input) -/
def lineComment : List Char → List Char
  | [] => []
  | c :: cs => if c == '\n' then cs else lineComment cs

/-- the `/* … */` loop, entered with the iterator at the `*` that follows `/`.
Returns `none` for "Expected `*/`, got EOF". -/
def blockComment : List Char → Option (List Char)
  | [] => none
  | c :: cs =>
    if c == '*' then
      match cs with
      | '/' :: rest => some rest
      | [] => none
      | _ => blockComment cs
    else
      match cs with
      | [] => none
      | _ => blockComment cs

/-- single-quoted string body; `Sum.inl err` or `Sum.inr (contents, rest)` -/
def quoteBody : List Char → List Char → Option (List Char × List Char)
  | _, [] => none
  | acc, c :: cs =>
    if c == '\n' then none
    else if c == '\\' then
      match cs with
      | '\'' :: r => quoteBody (acc ++ ['\'']) r
      | 'n' :: r => quoteBody (acc ++ ['\n']) r
      | 't' :: r => quoteBody (acc ++ ['\t']) r
      | _ => none
    else if c == '\'' then some (acc, cs)
    else quoteBody (acc ++ [c]) cs

/-- the remainder after a failed quote is not needed by the parser for the *class* of the
result, but the position is: the Rust has consumed up to and including the offending char. -/
def quoteFailRest : List Char → List Char
  | [] => []
  | c :: cs =>
    if c == '\n' then cs
    else if c == '\\' then
      match cs with
      | '\'' :: r => quoteFailRest r
      | 'n' :: r => quoteFailRest r
      | 't' :: r => quoteFailRest r
      | _ :: r => r
      | [] => []
    else if c == '\'' then cs
    else quoteFailRest cs

/-- double-quoted identifier body (never fails; unterminated runs to end of input) -/
def dquoteBody : List Char → List Char → List Char × List Char
  | acc, [] => (acc, [])
  | acc, c :: cs =>
    if c == '\\' then
      match cs with
      | d :: r => dquoteBody (acc ++ [d]) r
      | [] => (acc, [])
    else if c == '"' then (acc, cs)
    else dquoteBody (acc ++ [c]) cs
termination_by _ cs => cs.length

def degreeOrKeyword (s : String) : Token :=
  match s with
  | "degC" | "°C" | "celsius" | "℃" => .degree .celsius
  | "degF" | "°F" | "fahrenheit" | "℉" => .degree .fahrenheit
  | "degRé" | "°Ré" | "degRe" | "°Re" | "réaumur" | "reaumur" => .degree .reaumur
  | "degRø" | "°Rø" | "degRo" | "°Ro" | "rømer" | "romer" => .degree .romer
  | "degDe" | "°De" | "delisle" => .degree .delisle
  | "degN" | "°N" | "degnewton" => .degree .newton
  | "per" => .slash
  | "to" | "in" => .dashArrow
  | "mod" => .kwMod
  | "and" => .kwAnd
  | "or" => .kwOr
  | "xor" => .kwXor
  | _ => .ident s

/-- date literal body after `#`: returns tokens and rest -/
def dateBody (cc : CharClass) : Nat → List Char → List DateTok × List Char
  | 0, cs => ([], cs)
  | _, [] => ([], [])
  | fuel + 1, c :: cs =>
    if c == '#' then ([], cs)
    else if c == ':' then let (t, r) := dateBody cc fuel cs; (.colon :: t, r)
    else if c == '-' then let (t, r) := dateBody cc fuel cs; (.dash :: t, r)
    else if c == '+' then let (t, r) := dateBody cc fuel cs; (.plus :: t, r)
    else if cc.isWs c then
      let (_, r0) := span cc.isWs cs
      let (t, r) := dateBody cc fuel r0; (.space :: t, r)
    else if isDec c then
      let (ds, r0) := span isDec cs
      let (fr, r1) :=
        match r0 with
        | '.' :: r => let (f, r') := span isDec r; (some (str f), r')
        | _ => (none, r0)
      let (t, r) := dateBody cc fuel r1; (.number (str (c :: ds)) fr :: t, r)
    else
      let (ls, r0) := span (fun c => !(c == '#' || c == ':' || c == '-' || c == '+' || c == ' ') && !isDec c) cs
      let (t, r) := dateBody cc fuel r0; (.literal (str (c :: ls)) :: t, r)

def trimDateToks (t : List DateTok) : List DateTok :=
  let t := match t with | .space :: r => r | _ => t
  match t.getLast? with
  | some .space => t.dropLast
  | _ => t

/-- `0x…` / `0o…` / `0b…`: digits (with separators) after the two-character marker -/
def radixLit (p : Char → Bool) (mk : String → Token) (err : String) (cs : List Char) : Token × List Char :=
  let (h, r) := digitsSep p cs.tail
  if h.isEmpty then (.error err, r) else (mk (str h), r)

/-- a doubled exponent marker (`1ee5`) is tolerated -/
def expSkipE : List Char → List Char
  | e2 :: r => if e2 == 'e' || e2 == 'E' then r else e2 :: r
  | [] => []

/-- the optional sign of the exponent -/
def expSign : List Char → List Char × List Char
  | '-' :: r => (['-'], r)
  | '+' :: r => ([], r)
  | r => ([], r)

/-- the exponent part of a decimal literal, entered with the input after the fraction -/
def expPart (int : List Char) (frac : Option String) (r3 : List Char) : Token × List Char :=
  match r3 with
  | e :: r4 =>
    if e == 'e' || e == 'E' then
      let (sign, r6) := expSign (expSkipE r4)
      let (ed, r7) := digitsSep isDec r6
      let buf := sign ++ ed
      if buf.isEmpty then (.error "Malformed number literal: No digits after exponent", r7)
      else (.decimal (str int) frac (some (str buf)), r7)
    else (.decimal (str int) frac none, r3)
  | [] => (.decimal (str int) frac none, r3)

/-- the number branch, entered with first char `x` (a digit or `.`) already consumed -/
def lexNumber (x : Char) (cs : List Char) : Token × List Char :=
  if x == '0' && cs.head? == some 'x' then
    radixLit isHex .hex "Malformed hexadecimal literal: No digits after 0x" cs
  else if x == '0' && cs.head? == some 'o' then
    radixLit isOct .oct "Malformed octal literal: No digits after 0o" cs
  else if x == '0' && cs.head? == some 'b' then
    radixLit isBin .bin "Malformed binary literal: No digits after 0b" cs
  else
    let (int, r1) := if x != '.' then (let (d, r) := digitsSep isDec cs; (x :: d, r)) else (['0'], cs)
    -- fractional component
    let hasFrac := x == '.' || r1.head? == some '.'
    let r2 := if x != '.' && hasFrac then r1.tail else r1
    let (fracDigits, r3) := if hasFrac then digitsSep isDec r2 else ([], r2)
    if hasFrac && fracDigits.isEmpty then
      (.error "Malformed number literal: No digits after decimal point", r3)
    else
      expPart int (if hasFrac then some (str fracDigits) else none) r3

/-- the token that starts with the non-blank character `c` (everything of `TokenIterator::next`
except the skipping of blanks) -/
def nextTok (cc : CharClass) (c : Char) (cs : List Char) : Token × List Char :=
  if c == '\n' then (.newline, cs)
  else if c == '(' then (.lpar, cs)
  else if c == ')' then (.rpar, cs)
  else if c == '+' then (.plus, cs)
  else if c == ';' then (.semicolon, cs)
  else if c == '%' then (.percent, cs)
  else if c == '=' then (.equals, cs)
  else if c == '^' then (.caret, cs)
  else if c == ',' then (.comma, cs)
  else if c == '|' || c == '∕' then (.pipe, cs)
  else if c == ':' then (.colon, cs)
  else if c == '→' then (.dashArrow, cs)
  else if c == '<' && cs.head? == some '<' then (.dLAngle, cs.tail)
  else if c == '>' && cs.head? == some '>' then (.dRAngle, cs.tail)
  else if c == '*' then
    if cs.head? == some '*' then (.caret, cs.tail) else (.asterisk, cs)
  else if c == '-' then
    if cs.head? == some '>' then (.dashArrow, cs.tail) else (.minus, cs)
  else if c == '−' then (.minus, cs)
  else if c == '/' then
    match cs with
    | '/' :: _ => (.comment, lineComment cs)
    | '*' :: _ =>
      match blockComment cs with
      | some r => (.comment, r)
      | none => (.error "Expected `*/`, got EOF", [])
    | _ => (.slash, cs)
  else if isDec c || c == '.' then lexNumber c cs
  else if c == '\\' then
    match cs with
    | 'u' :: r =>
      let (h, r') := span isHex r
      -- after the fix: no digits is an error token instead of `from_str_radix("").unwrap()`
      if h.isEmpty then (.error "Invalid unicode escape", r')
      else
        let v := h.foldl (fun a d => a * 16 + (if isDec d then d.toNat - 48 else if 'a' ≤ d && d ≤ 'f' then d.toNat - 87 else d.toNat - 55)) 0
        if v < 4294967296 then
          (if v < 0xD800 || (0xDFFF < v && v < 0x110000) then (.ident (str [Char.ofNat v]), r')
           else (.error "Invalid unicode scalar", r'))
        else (.error "Invalid unicode escape", r')
    | _ :: r => (.error "Unexpected \\", r)
    | [] => (.error "Unexpected \\", [])
  else if c == '\'' then
    match quoteBody [] cs with
    | some (b, r) => (.quote (str b), r)
    | none => (.error "quote", quoteFailRest cs)
  else if c == '#' then
    let (t, r) := dateBody cc (cs.length + 1) cs
    (.date (trimDateToks t), r)
  else if c == '"' then
    let (b, r) := dquoteBody [] cs
    (.ident (str b), r)
  else
    let (b, r) := span (fun c => cc.isAlnum c || c == '_' || c == '$') cs
    (degreeOrKeyword (str (c :: b)), r)

/-- One call of `TokenIterator::next` (`' '`/`'\t'` recurse via fuel). -/
def next (cc : CharClass) : Nat → List Char → Token × List Char
  | 0, cs => (.eof, cs)
  | _, [] => (.eof, [])
  | fuel + 1, c :: cs =>
    if c == ' ' || c == '\t' then next cc fuel cs else nextTok cc c cs

/-- All tokens of the input up to and including the first `eof`. -/
def lexAll (cc : CharClass) : Nat → List Char → List Token
  | 0, _ => [.eof]
  | _, [] => [.eof]
  | fuel + 1, cs =>
    let (t, r) := next cc (cs.length + 1) cs
    match t with
    | .eof => [.eof]
    | _ => t :: lexAll cc fuel r

def lex (cc : CharClass) (cs : List Char) : List Token := lexAll cc (cs.length + 1) cs

end Rink.Lex
