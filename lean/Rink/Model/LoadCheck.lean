import Rink.Model.Load
/-!
The predicates of C08 over a loaded state (`LS`): the database is a fixed point of its own
definitions, dimensionalities use declared base units only, quantities and dimensionalities are
in bijection, alias chains end, docs and categories belong to existing names.  They are
executable: the driver prints them for any scenario, and `Props/C08.lean` evaluates them on the
bundled files (embedded by the translator in `Gen/Bundled.lean`).
-/
namespace Rink.Load
open Rink

def sortedStrings (l : List String) : List String := (l.toArray.qsort (· < ·)).toList

/-- names whose stored value differs from what their stored definition evaluates to in the
finished database (or whose definition no longer evaluates) -/
def fixedPointBad (st : LS) : List String :=
  let ctx := mkCtx st {}
  sortedStrings <| st.definitions.toList.filterMap fun (n, e) =>
    match st.units[n]? with
    | none => none
    | some v =>
      match Eval.evalExpr ctx e with
      | .ok w => if w == v then none else some n
      | .unsupported _ => none
      | _ => some n

/-- definitions the Number-only evaluator cannot re-evaluate (machine floats, substances) -/
def fixedPointUnsupported (st : LS) : List String :=
  let ctx := mkCtx st {}
  sortedStrings <| st.definitions.toList.filterMap fun (n, e) =>
    match st.units[n]? with
    | none => none
    | some _ => match Eval.evalExpr ctx e with
      | .unsupported _ => some n
      | _ => none

def fixedPointChecked (st : LS) : Nat :=
  (st.definitions.toList.filter fun (n, _) => st.units.contains n).length - (fixedPointUnsupported st).length

/-- units whose dimensionality mentions something that is not a declared base unit, or that is
not in canonical form (sorted, no zero powers) -/
def foreignDims (st : LS) : List String :=
  sortedStrings <| st.units.toList.filterMap fun (n, v) =>
    if v.unit.all (fun kp => st.baseUnits.contains kp.1 && kp.2 != 0) && (v.unit.map (·.1)).Pairwise (· < ·) then none else some n

/-- quantity names whose dimensionality is not registered under their own name (two quantities
of one dimensionality), and dimensionalities registered for a name that does not denote them -/
def quantityMismatch (st : LS) : List String :=
  sortedStrings <|
    (st.quantityDims.toList.filterMap fun (n, d) =>
      match st.quantities[dimKey d]? with
      | some (d', n') => if d' == d && n' == n then none else some n
      | none => some n) ++
    (st.quantities.toList.filterMap fun (_, (d, n)) =>
      match st.quantityDims[n]? with
      | some d' => if d' == d then none else some n
      | none => some n)

/-- follow `name = other-name` definitions; `none` when the chain does not end within `fuel` steps -/
def aliasEnd (st : LS) : Nat → String → Option String
  | 0, _ => none
  | fuel + 1, n =>
    match st.definitions[n]? with
    | some (.unit t) => if st.baseUnits.contains t then some t else aliasEnd st fuel t
    | _ => some n

/-- aliases whose chain does not end, or ends at a name that denotes nothing -/
def danglingAliases (st : LS) : List String :=
  let ctx := mkCtx st {}
  sortedStrings <| st.definitions.toList.filterMap fun (n, e) =>
    match e with
    | .unit _ =>
      if !st.units.contains n then none else
      match aliasEnd st (st.definitions.size + 1) n with
      | none => some n
      | some t => if (ctx.lookup t).isSome || st.baseUnits.contains t then none else some n
    | _ => none

def nameExists (st : LS) (n : String) : Bool :=
  st.units.contains n || st.definitions.contains n || st.baseUnits.contains n || st.prefixLookup.contains n ||
  st.quantityDims.contains n || st.substances.contains n || st.categoryNames.contains n

/-- doc or category entries attached to a name the database does not have, and categories that
were never declared -/
def orphans (st : LS) : List String :=
  sortedStrings <|
    (st.docs.toList.filterMap fun (n, _) => if nameExists st n then none else some ("doc:" ++ n)) ++
    (st.categories.toList.filterMap fun (n, c) =>
      if !nameExists st n then some ("category:" ++ n)
      else if !st.categoryNames.contains c then some ("undeclared-category:" ++ c) else none)

/-- unit definitions whose value is a substance (`air`, `Hg`, …): names whose stored substance
differs from what the definition text denotes in the finished database — in particular when a
name in it has meanwhile acquired an exact, prefixed or plural unit reading -/
def fixedPointSubstBad (st : LS) : List String :=
  let ctx := mkCtx st {}
  sortedStrings <| st.substDefs.toList.filterMap fun (n, e) =>
    match st.substances[n]? with
    | none => some n
    | some stored =>
      match Eval.evalExpr ctx e with
      | .unsupported _ =>
        (match evalSubstance st 64 e with
         | some s =>
           let s := if s.name.contains '+' then { s with name := n } else s
           if s == stored then none else some n
         | none => some n)
      | _ => some n

structure Report where
  errors : List String
  fixedPointBad : List String
  foreignDims : List String
  quantityMismatch : List String
  danglingAliases : List String
  orphans : List String
  fixedPointSubstBad : List String
deriving Repr, DecidableEq

def report (st : LS) : Report :=
  { errors := st.errors, fixedPointBad := fixedPointBad st, foreignDims := foreignDims st,
    quantityMismatch := quantityMismatch st, danglingAliases := danglingAliases st, orphans := orphans st,
    fixedPointSubstBad := fixedPointSubstBad st }

def Report.clean : Report := ⟨[], [], [], [], [], [], []⟩

end Rink.Load
