import Rink.Model.Number
import Rink.Model.Substance
/-!
Model of `core/src/loader/registry.rs` (`lookup`, `canonicalize`) and `Context::lookup`.
The registry is a record of lookup *functions* so that theorems hold for every database and
the driver can instantiate them with hash maps built from the dump of the real registry.
-/
namespace Rink

/-- what `registry.definitions.get(name)` holds, as far as the evaluator looks at it -/
inductive DefKind where
  | alias (target : String)   -- `Expr::Unit { name: target }`
  | other
deriving Repr, DecidableEq, Inhabited

structure Registry where
  isBaseUnit : String → Bool
  unit : String → Option Number
  prefixes : List (String × Numeric)
  definition : String → Option DefKind
  longName : String → Option String
  quantity : Dim → Option String
  quantities : List (Dim × String)
  decomposition : List (Dim × String)
  /-- names that evaluate to substances (substances, element symbols, formulas): outside this model -/
  isSubstanceLike : String → Bool
  /-- all (name, value) pairs of `units` in key order, for `units for` -/
  unitList : List (String × Number)
  category : String → Option String
  categoryName : String → Option String
  isQuantityName : String → Bool := fun _ => false
  /-- `registry.substances` -/
  substance : String → Option Substance := fun _ => none
  /-- whether `substance_from_formula(name)` succeeds (a chemical formula over the element symbols) -/
  isFormula : String → Bool := fun _ => false

namespace Registry

/-- `&name[pre.len()..]` for a name that starts with `pre` -/
def dropPrefix (name pre : String) : String := (name.drop pre.length).toString

def lookupExact (r : Registry) (name : String) : Option Number :=
  if r.isBaseUnit name then some (Number.oneUnit name) else r.unit name

def prefixLoop (r : Registry) (name : String) : List (String × Numeric) → Option Number
  | [] => none
  | (pre, v) :: rest =>
    if name.startsWith pre then
      match r.lookupExact (dropPrefix name pre) with
      | some u => some (Number.mul u (Number.ofNumeric v))
      | none => prefixLoop r name rest
    else prefixLoop r name rest

def lookupWithPrefix (r : Registry) (name : String) : Option Number :=
  match r.lookupExact name with
  | some v => some v
  | none => prefixLoop r name r.prefixes

def stripS (name : String) : Option String :=
  if name.endsWith "s" then some (name.dropEnd 1).toString else none

def lookup (r : Registry) (name : String) : Option Number :=
  match r.lookupWithPrefix name with
  | some v => some v
  | none =>
    match stripS name with
    | some n => r.lookupWithPrefix n
    | none => none

/-! canonicalize: mutually recursive through alias chains; fuel = chain length bound -/

def longestEqualPrefix (pre : String) (v : Numeric) : List (String × Numeric) → String
  | [] => pre
  | (o, ov) :: rest =>
    if o.length > pre.length && v == ov then longestEqualPrefix o v rest
    else longestEqualPrefix pre v rest

/-- the prefix loop of `canonicalize_with_prefix`; `resolves` is `Registry::lookup(..).is_some()`:
a doubly prefixed expansion that does not resolve falls back to long prefix + the rest as written -/
def canonPrefixLoop (exact : String → Option String) (resolves : String → Bool)
    (all : List (String × Numeric)) (name : String) :
    List (String × Numeric) → Option String
  | [] => none
  | (pre, v) :: rest =>
    if name.startsWith pre then
      let tail := dropPrefix name pre
      match exact tail with
      | some c =>
        let long := longestEqualPrefix pre v all
        if resolves (long ++ c) then some (long ++ c) else some (long ++ tail)
      | none => canonPrefixLoop exact resolves all name rest
    else canonPrefixLoop exact resolves all name rest

mutual
def canonicalizeExact (r : Registry) : Nat → String → Option String
  | 0, _ => none
  | fuel + 1, name =>
    match r.longName name with
    | some v => some v
    | none =>
      if r.isBaseUnit name then some name
      else if (r.unit name).isNone then none      -- quantities also have definitions; only units are expanded
      else match r.definition name with
        | some (.alias t) =>
          (match canonicalize r fuel t with
           | some c => some c
           | none => some t)
        | some .other => some name
        | none => none

def canonicalizeWithPrefix (r : Registry) : Nat → String → Option String
  | 0, _ => none
  | fuel + 1, name =>
    match canonicalizeExact r fuel name with
    | some v => some v
    | none => canonPrefixLoop (canonicalizeExact r fuel) (fun n => (r.lookup n).isSome) r.prefixes name r.prefixes

def canonicalize (r : Registry) : Nat → String → Option String
  | 0, _ => none
  | fuel + 1, name =>
    match canonicalizeWithPrefix r fuel name with
    | some v => some v
    | none =>
      match stripS name with
      | some n => canonicalizeWithPrefix r fuel n
      | none => none
end

end Registry

structure Ctx where
  reg : Registry
  previous : Option Number := none
  saveAns : Bool := true
  canonFuel : Nat := 4000
  /-- `Context::temporaries`: scratch names visible only while a substance is being loaded -/
  temporaries : String → Option Number := fun _ => none

namespace Ctx

/-- `Context::lookup` (temporaries are empty outside a load) -/
def lookup (c : Ctx) (name : String) : Option Number :=
  if name == "ans" || name == "ANS" || name == "_" then c.previous
  else match c.temporaries name with
    | some v => some v
    | none => c.reg.lookup name

def canonicalize (c : Ctx) (name : String) : Option String := c.reg.canonicalize c.canonFuel name

end Ctx
end Rink
