import Rink.Model.Eval
/-!
The two facts about a loaded database that `eval_expr` relies on to stay away from its panic
sites, as executable checks.  `Props/C04.lean` proves that they suffice; the driver evaluates
them on the dump of the real registry (`rinkmodel ctxok DUMP`).
-/
namespace Rink.Spec.C04
open Rink Rink.Eval

def allDegrees : List Degree := [.celsius, .fahrenheit, .reaumur, .romer, .delisle, .newton]

def notAns (n : String) : Bool := !(n == "ans" || n == "ANS" || n == "_")

/-- executable form of `CtxOK.degrees`; also requires that the constants are not spelled like
the previous-answer names, so that the fact does not depend on the session history -/
def degreesOKb (ctx : Ctx) : Bool :=
  allDegrees.all fun d =>
    notAns d.baseScale.1 && notAns d.baseScale.2 &&
    match ctx.lookup d.baseScale.2, ctx.lookup d.baseScale.1 with
    | some s, some b => s.unit == b.unit && s.value != .rational 0
    | _, _ => false

def substOKb (s : Substance) : Bool := s.props.all fun kp => kp.2.input.value != .rational 0

mutual
/-- executable form of `NoEmptyMul`: no product node without factors -/
def noEmptyMulb : Expr → Bool
  | .mul [] => false
  | .mul (e :: es) => noEmptyMulb e && noEmptyMulListb es
  | .binop _ l r => noEmptyMulb l && noEmptyMulb r
  | .unary _ e => noEmptyMulb e
  | .ofProp _ e => noEmptyMulb e
  | _ => true
def noEmptyMulListb : List Expr → Bool
  | [] => true
  | e :: es => noEmptyMulb e && noEmptyMulListb es
end

/-- the conversion target of a query, if it has one -/
def conversionTarget : Query → Option Expr
  | .convert _ (.expr bottom) _ _ => some bottom
  | _ => none

/-- executable form of `DefShowOK` -/
def defShowOKb (ctx : Ctx) (name : String) : Bool :=
  match expandAliases ctx 1000 name ((ctx.canonicalize name).getD name) with
  | none => false
  | some (n, _) => ctx.reg.isBaseUnit n || !ctx.reg.isQuantityName n || (ctx.reg.definition n).isSome

end Rink.Spec.C04
