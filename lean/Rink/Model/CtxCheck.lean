import Rink.Model.Eval
/-!
The two facts about a loaded database that `eval_expr` relies on to stay away from its panic
sites, as executable checks.  `Props/C04.lean` proves that they suffice; the driver evaluates
them on the dump of the real registry (`rinkmodel ctxok DUMP`).
-/
namespace Rink.Spec.C04
open Rink Rink.Eval

def allDegrees : List Degree := [.celsius, .fahrenheit, .reaumur, .romer, .delisle, .newton]

def notAns (n : String) : Bool := !(n == "ans" || n == "ANS" || n == "_")

/-- executable form of `CtxOK.degrees`; also requires that the constants are not spelled like
the previous-answer names, so that the fact does not depend on the session history -/
def degreesOKb (ctx : Ctx) : Bool :=
  allDegrees.all fun d =>
    notAns d.baseScale.1 && notAns d.baseScale.2 &&
    match ctx.lookup d.baseScale.2, ctx.lookup d.baseScale.1 with
    | some s, some b => s.unit == b.unit
    | _, _ => false

def substOKb (s : Substance) : Bool := s.props.all fun kp => kp.2.input.value != .rational 0

end Rink.Spec.C04
