import Rink.Model.Ast
/-!
Model of `core/src/types/bigrat.rs` (`to_digits_impl`, `is_recurring`, `to_scientific`,
`to_string`) and `numeric.rs::string_repr`.

`size_in_base` is computed by the Rust with `f64` (`1 + floor(bits·ln 2 / ln base)`); the
model takes that estimate as a parameter `sizeInBase : Nat → Nat → Nat` (value, base). The
theorems only assume that it never underestimates the number of integer digits; the driver
instantiates it with the same floating-point expression.
-/
namespace Rink.Digits
open Rink

def digitChar (v : Nat) : Char :=
  if v < 10 then Char.ofNat (48 + v) else Char.ofNat (87 + v)

/-- `BigInt::next_power_of(base)`: least `i` with `x ≤ base^i` (fuel = a bound on `i`) -/
def nextPowerOf (x base : Nat) : Nat :=
  let rec go (fuel i value : Nat) : Nat :=
    match fuel with
    | 0 => i
    | fuel + 1 => if x ≤ value then i else go fuel (i + 1) (value * base)
  go (Nat.log2 x + 2) 0 1

/-- `is_recurring(base, max_period)` on a remainder `c` (0 ≤ c < 1): digits and period -/
def isRecurring (c : Rat) (base maxPeriod : Nat) : Option (Nat × Nat) :=
  if c.num.natAbs ≥ 9223372036854775808 || c.den ≥ 9223372036854775808 then none else
  let rec go (fuel i : Nat) : Option (Nat × Nat) :=
    match fuel with
    | 0 => none
    | fuel + 1 =>
      if i ≥ maxPeriod then none
      else
        let test := base ^ i - 1
        if test % c.den = 0 then some ((test / c.den) * c.num.natAbs, i)
        else go fuel (i + 1)
  go maxPeriod 1

def recurringDigits (digits period base : Nat) : List Char :=
  (List.range period).map fun k => digitChar (digits / base ^ (period - (k + 1)) % base)

structure LoopState where
  cursor : Rat
  n : Nat
  onlyZeros : Bool
  zeros : Nat
  placedDecimal : Bool
  seen : List Rat
  buf : List Char

def ndigitsOf (d : Digits) (intdigits : Nat) : Int :=
  match d with
  | .default | .scientific | .engineering => 6
  | .fullInt | .fraction => 1000
  | .digits n => (intdigits : Int) + (n : Int)

/-- the main loop of `to_digits_impl`; fuel bounds the number of digits produced -/
def digitsLoop (base : Nat) (digits : Digits) (intdigits : Nat) : Nat → LoopState → Bool × List Char
  | 0, s => (false, s.buf)
  | fuel + 1, s =>
    let exact := s.cursor == 0
    let placedInts := s.n ≥ intdigits
    let ndigits := ndigitsOf digits intdigits
    let afterRadix : Int := (s.n : Int) - (s.zeros : Int)
    let maxRadix : Int := max (intdigits : Int) ndigits
    let bail := (exact && placedInts) || afterRadix > maxRadix
    let shortRec := if bail && !exact then isRecurring s.cursor base 4 else none
    match shortRec with
    | some (d, p) => (true, s.buf ++ ['['] ++ recurringDigits d p base ++ "]...".toList)
    | none =>
    if bail then (exact, s.buf) else
    let s := if s.n == intdigits then { s with buf := s.buf ++ ['.'], placedDecimal := true } else s
    -- recurring decimals
    let recur : Option (Bool × List Char) :=
      if s.placedDecimal then
        match s.seen.idxOf? s.cursor with
        | some index =>
          let period := s.n - intdigits - index
          let cut := s.buf.length - period
          let b := s.buf.take cut ++ ['['] ++ s.buf.drop cut
          let b := if period > 10 then b ++ ", period ".toList ++ (toString period).toList else b
          some (true, b ++ "]...".toList)
        | none =>
          match isRecurring s.cursor base 10 with
          | some (d, p) => some (true, s.buf ++ ['['] ++ recurringDigits d p base ++ "]...".toList)
          | none => none
      else none
    match recur with
    | some r => r
    | none =>
      let s := if s.placedDecimal then { s with seen := s.seen ++ [s.cursor] } else s
      let v : Nat := ((s.cursor.num.natAbs * base) / s.cursor.den) % base
      let onlyZeros := if v != 0 then false else s.onlyZeros
      let zeros := if v == 0 && s.onlyZeros then s.zeros + 1 else s.zeros
      let buf := if v != 0 || !onlyZeros || s.n + 1 ≥ intdigits then s.buf ++ [digitChar v] else s.buf
      let cursor := s.cursor * (base : Rat) - (v : Rat)
      digitsLoop base digits intdigits fuel
        { s with cursor := cursor, n := s.n + 1, onlyZeros := onlyZeros, zeros := zeros, buf := buf }

/-- an upper bound on the number of loop iterations -/
def loopFuel (digits : Digits) (intdigits : Nat) (q : Rat) : Nat :=
  let nd : Nat := match digits with
    | .digits n => intdigits + n
    | .fullInt | .fraction => 1000
    | _ => 6
  2 * intdigits + nd + Nat.log2 q.den + 64

/-- `to_digits_impl` -/
def toDigitsImpl (sizeInBase : Nat → Nat → Nat) (q : Rat) (base : Nat) (digits : Digits) : Bool × List Char :=
  let sign := q < 0
  let a := q.abs
  let intdigits := sizeInBase (a.num.natAbs / a.den) base
  let cursor := a / ((base ^ intdigits : Nat) : Rat)
  digitsLoop base digits intdigits (loopFuel digits intdigits q)
    { cursor := cursor, n := 0, onlyZeros := true, zeros := 0, placedDecimal := false, seen := [],
      buf := if sign then ['-'] else [] }

/-- `to_scientific` -/
def toScientific (sizeInBase : Nat → Nat → Nat) (q : Rat) (base : Nat) (digits : Digits) : Bool × List Char :=
  let absnum := q.num.natAbs
  let den := q.den
  let intdigits : Int :=
    if absnum > den then (nextPowerOf (absnum / den) base : Int) - 1
    else -((nextPowerOf (den / absnum) base : Nat) : Int)
  let absexp : Rat := ((base ^ intdigits.natAbs : Nat) : Rat)
  let rational := if intdigits > 0 then q / absexp else q * absexp
  let (rational, intdigits) :=
    if rational.abs == (base : Rat) then (rational / (base : Rat), intdigits + 1) else (rational, intdigits)
  let (rational, intdigits) :=
    if digits == .engineering then
      let adjust := (intdigits % 3 + 3) % 3
      (rational * ((base ^ adjust.natAbs : Nat) : Rat), intdigits - adjust)
    else (rational, intdigits)
  let (isExact, result) := toDigitsImpl sizeInBase rational base digits
  let result := if result.contains '.' then result else result ++ ['.', '0']
  (isExact, result ++ ['e'] ++ (toString intdigits).toList)

def fractionText (q : Rat) : List Char :=
  if q.den == 1 then (toString q.num).toList else (toString q.num ++ "/" ++ toString q.den).toList

/-- `BigRat::to_string` -/
def ratToString (sizeInBase : Nat → Nat → Nat) (q : Rat) (base : Nat) (digits : Digits) : Bool × List Char :=
  if q == 0 then (true, ['0'])
  else if digits == .fraction then (true, fractionText q)
  else
    let a := q.abs
    let isComputerBase := base == 2 || base == 8 || base == 16 || base == 32
    let isComputerInteger := isComputerBase && q.den == 1
    let canUseSci := (digits == .default || digits == .engineering) && !isComputerInteger
    let inRange := a ≥ 1000000000 || a ≤ (1 : Rat) / 1000000000
    if digits == .scientific || (canUseSci && inRange) then toScientific sizeInBase q base digits
    else toDigitsImpl sizeInBase q base digits

/-- `Numeric::string_repr` for a rational: (exact text, approximate text) -/
def stringRepr (sizeInBase : Nat → Nat → Nat) (q : Rat) (base : Nat) (digits : Digits) :
    Option (List Char) × Option (List Char) :=
  match ratToString sizeInBase q base digits with
  | (true, v) => (some v, none)
  | (false, v) =>
    if q.den > 1000 || q.num > 1000000 then (none, some v)
    else (some ((toString q.num ++ "/" ++ toString q.den).toList), some v)   -- `format!("{}/{}", num, den)`, always base 10

/-- the `n` pattern of `NumberParts::format` -/
def nPattern : Option (List Char) × Option (List Char) → List Char
  | (some e, some a) => e ++ ", approx. ".toList ++ a
  | (some e, none) => e
  | (none, some a) => "approx. ".toList ++ a
  | (none, none) => []

end Rink.Digits
