/-
Model of the currency-cache refresh in `cli/src/config.rs`
(`download_to_file`, `read_if_current`, `cached`, `load_live_currency`, `try_load_currency`,
`load`, `force_refresh_currency`) and of the `--fetch-currency` arm of `cli/src/main.rs`.

The model is a list of *file operations on the cache directory* — one `Op` per system call
the Rust issues there — applied to an abstract file system.  The code is modelled as it is:

* `create_dir_all(parent)`                                  → `Op.mkdir`
* `tempfile::Builder::new().prefix("currency.").suffix(".json").tempfile_in(parent)`
                                                            → one `Op.createExcl` per candidate
  name `currency.<rand>.json` (open with `O_CREAT|O_EXCL`; a name that exists is skipped and
  the next random name is tried; when the candidates are exhausted `tempfile_in` fails and
  `?` returns before anything is transferred)
* libcurl calls the write callback once per received piece  → `Op.append temp piece`
  (the callback writes through a duplicate of the temp file's descriptor)
* `easy.perform()?` failing (transport error: refused, reset, timeout, body shorter than
  declared, local write failure turned into `WriteError::Pause` and then the timeout) or
  `status != 200` → the function returns `Err`, the `NamedTempFile` is dropped
                                                            → `Op.unlink temp`
* `sync_all()`                                              → `Op.fsync temp`
* `temp_file.persist(path)`                                 → `Op.rename temp cache`
* `File::open(&path)` in `cached()` (before the download and again on the fallback path)
                                                            → `Op.openRead cache`

A *server script* is a status code, the list of pieces the client would receive, and how the
transfer ends.  A *crash point* `k` is an index into the operation list: the process is killed
after `k` operations and nothing further happens (`runCrash`).  Note that a crashed run does
not execute the `unlink`: an orphan `currency.<rand>.json` may stay behind; it never has the
cache file's name (`tempName_ne_cacheName`).

What is assumed about the world (not modelled, see also `Props/C20.lean`):

* `rename(2)` is atomic: observers see the old or the new directory entry, never a mix —
  this is why `Op.rename` is one step;
* `kill -9` does not lose data already handed to `write(2)` (page cache survives the process);
  `fsync` matters only for power loss, where it orders the data before the rename — the model
  keeps it in the sequence (`rename_preceded_by_fsync`) but gives it no effect;
* libcurl reports a body shorter than the declared `Content-Length` (or a chunked body without
  its terminating chunk) as a transport error (`CURLE_PARTIAL_FILE`, `CURLE_RECV_ERROR`), i.e.
  such a server is a script ending in `transportError`.  A response whose length is delimited
  only by connection close and is cut by the peer cannot be told from a complete one by any
  client; such a server is, for this model, a script whose `chunks` are what arrived;
* only one process refreshes the cache directory at a time.

This file imports nothing outside core so that the driver links as a `lean_exe`.
-/
namespace Rink.Cache

abbrev Bytes := List UInt8

/-- A regular file: contents and modification time (seconds; only compared with `now`). -/
structure File where
  data : Bytes
  mtime : Nat
deriving DecidableEq, Repr

/-- The cache directory `$XDG_CACHE_HOME/rink`: does it exist, and which names hold a file. -/
structure FS where
  dir : Bool
  file : String → Option File

def FS.set (fs : FS) (n : String) (v : Option File) : FS :=
  { fs with file := fun m => if m = n then v else fs.file m }

/-- One system call on the cache directory. -/
inductive Op where
  /-- `open(name, O_RDONLY)`; no effect on the directory -/
  | openRead (n : String)
  /-- `mkdir(dir)` (succeeds or `EEXIST`) -/
  | mkdir
  /-- `open(name, O_RDWR|O_CREAT|O_EXCL)`; `EEXIST` (no effect) when the name is taken -/
  | createExcl (n : String)
  /-- `write(fd of name, chunk)` -/
  | append (n : String) (chunk : Bytes)
  | fsync (n : String)
  /-- `rename(src, dst)`: atomically makes `dst` refer to the file `src` referred to -/
  | rename (src dst : String)
  | unlink (n : String)
deriving DecidableEq, Repr

def apply (now : Nat) (fs : FS) : Op → FS
  | .openRead _ => fs
  | .mkdir => { fs with dir := true }
  | .createExcl n =>
    match fs.file n with
    | none => fs.set n (some ⟨[], now⟩)
    | some _ => fs
  | .append n c =>
    match fs.file n with
    | some f => fs.set n (some ⟨f.data ++ c, now⟩)
    | none => fs
  | .fsync _ => fs
  | .rename s d =>
    match fs.file s with
    | some f => (fs.set s none).set d (some f)
    | none => fs
  | .unlink n => fs.set n none

def run (now : Nat) (fs : FS) (ops : List Op) : FS := ops.foldl (apply now) fs

/-- The process is killed after `k` operations of `ops`. -/
def runCrash (now : Nat) (fs : FS) (ops : List Op) (k : Nat) : FS := run now fs (ops.take k)

/-! ## Names -/

/-- `[currency]` section of `config.toml` plus the file name `cached()`/`force_refresh_currency`
use (`currency.json`: stem `currency`, extension `json`). -/
structure Cfg where
  stem : String := "currency"
  ext : String := "json"
  enabled : Bool := true
  fetchOnStartup : Bool := true
  cacheDuration : Nat := 3600
deriving Repr

def Cfg.cache (c : Cfg) : String := c.stem ++ "." ++ c.ext

/-- `prefix = stem + "."`, `suffix = "." + ext`, name = prefix + rand + suffix. -/
def Cfg.temp (c : Cfg) (rand : String) : String := c.stem ++ "." ++ rand ++ "." ++ c.ext

/-! ## The server and the clock -/

inductive Ending where
  /-- every chunk arrived and the transfer ended cleanly: `perform()` returns `Ok` -/
  | complete
  /-- `perform()` returns `Err` after the first `k` chunks were handed to the write callback
  (refused connection: `k = 0` and no chunks; reset; short body; local write failure) -/
  | transportError (k : Nat)
  /-- the server goes quiet after `k` chunks and the client's timeout fires: `perform()`
  returns `Err` (`CURLE_OPERATION_TIMEDOUT`) -/
  | stall (k : Nat)
deriving DecidableEq, Repr

structure Script where
  status : Nat
  chunks : List Bytes
  ending : Ending
deriving Repr

def Script.delivered (s : Script) : List Bytes :=
  match s.ending with
  | .complete => s.chunks
  | .transportError k => s.chunks.take k
  | .stall k => s.chunks.take k

def Script.performOk (s : Script) : Bool :=
  match s.ending with
  | .complete => true
  | _ => false

/-- `perform()` returned `Ok` and `response_code() == 200`. -/
def Script.success (s : Script) : Bool := s.performOk && s.status == 200

/-- The complete new body. -/
def Script.body (s : Script) : Bytes := s.chunks.flatten

/-- What the outside world supplies to one run of the program. -/
structure Env where
  now : Nat
  /-- the random strings `tempfile` draws, in order -/
  rands : List String
  script : Script

/-! ## `download_to_file` -/

/-- `tempfile_in`: try candidates until one does not exist. Returns the `open` calls issued and
the name created (if any). -/
def createTemp (file : String → Option File) (c : Cfg) : List String → List Op × Option String
  | [] => ([], none)
  | r :: rs =>
    if (file (c.temp r)).isSome then
      let rest := createTemp file c rs
      (.createExcl (c.temp r) :: rest.1, rest.2)
    else ([.createExcl (c.temp r)], some (c.temp r))

/-- Result of `download_to_file`: the operations issued, and whether it returned `Ok`. -/
structure Download where
  ops : List Op
  ok : Bool

def download (c : Cfg) (fs : FS) (e : Env) : Download :=
  let cr := createTemp fs.file c e.rands
  match cr.2 with
  | none => { ops := .mkdir :: cr.1, ok := false }
  | some t =>
    let pre := .mkdir :: cr.1 ++ e.script.delivered.map (Op.append t)
    if e.script.success then
      { ops := pre ++ [.fsync t, .rename t c.cache], ok := true }
    else
      { ops := pre ++ [.unlink t], ok := false }

/-! ## `cached()` and `read_if_current` -/

/-- `read_if_current`: `now.duration_since(mtime)` must succeed (mtime not in the future) and,
when an expiration is given, `elapsed > expiration` is "out of date". -/
def isCurrent (now : Nat) (exp : Option Nat) (f : File) : Bool :=
  decide (f.mtime ≤ now) &&
  match exp with
  | none => true
  | some d => decide (now - f.mtime ≤ d)

inductive Source where
  | fresh | downloaded | stale
deriving DecidableEq, Repr

/-- Outcome of `cached()`: operations issued, resulting directory, and `Ok(file)` (contents
and where they came from) or `Err`. -/
structure Cached where
  ops : List Op
  fs : FS
  result : Option (Bytes × Source)

def cachedRefresh (c : Cfg) (fs : FS) (e : Env) : Cached :=
  let d := download c fs e
  let fs' := run e.now fs d.ops
  if d.ok then
    -- `persist` returns the temp file's handle, which now is the cache file
    { ops := .openRead c.cache :: d.ops, fs := fs',
      result := (fs'.file c.cache).map (fun f => (f.data, Source.downloaded)) }
  else
    -- `File::open(&path)` again: the stale file, with a printed warning, or `Err`
    { ops := .openRead c.cache :: d.ops ++ [.openRead c.cache], fs := fs',
      result := (fs'.file c.cache).map (fun f => (f.data, Source.stale)) }

def cached (c : Cfg) (exp : Option Nat) (fs : FS) (e : Env) : Cached :=
  match fs.file c.cache with
  | some f =>
    if isCurrent e.now exp f then
      { ops := [.openRead c.cache], fs := fs, result := some (f.data, .fresh) }
    else cachedRefresh c fs e
  | none => cachedRefresh c fs e

/-! ## `load()` and the two entry points -/

/-- What a start of the program amounts to. -/
structure Startup where
  ops : List Op
  fs : FS
  /-- `load()` returned `Ok(ctx)`: queries are evaluated / the prompt appears -/
  started : Bool
  /-- the text handed to `ctx.load_currency` (`None`: currency disabled or `cached()` failed) -/
  liveDefs : Option Bytes
  source : Option Source
  /-- `ctx.load_currency` succeeded, currency units are defined -/
  currencyLoaded : Bool

/-- `load()`.  `baseOk`: the bundled `definitions.units`/`datepatterns.txt` load (the only
fatal `?` in `load`).  `parses`: does `serde_json` accept this text as a list of definitions.
Any failure inside `try_load_currency` is printed (`Failed to load currency data`) and
otherwise ignored. -/
def load (c : Cfg) (baseOk : Bool) (parses : Bytes → Bool) (fs : FS) (e : Env) : Startup :=
  if !baseOk then
    { ops := [], fs := fs, started := false, liveDefs := none, source := none, currencyLoaded := false }
  else if !c.enabled then
    { ops := [], fs := fs, started := true, liveDefs := none, source := none, currencyLoaded := false }
  else
    let r := cached c (if c.fetchOnStartup then some c.cacheDuration else none) fs e
    match r.result with
    | some (b, src) =>
      { ops := r.ops, fs := r.fs, started := true, liveDefs := some b, source := some src,
        currencyLoaded := parses b }
    | none =>
      { ops := r.ops, fs := r.fs, started := true, liveDefs := none, source := none,
        currencyLoaded := false }

/-- `--fetch-currency`: `force_refresh_currency` downloads unconditionally (even when
currency is disabled or the cache is fresh); an error is the exit status of the process. -/
structure Fetch where
  ops : List Op
  fs : FS
  exitOk : Bool

def forceRefresh (c : Cfg) (fs : FS) (e : Env) : Fetch :=
  let d := download c fs e
  { ops := d.ops, fs := run e.now fs d.ops, exitOk := d.ok }

inductive Entry where
  | startup | fetchCurrency
deriving DecidableEq, Repr

/-- The operations an entry point issues on the cache directory. -/
def entryOps (c : Cfg) (entry : Entry) (fs : FS) (e : Env) : List Op :=
  match entry with
  | .startup => (load c true (fun _ => true) fs e).ops
  | .fetchCurrency => (forceRefresh c fs e).ops

end Rink.Cache
