/-!
Model of `core/src/types/dimensionality.rs` and `core/src/algorithms/btree_merge.rs`.

A `Dimensionality` is a `BTreeMap<BaseUnit, i64>`; here an association list kept strictly
sorted by key.  `Canonical` (sorted, no zero exponent) is a separate predicate, not a subtype.
Exponents are unbounded `Int` (the Rust `i64` overflows only beyond |exponent| = 2^63).
-/
namespace Rink

abbrev Dim := List (String × Int)

namespace Dim

/-- `btree_merge(left, right, f)`: merge two sorted association lists; on equal keys keep
`f a b` if it is `some`. -/
def merge (f : Int → Int → Option Int) : Dim → Dim → Dim
  | [], r => r
  | l, [] => l
  | (ka, va) :: l, (kb, vb) :: r =>
    if ka < kb then (ka, va) :: merge f l ((kb, vb) :: r)
    else if kb < ka then (kb, vb) :: merge f ((ka, va) :: l) r
    else match f va vb with
      | some v => (ka, v) :: merge f l r
      | none => merge f l r
termination_by l r => l.length + r.length

def addDrop (a b : Int) : Option Int := if a + b ≠ 0 then some (a + b) else none

/-- `&a * &b` -/
def mul (a b : Dim) : Dim := merge addDrop a b
/-- `recip` -/
def recip (a : Dim) : Dim := a.map fun (k, p) => (k, -p)
/-- `&a / &b` -/
def div (a b : Dim) : Dim := mul a (recip b)
/-- the map used by `Number::powi` and `Dimensionality::pow`: every exponent times `e`
(keeps zero entries when `e = 0`: this is what the Rust does). -/
def scale (a : Dim) (e : Int) : Dim := a.map fun (k, p) => (k, p * e)
/-- `powi` after the fix: zero exponents are dropped. -/
def pow (a : Dim) (e : Int) : Dim := if e = 0 then [] else scale a e

def baseUnit (name : String) : Dim := [(name, 1)]
def newDim (name : String) (p : Int) : Dim := [(name, p)]

def get (a : Dim) (k : String) : Int :=
  match a.find? (fun x => x.1 == k) with
  | some (_, p) => p
  | none => 0

/-- BTreeMap::insert on the sorted list -/
def insert (a : Dim) (k : String) (p : Int) : Dim :=
  match a with
  | [] => [(k, p)]
  | (k', p') :: rest =>
    if k < k' then (k, p) :: (k', p') :: rest
    else if k = k' then (k, p) :: rest
    else (k', p') :: insert rest k p

def fromList (l : List (String × Int)) : Dim := l.foldl (fun d (k, p) => insert d k p) []

def asSingle (a : Dim) : Option (String × Int) :=
  match a with
  | [x] => some x
  | _ => none

def Sorted : Dim → Prop
  | [] => True
  | [_] => True
  | (k1, _) :: (k2, p2) :: rest => k1 < k2 ∧ Sorted ((k2, p2) :: rest)

def NoZero (a : Dim) : Prop := ∀ x ∈ a, x.2 ≠ 0

/-- what a `Dimensionality` carried by a result must satisfy -/
def Canonical (a : Dim) : Prop := Sorted a ∧ NoZero a

def complexity (a : Dim) : Int := (a.map fun (_, p) => 1 + p.natAbs).foldl (· + ·) 0

def render (a : Dim) : String :=
  if a.isEmpty then "-" else ",".intercalate (a.map fun (k, p) => s!"{k}:{p}")

end Dim
end Rink
