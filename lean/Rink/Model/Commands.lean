import Rink.Model.Registry
/-!
Model of the `UnitsFor` and `Factorize` arms of `eval_query` (`core/src/runtime/eval.rs`) and
of `core/src/commands/factorize.rs`.
-/
namespace Rink.Commands
open Rink

/-! ### `units for` -/

/-- comparator of the `sort_by` in the `UnitsFor` arm -/
def cmpEntry (a b : Option String × String) : Ordering :=
  match a.1, b.1 with
  | none, none => .eq
  | some _, none => .lt
  | none, some _ => .gt
  | some c1, some c2 => match compare c1 c2 with
    | .eq => compare a.2 b.2
    | o => o

/-- stable insertion sort (`slice::sort_by` is stable) -/
def stableSort (l : List (Option String × String)) : List (Option String × String) :=
  l.foldr (fun x acc => insertSortedBack x acc) []
where
  /-- insert `x` before the first element strictly greater than it, scanning from the front, when
  `x` originally precedes all of `acc` -/
  insertSortedBack (x : Option String × String) : List (Option String × String) → List (Option String × String)
    | [] => [x]
    | y :: ys => if cmpEntry y x == .lt then y :: insertSortedBack x ys else x :: y :: ys

/-- group adjacent entries with the same category id -/
def groupAdjacent : List (Option String × String) → List (Option String × List String)
  | [] => []
  | (c, n) :: rest =>
    match groupAdjacent rest with
    | (c', ns) :: gs => if c == c' then (c, n :: ns) :: gs else (c, [n]) :: (c', ns) :: gs
    | [] => [(c, [n])]

/-- the entries of the `UnitsFor` arm before sorting: every non-alias unit of that
dimensionality, in key order, then the base unit's own (canonical) name when the
dimensionality is a single base unit to the first power -/
def unitsForEntries (reg : Registry) (canon : String → Option String) (x : Dim) : List (Option String × String) :=
  let fromUnits := reg.unitList.filterMap fun (name, u) =>
    match reg.definition name with
    | some (.alias _) => none
    | _ => if u.unit == x then some (reg.category name, name) else none
  match Dim.asSingle x with
  | some (dim, 1) =>
    let dimName := (canon dim).getD dim
    fromUnits ++ [(reg.category dimName, dimName)]
  | _ => fromUnits

def unitsFor (reg : Registry) (canon : String → Option String) (x : Dim) : List (Option String × List String) :=
  (groupAdjacent (stableSort (unitsForEntries reg canon x))).map fun (c, ns) =>
    ((c.bind reg.categoryName), ns)

/-! ### `factorize` -/

def score (d : Dim) : Nat := d.foldl (fun a (_, p) => a + 1 + p.natAbs) 0

abbrev Factors := Nat × List String

def factorsLt (a b : Factors) : Bool :=
  a.1 < b.1 || (a.1 == b.1 && decide (a.2 < b.2))

def insertFactor (x : Factors) : List Factors → List Factors
  | [] => [x]
  | y :: ys => if x == y then y :: ys else if factorsLt x y then x :: y :: ys else y :: insertFactor x ys

/-- sorted, de-duplicated, at most ten -/
def keepTen (l : List Factors) : List Factors := (l.foldl (fun acc x => insertFactor x acc) []).take 10

def insertName (n : String) : List String → List String
  | [] => [n]
  | m :: ms => if n ≤ m then n :: m :: ms else m :: insertName n ms

/-- `commands::factorize`: recursion on the complexity score (fuel = score + 1) -/
def factorize (quantities : List (Dim × String)) : Nat → Dim → List Factors
  | 0, _ => []
  | fuel + 1, v =>
    if v.isEmpty then [(0, [])]
    else
      let vs := score v
      quantities.reverse.foldl (fun (cands : List Factors) (entry : Dim × String) =>
        let res := Dim.mul v (entry.1.map fun (k, p) => (k, -p))
        if score res ≥ vs then cands
        else
          let sub := factorize quantities fuel res
          keepTen (cands ++ sub.map fun (s, names) => (s + 1, insertName entry.2 names))) []

/-- the reply: each factorization as name → multiplicity, in result order -/
def countNames : List String → List (String × Nat)
  | [] => []
  | n :: ns =>
    match countNames ns with
    | (m, k) :: rest => if m == n then (m, k + 1) :: rest else (n, 1) :: (m, k) :: rest
    | [] => [(n, 1)]

def factorizeReply (quantities : List (Dim × String)) (v : Dim) : List (List (String × Nat)) :=
  (factorize quantities (score v + 1) v).map fun (_, names) => countNames names

end Rink.Commands
