/-!
Outcome of a modelled Rust computation: `Result`/`Option`/panic made explicit.

* `err c`      — the Rust returns an error value of class `c` (message wording is not modelled)
* `panic s`    — the Rust panics at site `s` (unwrap, todo!, overflow in the test profile, …)
* `unsupported` — the input leaves the modelled subset (floats whose value matters, dates,
  substances, …); the correspondence check skips these lines and counts them.
-/
namespace Rink

inductive ErrClass where
  | generic | conformance | notfound
deriving Repr, DecidableEq, Inhabited

def ErrClass.toString : ErrClass → String
  | .generic => "generic" | .conformance => "conformance" | .notfound => "notfound"

inductive Outcome (α : Type) where
  | ok (a : α)
  | err (c : ErrClass)
  | panic (site : String)
  | unsupported (why : String)
deriving Repr, Inhabited, DecidableEq

namespace Outcome

@[inline] def bind {α β} (x : Outcome α) (f : α → Outcome β) : Outcome β :=
  match x with
  | ok a => f a
  | err c => err c
  | panic s => panic s
  | unsupported w => unsupported w

instance : Monad Outcome where
  pure := ok
  bind := bind

@[simp] theorem bind_ok {α β} (a : α) (f : α → Outcome β) : (ok a >>= f) = f a := rfl
@[simp] theorem bind_err {α β} (c) (f : α → Outcome β) : ((err c : Outcome α) >>= f) = err c := rfl
@[simp] theorem bind_panic {α β} (s) (f : α → Outcome β) : ((panic s : Outcome α) >>= f) = panic s := rfl
@[simp] theorem bind_unsupported {α β} (s) (f : α → Outcome β) :
    ((unsupported s : Outcome α) >>= f) = unsupported s := rfl
@[simp] theorem pure_eq {α} (a : α) : (pure a : Outcome α) = ok a := rfl

theorem bind_eq_ok {α β} (x : Outcome α) (f : α → Outcome β) (b : β) :
    (x >>= f) = ok b ↔ ∃ a, x = ok a ∧ f a = ok b := by
  cases x <;> simp [Bind.bind, bind]

def generic {α} : Outcome α := err .generic

def isOk {α} : Outcome α → Bool | ok _ => true | _ => false
def isPanic {α} : Outcome α → Bool | panic _ => true | _ => false

end Outcome
end Rink
