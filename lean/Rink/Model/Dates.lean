import Rink.Model.Number
/-!
Model of the date arithmetic of rink-rs (property C14):

* `core/src/parsing/datetime.rs`  — `to_duration`, `from_duration`, the `sec` and `offset`
  field computations of `parse_date`, and the construction of a datetime in `attempt`
  (`Parsed::to_naive_date` / `to_naive_time` / `to_fixed_offset`, the "today" and "midnight"
  fall-backs);
* `core/src/runtime/value.rs`     — `Add`/`Sub` for `Value::DateTime` (`checked_add_signed`,
  `checked_sub_signed`, `DateTime - DateTime`);
* `core/src/runtime/eval.rs`      — the `Conversion::Offset` and `Conversion::Timezone` arms;
* `core/src/parsing/text_query.rs` — `parse_offset`.

An instant is an integer number of nanoseconds since 1970-01-01T00:00:00Z (what chrono's
`NaiveDateTime` in UTC denotes; leap-second representations `frac ≥ 10⁹` are outside the
model) plus the zone it is displayed in.  A chrono `TimeDelta` is an integer number of
nanoseconds in `[-i64::MAX ms, i64::MAX ms]`.

The model describes the code that exists.  Where the pinned commit has a defect the
behaviour is selected by a field of `CodeVariant`: `CodeVariant.pinned` is the code as it
stands, `CodeVariant.repaired` the code after the proposed minimal patches; the driver
runs `CodeVariant.impl` — the single place to edit after a `fix:` commit in /repo.

Imports: Lean core only (through `Rink.Model.Number`).
-/
namespace Rink.Dates

/-- behaviour switches, one per defect of the pinned commit (see staging/C14/INTEGRATION.md) -/
structure CodeVariant where
  /-- factor `to_duration` applies to the sub-millisecond remainder (`rem * 1_000_000_000`);
  a remainder in milliseconds needs `1_000_000` -/
  subMsScale : Int
  /-- `Conversion::Offset`: `FixedOffset::east_opt(off).unwrap()` (false: panic) versus an
  error for `|off| ≥ 86400` (true) -/
  convOffsetChecked : Bool
  /-- `sec` field: `10u32.pow(9 - f.len() as u32)` underflows for more than 9 fraction digits
  (false: panic in the test profile) versus an error (true) -/
  secFracChecked : Bool
  /-- `offset` field of a literal: `h * 3600 + m * 60` in `i32` overflows (false: panic in the
  test profile) versus an error (true) -/
  litOffsetOverflowChecked : Bool
  /-- `attempt`: `to_fixed_offset().unwrap_or(UTC)` silently reads an offset of 24 h or more as
  UTC (false) versus an error (true) -/
  litOffsetRangeChecked : Bool
  /-- `attempt`: `(Ok(time), Err(_))` takes today's date and `(Err(_), Ok(date))` takes midnight
  for *any* error (false), also when the literal did spell a date / a time that is impossible
  (February 30th, minute 60, a weekday that does not match); true: only when that half is absent -/
  fallbackOnlyWhenAbsent : Bool
  /-- `attempt`, time-only literal with a zone name: `now.with_timezone(&tz).with_time(time).unwrap()`
  panics when today's local time does not exist or is ambiguous in that zone (false); true: a gap
  is an error, an ambiguous time takes the earlier instant as dated literals do -/
  todayLocalChecked : Bool
deriving Repr, DecidableEq, Inhabited

def CodeVariant.pinned : CodeVariant :=
  { subMsScale := 1000000000, convOffsetChecked := false, secFracChecked := false,
    litOffsetOverflowChecked := false, litOffsetRangeChecked := false, fallbackOnlyWhenAbsent := false,
    todayLocalChecked := false }

def CodeVariant.repaired : CodeVariant :=
  { subMsScale := 1000000, convOffsetChecked := true, secFracChecked := true,
    litOffsetOverflowChecked := true, litOffsetRangeChecked := true, fallbackOnlyWhenAbsent := true,
    todayLocalChecked := true }

/-- THE CODE AS IT IS.  Flip fields (or the whole value to `CodeVariant.repaired`) after the
corresponding `fix:` commit; the first line of the correspondence stream (`variant`) shows
which fields disagree with the implementation. -/
def CodeVariant.impl : CodeVariant := CodeVariant.repaired

/-! ## Durations: `to_duration` / `from_duration` -/

def i64Max : Int := 9223372036854775807
def i32Max : Int := 2147483647
def u32Max : Int := 4294967295
/-- `i64::max_value() / 1000`: the documented maximum, in seconds -/
def maxSecs : Int := 9223372036854775
/-- `TimeDelta::MAX` = `i64::MAX` milliseconds, in nanoseconds (`MIN = -MAX`) -/
def tdMaxNs : Int := 9223372036854775807000000

/-- `Numeric::to_int` on a rational: BigInt quotient (truncated toward zero), then
`BigInt::as_int` (`None` outside `i64`) -/
def toInt (q : Rat) : Option Int :=
  let i := Int.tdiv q.num q.den
  if -i64Max - 1 ≤ i ∧ i ≤ i64Max then some i else none

/-- `TimeDelta::new` range check, on nanoseconds -/
def tdNew (ns : Int) : Option Int :=
  if -tdMaxNs ≤ ns ∧ ns ≤ tdMaxNs then some ns else none

/-- `to_duration` on the value of a number of seconds, with the factor applied to the
sub-millisecond remainder as a parameter:
```
let max = Numeric::from(i64::max_value() / 1000);
if num.value.abs() > max { return Err(..) }
let ms = &num.value * &Numeric::from(1000);
let (ms, rem) = ms.div_rem(&Numeric::from(1));
let ns = &rem * &Numeric::from(1_000_000_000);
Ok(Duration::milliseconds(ms.to_int().unwrap()) + Duration::nanoseconds(ns.to_int().unwrap()))
``` -/
def toDurationWith (scale : Int) (t : Rat) : Outcome Int :=
  if t.abs > (maxSecs : Rat) then .err .generic else
  match Numeric.divRem (.rational (t * 1000)) (.rational 1) with
  | .ok (.rational ms, .rational rem) =>
    let ns : Rat := rem * (scale : Rat)
    match toInt ms, toInt ns with
    | some msI, some nsI =>
      -- `Duration::milliseconds` refuses only values below `-i64::MAX`
      if msI < -i64Max then .panic "TimeDelta::milliseconds out of bounds" else
      -- `Duration::nanoseconds` is total; `+` is `checked_add(..).expect(..)`
      match tdNew (msI * 1000000 + nsI) with
      | some d => .ok d
      | none => .panic "`TimeDelta + TimeDelta` overflowed"
    | _, _ => .panic "to_int().unwrap()"
  | .ok _ => .unsupported "float"
  | .err c => .err c
  | .panic s => .panic s
  | .unsupported w => .unsupported w

/-- the pinned code: the remainder (a fraction of a *millisecond*) is multiplied by 10⁹ -/
def toDuration (t : Rat) : Outcome Int := toDurationWith 1000000000 t
/-- the repaired computation: a fraction of a millisecond is 10⁶ nanoseconds -/
def toDurationFixed (t : Rat) : Outcome Int := toDurationWith 1000000 t

def secondsDim : Dim := Dim.baseUnit "s"

/-- `to_duration(&Number)`: the unit must be exactly `s` -/
def toDurationNum (v : CodeVariant) (n : Number) : Outcome Int :=
  if n.unit != secondsDim then .err .generic else
  match n.value with
  | .rational t => toDurationWith v.subMsScale t
  | .float => .unsupported "float duration"

/-- `from_duration`:
```
let ms = duration.num_milliseconds();
let ns = (*duration - Duration::milliseconds(ms)).num_nanoseconds().unwrap();
ratio(ms, 1000) + ratio(ns, 1_000_000_000)
```
`num_milliseconds` truncates toward zero. -/
def fromDuration (d : Int) : Outcome Rat :=
  let ms := Int.tdiv d 1000000
  let rest := d - ms * 1000000
  if -i64Max - 1 ≤ rest ∧ rest ≤ i64Max then
    .ok ((ms : Rat) / 1000 + (rest : Rat) / 1000000000)
  else .panic "num_nanoseconds().unwrap()"

/-! ## Proleptic Gregorian calendar -/

def isLeap (y : Int) : Bool := y % 4 == 0 && (y % 100 != 0 || y % 400 == 0)

def monthLength (y m : Int) : Int :=
  if m == 2 then (if isLeap y then 29 else 28)
  else if m == 4 || m == 6 || m == 9 || m == 11 then 30 else 31

def yearLength (y : Int) : Int := if isLeap y then 366 else 365

/-- days from 0001-01-01 to `y`-01-01 (`/` on `Int` rounds toward −∞ for a positive divisor) -/
def daysBeforeYear (y : Int) : Int := 365 * (y - 1) + (y - 1) / 4 - (y - 1) / 100 + (y - 1) / 400

/-- days before the first of month `m` in a common year -/
def cumDays (m : Int) : Int :=
  if m ≤ 1 then 0 else if m == 2 then 31 else if m == 3 then 59 else if m == 4 then 90
  else if m == 5 then 120 else if m == 6 then 151 else if m == 7 then 181 else if m == 8 then 212
  else if m == 9 then 243 else if m == 10 then 273 else if m == 11 then 304 else 334

def daysBeforeMonth (y m : Int) : Int := cumDays m + (if m > 2 && isLeap y then 1 else 0)

/-- days from 1970-01-01 to the given day number of year `y` (`ord = 1` is January 1st) -/
def daysFromOrdinal (y ord : Int) : Int := daysBeforeYear y + (ord - 1) - 719162

/-- days from 1970-01-01 to the civil date `y-m-d` -/
def daysFromCivil (y m d : Int) : Int := daysFromOrdinal y (daysBeforeMonth y m + d)

def validYmd (y m d : Int) : Bool := 1 ≤ m && m ≤ 12 && 1 ≤ d && d ≤ monthLength y m
def validYo (y ord : Int) : Bool := 1 ≤ ord && ord ≤ yearLength y

/-- day of the week, Monday = 0 … Sunday = 6 (1970-01-01 was a Thursday) -/
def weekdayOf (days : Int) : Int := (days + 3) % 7

/-! ## Instants -/

inductive Zone where
  | fixed (off : Int)        -- `DateTime<FixedOffset>`, seconds east of UTC
  | named (id : String)      -- `DateTime<Tz>`; the zone's rules are not modelled
deriving Repr, DecidableEq, Inhabited

structure Instant where
  /-- nanoseconds since 1970-01-01T00:00:00Z -/
  ns : Int
  zone : Zone
deriving Repr, DecidableEq, Inhabited

def nsPerSec : Int := 1000000000
def nsPerDay : Int := 86400000000000

/-- `NaiveDate::MIN` = -262143-01-01, `NaiveDate::MAX` = +262142-12-31, as day numbers -/
def minDay : Int := -96465292
def maxDay : Int := 95026236
/-- first and last representable instant (`NaiveDateTime::MIN` / `MAX` read as UTC) -/
def minNs : Int := minDay * nsPerDay
def maxNs : Int := (maxDay + 1) * nsPerDay - 1

def inRange (ns : Int) : Bool := minNs ≤ ns && ns ≤ maxNs

/-- `DateTime::checked_add_signed`: the UTC datetime plus the delta, `None` outside the range -/
def checkedAdd (d : Instant) (delta : Int) : Outcome Instant :=
  if inRange (d.ns + delta) then .ok { d with ns := d.ns + delta } else .err .generic

/-- `DateTime::checked_sub_signed` -/
def checkedSub (d : Instant) (delta : Int) : Outcome Instant :=
  if inRange (d.ns - delta) then .ok { d with ns := d.ns - delta } else .err .generic

/-- `Value::DateTime + Value::Number` -/
def addDur (v : CodeVariant) (d : Instant) (t : Number) : Outcome Instant := do
  let delta ← toDurationNum v t
  checkedAdd d delta

/-- `Value::DateTime - Value::Number` -/
def subDur (v : CodeVariant) (d : Instant) (t : Number) : Outcome Instant := do
  let delta ← toDurationNum v t
  checkedSub d delta

/-- `Value::DateTime - Value::DateTime`: `signed_duration_since` (`expect("always in range")`)
then `from_duration`; all four Fixed/Timezone combinations subtract the instants. -/
def diff (a b : Instant) : Outcome Number :=
  match tdNew (a.ns - b.ns) with
  | none => .panic "signed_duration_since: always in range"
  | some d =>
    match fromDuration d with
    | .ok q => .ok ⟨.rational q, secondsDim⟩
    | .err c => .err c
    | .panic s => .panic s
    | .unsupported w => .unsupported w

/-! ## `-> +HH:MM` and `-> "Zone/Name"` -/

inductive OffTok where
  | plus | minus | colon
  | dec (digits : String)     -- `Token::Decimal(digits, None, None)`
  | other
deriving Repr, DecidableEq, Inhabited

def isDigit (c : Char) : Bool := '0' ≤ c && c ≤ '9'

/-- value of a string of decimal digits (`from_str` on text the lexer produced) -/
def digitsVal (s : String) : Int :=
  s.toList.foldl (fun acc c => acc * 10 + ((c.toNat - 48 : Nat) : Int)) 0

def allDigits (s : String) : Bool := !s.isEmpty && s.toList.all isDigit

/-- `parse_offset`: sign, two digits, colon, two digits, nothing else checked -/
def parseOffset : List OffTok → Option Int
  | sign :: .dec h :: .colon :: .dec m :: _ =>
    let s : Option Int := match sign with | .plus => some 1 | .minus => some (-1) | _ => none
    match s with
    | none => none
    | some s =>
      if h.length == 2 && m.length == 2 then some (s * (digitsVal h * 3600 + digitsVal m * 60)) else none
  | _ => none

/-- the `Conversion::Offset` arm applied to a date value -/
def convertOffset (v : CodeVariant) (d : Instant) (off : Int) : Outcome Instant :=
  if -86400 < off ∧ off < 86400 then .ok { d with zone := .fixed off }
  else if v.convOffsetChecked then .err .generic
  else .panic "FixedOffset::east_opt(off).unwrap()"

/-- the `Conversion::Timezone` arm: `with_timezone` keeps the instant -/
def convertZone (d : Instant) (id : String) : Outcome Instant := .ok { d with zone := .named id }

/-! ## Date literals: field computations of `parse_date` and `attempt` -/

/-- `u32::from_str_radix(digits, 10)` -/
def parseU32 (s : String) : Option Int :=
  if allDigits s && digitsVal s ≤ u32Max then some (digitsVal s) else none
/-- `i32::from_str_radix(digits, 10)` on a digit string -/
def parseI32 (s : String) : Option Int :=
  if allDigits s && digitsVal s ≤ i32Max then some (digitsVal s) else none

/-- the `sec` pattern on `DateToken::Number(s, f)`: `(second, nanosecond)`; `err` = the
pattern does not match. -/
def secField (v : CodeVariant) (s : String) (f : Option String) : Outcome (Int × Option Int) :=
  match f with
  | none =>
    if s.length == 2 && allDigits s && digitsVal s ≤ 60 then .ok (digitsVal s, none) else .err .generic
  | some f =>
    if s.length != 2 then .err .generic else
    match parseU32 s, parseU32 f with
    | some secs, some nsecs =>
      if f.length > 9 then
        (if v.secFracChecked then .err .generic else .panic "9 - f.len() as u32")
      else .ok (secs, some (nsecs * (10 : Int) ^ (9 - f.length)))
    | _, _ => .err .generic

/-- the numeric branch of the `offset` pattern: `+HHMM` (exactly four digits) or `+H…:MM` -/
def litOffset (v : CodeVariant) (sign : Int) (h : String) (m : Option String) : Outcome Int :=
  if h.length == 4 && allDigits h then
    match m with
    | some _ => .err .generic      -- `:MM` is left over, the pattern fails at eof
    | none => .ok (sign * ((digitsVal h / 100) * 3600 + (digitsVal h % 100) * 60))
  else
    match parseI32 h, m with
    | some hv, some m =>
      if m.length == 2 && allDigits m && digitsVal m ≤ 59 then
        if hv * 3600 + digitsVal m * 60 > i32Max then
          (if v.litOffsetOverflowChecked then .err .generic else .panic "h * 3600 + m * 60")
        else .ok (sign * (hv * 3600 + digitsVal m * 60))
      else .err .generic
    | _, _ => .err .generic

/-- chrono's `LocalResult` for a local wall-clock time in a zone (offsets in seconds) -/
inductive LocalRes where
  | single (off : Int)
  | ambiguous (earliest latest : Int)
  | gap
deriving Repr, DecidableEq, Inhabited

/-- what the literal says about its zone -/
inductive ZoneF where
  | absent
  | fixed (sign : Int) (h : String) (m : Option String)
  /-- a zone name; chrono-tz's answers are inputs of the model: the zone's offset at `now`
  and the `LocalResult` of the literal's local time in that zone -/
  | named (id : String) (offNow : Int) (loc : LocalRes)
deriving Repr, Inhabited

/-- what the literal says about its date, as stored in `Parsed` -/
inductive DateF where
  | absent
  | ymd (y m d : Int) (weekday : Option Int)
  | yo (y ord : Int)
  /-- fields from which `to_naive_date` cannot build a date (ISO week without weekday,
  month and day without year) -/
  | unusable
deriving Repr, Inhabited

inductive TimeF where
  | absent
  | hm (h mi : Int) (sec : Option (String × Option String))
deriving Repr, Inhabited

structure Literal where
  date : DateF
  time : TimeF
  zone : ZoneF
deriving Repr, Inhabited

/-- `Parsed::to_naive_date`: day number, `none` = `Err` -/
def resolveDate : DateF → Option Int
  | .absent => none
  | .unusable => none
  | .ymd y m d wd =>
    if validYmd y m d && -262143 ≤ y && y ≤ 262142 then
      let days := daysFromCivil y m d
      match wd with
      | none => some days
      | some w => if weekdayOf days == w then some days else none
    else none
  | .yo y ord =>
    if validYo y ord && -262143 ≤ y && y ≤ 262142 then some (daysFromOrdinal y ord) else none

def DateF.present : DateF → Bool
  | .absent => false
  | _ => true

def TimeF.present : TimeF → Bool
  | .absent => false
  | _ => true

/-- token-level range checks of `parse_date` (`monthnum` 1..=12, `day` 1..=31, `ordinal`
1..=366, `hour24` 0..=23, `min` 0..=60): a miss makes every pattern fail -/
def tokensOk (l : Literal) : Bool :=
  (match l.date with
   | .ymd _ m d wd => 1 ≤ m && m ≤ 12 && 1 ≤ d && d ≤ 31 &&
       (match wd with | none => true | some w => 0 ≤ w && w ≤ 6)
   | .yo _ ord => 1 ≤ ord && ord ≤ 366
   | _ => true) &&
  (match l.time with
   | .hm h mi _ => 0 ≤ h && h ≤ 23 && 0 ≤ mi && mi ≤ 60
   | .absent => true)

/-- `Parsed::to_naive_time`: seconds of the day and nanoseconds; `err` = `Err`;
a leap second (`second = 60`) is outside the integer-nanosecond abstraction -/
def resolveTime (v : CodeVariant) : TimeF → Outcome (Option (Int × Int))
  | .absent => .ok none
  | .hm h mi sec => do
    let (s, ns) ← (match sec with
      | none => (.ok (0, none) : Outcome (Int × Option Int))
      | some (s, f) => secField v s f)
    if s == 60 then .unsupported "leap second"
    else if mi ≤ 59 && s ≤ 59 then .ok (some (h * 3600 + mi * 60 + s, ns.getD 0))
    else .ok none

/-- local wall-clock nanoseconds since the epoch of (day, second of day, nanosecond) -/
def localNs (days sod ns : Int) : Int := (days * 86400 + sod) * nsPerSec + ns

def floorDiv (a b : Int) : Int := a / b

/-- the zone of a literal: the displayed zone, its offset at `now`, and the `LocalResult` of
the literal's wall-clock time.  An explicit offset is computed while the pattern is matched
(`litOffset`); `attempt` then asks `parsed.to_fixed_offset()` and falls back to UTC. -/
def resolveZone (v : CodeVariant) : ZoneF → Outcome (Zone × Int × LocalRes)
  | .absent => .ok (.fixed 0, 0, .single 0)
  | .fixed sign h m =>
    match litOffset v sign h m with
    | .ok off =>
      if -86400 < off ∧ off < 86400 then .ok (.fixed off, off, .single off)
      else if v.litOffsetRangeChecked then .err .generic
      else .ok (.fixed 0, 0, .single 0)
    | .err c => .err c
    | .panic s => .panic s
    | .unsupported w => .unsupported w
  | .named id offNow loc => .ok (.named id, offNow, loc)

/-- a local wall-clock time read at offset `off`; the UTC datetime must be representable -/
def placeAt (z : Zone) (off days sod ns : Int) : Outcome Instant :=
  if inRange (localNs days sod ns - off * nsPerSec) then .ok ⟨localNs days sod ns - off * nsPerSec, z⟩
  else .err .generic

/-- `zone.from_local_datetime(..).earliest().ok_or("… not a valid moment in time")` -/
def placeEarliest (z : Zone) (loc : LocalRes) (days sod ns : Int) : Outcome Instant :=
  match loc with
  | .single off => placeAt z off days sod ns
  | .ambiguous off _ => placeAt z off days sod ns
  | .gap => .err .generic

/-- the `match (time, date)` of `attempt`; `time` = (second of day, nanosecond) -/
def assemble (v : CodeVariant) (now : Int) (l : Literal) (time : Option (Int × Int)) (date : Option Int)
    (zone : Zone × Int × LocalRes) : Outcome Instant :=
  match time, date with
  | some (sod, ns), some days => placeEarliest zone.1 zone.2.2 days sod ns
  | some (sod, ns), none =>
    if v.fallbackOnlyWhenAbsent && l.date.present then .err .generic
    else
      -- `now.with_timezone(&zone).with_time(time).unwrap()`: today's date in that zone
      match zone.2.2 with
      | .single off => placeAt zone.1 off (floorDiv (now + zone.2.1) 86400) sod ns
      | loc =>
        if v.todayLocalChecked then placeEarliest zone.1 loc (floorDiv (now + zone.2.1) 86400) sod ns
        else .panic "LocalResult::unwrap"
  | none, some days =>
    if v.fallbackOnlyWhenAbsent && l.time.present then .err .generic
    else placeEarliest zone.1 zone.2.2 days 0 0
  | none, none => .err .generic

/-- `try_decode` on a literal whose tokens were generated from the fields `l`: the pattern
match (token ranges, `sec`, `offset`) followed by `attempt`'s construction.  `now` is the
pinned clock in whole seconds since the epoch. -/
def literalInstant (v : CodeVariant) (now : Int) (l : Literal) : Outcome Instant :=
  if !tokensOk l then .err .generic else
  match resolveTime v l.time with
  | .ok time =>
    match resolveZone v l.zone with
    | .ok zone => assemble v now l time (resolveDate l.date) zone
    | .err c => .err c
    | .panic s => .panic s
    | .unsupported w => .unsupported w
  | .err c => .err c
  | .panic s => .panic s
  | .unsupported w => .unsupported w

/-- the instant of a fully specified civil date and time at a fixed offset -/
def mkInstant (y m d h mi s ns off : Int) : Outcome Instant :=
  if validYmd y m d && 0 ≤ h && h ≤ 23 && 0 ≤ mi && mi ≤ 59 && 0 ≤ s && s ≤ 59 && 0 ≤ ns && ns < nsPerSec
      && -86400 < off && off < 86400 then
    placeAt (.fixed off) off (daysFromCivil y m d) (h * 3600 + mi * 60 + s) ns
  else .err .generic

end Rink.Dates
