import Rink.Model.Parse
import Rink.Model.Registry
import Rink.Model.Commands
/-!
Model of `core/src/runtime/eval.rs` (`eval_expr`, `eval_unit_name`, `to_list`, `eval_query`)
and `core/src/helpers.rs::eval`, restricted to `Value::Number`.  Dates and substances answer
`unsupported` (they have their own models); machine floats are opaque.
-/
namespace Rink.Eval
open Rink

def radian : Dim := Dim.baseUnit "radian"

/-- a float result carrying `unit` (value opaque) -/
def floatWith (unit : Dim) : Outcome Number := .ok ⟨.float, unit⟩

def applyFunc (f : Func) (args : List Number) : Outcome Number :=
  match f, args with
  | .sqrt, [n] => Number.root n 2
  | .exp, [n] | .ln, [n] | .log2, [n] | .log10, [n]
  | .sinh, [n] | .cosh, [n] | .tanh, [n] | .asinh, [n] | .acosh, [n] | .atanh, [n] => floatWith n.unit
  | .log, [n, b] => if !b.dimless then .err .generic else floatWith n.unit
  | .hypot, [x, y] => if x.unit != y.unit then .err .generic else floatWith x.unit
  | .atan2, [x, y] => if x.unit != y.unit then .err .generic else floatWith radian
  | .sin, [n] | .cos, [n] | .tan, [n] =>
    if !n.dimless && n.unit != radian then .err .generic else floatWith []
  | .asin, [n] | .acos, [n] | .atan, [n] => if !n.dimless then .err .generic else floatWith radian
  | _, _ => .err .generic   -- argument number mismatch

def applyBin (op : BinOp) (l r : Number) : Outcome Number :=
  match op with
  | .add => Number.add l r
  | .sub => Number.sub l r
  | .frac => Number.div l r
  | .pow => Number.pow l r
  | .equals => .panic "Should be unreachable"
  | .shl => Number.shl l r
  | .shr => Number.shr l r
  | .mod => Number.rem l r
  | .and => Number.and l r
  | .or => Number.or l r
  | .xor => Number.xor l r

mutual
def evalExpr (ctx : Ctx) : Expr → Outcome Number
  | .unit name =>
    if name == "now" then .unsupported "date"
    else match ctx.lookup name with
      | some n => .ok n
      | none =>
        if ctx.reg.isSubstanceLike name || ctx.reg.isFormula name then .unsupported "substance"
        else .err .notfound
  | .quote s => .ok (Number.oneUnit s)
  | .const v => .ok (Number.ofNumeric v)
  | .date _ => .unsupported "date"
  | .binop .equals l r =>
    match l with
    | .unit _ => evalExpr ctx r
    | _ => .err .generic
  | .binop op l r => do
    let a ← evalExpr ctx l
    let b ← evalExpr ctx r
    applyBin op a b
  | .unary .positive e => evalExpr ctx e
  | .unary .negative e => do let v ← evalExpr ctx e; pure (Number.neg v)
  | .unary (.degree d) e => do
    let v ← evalExpr ctx e
    if v.unit != [] then .err .generic
    else
      let (base, scale) := d.baseScale
      match ctx.lookup scale, ctx.lookup base with
      | some s, some b =>
        let scaled := Number.mul v s
        -- (after the fix: a database whose zero point is not in the scale's unit is an error, not a panic)
        if scaled.unit != b.unit then .err .generic
        else .ok ⟨scaled.value.add b.value, scaled.unit⟩
      | _, _ => .err .generic      -- the database lacks the scale's unit or zero point
  | .mul es => evalMul ctx Number.one es
  | .ofProp p (.unit name) =>
    -- `ctx.lookup(name)` is tried first; a Number has no properties ("Not defined")
    if name == "now" then .unsupported "date"
    else match ctx.lookup name with
      | some _ => .err .generic
      | none =>
        match ctx.reg.substance name with
        | some s => Substance.get s p
        | none =>
          if ctx.reg.isSubstanceLike name || ctx.reg.isFormula name then .unsupported "substance" else .err .notfound
  | .ofProp p (.mul es) => do
    let (amount, sub) ← evalFactors ctx Number.one none es
    match sub with
    | some s => Substance.get { s with amount := Number.mul s.amount amount } p
    | none => .err .generic
  | .ofProp _ e => do
    let _ ← evalExpr ctx e
    .err .generic        -- a Number has no properties ("Not defined")
  | .call f args => do
    let vs ← evalArgs ctx args
    applyFunc f vs
  | .error msg => if msg == Parse.hugeMarker then .unsupported "huge literal" else .err .generic

def evalMul (ctx : Ctx) (acc : Number) : List Expr → Outcome Number
  | [] => .ok acc
  | e :: es => do
    let b ← evalExpr ctx e
    evalMul ctx (Number.mul acc b) es

/-- factors of a product under `of`: numbers multiply the amount, one factor may name a substance
(`Value::Number * Value::Substance`); two substances are "not defined" -/
def evalFactors (ctx : Ctx) (acc : Number) (sub : Option Substance) : List Expr → Outcome (Number × Option Substance)
  | [] => .ok (acc, sub)
  | .unit name :: es =>
    if name == "now" then .unsupported "date"
    else match ctx.lookup name with
      | some n => evalFactors ctx (Number.mul acc n) sub es
      | none =>
        match ctx.reg.substance name with
        | some s =>
          (match sub with
           | none => evalFactors ctx acc (some s) es
           | some _ => .err .generic)
        | none =>
          if ctx.reg.isSubstanceLike name || ctx.reg.isFormula name then .unsupported "substance" else .err .notfound
  | e :: es => do
    let n ← evalExpr ctx e
    evalFactors ctx (Number.mul acc n) sub es

def evalArgs (ctx : Ctx) : List Expr → Outcome (List Number)
  | [] => .ok []
  | e :: es => do
    let v ← evalExpr ctx e
    let vs ← evalArgs ctx es
    pure (v :: vs)
end

/-! ### `eval_unit_name` -/

abbrev NameMap := List (String × Int)

def nmInsert (m : NameMap) (k : String) (p : Int) : NameMap := Dim.insert m k p
def nmMerge (a b : NameMap) : NameMap := Dim.merge Dim.addDrop a b

/-- `x.to_f64() as isize` for a rational, where it is determined without looking at floats:
integers below 2^53 are exact; other values are truncated when safely away from an integer. -/
def truncCast (q : Rat) : Option Int :=
  if q.den = 1 then (if q.num.natAbs < 9007199254740992 then some q.num else none)
  else
    let t := Int.tdiv q.num q.den
    let fracNum := (q.num - t * q.den).natAbs   -- |q - t| * den
    -- keep away from both neighbouring integers by 2^-20, and stay small
    if t.natAbs < 1048576 && fracNum * 1048576 > q.den && (q.den - fracNum) * 1048576 > q.den
    then some t else none

/-- `and` / `or` / `xor` in a conversion target: dimensionless operands, the constants combine -/
def unitNameBits (f : Number → Number → Outcome Number) (a b : NameMap × Numeric) : Outcome (NameMap × Numeric) :=
  if !a.1.isEmpty || !b.1.isEmpty then .err .generic else do
  let v ← f ⟨a.2, []⟩ ⟨b.2, []⟩
  pure (a.1, v.value)

def evalUnitName (ctx : Ctx) : Expr → Outcome (NameMap × Numeric)
  | .call _ _ => .err .generic
  | .unit name => .ok ([((ctx.canonicalize name).getD name, 1)], .one)
  | .quote name => .ok ([((ctx.canonicalize name).getD name, 1)], .one)
  | .const v => .ok ([], v)
  | .binop .equals l _ =>
    match l with
    | .unit name => .ok ([(name, 1)], .one)
    | _ => .err .generic
  | .binop .add l r => do
    let (lu, lv) ← evalUnitName ctx l
    let (ru, rv) ← evalUnitName ctx r
    -- both sides name the same unit, so the constants combine
    if lu != ru then .err .generic else pure (lu, lv.add rv)
  | .binop .sub l r => do
    let (lu, lv) ← evalUnitName ctx l
    let (ru, rv) ← evalUnitName ctx r
    if lu != ru then .err .generic else pure (lu, lv.sub rv)
  | .binop .mod l r => do
    let (lu, lv) ← evalUnitName ctx l
    let (ru, rv) ← evalUnitName ctx r
    if lu != ru then .err .generic else do
    let v ← Number.rem ⟨lv, []⟩ ⟨rv, []⟩
    pure (lu, v.value)
  | .binop .frac l r => do
    let (lu, lv) ← evalUnitName ctx l
    let (ru, rv) ← evalUnitName ctx r
    -- a zero divisor is "Division by zero" (only the left value of a sum is kept, so `m / (0 + 1)` divides by 0)
    if rv == .rational 0 then .err .generic else
    if rv == .float then .unsupported "float divisor in conversion target" else do
    let v ← Numeric.div lv rv
    pure (nmMerge lu (ru.map fun (k, p) => (k, -p)), v)
  | .binop .pow l r => do
    let e ← evalExpr ctx r
    if !e.dimless then .err .generic else do
    let (lu, lv) ← evalUnitName ctx l
    -- the constant and the named units are raised the way a value is (`Number::pow`, each name
    -- standing for a base unit)
    let res ← Number.pow ⟨lv, lu⟩ e
    -- a constant that is not a finite number is refused; whether a machine float is finite is outside the model
    if res.value == .float then .unsupported "float constant in conversion target" else
    pure (res.unit, res.value)
  | .binop .shl _ _ | .binop .shr _ _ => .err .generic
  | .binop .and l r => do
    let a ← evalUnitName ctx l
    let b ← evalUnitName ctx r
    unitNameBits Number.and a b
  | .binop .or l r => do
    let a ← evalUnitName ctx l
    let b ← evalUnitName ctx r
    unitNameBits Number.or a b
  | .binop .xor l r => do
    let a ← evalUnitName ctx l
    let b ← evalUnitName ctx r
    unitNameBits Number.xor a b
  | .mul es =>
    match es with
    | [] => .panic "exprs[1..] on empty Mul"
    | e :: rest => do
      let first ← evalUnitName ctx e
      unitNameFold ctx first rest
  | .ofProp _ e => do
    let _ ← evalExpr ctx e
    .err .generic
  | .unary .positive e => evalUnitName ctx e
  | .unary .negative e => do let (u, v) ← evalUnitName ctx e; pure (u, v.neg)
  | .unary (.degree _) _ => .err .generic
  | .date _ => .err .generic
  | .error msg => if msg == Parse.hugeMarker then .unsupported "huge literal" else .err .generic
where
  unitNameFold (ctx : Ctx) (acc : NameMap × Numeric) : List Expr → Outcome (NameMap × Numeric)
    | [] => .ok acc
    | e :: es => do
      let (b, bv) ← evalUnitName ctx e
      unitNameFold ctx (nmMerge acc.1 b, acc.2.mul bv) es

/-! ### replies -/

structure ListEntry where
  name : String
  value : Numeric
deriving Repr

inductive Reply where
  | number (n : Number)
  | duration (raw : Number) (parts : List ListEntry)
  | defn (name canon : String) (value : Option Number)
  | conversion (raw : Number) (bottom : Number) (names : NameMap) (const : Numeric)
      (base : Nat) (digits : Digits)
  | convNone (n : Number) (base : Nat) (digits : Digits) (baseGiven : Bool)
  | unitList (top : Number) (parts : List ListEntry)
  | unitsFor (of : Number) (groups : List (Option String × List String))
  | factorize (results : List (List (String × Nat)))
deriving Repr

/-- the numeric loop of `to_list` -/
def listLoop : Numeric → List Number → Outcome (List Numeric)
  | _, [] => .ok []
  | v, [u] => do let q ← Numeric.div v u.value; pure [q]
  | v, u :: us => do
    let (d, r) ← Numeric.divRem v u.value
    let rest ← listLoop r us
    pure (d :: rest)

def lookupAll (ctx : Ctx) : List String → Outcome (List Number)
  | [] => .ok []
  | n :: ns =>
    match ctx.lookup n with
    | some v => do let vs ← lookupAll ctx ns; pure (v :: vs)
    | none => .err .notfound

/-- `to_list` (after the fix: a zero-valued member is an error) -/
def toList (ctx : Ctx) (top : Number) (names : List String) : Outcome (List ListEntry) := do
  let units ← lookupAll ctx names
  match units with
  | [] => .err .generic
  | first :: rest =>
    if rest.any (fun x => x.unit != first.unit) then .err .generic
    else if top.unit != first.unit then .err .conformance
    else if units.any (fun u => match u.value with | .rational q => q == 0 | .float => false) then .err .generic
    else if units.any (fun u => u.value == .float) || top.value == .float then .unsupported "float in unit list"
    else do
      let vals ← listLoop top.value units
      pure ((names.zip vals).map fun (n, v) => ⟨n, v⟩)

def canShowDefinition (ctx : Ctx) (name : String) : Bool :=
  (ctx.reg.definition name).isSome || ctx.reg.isBaseUnit name ||
  match ctx.canonicalize name with
  | some c => (ctx.reg.definition c).isSome || ctx.reg.isBaseUnit c
  | none => false

/-- `expand_aliases`; `none` = an `assert!` fired -/
def expandAliases (ctx : Ctx) : Nat → String → String → Option (String × String)
  | 0, name, canon => some (name, canon)
  | fuel + 1, name, canon =>
    let d := match ctx.reg.definition name with
      | some x => some x
      | none => ctx.reg.definition canon
    match d with
    | some (.alias unit) =>
      if ctx.reg.isBaseUnit name then some (name, canon)
      else
        let unitCanon := (ctx.canonicalize unit).getD unit
        if ctx.reg.isBaseUnit unit then some (unit, unitCanon)
        else if (ctx.reg.definition unit).isNone then
          if (ctx.reg.definition unitCanon).isNone then some (name, canon)
          else if name == unitCanon && canon == unitCanon then none
          else expandAliases ctx fuel unitCanon unitCanon
        else if name == unit && canon == unitCanon then none
        else expandAliases ctx fuel unit unitCanon
    | _ => some (name, canon)

def secondDim : Dim := Dim.baseUnit "s"

def durationUnits : List String := ["year", "week", "day", "hour", "minute", "second"]

def finishExpr (ctx : Ctx) (n : Number) : Outcome Reply :=
  if n.unit == secondDim then do
    let parts ← toList ctx n durationUnits
    pure (.duration n parts)
  else .ok (.number n)

/-- the operand of `units for` / `factorize`: a quantity name denotes that quantity's
dimensionality (first match in the quantity table), anything else is evaluated -/
def quantityOrValue (ctx : Ctx) (e : Expr) : Outcome Number :=
  let q : Option Dim := match e with
    | .unit name => (ctx.reg.quantities.find? fun x => x.2 == name).map (·.1)
    | _ => none
  match q with
  | some d => .ok ⟨.one, d⟩
  | none => evalExpr ctx e

def evalQuery (ctx : Ctx) (q : Query) : Outcome Reply :=
  let defCase : Option String := match q with
    | .expr (.unit name) => if canShowDefinition ctx name then some name else none
    | _ => none
  match defCase with
  | some name =>
    match expandAliases ctx 1000 name ((ctx.canonicalize name).getD name) with
    | none => .panic "expand_aliases assert"
    | some (n, canon) =>
      if ctx.reg.isBaseUnit n then .ok (.defn n canon none)
      else if ctx.reg.isQuantityName n then
        (if (ctx.reg.definition n).isSome then .ok (.defn n canon none) else .panic "quantities should always have definitions")
      else .ok (.defn n canon (ctx.lookup n))
  | none =>
  match q with
  | .convert top .none (some base) digits => do
    let n ← evalExpr ctx top
    pure (.convNone n base digits true)
  | .convert top .none none .default => do let n ← evalExpr ctx top; finishExpr ctx n
  | .convert top .none none digits => do
    let n ← evalExpr ctx top
    pure (.convNone n 10 digits false)
  | .convert top (.expr bottom) base digits => do
    let t ← evalExpr ctx top
    let b ← evalExpr ctx bottom
    let (names, const) ← evalUnitName ctx bottom
    if t.unit == b.unit then do
      let raw ← Number.div t b
      pure (.conversion raw b names const (base.getD 10) digits)
    else .err .conformance
  | .convert top (.list names) none .default => do
    let t ← evalExpr ctx top
    let parts ← toList ctx t names
    pure (.unitList t parts)
  | .convert top (.offset _) none .default => do
    let _ ← evalExpr ctx top
    .err .generic     -- a Number cannot be converted to a UTC offset
  | .convert top (.timezone _) none .default => do
    let _ ← evalExpr ctx top
    .err .generic
  | .convert top (.degree d) none digits => do
    let t ← evalExpr ctx top
    let (base, scale) := d.baseScale
    match ctx.lookup scale with
    | none => .err .generic
    | some bottom =>
      if t.unit != bottom.unit then .err .conformance
      else match ctx.lookup base with
        | none => .err .generic
        | some b =>
          if t.unit != b.unit then .err .generic
          else
            let res : Number := ⟨t.value.sub b.value, t.unit⟩
            match Number.div res bottom with
            | .ok raw => .ok (.conversion raw bottom [(d.display, 1)] .one 10 digits)
            | .err _ => .err .generic
            | .panic s => .panic s
            | .unsupported s => .unsupported s
  | .convert _ _ (some _) _ => .err .generic
  | .convert _ _ _ _ => .err .generic
  | .factorize e => do
    let v ← quantityOrValue ctx e
    -- the model's search is the unmemoised one: exponential in the complexity of the unit
    if Commands.score v.unit > 128 then .err .generic else    -- "too complex to factorize" (after the fix)
    if Commands.score v.unit > 9 then .unsupported "factorize of a complex unit" else
    pure (.factorize (Commands.factorizeReply ctx.reg.quantities v.unit))
  | .unitsFor e => do
    let v ← quantityOrValue ctx e
    pure (.unitsFor v (Commands.unitsFor ctx.reg ctx.canonicalize v.unit))
  | .search _ => .unsupported "search"
  | .expr e => do let n ← evalExpr ctx e; finishExpr ctx n
  | .error _ => .err .generic

/-- `helpers::eval` on an already-lexed line: parse, evaluate, update `previous_result`
only for `QueryReply::Number`. -/
def step (ctx : Ctx) (isTz : String → Bool) (ts : List Token) : Outcome Reply × Ctx :=
  let q := Parse.parseQuery isTz ts
  let r := evalQuery ctx q
  match r with
  | .ok (.number n) => (r, if ctx.saveAns then { ctx with previous := some n } else ctx)
  | _ => (r, ctx)

end Rink.Eval
