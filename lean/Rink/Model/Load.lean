import Rink.Model.GnuUnits
import Rink.Model.Eval
import Std.Data.HashMap
import Std.Data.HashSet
/-!
Model of `core/src/loader/load.rs` (`load_defs`): building the input maps, the dependency
resolver (depth-first topological sort with cycle detection) and the evaluation of the sorted
definitions into a registry.  The code modelled is the code after the `fix:` commits listed in
/verif/known_findings.json (zero divisors in prefixes and substance properties are errors).

Stage 1 (`buildInput`) and stage 2 (`resolve`) use sorted association lists so that the
theorems of C12/C13 can talk about them; stage 3 (`loadSorted`) uses hash maps for speed — it
is a function of the stage-1 maps and the stage-2 order only.
-/
namespace Rink.Load
open Rink Rink.Gnu

inductive Namespace where
  | unit | prefix_ | quantity | category
deriving Repr, DecidableEq, Inhabited, Hashable

def Namespace.rank : Namespace → Nat
  | .unit => 0 | .prefix_ => 1 | .quantity => 2 | .category => 3

structure Id where
  ns : Namespace
  name : String
deriving Repr, DecidableEq, Inhabited, Hashable

/-- derived `Ord` of `Id`: namespace first, then name -/
def Id.lt (a b : Id) : Bool :=
  a.ns.rank < b.ns.rank || (a.ns.rank == b.ns.rank && decide (a.name < b.name))

def Id.tag (i : Id) : String :=
  (match i.ns with | .unit => "unit" | .prefix_ => "prefix" | .quantity => "quantity" | .category => "category") ++ ":" ++ i.name

/-! ### sorted association lists (`BTreeMap<Id, _>`, `BTreeSet<Id>`) -/

/-- insert or replace; returns the map and whether the key was present -/
def smInsert {α} (k : Id) (v : α) : List (Id × α) → List (Id × α) × Bool
  | [] => ([(k, v)], false)
  | (k', v') :: rest =>
    if k == k' then ((k, v) :: rest, true)
    else if k.lt k' then ((k, v) :: (k', v') :: rest, false)
    else let (r, b) := smInsert k v rest; ((k', v') :: r, b)

def ssInsert (k : Id) : List Id → List Id
  | [] => [k]
  | k' :: rest => if k == k' then k' :: rest else if k.lt k' then k :: k' :: rest else k' :: ssInsert k rest

structure Input where
  input : List (Id × Def) := []
  unmarked : List Id := []
  docs : List (Id × String) := []
  categories : List (Id × String) := []
  /-- "warning: multiple … named …" -/
  errors : List String := []

def idOf (d : DefEntry) : Id :=
  match d.defn with
  | .prefix_ _ _ => ⟨.prefix_, d.name⟩
  | .quantity _ => ⟨.quantity, d.name⟩
  | .category _ => ⟨.category, d.name⟩
  | _ => ⟨.unit, d.name⟩

/-- the extra key a base unit with a long name is stored under -/
def longKey (d : DefEntry) : Option Id :=
  match d.defn with
  | .baseUnit (some long) => some ⟨.unit, long⟩
  | _ => none

/-- the doc string of an entry, keyed by its id -/
def docKey (d : DefEntry) : Option (Id × String) := d.doc.map fun doc => (idOf d, doc)

/-- the category of an entry (recorded for the unit namespace only) -/
def catKey (d : DefEntry) : Option (Id × String) :=
  match d.category with
  | some c => if (idOf d).ns == .unit then some (idOf d, c) else none
  | none => none

def insOpt {α} (k : Option Id) (v : α) (l : List (Id × α)) : List (Id × α) :=
  match k with
  | some k => (smInsert k v l).1
  | none => l

def insOptP {α} (kv : Option (Id × α)) (l : List (Id × α)) : List (Id × α) :=
  match kv with
  | some (k, v) => (smInsert k v l).1
  | none => l

/-- one iteration of the first loop of `load_defs` -/
def addEntry (st : Input) (d : DefEntry) : Input :=
  let r := smInsert (idOf d) d.defn (insOpt (longKey d) d.defn st.input)
  { input := r.1
    unmarked := ssInsert (idOf d) st.unmarked
    docs := insOptP (docKey d) st.docs
    categories := insOptP (catKey d) st.categories
    errors := if r.2 && (idOf d).ns != .category then st.errors ++ ["multiple:" ++ (idOf d).tag] else st.errors }

def buildInput (defs : List DefEntry) : Input := defs.foldl addEntry {}

/-! ### the resolver -/

structure RS where
  sorted : List Id := []        -- in reverse order of completion (newest first)
  unmarked : Std.HashSet Id := {}
  temp : Std.HashSet Id := {}
  errors : List String := []
  /-- the model's own limit was hit (never on inputs whose dependency depth is below the fuel) -/
  outOfFuel : Bool := false

structure Env where
  defOf : Id → Option Def
  /-- names of the `Prefix` namespace in key order -/
  prefixNames : List String
  /-- element symbol ↦ the substance definition that declares it -/
  symbolOf : String → Option Id := fun _ => none

def namespacesFor (ctx : Namespace) : List Namespace :=
  match ctx with
  | .quantity => [.quantity]
  | _ => [.unit, .prefix_, .quantity]

mutual
def visit (env : Env) : Nat → RS → Id → RS
  | 0, st, _ => { st with outOfFuel := true }
  | fuel + 1, st, id =>
    if st.temp.contains id then { st with errors := st.errors ++ ["cycle:" ++ id.tag] }
    else if st.unmarked.contains id then
      let st := { st with temp := st.temp.insert id }
      let st := match env.defOf id with
        | some (.prefix_ e _) | some (.unit e) | some (.quantity e) => deps env fuel st e id.ns
        | some (.substance _ props) => depsProps env fuel st props id.ns
        | _ => st
      { st with unmarked := st.unmarked.erase id, temp := st.temp.erase id, sorted := id :: st.sorted }
    else st

def depsProps (env : Env) : Nat → RS → List PropDef → Namespace → RS
  | 0, st, _, _ => { st with outOfFuel := true }
  | _, st, [], _ => st
  | fuel + 1, st, p :: ps, ctx =>
    let st := deps env fuel st p.input ctx
    let st := deps env fuel st p.output ctx
    depsProps env fuel st ps ctx

/-- `Resolver::eval`: visit everything an expression refers to -/
def deps (env : Env) : Nat → RS → Expr → Namespace → RS
  | 0, st, _, _ => { st with outOfFuel := true }
  | fuel + 1, st, e, ctx =>
    match e with
    | .unit name => (lookup env fuel st name ctx).1
    | .binop _ l r => deps env fuel (deps env fuel st l ctx) r ctx
    | .unary _ e => deps env fuel st e ctx
    | .ofProp _ e => deps env fuel st e ctx
    | .mul es => depsList env fuel st es ctx
    | .call _ es => depsList env fuel st es ctx
    | _ => st

def depsList (env : Env) : Nat → RS → List Expr → Namespace → RS
  | 0, st, _, _ => { st with outOfFuel := true }
  | _, st, [], _ => st
  | fuel + 1, st, e :: es, ctx => depsList env fuel (deps env fuel st e ctx) es ctx

def lookupExact (env : Env) : Nat → RS → String → Namespace → List Namespace → RS × Bool
  | 0, st, _, _, _ => ({ st with outOfFuel := true }, false)
  | _, st, _, _, [] => (st, false)
  | fuel + 1, st, name, ctx, ns :: rest =>
    -- (after the fix: every namespace that has the name is visited, not only the first)
    if (env.defOf ⟨ns, name⟩).isSome then
      let (st', _) := lookupExact env fuel (visit env fuel st ⟨ns, name⟩) name ctx rest
      (st', true)
    else lookupExact env fuel st name ctx rest

def lookupPrefixes (env : Env) : Nat → RS → String → Namespace → List String → RS × Bool
  | 0, st, _, _, _ => ({ st with outOfFuel := true }, false)
  | _, st, _, _, [] => (st, false)
  | fuel + 1, st, name, ctx, pre :: rest =>
    if name.startsWith pre then
      let (st', ok) := lookupExact env fuel st (Registry.dropPrefix name pre) ctx (namespacesFor ctx)
      if ok then (visit env fuel st' ⟨.prefix_, pre⟩, true)
      else lookupPrefixes env fuel st name ctx rest
    else lookupPrefixes env fuel st name ctx rest

def lookupWithPrefix (env : Env) : Nat → RS → String → Namespace → RS × Bool
  | 0, st, _, _ => ({ st with outOfFuel := true }, false)
  | fuel + 1, st, name, ctx =>
    let (st', ok) := lookupExact env fuel st name ctx (namespacesFor ctx)
    if ok then (st', true) else lookupPrefixes env fuel st name ctx env.prefixNames

def lookup (env : Env) : Nat → RS → String → Namespace → RS × Bool
  | 0, st, _, _ => ({ st with outOfFuel := true }, false)
  | fuel + 1, st, name, ctx =>
    let (st', ok) := lookupWithPrefix env fuel st name ctx
    if ok then (st', true)
    else
      let (st2, ok2) := match Registry.stripS name with
        | some n => lookupWithPrefix env fuel st' n ctx
        | none => (st', false)
      if ok2 then (st2, true)
      else
        -- `lookup_formula`: an element symbol or a chemical formula depends on the substances that
        -- declare its symbols
        match (Formula.formulaSymbols name).bind fun syms => syms.mapM env.symbolOf with
        | some ids => (visitAll env fuel st2 ids, true)
        | none => (st2, false)

def visitAll (env : Env) : Nat → RS → List Id → RS
  | 0, st, _ => { st with outOfFuel := true }
  | _, st, [] => st
  | fuel + 1, st, id :: rest => visitAll env fuel (visit env fuel st id) rest
end

/-- `while let Some(name) = unmarked.first() { visit(name) }` over the ids in key order -/
def drain (env : Env) (fuel : Nat) : List Id → RS → RS
  | [], st => st
  | id :: rest, st => drain env fuel rest (visit env fuel st id)

/-! ### stage 3: evaluation of the sorted definitions -/

structure LS where
  baseUnits : Std.HashSet String := {}
  longNames : Std.HashMap String String := {}
  units : Std.HashMap String Number := {}
  prefixes : Array (String × Numeric) := #[]
  prefixLookup : Std.HashMap String Numeric := {}
  definitions : Std.HashMap String Expr := {}
  quantityDims : Std.HashMap String Dim := {}
  quantities : Std.HashMap String (Dim × String) := {}     -- keyed by the rendered dimensionality
  decomposition : Std.HashMap String (Dim × String) := {}
  substances : Std.HashMap String Substance := {}
  /-- ghost state (not a field of the registry): the text of every unit definition whose value
  was a substance, for the fixed-point predicate of C08 -/
  substDefs : Std.HashMap String Expr := {}
  symbols : Std.HashMap String String := {}
  categoryNames : Std.HashMap String String := {}
  docs : Std.HashMap String String := {}
  categories : Std.HashMap String String := {}
  errors : List String := []

def decompositionNames : List String :=
  ["newton", "pascal", "joule", "watt", "coulomb", "volt", "ohm", "siemens", "farad", "weber", "henry", "tesla", "lumen", "lux", "katal"]

def dimKey (d : Dim) : String := ",".intercalate (d.map fun (k, p) => s!"{k}:{p}")

def defKind (e : Expr) : DefKind := match e with | .unit t => .alias t | _ => .other

/-- the registry as the evaluator sees it while loading -/
def LS.toRegistry (st : LS) : Registry :=
  { isBaseUnit := fun n => st.baseUnits.contains n
    unit := fun n => st.units[n]?
    prefixes := st.prefixes.toList
    definition := fun n => (st.definitions[n]?).map defKind
    longName := fun n => st.longNames[n]?
    quantity := fun d => (st.quantities[dimKey d]?).map (·.2)
    quantities := []
    decomposition := []
    isSubstanceLike := fun n => st.substances.contains n || st.symbols.contains n
    unitList := []
    category := fun _ => none
    categoryName := fun _ => none
    substance := fun n => st.substances[n]?
    isFormula := fun n =>
      (Formula.molarMass (fun sym => (st.symbols[sym]?).bind fun full => (st.substances[full]?).bind fun s =>
        match s.get "molar_mass" with | .ok v => (if v.unit == Formula.molarMassUnit then some 0 else none) | _ => none) n).isSome }

/-- `eval_prefix` (after the fix: a zero divisor or `0^negative` is an error) -/
def evalPrefix (prefixes : Std.HashMap String Numeric) : Expr → Except String Numeric
  | .const v => .ok v
  | .unit other => match prefixes[other]? with
    | some v => .ok v
    | none => .error "References non-existent prefix"
  | .binop .frac l r => do
    let a ← evalPrefix prefixes l
    let b ← evalPrefix prefixes r
    if b == .rational 0 then .error "Division by zero" else
    match Numeric.div a b with
    | .ok v => .ok v
    | _ => .error "Division by zero"
  | .binop .pow l r => do
    let a ← evalPrefix prefixes l
    let b ← evalPrefix prefixes r
    match b with
    | .rational q =>
      let t := Int.tdiv q.num q.den
      if -2147483648 ≤ t ∧ t ≤ 2147483647 then
        match Numeric.pow a t with
        | .ok v => .ok v
        | _ => .error "Division by zero"
      else .error "Exponent is too big"
    | .float => .error "float exponent"
  | .unary .negative e => do
    let v ← evalPrefix prefixes e
    .ok (Numeric.mul v (.rational (-1)))
  | _ => .error "Not a numeric constant"

/-- `Dimensionality::pow` (multiplies in place; keeps zero entries) -/
def dimPowRaw (d : Dim) (e : Int) : Dim := d.map fun (k, p) => (k, p * e)

/-- inside `i64` and not `i64::MIN` (excluded so that a power can always be negated) -/
def i64ok (x : Int) : Bool := decide (-9223372036854775807 ≤ x) && decide (x ≤ 9223372036854775807)

/-- `Dimensionality::checked_pow`: `None` when a power leaves `i64` -/
def dimPowChecked (d : Dim) (e : Int) : Except String Dim :=
  let r := dimPowRaw d e
  if r.all (fun kp => i64ok kp.2) then .ok r else .error "Exponent is too big"

/-- `Dimensionality::checked_mul`: `None` when the sum of the powers of a shared unit leaves `i64` -/
def dimMulChecked (a b : Dim) : Except String Dim :=
  if a.all (fun kp => !(b.any fun kq => kq.1 == kp.1) || i64ok (kp.2 + Dim.get b kp.1)) then .ok (Dim.mul a b)
  else .error "Exponent is too big"

/-- `eval_quantity` (after the fix: exponents that leave `i64` are errors) -/
def evalQuantity (st : LS) : Expr → Except String Dim
  | .unit name =>
    if st.baseUnits.contains name then .ok (Dim.baseUnit name)
    else match st.quantityDims[name]? with
      | some d => .ok d
      | none => .error "No quantity or base unit"
  | .const v => if v == .one then .ok [] else .error "Invalid expression in quantity"
  | .mul es => es.foldlM (fun acc e => do let d ← evalQuantity st e; dimMulChecked acc d) []
  | .binop .frac l r => do
    let a ← evalQuantity st l
    let b ← evalQuantity st r
    let b' ← dimPowChecked b (-1)
    dimMulChecked a b'
  | .binop .pow l r => do
    let a ← evalQuantity st l
    match r with
    | .const (.rational q) =>
      let t := Int.tdiv q.num q.den
      if i64ok t then dimPowChecked a t else .error "RHS of `^` is too big"
    | .unary .negative (.const (.rational q)) =>
      let t := Int.tdiv q.num q.den
      if i64ok t then dimPowChecked a (-t) else .error "RHS of `^` is too big"
    | _ => .error "RHS of `^` must be a constant"
  | .unary .negative e => do let d ← evalQuantity st e; dimPowChecked d (-1)
  | _ => .error "Invalid expression in quantity"

def mkCtx (st : LS) (temps : Std.HashMap String Number) : Ctx :=
  { reg := st.toRegistry, saveAns := false, temporaries := fun n => temps[n]? }

/-- evaluation of the properties of one substance definition -/
def loadProps (st : LS) (name : String) : List PropDef → Std.HashMap String Number → List (String × Property) →
    List (Dim × List String) → List String → Except String (List (String × Property) × List String)
  | [], _, acc, _, errs => .ok (acc, errs)
  | p :: ps, temps, acc, prev, errs =>
    match Eval.evalExpr (mkCtx st temps) p.input with
    | .ok input =>
      match Eval.evalExpr (mkCtx st temps) p.output with
      | .ok output =>
        -- whether a machine float is zero decides acceptance: outside the model
        if input.value == .float || output.value == .float then .error "unsupported:float property" else
        match Number.div input output with
        | .ok ratio =>
          -- after the fix: a zero input is refused as well (`Substance::get` divides by it)
          if input.value == .rational 0 then .error "zero property input" else
          let uniq := [p.name, p.inputName, p.outputName].eraseDups
          let existing := ((prev.find? fun x => x.1 == ratio.unit).map (·.2)).getD []
          let conflicts := existing.filter fun n => uniq.contains n
          let errs := errs ++ conflicts.map fun c => s!"property-conflict:{name}:{c}"
          let prev := (ratio.unit, (existing ++ uniq).eraseDups) :: prev.filter fun x => x.1 != ratio.unit
          let temps := temps.insert p.name ratio
          let temps := if output == Number.one then temps.insert p.inputName input else temps
          let temps := if input == Number.one then temps.insert p.outputName output else temps
          let prop : Property := { input := input, inputName := p.inputName, output := output, outputName := p.outputName }
          -- BTreeMap collect: a later property of the same name replaces the earlier one
          loadProps st name ps temps (acc.filter (fun x => x.1 != p.name) ++ [(p.name, prop)]) prev errs
        | _ => .error "zero property"
      | _ => .error "malformed output"
    | _ => .error "malformed input"

def insertSortedProp (x : String × Property) : List (String × Property) → List (String × Property)
  | [] => [x]
  | y :: ys => if x.1 < y.1 then x :: y :: ys else y :: insertSortedProp x ys

/-- `&Substance + &Substance`: shared properties per mole, weighted by the amounts -/
def substAdd (a b : Substance) : Option Substance :=
  let mol := Number.oneUnit "mol"
  let props := a.props.filterMap fun (k, p1) =>
    match b.props.lookup k with
    | none => none
    | some p2 =>
      if p1.inputName != p2.inputName || p1.outputName != p2.outputName || p1.input.unit != p2.input.unit ||
         p1.output.unit != p2.output.unit || p1.input != mol || p2.input != mol then none
      else
        match Number.add (Number.mul a.amount p1.output) (Number.mul b.amount p2.output) with
        | .ok out => some (k, ({ input := mol, inputName := p1.inputName, output := out, outputName := p1.outputName } : Property))
        | _ => none
  if props.isEmpty then none else some { amount := Number.one, name := a.name ++ " + " ++ b.name, props := props }

/-- molar mass (kg/mol) of an element symbol in the state being loaded -/
def symbolMass (st : LS) (sym : String) : Option Rat :=
  match st.symbols[sym]? with
  | none => none
  | some n =>
    match st.substances[n]? with
    | none => none
    | some s => match s.get "molar_mass" with
      | .ok ⟨.rational q, u⟩ => if u == Formula.molarMassUnit then some q else none
      | _ => none

/-- a unit definition whose value is a substance (`Value::Substance`): a substance or element
name, a chemical formula, a substance times / over numbers, a sum of substances -/
def evalSubstance (st : LS) : Nat → Expr → Option Substance
  | 0, _ => none
  | fuel + 1, e =>
    match e with
    | .unit name =>
      match st.substances[name]? with
      | some s => some s
      | none =>
        match (st.symbols[name]?).bind (st.substances[·]?) with
        | some s => some s
        | none =>
          (Formula.molarMass (symbolMass st) name).map fun m =>
            { amount := Number.one, name := name,
              props := [("molar_mass", { input := Number.one, inputName := "amount",
                                         output := ⟨.rational m, [("kg", 1), ("mol", -1)]⟩, outputName := "mass" })] }
    | .mul es =>
      es.foldl (fun (acc : Option (Number × Option Substance)) f =>
        match acc with
        | none => none
        | some (n, sub) =>
          match Eval.evalExpr (mkCtx st {}) f with
          | .ok v => some (Number.mul n v, sub)
          | .unsupported _ =>
            (match sub, evalSubstance st fuel f with
             | none, some s => some (n, some s)
             | _, _ => none)
          | _ => none) (some (Number.one, none))
      |>.bind fun (n, sub) => sub.map fun s => { s with amount := Number.mul s.amount n }
    | .binop .frac l r =>
      match evalSubstance st fuel l, Eval.evalExpr (mkCtx st {}) r with
      | some s, .ok v => match Number.div s.amount v with
        | .ok a => some { s with amount := a }
        | _ => none
      | _, _ => none
    | .binop .add l r =>
      match evalSubstance st fuel l, evalSubstance st fuel r with
      | some a, some b => substAdd a b
      | _, _ => none
    | _ => none

/-- one step of the evaluation loop -/
def loadOne (st : LS) (id : Id) (d : Def) : LS :=
  let name := id.name
  match d with
  | .baseUnit long =>
    let st := { st with baseUnits := st.baseUnits.insert name }
    (match long with
     | some l => { st with longNames := st.longNames.insert name l, definitions := st.definitions.insert l (.unit name),
                           units := st.units.insert l (Number.oneUnit name) }
     | none => st)
  | .unit e =>
    (match Eval.evalExpr (mkCtx st {}) e with
     | .ok v =>
       let st := if v.value == Numeric.one && decompositionNames.contains name
         then { st with decomposition := st.decomposition.insert (dimKey v.unit) (v.unit, name) } else st
       { st with definitions := st.definitions.insert name e, units := st.units.insert name v }
     | .unsupported _ =>
       -- a unit whose definition denotes a substance becomes a substance of that name
       (match evalSubstance st 64 e with
        | some s =>
          let s := if s.name.contains '+' then { s with name := name } else s
          let e' := if st.substances.contains name then st.errors ++ ["substance-conflict:unit:" ++ name] else st.errors
          { st with substances := st.substances.insert name s, errors := e', substDefs := st.substDefs.insert name e }
        | none => { st with errors := st.errors ++ ["unsupported:" ++ name] })
     | _ => { st with errors := st.errors ++ ["malformed:" ++ id.tag] })
  | .prefix_ e isLong =>
    (match evalPrefix st.prefixLookup e with
     | .ok v =>
       let st := { st with prefixLookup := st.prefixLookup.insert name v, prefixes := st.prefixes.push (name, v) }
       if isLong then { st with units := st.units.insert name (Number.ofNumeric v) } else st
     | .error _ => { st with errors := st.errors ++ ["prefix:" ++ name] })
  | .quantity e =>
    (match evalQuantity st e with
     | .ok dims =>
       let old := st.quantities[dimKey dims]?
       let st := { st with quantityDims := st.quantityDims.insert name dims, quantities := st.quantities.insert (dimKey dims) (dims, name),
                           definitions := if st.definitions.contains name then st.definitions else st.definitions.insert name e }
       (match old with
        | some (_, o) => { st with errors := st.errors ++ [s!"quantity-conflict:{name}:{o}"] }
        | none => st)
     | .error _ => { st with errors := st.errors ++ ["quantity:" ++ name] })
  | .substance symbol props =>
    (match loadProps st name props {} [] [] [] with
     | .ok (ps, errs) =>
       let sorted := ps.foldl (fun acc x => insertSortedProp x acc) []
       let st := { st with errors := st.errors ++ errs,
                           substances := st.substances.insert name { amount := Number.one, name := name, props := sorted } }
       (match symbol with
        | some sym => { st with symbols := st.symbols.insert sym name }
        | none => st)
     | .error msg =>
       { st with errors := st.errors ++ [if msg.startsWith "unsupported:" then "unsupported:" ++ name else "substance-malformed:" ++ name] })
  | .category display => { st with categoryNames := st.categoryNames.insert name display }
  | .error _ => { st with errors := st.errors ++ ["def-error:" ++ name] }

def loadSorted (st : LS) (env : Env) : List Id → LS
  | [] => st
  | id :: rest =>
    match env.defOf id with
    | some d => loadSorted (loadOne st id d) env rest
    | none => loadSorted st env rest

/-- the final two loops: docs and categories -/
def finish (st : LS) (inp : Input) : LS :=
  let st := inp.docs.foldl (fun st (id, doc) =>
    let e := if st.docs.contains id.name then st.errors ++ ["doc-conflict:" ++ id.tag] else st.errors
    { st with docs := st.docs.insert id.name doc, errors := e }) st
  inp.categories.foldl (fun st (id, c) =>
    let e := if st.categories.contains id.name then st.errors ++ ["category-conflict:" ++ id.tag] else st.errors
    { st with categories := st.categories.insert id.name c, errors := e }) st

/-- `load_defs` on top of an existing state (`Context::load` may be called several times) -/
def loadDefs (st : LS) (defs : List DefEntry) : LS :=
  let inp := buildInput defs
  let defMap : Std.HashMap Id Def := inp.input.foldl (fun m (k, v) => m.insert k v) {}
  let symMap : Std.HashMap String Id := inp.input.foldl (fun m (k, v) =>
    match v with | .substance (some sym) _ => m.insert sym k | _ => m) {}
  let env : Env := { defOf := fun id => defMap[id]?,
                     prefixNames := (inp.input.filter fun x => x.1.ns == .prefix_).map (·.1.name),
                     symbolOf := fun s => symMap[s]? }
  let fuel := 64 * (inp.input.length + 8)
  let rs0 : RS := { unmarked := inp.unmarked.foldl (fun s k => s.insert k) {}, errors := inp.errors }
  -- base units first (they depend on nothing and can be referred to by their long names, which
  -- are not entries of their own), then every id in key order
  let baseIds := inp.unmarked.filter fun id => match defMap[id]? with | some (.baseUnit _) => true | _ => false
  let rs := drain env fuel (baseIds ++ inp.unmarked) rs0
  let st := { st with errors := st.errors ++ rs.errors ++ (if rs.outOfFuel then ["model-out-of-fuel"] else []) }
  finish (loadSorted st env rs.sorted.reverse) inp

end Rink.Load
