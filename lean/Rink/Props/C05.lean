import Rink.Model.Digits
import Mathlib.Tactic.Ring
import Mathlib.Tactic.Linarith
import Mathlib.Tactic.FieldSimp
import Mathlib.Tactic.Positivity
import Mathlib.Data.Rat.Defs
import Mathlib.Algebra.Order.Field.Rat
import Mathlib.Data.Rat.Cast.Order
/-!
# C05 — Printed numerals denote the computed value

The arithmetic core of `to_digits_impl` is the long-division step
`digit = ⌊cursor·b⌋ mod b`, `cursor' = cursor·b − digit`.  The theorems below are about that
core, for every base `b ≥ 2` and every rational: they say what the digits *denote*
(terminating, truncated, recurring through a seen remainder, recurring through the
`is_recurring` shortcut).  The assembly of the digit characters into text (sign, radix point,
suppression of the leading zeros caused by an over-estimated `size_in_base`, brackets,
`, period N`, exponent) is tied to the code by exact text comparison on every generated case
and by an independent reader of the printed text (checks/c05.py) — see DESIGN.md.
-/
namespace Rink.Spec
open Rink

/-- the digit the loop emits for a cursor (`(numer·b / denom) % b`) -/
def digitOf (b : ℕ) (c : ℚ) : ℕ := (c.num.natAbs * b / c.den) % b

/-- the next cursor -/
def nextCursor (b : ℕ) (c : ℚ) : ℚ := c * (b : ℚ) - (digitOf b c : ℚ)

/-- cursor after `n` steps and the digits emitted on the way -/
def cursorAt (b : ℕ) (c : ℚ) : ℕ → ℚ
  | 0 => c
  | n + 1 => nextCursor b (cursorAt b c n)

def digitAt (b : ℕ) (c : ℚ) (n : ℕ) : ℕ := digitOf b (cursorAt b c n)

/-- value of the first `n` digits after the radix point: Σ_{i<n} dᵢ·b^{-(i+1)} -/
def prefixValue (b : ℕ) (c : ℚ) : ℕ → ℚ
  | 0 => 0
  | n + 1 => prefixValue b c n + (digitAt b c n : ℚ) / (b : ℚ) ^ (n + 1)

theorem step_core (b : ℕ) (hb : 2 ≤ b) (c : ℚ) (h0 : 0 ≤ c) (h1 : c < 1) :
    digitOf b c < b ∧ 0 ≤ nextCursor b c ∧ nextCursor b c < 1 ∧
    (digitOf b c : ℚ) = c * b - nextCursor b c := by
  have hden : (0 : ℚ) < c.den := by exact_mod_cast c.den_pos
  have hnum : 0 ≤ c.num := Rat.num_nonneg.mpr h0
  have hcn : c = (c.num.natAbs : ℚ) / (c.den : ℚ) := by
    have h2 : ((c.num.natAbs : ℕ) : ℚ) = (c.num : ℚ) := by
      rw [← Int.cast_natCast, Int.natAbs_of_nonneg hnum]
    rw [h2]; exact (Rat.num_div_den c).symm
  set N := c.num.natAbs with hN
  set D := c.den with hD
  have hlt : N < D := by
    have : (N : ℚ) / (D : ℚ) < 1 := by rw [← hcn]; exact h1
    rw [div_lt_one hden] at this
    exact_mod_cast this
  have hk : N * b / D < b := by
    apply Nat.div_lt_of_lt_mul
    exact Nat.mul_lt_mul_of_pos_right hlt (by omega)
  have hdig : digitOf b c = N * b / D := by
    unfold digitOf; rw [Nat.mod_eq_of_lt hk]
  have hdm : N * b = D * (N * b / D) + N * b % D := (Nat.div_add_mod _ _).symm
  have hr : N * b % D < D := Nat.mod_lt _ c.den_pos
  have hnext : nextCursor b c = ((N * b % D : ℕ) : ℚ) / (D : ℚ) := by
    unfold nextCursor; rw [hdig]
    rw [eq_div_iff (ne_of_gt hden)]
    have h3 : ((N * b : ℕ) : ℚ) = (D : ℚ) * ((N * b / D : ℕ) : ℚ) + ((N * b % D : ℕ) : ℚ) := by exact_mod_cast hdm
    have h4 : c * (b : ℚ) * (D : ℚ) = ((N * b : ℕ) : ℚ) := by
      conv => lhs; rw [hcn]
      field_simp
      push_cast; ring
    calc (c * (b : ℚ) - ((N * b / D : ℕ) : ℚ)) * (D : ℚ)
        = c * (b : ℚ) * (D : ℚ) - (D : ℚ) * ((N * b / D : ℕ) : ℚ) := by ring
      _ = ((N * b % D : ℕ) : ℚ) := by rw [h4, h3]; ring
  refine ⟨(by rw [hdig]; exact hk), ?_, ?_, ?_⟩
  · rw [hnext]; positivity
  · rw [hnext, div_lt_one hden]; exact_mod_cast hr
  · unfold nextCursor; ring

/-- **long-division invariant**: after `n` steps
`c = Σ_{i<n} dᵢ b^{-(i+1)} + cursorₙ · b^{-n}`, every digit is `< b`, and `0 ≤ cursorₙ < 1`. -/
theorem long_division_invariant (b : ℕ) (hb : 2 ≤ b) (c : ℚ) (h0 : 0 ≤ c) (h1 : c < 1) (n : ℕ) :
    c = prefixValue b c n + cursorAt b c n / (b : ℚ) ^ n ∧
    0 ≤ cursorAt b c n ∧ cursorAt b c n < 1 ∧ ∀ i < n, digitAt b c i < b := by
  have hbq : (0 : ℚ) < (b : ℚ) := by exact_mod_cast (by omega : 0 < b)
  induction n with
  | zero => simp [prefixValue, cursorAt, h0, h1]
  | succ n ih =>
    obtain ⟨heq, hc0, hc1, hd⟩ := ih
    obtain ⟨s1, s2, s3, s4⟩ := step_core b hb (cursorAt b c n) hc0 hc1
    refine ⟨?_, s2, s3, ?_⟩
    · simp only [prefixValue, cursorAt, digitAt]
      rw [s4]
      have hpow : (b : ℚ) ^ (n + 1) = (b : ℚ) ^ n * b := pow_succ _ _
      have hne : (b : ℚ) ^ n ≠ 0 := by positivity
      have hne2 : (b : ℚ) ≠ 0 := ne_of_gt hbq
      conv => lhs; rw [heq]
      rw [hpow]; field_simp; ring
    · intro i hi
      rcases Nat.lt_succ_iff_lt_or_eq.mp hi with h | h
      · exact hd i h
      · subst h; exact s1

/-- **terminating numerals are exact**: when the cursor reaches zero the printed digits denote `c`. -/
theorem exact_denotes (b : ℕ) (hb : 2 ≤ b) (c : ℚ) (h0 : 0 ≤ c) (h1 : c < 1) (n : ℕ)
    (hz : cursorAt b c n = 0) : c = prefixValue b c n := by
  have := (long_division_invariant b hb c h0 h1 n).1
  rw [hz] at this; simpa using this

/-- **approximate numerals are truncations toward zero within one unit of the last place**:
`0 ≤ c − Σ_{i<n} dᵢ b^{-(i+1)} < b^{-n}`. -/
theorem approx_truncates (b : ℕ) (hb : 2 ≤ b) (c : ℚ) (h0 : 0 ≤ c) (h1 : c < 1) (n : ℕ) :
    0 ≤ c - prefixValue b c n ∧ c - prefixValue b c n < 1 / (b : ℚ) ^ n := by
  obtain ⟨heq, hc0, hc1, _⟩ := long_division_invariant b hb c h0 h1 n
  have hpos : (0 : ℚ) < (b : ℚ) ^ n := by positivity
  have : c - prefixValue b c n = cursorAt b c n / (b : ℚ) ^ n := by linarith
  rw [this]
  constructor
  · positivity
  · exact div_lt_div_of_pos_right hc1 hpos

/-- the step is deterministic in the cursor: a remainder seen before repeats everything after it -/
theorem cursor_shift (b : ℕ) (c : ℚ) (m k : ℕ) : cursorAt b c (m + k) = cursorAt b (cursorAt b c m) k := by
  induction k with
  | zero => rfl
  | succ k ih =>
    show cursorAt b c ((m + k) + 1) = cursorAt b (cursorAt b c m) (k + 1)
    simp only [cursorAt, ih]

theorem seen_remainder_periodic (b : ℕ) (c : ℚ) (m p : ℕ) (h : cursorAt b c (m + p) = cursorAt b c m) (k : ℕ) :
    digitAt b c (m + p + k) = digitAt b c (m + k) := by
  unfold digitAt
  rw [cursor_shift b c (m + p) k, cursor_shift b c m k, h]

/-- **a bracketed block found through a repeated remainder denotes the remainder exactly**:
if the cursor returns to itself after `p ≥ 1` steps, it equals `block / (b^p − 1)` where
`block/b^p` is the value of the `p` digits in between — i.e. the infinitely repeated block. -/
theorem recurring_block_denotes (b : ℕ) (hb : 2 ≤ b) (r : ℚ) (h0 : 0 ≤ r) (h1 : r < 1) (p : ℕ) (hp : 1 ≤ p)
    (hrep : cursorAt b r p = r) :
    r = prefixValue b r p * (b : ℚ) ^ p / ((b : ℚ) ^ p - 1) := by
  have heq := (long_division_invariant b hb r h0 h1 p).1
  rw [hrep] at heq
  have hb1 : (1 : ℚ) < (b : ℚ) := by exact_mod_cast (by omega : 1 < b)
  have hpow : (1 : ℚ) < (b : ℚ) ^ p := one_lt_pow₀ hb1 (by omega)
  have hne : (b : ℚ) ^ p - 1 ≠ 0 := by linarith
  have hne2 : (b : ℚ) ^ p ≠ 0 := by positivity
  rw [eq_div_iff hne]
  have : r * (b : ℚ) ^ p = prefixValue b r p * (b : ℚ) ^ p + r := by
    conv => lhs; rw [heq]
    field_simp
  linarith

/-- **the `is_recurring` shortcut is sound**: if `den ∣ b^i − 1` the remainder `num/den` equals
`digits / (b^i − 1)` with `digits = (b^i − 1)/den · num`, the bracketed block it prints. -/
theorem isRecurring_sound (b : ℕ) (hb : 2 ≤ b) (c : ℚ) (i digits : ℕ) (hi : 1 ≤ i)
    (h : (b ^ i - 1) % c.den = 0) (hd : digits = (b ^ i - 1) / c.den * c.num.natAbs) (h0 : 0 ≤ c) :
    c = (digits : ℚ) / ((b : ℚ) ^ i - 1) := by
  have hb1 : (1 : ℚ) < (b : ℚ) := by exact_mod_cast (by omega : 1 < b)
  have hpow : (1 : ℚ) < (b : ℚ) ^ i := one_lt_pow₀ hb1 (by omega)
  have hne : (b : ℚ) ^ i - 1 ≠ 0 := by linarith
  have hden : (c.den : ℚ) ≠ 0 := by exact_mod_cast c.den_nz
  have hnum : 0 ≤ c.num := Rat.num_nonneg.mpr h0
  have hcn : c = (c.num.natAbs : ℚ) / (c.den : ℚ) := by
    have h2 : ((c.num.natAbs : ℕ) : ℚ) = (c.num : ℚ) := by
      rw [← Int.cast_natCast, Int.natAbs_of_nonneg hnum]
    rw [h2]; exact (Rat.num_div_den c).symm
  have hdvd : c.den ∣ b ^ i - 1 := Nat.dvd_of_mod_eq_zero h
  obtain ⟨k, hk⟩ := hdvd
  have hge : 1 ≤ b ^ i := Nat.one_le_pow _ _ (by omega)
  have hk' : ((b : ℚ) ^ i - 1) = (c.den : ℚ) * (k : ℚ) := by
    have : ((b ^ i - 1 : ℕ) : ℚ) = ((c.den * k : ℕ) : ℚ) := by rw [hk]
    rw [Nat.cast_sub hge] at this
    push_cast at this; exact this
  have hdiv : (b ^ i - 1) / c.den = k := by rw [hk]; exact Nat.mul_div_cancel_left k c.den_pos
  have key : (c.num.natAbs : ℚ) = c * (c.den : ℚ) := by
    have h5 : c * (c.den : ℚ) = (c.num : ℚ) := Rat.mul_den_eq_num c
    rw [h5, ← Int.cast_natCast, Int.natAbs_of_nonneg hnum]
  rw [hd, hdiv, eq_div_iff hne, hk']
  push_cast
  rw [key]; ring

/-- the model's digit and cursor update are this core (definitional) -/
theorem model_step_is_core (b : ℕ) (c : ℚ) :
    ((c.num.natAbs * b) / c.den) % b = digitOf b c ∧ c * (b : Rat) - ((digitOf b c : ℕ) : Rat) = nextCursor b c :=
  ⟨rfl, rfl⟩

/-! non-vacuity: 1/7 in base 10 -/
example : (List.range 6).map (digitAt 10 (1/7)) = [1, 4, 2, 8, 5, 7] ∧ cursorAt 10 (1/7) 6 = 1/7 := by
  decide +kernel

end Rink.Spec
