import Rink.Model.Registry
/-!
# C07 — Unit names resolve exact first, then prefix, then plural

The theorems hold for every registry (any exact-lookup function, any prefix list): they are
about the resolution *order*.  Value preservation of `canonicalize` over the bundled database
is decided by exhaustive computation (all ≈ 543 000 names, model and implementation side by
side), not by a theorem — see DESIGN.md.
-/
namespace Rink.Spec
open Rink Rink.Registry

/-- **exact wins**: a name defined exactly always denotes that definition -/
theorem exact_wins (r : Registry) (n : String) (v : Number) (h : r.lookupExact n = some v) :
    r.lookup n = some v := by
  simp [Registry.lookup, Registry.lookupWithPrefix, h]

/-- the split the prefix loop selects: the *first* prefix in list order that the name starts
with and whose remainder is defined exactly -/
def firstSplit (r : Registry) (n : String) (ps : List (String × Numeric)) : Option (String × Numeric) :=
  ps.find? fun (p, _) => n.startsWith p && (r.lookupExact (dropPrefix n p)).isSome

/-- **prefix reading**: the loop returns exactly `prefix value × unit value` for `firstSplit` -/
theorem prefixLoop_eq (r : Registry) (n : String) (ps : List (String × Numeric)) :
    r.prefixLoop n ps =
      (firstSplit r n ps).bind fun (p, v) =>
        (r.lookupExact (dropPrefix n p)).map fun u => Number.mul u (Number.ofNumeric v) := by
  induction ps with
  | nil => simp [Registry.prefixLoop, firstSplit]
  | cons x xs ih =>
    obtain ⟨p, v⟩ := x
    simp only [Registry.prefixLoop, firstSplit, List.find?_cons]
    by_cases hs : n.startsWith p = true
    · cases he : r.lookupExact (dropPrefix n p) with
      | some u => simp [hs, he]
      | none => simp only [hs, he, if_true]; simpa [firstSplit] using ih
    · simp only [hs]; simpa [firstSplit] using ih

theorem prefix_reading (r : Registry) (n : String) (h : r.lookupExact n = none) :
    r.lookupWithPrefix n =
      (firstSplit r n r.prefixes).bind fun (p, v) =>
        (r.lookupExact (dropPrefix n p)).map fun u => Number.mul u (Number.ofNumeric v) := by
  simp [Registry.lookupWithPrefix, h, prefixLoop_eq]

/-- **plural last**: the trailing `s` is considered only when nothing else matches … -/
theorem plural_not_considered (r : Registry) (n : String) (v : Number) (h : r.lookupWithPrefix n = some v) :
    r.lookup n = some v := by
  simp [Registry.lookup, h]

/-- … and then it is the singular's exact-then-prefix reading -/
theorem plural_last (r : Registry) (n : String) (h : r.lookupWithPrefix n = none) :
    r.lookup n = (stripS n).bind r.lookupWithPrefix := by
  simp only [Registry.lookup, h]
  cases stripS n <;> rfl

/-- the previous answer shadows the database for `ans`, `ANS`, `_` only -/
theorem ctx_lookup_database (c : Ctx) (n : String) (h1 : n ≠ "ans") (h2 : n ≠ "ANS") (h3 : n ≠ "_")
    (ht : c.temporaries n = none) : c.lookup n = c.reg.lookup n := by
  simp [Ctx.lookup, h1, h2, h3, ht]

/-- resolution is a function of the registry value (determinism) -/
theorem lookup_deterministic (r₁ r₂ : Registry) (n : String)
    (hb : r₁.isBaseUnit = r₂.isBaseUnit) (hu : r₁.unit = r₂.unit) (hp : r₁.prefixes = r₂.prefixes) :
    r₁.lookup n = r₂.lookup n := by
  have hex : r₁.lookupExact = r₂.lookupExact := by
    funext m; simp [Registry.lookupExact, hb, hu]
  have hpl : ∀ m ps, r₁.prefixLoop m ps = r₂.prefixLoop m ps := by
    intro m ps
    induction ps with
    | nil => simp [Registry.prefixLoop]
    | cons x xs ih => obtain ⟨p, v⟩ := x; simp [Registry.prefixLoop, hex, ih]
  have hwp : r₁.lookupWithPrefix = r₂.lookupWithPrefix := by
    funext m; simp [Registry.lookupWithPrefix, hex, hp, hpl]
  simp [Registry.lookup, hwp]

end Rink.Spec
