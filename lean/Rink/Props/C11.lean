import Rink.Model.Print
/-!
# C11 — Printed expressions re-parse to the same expression

Status: the printer (`Print.display`), the lexer and the parser are modelled and compared with
the implementation on every generated tree (text and re-parsed tree, exhaustive to depth 2/3).
The unbounded theorem `parse (lex (display e)) = e` is future work (DESIGN.md, Appendix A.1);
what is proved here are the finite obligations its proof rests on — well-formedness of the
precedence tables for every operator — and, as kernel-checked *tests* (labelled as such), the
round trip of the shapes that failed before the `fix:` commit.
-/
namespace Rink.Spec
open Rink Rink.Print

def allOps : List BinOp := [.add, .sub, .frac, .pow, .equals, .shl, .shr, .mod, .and, .or, .xor]

/-- Well-formedness of the tables for *every* operator (a finite table, checked completely):
the left operand is printed strictly tighter than the operator's own level (so a same-level
operator on the left is parenthesised and re-associates nowhere), and the right operand is
printed strictly tighter too, except for the right-associative `^`. -/
theorem prec_tables_wf :
    ∀ op ∈ allOps,
      (precNext op).rank < (precOf op).rank ∧
      (if op = .pow then precRight op = precOf op else (precRight op).rank < (precOf op).rank) := by
  decide

def rt (e : Expr) : Bool :=
  let text := Print.render (fun _ _ => 1) Lex.asciiClass e
  let ts := Lex.lex Lex.asciiClass text.toList
  let (e', rest) := Parse.parseEq (Parse.parseFuel ts) ts
  Parse.peek rest == .eof && (repr e').pretty == (repr e).pretty

private def a := Expr.unit "a"
private def b := Expr.unit "b"
private def c := Expr.unit "c"

/-- (test) the shapes that lost their parentheses before the fix now round-trip -/
theorem former_counterexamples_roundtrip :
    Print.render (fun _ _ => 1) Lex.asciiClass (.binop .sub a (.binop .sub b c)) = "a - (b - c)" ∧
    Print.render (fun _ _ => 1) Lex.asciiClass (.binop .frac a (.binop .frac b c)) = "a / (b / c)" ∧
    Print.render (fun _ _ => 1) Lex.asciiClass (.binop .mod a (.binop .frac b c)) = "a mod (b / c)" ∧
    Print.render (fun _ _ => 1) Lex.asciiClass (.binop .equals a (.binop .equals b c)) = "a = (b = c)" ∧
    Print.render (fun _ _ => 1) Lex.asciiClass (.ofProp "foo" (.binop .frac a b)) = "foo of (a / b)" ∧
    Print.render (fun _ _ => 1) Lex.asciiClass (.binop .pow a (.binop .pow b c)) = "a^b^c" := by
  decide +kernel

/-- (test) a signed factor that is not first in a product is parenthesised -/
theorem sign_factor_parenthesised :
    Print.render (fun _ _ => 1) Lex.asciiClass (.mul [a, .unary .negative b]) = "a (-b)" ∧
    Print.render (fun _ _ => 1) Lex.asciiClass (.mul [.unary .negative a, b]) = "-a b" := by
  decide +kernel

end Rink.Spec
