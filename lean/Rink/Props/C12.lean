import Rink.Model.Load
import Mathlib.Data.String.Basic
import Mathlib.Data.List.Perm.Basic
import Mathlib.Data.List.Nodup
/-!
# C12 — definition order does not matter

`load_defs` first files every definition under its `(namespace, name)` key in ordered maps
(`buildInput`); everything that follows — the resolver, the evaluation, docs and categories — is
a function of those maps.  The theorems show that for uniquely named definitions the maps are
the same for every permutation of the list (and produce no "multiple definitions" warning), so
the whole loaded state is the same; splitting a list across files is concatenation in some
order, a special case.
-/
set_option linter.unusedSimpArgs false
set_option linter.unusedVariables false

namespace Rink.Spec.C12
open Rink Rink.Load Rink.Gnu

/-! ### the key order is a strict total order -/

theorem rank_inj {a b : Namespace} (h : a.rank = b.rank) : a = b := by
  cases a <;> cases b <;> simp [Namespace.rank] at h <;> rfl

theorem lt_irrefl (a : Id) : a.lt a = false := by
  simp [Id.lt]

theorem lt_trans {a b c : Id} (h1 : a.lt b = true) (h2 : b.lt c = true) : a.lt c = true := by
  simp only [Id.lt, Bool.or_eq_true, Bool.and_eq_true, decide_eq_true_eq, beq_iff_eq] at *
  rcases h1 with h1 | ⟨h1, h1'⟩ <;> rcases h2 with h2 | ⟨h2, h2'⟩
  · left; omega
  · left; omega
  · left; omega
  · right; exact ⟨by omega, _root_.lt_trans h1' h2'⟩

theorem lt_asymm {a b : Id} (h1 : a.lt b = true) : b.lt a = false := by
  cases h : b.lt a
  · rfl
  · have := lt_trans h1 h; simp [lt_irrefl] at this

theorem lt_total {a b : Id} (h : a ≠ b) : a.lt b = true ∨ b.lt a = true := by
  simp only [Id.lt, Bool.or_eq_true, Bool.and_eq_true, decide_eq_true_eq, beq_iff_eq]
  rcases Nat.lt_trichotomy a.ns.rank b.ns.rank with h1 | h1 | h1
  · left; left; exact h1
  · rcases lt_trichotomy a.name b.name with h2 | h2 | h2
    · left; right; exact ⟨h1, h2⟩
    · have hns := rank_inj h1
      exact absurd (by cases a; cases b; simp_all) h
    · right; right; exact ⟨h1.symm, h2⟩
  · right; left; exact h1

/-! ### insertions under different keys commute -/

theorem smInsert_comm {α} (k1 k2 : Id) (v1 v2 : α) (h : k1 ≠ k2) (l : List (Id × α)) :
    (smInsert k1 v1 (smInsert k2 v2 l).1).1 = (smInsert k2 v2 (smInsert k1 v1 l).1).1 := by
  induction l with
  | nil =>
    rcases lt_total h with h1 | h1
    · have := lt_asymm h1; simp [smInsert, h, Ne.symm h, h1, this]
    · have := lt_asymm h1; simp [smInsert, h, Ne.symm h, h1, this]
  | cons x rest ih =>
    obtain ⟨k, v⟩ := x
    by_cases e1 : k1 = k <;> by_cases e2 : k2 = k
    · exact absurd (e1.trans e2.symm) h
    · subst e1
      rcases lt_total h with h1 | h1
      · have := lt_asymm h1; simp [smInsert, h, Ne.symm h, h1, this, e2]
      · have := lt_asymm h1; simp [smInsert, h, Ne.symm h, h1, this, e2]
    · subst e2
      rcases lt_total h with h1 | h1
      · have := lt_asymm h1; simp [smInsert, h, Ne.symm h, h1, this, e1]
      · have := lt_asymm h1; simp [smInsert, h, Ne.symm h, h1, this, e1]
    · cases c1 : k1.lt k <;> cases c2 : k2.lt k
      · simp [smInsert, e1, e2, c1, c2, ih]
      · -- k2 < k, and k1 is not below k: so k2 < k1
        have hk : k.lt k1 = true := by rcases lt_total e1 with h' | h'; · simp [h'] at c1
                                       · exact h'
        have h21 : k2.lt k1 = true := lt_trans c2 hk
        have h12 := lt_asymm h21
        simp [smInsert, e1, e2, c1, c2, h, Ne.symm h, h21, h12]
      · have hk : k.lt k2 = true := by rcases lt_total e2 with h' | h'; · simp [h'] at c2
                                       · exact h'
        have h12 : k1.lt k2 = true := lt_trans c1 hk
        have h21 := lt_asymm h12
        simp [smInsert, e1, e2, c1, c2, h, Ne.symm h, h21, h12]
      · rcases lt_total h with h1 | h1
        · have := lt_asymm h1; simp [smInsert, e1, e2, c1, c2, h, Ne.symm h, h1, this]
        · have := lt_asymm h1; simp [smInsert, e1, e2, c1, c2, h, Ne.symm h, h1, this]

theorem ssInsert_comm (k1 k2 : Id) (l : List Id) :
    ssInsert k1 (ssInsert k2 l) = ssInsert k2 (ssInsert k1 l) := by
  by_cases h : k1 = k2
  · subst h; rfl
  induction l with
  | nil =>
    rcases lt_total h with h1 | h1
    · have := lt_asymm h1; simp [ssInsert, h, Ne.symm h, h1, this]
    · have := lt_asymm h1; simp [ssInsert, h, Ne.symm h, h1, this]
  | cons k rest ih =>
    by_cases e1 : k1 = k <;> by_cases e2 : k2 = k
    · exact absurd (e1.trans e2.symm) h
    · subst e1
      rcases lt_total h with h1 | h1
      · have := lt_asymm h1; simp [ssInsert, h, Ne.symm h, h1, this, e2]
      · have := lt_asymm h1; simp [ssInsert, h, Ne.symm h, h1, this, e2]
    · subst e2
      rcases lt_total h with h1 | h1
      · have := lt_asymm h1; simp [ssInsert, h, Ne.symm h, h1, this, e1]
      · have := lt_asymm h1; simp [ssInsert, h, Ne.symm h, h1, this, e1]
    · cases c1 : k1.lt k <;> cases c2 : k2.lt k
      · simp [ssInsert, e1, e2, c1, c2, ih]
      · have hk : k.lt k1 = true := by rcases lt_total e1 with h' | h'; · simp [h'] at c1
                                       · exact h'
        have h21 : k2.lt k1 = true := lt_trans c2 hk
        have h12 := lt_asymm h21
        simp [ssInsert, e1, e2, c1, c2, h, Ne.symm h, h21, h12]
      · have hk : k.lt k2 = true := by rcases lt_total e2 with h' | h'; · simp [h'] at c2
                                       · exact h'
        have h12 : k1.lt k2 = true := lt_trans c1 hk
        have h21 := lt_asymm h12
        simp [ssInsert, e1, e2, c1, c2, h, Ne.symm h, h21, h12]
      · rcases lt_total h with h1 | h1
        · have := lt_asymm h1; simp [ssInsert, e1, e2, c1, c2, h, Ne.symm h, h1, this]
        · have := lt_asymm h1; simp [ssInsert, e1, e2, c1, c2, h, Ne.symm h, h1, this]

/-! ### keys present after an insertion; the "already present" flag -/

theorem smInsert_keys {α} (k : Id) (v : α) (l : List (Id × α)) :
    ∀ x ∈ (smInsert k v l).1.map (·.1), x = k ∨ x ∈ l.map (·.1) := by
  induction l with
  | nil => simp [smInsert]
  | cons y rest ih =>
    obtain ⟨k', v'⟩ := y
    intro x hx
    simp only [smInsert] at hx
    split at hx
    · simp at hx ⊢; rcases hx with hx | hx
      · left; exact hx
      · right; right; exact hx
    · split at hx
      · simp at hx ⊢; rcases hx with hx | hx | hx
        · left; exact hx
        · right; left; exact hx
        · right; right; exact hx
      · simp at hx ⊢
        rcases hx with hx | hx
        · right; left; exact hx
        · rcases ih x (by simpa using hx) with h | h
          · left; exact h
          · right; right; simpa using h

theorem smInsert_fresh {α} (k : Id) (v : α) (l : List (Id × α)) (h : k ∉ l.map (·.1)) :
    (smInsert k v l).2 = false := by
  induction l with
  | nil => simp [smInsert]
  | cons y rest ih =>
    obtain ⟨k', v'⟩ := y
    simp only [List.map_cons, List.mem_cons, not_or] at h
    simp only [smInsert]
    split
    · rename_i he; simp at he; exact absurd he h.1
    · split
      · rfl
      · exact ih h.2

/-! ### one entry -/

/-- the keys an entry occupies in the `input` map -/
def entryKeys (d : DefEntry) : List Id :=
  match longKey d with
  | some k => [k, idOf d]
  | none => [idOf d]

theorem insOpt_keys {α} (k : Option Id) (v : α) (l : List (Id × α)) :
    ∀ x ∈ (insOpt k v l).map (·.1), some x = k ∨ x ∈ l.map (·.1) := by
  intro x hx
  cases k with
  | none => right; simpa [insOpt] using hx
  | some k =>
    rcases smInsert_keys k v l x (by simpa [insOpt] using hx) with h | h
    · left; rw [h]
    · right; exact h

theorem addEntry_keys (st : Input) (d : DefEntry) :
    ∀ x ∈ (addEntry st d).input.map (·.1), x ∈ entryKeys d ∨ x ∈ st.input.map (·.1) := by
  intro x hx
  simp only [addEntry] at hx
  rcases smInsert_keys _ _ _ x hx with h | h
  · left; unfold entryKeys; split <;> simp [h]
  · rcases insOpt_keys _ _ _ x h with h' | h'
    · left; unfold entryKeys; rw [← h']; simp
    · right; exact h'

/-- a fresh entry raises no "multiple definitions" warning -/
theorem addEntry_no_warning (st : Input) (d : DefEntry) (hn : (entryKeys d).Nodup)
    (hf : ∀ k ∈ entryKeys d, k ∉ st.input.map (·.1)) : (addEntry st d).errors = st.errors := by
  have hfresh : idOf d ∉ (insOpt (longKey d) d.defn st.input).map (·.1) := by
    intro hmem
    rcases insOpt_keys _ _ _ _ hmem with h | h
    · unfold entryKeys at hn; rw [← h] at hn; simp at hn
    · exact hf (idOf d) (by unfold entryKeys; split <;> simp) h
  simp [addEntry, smInsert_fresh _ _ _ hfresh]

theorem insOpt_comm {α} (k1 k2 : Option Id) (v1 v2 : α) (h : ∀ a b, k1 = some a → k2 = some b → a ≠ b) (l : List (Id × α)) :
    insOpt k1 v1 (insOpt k2 v2 l) = insOpt k2 v2 (insOpt k1 v1 l) := by
  cases k1 <;> cases k2 <;> simp [insOpt]
  exact smInsert_comm _ _ _ _ (h _ _ rfl rfl) l

theorem insOpt_smInsert_comm {α} (k1 : Option Id) (k2 : Id) (v1 v2 : α) (h : ∀ a, k1 = some a → a ≠ k2) (l : List (Id × α)) :
    insOpt k1 v1 (smInsert k2 v2 l).1 = (smInsert k2 v2 (insOpt k1 v1 l)).1 := by
  cases k1 <;> simp [insOpt]
  exact smInsert_comm _ _ _ _ (h _ rfl) l

theorem insOptP_comm {α} (a b : Option (Id × α)) (h : ∀ x y, a = some x → b = some y → x.1 ≠ y.1) (l : List (Id × α)) :
    insOptP a (insOptP b l) = insOptP b (insOptP a l) := by
  cases a <;> cases b <;> simp [insOptP]
  exact smInsert_comm _ _ _ _ (h _ _ rfl rfl) l

theorem docKey_fst {d : DefEntry} {x} (h : docKey d = some x) : x.1 = idOf d := by
  unfold docKey at h; cases hd : d.doc <;> simp [hd] at h; rw [← h]

theorem catKey_fst {d : DefEntry} {x} (h : catKey d = some x) : x.1 = idOf d := by
  unfold catKey at h; split at h
  · split at h <;> simp at h; rw [← h]
  · simp at h

theorem mem_entryKeys_id (d : DefEntry) : idOf d ∈ entryKeys d := by unfold entryKeys; split <;> simp

theorem mem_entryKeys_long {d : DefEntry} {k} (h : longKey d = some k) : k ∈ entryKeys d := by
  unfold entryKeys; simp [h]

/-- Two entries whose keys are pairwise different can be filed in either order (no warning is
involved when both are also new to the maps). -/
theorem addEntry_comm (st : Input) (a b : DefEntry)
    (hab : ∀ x ∈ entryKeys a, x ∉ entryKeys b)
    (hna : (entryKeys a).Nodup) (hnb : (entryKeys b).Nodup)
    (hfa : ∀ k ∈ entryKeys a, k ∉ st.input.map (·.1)) (hfb : ∀ k ∈ entryKeys b, k ∉ st.input.map (·.1)) :
    addEntry (addEntry st a) b = addEntry (addEntry st b) a := by
  have hid : idOf a ≠ idOf b := fun h => hab _ (mem_entryKeys_id a) (h ▸ mem_entryKeys_id b)
  have hla : ∀ k, longKey a = some k → k ≠ idOf b := fun k hk h => hab _ (mem_entryKeys_long hk) (h ▸ mem_entryKeys_id b)
  have hlb : ∀ k, longKey b = some k → k ≠ idOf a := fun k hk h => hab _ (h ▸ mem_entryKeys_id a) (mem_entryKeys_long hk)
  have hll : ∀ x y, longKey a = some x → longKey b = some y → x ≠ y :=
    fun x y hx hy h => hab _ (mem_entryKeys_long hx) (h ▸ mem_entryKeys_long hy)
  -- the warnings: neither order raises one
  have e1 : (addEntry (addEntry st a) b).errors = st.errors := by
    rw [addEntry_no_warning _ b hnb, addEntry_no_warning st a hna hfa]
    intro k hk hmem
    rcases addEntry_keys st a k hmem with h | h
    · exact hab k h hk
    · exact hfb k hk h
  have e2 : (addEntry (addEntry st b) a).errors = st.errors := by
    rw [addEntry_no_warning _ a hna, addEntry_no_warning st b hnb hfb]
    intro k hk hmem
    rcases addEntry_keys st b k hmem with h | h
    · exact hab k hk h
    · exact hfa k hk h
  have ei : (addEntry (addEntry st a) b).input = (addEntry (addEntry st b) a).input := by
    simp only [addEntry]
    rw [insOpt_smInsert_comm (longKey b) (idOf a) _ _ hlb, smInsert_comm (idOf b) (idOf a) _ _ (Ne.symm hid),
        insOpt_comm (longKey b) (longKey a) _ _ (fun x y hx hy => (hll y x hy hx).symm),
        ← insOpt_smInsert_comm (longKey a) (idOf b) _ _ hla]
  have eu : (addEntry (addEntry st a) b).unmarked = (addEntry (addEntry st b) a).unmarked := by
    simp only [addEntry]; exact ssInsert_comm _ _ _
  have ed : (addEntry (addEntry st a) b).docs = (addEntry (addEntry st b) a).docs := by
    simp only [addEntry]
    exact insOptP_comm _ _ (fun x y hx hy => by rw [docKey_fst hx, docKey_fst hy]; exact Ne.symm hid) _
  have ec : (addEntry (addEntry st a) b).categories = (addEntry (addEntry st b) a).categories := by
    simp only [addEntry]
    exact insOptP_comm _ _ (fun x y hx hy => by rw [catKey_fst hx, catKey_fst hy]; exact Ne.symm hid) _
  have ext : ∀ s t : Input, s.input = t.input → s.unmarked = t.unmarked → s.docs = t.docs → s.categories = t.categories →
      s.errors = t.errors → s = t := by
    intro s t h1 h2 h3 h4 h5; cases s; cases t; simp_all
  exact ext _ _ ei eu ed ec (e1.trans e2.symm)

/-! ### lists -/

/-- uniquely named: no key is used twice (a base unit's long name counts as a key) -/
def Unique (l : List DefEntry) : Prop := (l.flatMap entryKeys).Nodup

def Fresh (st : Input) (l : List DefEntry) : Prop :=
  (l.flatMap entryKeys).Nodup ∧ ∀ k ∈ l.flatMap entryKeys, k ∉ st.input.map (·.1)

theorem fresh_cons {st : Input} {x : DefEntry} {l : List DefEntry} (h : Fresh st (x :: l)) :
    (entryKeys x).Nodup ∧ (∀ k ∈ entryKeys x, k ∉ st.input.map (·.1)) ∧ Fresh (addEntry st x) l ∧
    (∀ k ∈ entryKeys x, k ∉ l.flatMap entryKeys) := by
  obtain ⟨hn, hf⟩ := h
  simp only [List.flatMap_cons] at hn hf
  have hn' := List.nodup_append.mp hn
  refine ⟨hn'.1, fun k hk => hf k (List.mem_append_left _ hk), ⟨hn'.2.1, ?_⟩, fun k hk hk' => hn'.2.2 k hk k hk' rfl⟩
  intro k hk hmem
  rcases addEntry_keys st x k hmem with h | h
  · exact hn'.2.2 k h k hk rfl
  · exact hf k (List.mem_append_right _ hk) h

theorem fresh_perm {st : Input} {l1 l2 : List DefEntry} (h : l1.Perm l2) (hf : Fresh st l1) : Fresh st l2 := by
  have hp : (l1.flatMap entryKeys).Perm (l2.flatMap entryKeys) := h.flatMap_right _
  exact ⟨hp.nodup_iff.mp hf.1, fun k hk => hf.2 k (hp.mem_iff.mpr hk)⟩

theorem foldl_perm {l1 l2 : List DefEntry} (h : l1.Perm l2) :
    ∀ st, Fresh st l1 → l1.foldl addEntry st = l2.foldl addEntry st := by
  induction h with
  | nil => intro st _; rfl
  | cons x _ ih =>
    intro st hf
    simp only [List.foldl_cons]
    exact ih _ (fresh_cons hf).2.2.1
  | swap x y l =>
    intro st hf
    simp only [List.foldl_cons]
    obtain ⟨hny, hfy, hf', hyl⟩ := fresh_cons hf
    obtain ⟨hnx, hfx, _, _⟩ := fresh_cons hf'
    have hxy : ∀ k ∈ entryKeys y, k ∉ entryKeys x := fun k hk hk' =>
      hyl k hk (by simp only [List.flatMap_cons]; exact List.mem_append_left _ hk')
    have hfx' : ∀ k ∈ entryKeys x, k ∉ st.input.map (·.1) := fun k hk => hf.2 k (by
      simp only [List.flatMap_cons]; exact List.mem_append_right _ (List.mem_append_left _ hk))
    rw [addEntry_comm st y x hxy hny hnx hfy hfx']
  | trans h1 _ ih1 ih2 =>
    intro st hf
    exact (ih1 st hf).trans (ih2 st (fresh_perm h1 hf))

/-- **Order independence of the keyed maps.** -/
theorem buildInput_perm {l1 l2 : List DefEntry} (h : l1.Perm l2) (hu : Unique l1) :
    buildInput l1 = buildInput l2 :=
  foldl_perm h {} ⟨hu, fun _ _ => by simp⟩

theorem foldl_no_warnings (l : List DefEntry) : ∀ st, Fresh st l → (l.foldl addEntry st).errors = st.errors := by
  induction l with
  | nil => intro st _; rfl
  | cons x rest ih =>
    intro st hf
    obtain ⟨hn, hfx, hf', _⟩ := fresh_cons hf
    simp only [List.foldl_cons]
    rw [ih _ hf', addEntry_no_warning st x hn hfx]

/-- uniquely named definitions raise no "multiple definitions" warning, in any order -/
theorem buildInput_no_warnings {l : List DefEntry} (hu : Unique l) : (buildInput l).errors = [] :=
  foldl_no_warnings l {} ⟨hu, fun _ _ => by simp⟩

/-- **C12.** The state produced by `load_defs` — values, dimensionalities, prefixes, quantities,
substances, docs, categories, and the error list — is the same for every ordering of a uniquely
named definition list, on top of any previously loaded state. -/
theorem loadDefs_perm (st : LS) {l1 l2 : List DefEntry} (h : l1.Perm l2) (hu : Unique l1) :
    loadDefs st l1 = loadDefs st l2 := by
  simp only [loadDefs, buildInput_perm h hu]

/-- splitting across files: the CLI concatenates the parsed files; any order of the files, and
any regrouping of the same entries into files, loads the same database -/
theorem loadDefs_split (st : LS) (a b c : List DefEntry) (hu : Unique (a ++ b ++ c)) :
    loadDefs st (a ++ b ++ c) = loadDefs st (c ++ a ++ b) ∧ loadDefs st (a ++ b ++ c) = loadDefs st (b ++ a ++ c) ∧
    loadDefs st (a ++ b ++ c) = loadDefs st (c ++ b ++ a) := by
  refine ⟨loadDefs_perm st ?_ hu, loadDefs_perm st ?_ hu, loadDefs_perm st ?_ hu⟩
  · rw [List.append_assoc c a b]; exact List.perm_append_comm
  · exact List.Perm.append_right c List.perm_append_comm
  · have h1 : (a ++ b ++ c).Perm (c ++ (a ++ b)) := List.perm_append_comm
    have h2 : (c ++ (a ++ b)).Perm (c ++ (b ++ a)) := List.Perm.append_left c List.perm_append_comm
    rw [List.append_assoc c b a]
    exact h1.trans h2

/-! ### non-vacuity: a forward-referencing list is uniquely named, and reversing it changes nothing -/

def sample : List DefEntry :=
  [ { name := "km", defn := .unit (.unit "kilometer"), doc := none, category := none },
    { name := "kilo", defn := .prefix_ (.const (.rational 1000)) true, doc := none, category := none },
    { name := "m", defn := .baseUnit (some "meter"), doc := some "the metre", category := some "si" },
    { name := "si", defn := .category "SI", doc := none, category := none } ]

theorem sample_unique : Unique sample := by unfold Unique; decide +kernel
example : buildInput sample = buildInput sample.reverse := buildInput_perm (List.reverse_perm _).symm sample_unique

end Rink.Spec.C12
