import Rink.Model.Eval
import Mathlib.Tactic.FieldSimp
import Mathlib.Tactic.Ring
import Mathlib.Tactic.Linarith
import Mathlib.Data.Rat.Defs
import Mathlib.Algebra.Order.Field.Rat
import Mathlib.Algebra.GroupWithZero.Basic
import Mathlib.Algebra.GroupWithZero.Units.Basic
import Mathlib.Algebra.Group.Basic
import Mathlib.Data.String.Basic
/-!
# C06 — the unit printed for a conversion target denotes the target

`eval_unit_name` turns the right-hand side of `top -> target` into what is printed after the
numeral: a constant factor and a map from unit names to powers.  The numeral is `top / bottom`
where `bottom` is the value of the target (`eval_expr`).  The theorem of this file says that
the two evaluations of the target agree:

    bottom = factor · ∏ (value of nameᵢ) ^ powerᵢ

for every target expression (every operator, any nesting), whenever the value is exact.  It
is the statement that was false before the repair `d3ae969` of `/repo` (`2 m + 3 m`,
`7 m mod 4 m`, `6 and 3`, `(m^2)^0.5` kept only part of the constant or of the exponent).

Hypotheses, each of them necessary:
* `CanonOK`: the canonical name of a unit denotes what the name typed denotes (C07's subject,
  checked there by correspondence on every name of the database);
* `TargetOK`: no quoted string and no `=` in the target (a quote makes a fresh base unit and
  `name = expr` binds a name for this query only: the printed name then denotes something
  that exists only inside the query).
-/
namespace Rink.Spec.C06T
open Rink Rink.Eval

/-- the exact value a printed unit name denotes when read back -/
def nameVal (ctx : Ctx) (n : String) : Option Rat :=
  match ctx.lookup n with
  | some ⟨.rational q, _⟩ => some q
  | _ => none

/-- `∏ (value of nameᵢ) ^ powerᵢ`; undefined when a name does not resolve to an exact value or
a zero value stands under a negative power -/
def namesVal (ctx : Ctx) : NameMap → Option Rat
  | [] => some 1
  | (n, p) :: rest =>
    match nameVal ctx n, namesVal ctx rest with
    | some q, some r => if q = 0 ∧ p < 0 then none else some (q ^ p * r)
    | _, _ => none

theorem namesVal_cons {ctx : Ctx} {n : String} {p : Int} {rest : NameMap} {x : Rat}
    (h : namesVal ctx ((n, p) :: rest) = some x) :
    ∃ q r, nameVal ctx n = some q ∧ namesVal ctx rest = some r ∧ ¬(q = 0 ∧ p < 0) ∧ x = q ^ p * r := by
  simp only [namesVal] at h
  split at h
  · rename_i q r hq hr
    split at h
    · simp at h
    · rename_i hz
      exact ⟨q, r, hq, hr, hz, by simpa using h.symm⟩
  · simp at h

theorem namesVal_cons_intro {ctx : Ctx} {n : String} {p : Int} {rest : NameMap} {q r : Rat}
    (hq : nameVal ctx n = some q) (hr : namesVal ctx rest = some r) (hz : ¬(q = 0 ∧ p < 0)) :
    namesVal ctx ((n, p) :: rest) = some (q ^ p * r) := by
  simp only [namesVal, hq, hr, hz, if_false]

/-- a zero value stands under non-negative powers only: powers add -/
theorem zpow_add_of (q : Rat) (a b : Int) (ha : ¬(q = 0 ∧ a < 0)) (hb : ¬(q = 0 ∧ b < 0)) :
    q ^ (a + b) = q ^ a * q ^ b := by
  by_cases hq : q = 0
  · subst hq
    have ha' : 0 ≤ a := by by_contra h; exact ha ⟨rfl, by omega⟩
    have hb' : 0 ≤ b := by by_contra h; exact hb ⟨rfl, by omega⟩
    obtain ⟨m, rfl⟩ := Int.eq_ofNat_of_zero_le ha'
    obtain ⟨n, rfl⟩ := Int.eq_ofNat_of_zero_le hb'
    rw [← Int.natCast_add, zpow_natCast, zpow_natCast, zpow_natCast, pow_add]
  · exact zpow_add₀ hq a b

/-- **the name maps of two factors merge into the product of what they denote**
(`btree_merge` with powers added and zero powers dropped) -/
theorem namesVal_merge (ctx : Ctx) : ∀ (a b : NameMap) (x y : Rat),
    namesVal ctx a = some x → namesVal ctx b = some y →
    namesVal ctx (Dim.merge Dim.addDrop a b) = some (x * y) := by
  intro a b
  fun_induction Dim.merge Dim.addDrop a b with
  | case1 r =>
    intro x y hx hy
    simp only [namesVal] at hx
    cases hx
    simpa using hy
  | case2 l hl =>
    intro x y hx hy
    simp only [namesVal] at hy
    cases hy
    simpa using hx
  | case3 ka va l kb vb r hlt ih =>
    intro x y hx hy
    obtain ⟨q, x', hq, hx', hz, rfl⟩ := namesVal_cons hx
    rw [namesVal_cons_intro hq (ih x' y hx' hy) hz]
    congr 1; ring
  | case4 ka va l kb vb r hnlt hlt ih =>
    intro x y hx hy
    obtain ⟨q, y', hq, hy', hz, rfl⟩ := namesVal_cons hy
    rw [namesVal_cons_intro hq (ih x y' hx hy') hz]
    congr 1; ring
  | case5 ka va l kb vb r h1 h2 v hv ih =>
    intro x y hx hy
    have hk : ka = kb := by
      rcases lt_trichotomy ka kb with h | h | h
      · exact absurd h h1
      · exact h
      · exact absurd h h2
    subst hk
    obtain ⟨q, x', hq, hx', hzx, rfl⟩ := namesVal_cons hx
    obtain ⟨q', y', hq', hy', hzy, rfl⟩ := namesVal_cons hy
    rw [hq] at hq'; cases hq'
    have hv' : v = va + vb := by
      unfold Dim.addDrop at hv; split at hv <;> simp at hv; exact hv.symm
    subst hv'
    have hz : ¬(q = 0 ∧ va + vb < 0) := by
      rintro ⟨rfl, hneg⟩
      have : 0 ≤ va := by by_contra h; exact hzx ⟨rfl, by omega⟩
      have : 0 ≤ vb := by by_contra h; exact hzy ⟨rfl, by omega⟩
      omega
    rw [namesVal_cons_intro hq (ih x' y' hx' hy') hz, zpow_add_of q va vb hzx hzy]
    congr 1; ring
  | case6 ka va l kb vb r h1 h2 hv ih =>
    intro x y hx hy
    have hk : ka = kb := by
      rcases lt_trichotomy ka kb with h | h | h
      · exact absurd h h1
      · exact h
      · exact absurd h h2
    subst hk
    obtain ⟨q, x', hq, hx', hzx, rfl⟩ := namesVal_cons hx
    obtain ⟨q', y', hq', hy', hzy, rfl⟩ := namesVal_cons hy
    rw [hq] at hq'; cases hq'
    have hs : va + vb = 0 := by
      unfold Dim.addDrop at hv; split at hv
      · simp at hv
      · rename_i h; simpa using h
    have h1' : q ^ va * q ^ vb = 1 := by
      rw [← zpow_add_of q va vb hzx hzy, hs, zpow_zero]
    rw [ih x' y' hx' hy']
    congr 1
    calc x' * y' = (q ^ va * q ^ vb) * (x' * y') := by rw [h1']; ring
      _ = q ^ va * x' * (q ^ vb * y') := by ring


/-- every power multiplied by `k ≠ 0` (`Number::powi` on the name map) -/
theorem namesVal_scale (ctx : Ctx) (k : Int) : ∀ (a : NameMap) (x : Rat),
    namesVal ctx a = some x → (k < 0 → x ≠ 0) → namesVal ctx (Dim.scale a k) = some (x ^ k) := by
  intro a
  induction a with
  | nil =>
    intro x hx _
    simp only [namesVal] at hx; cases hx
    simp [Dim.scale, namesVal]
  | cons h t ih =>
    obtain ⟨n, p⟩ := h
    intro x hx hk
    obtain ⟨q, r, hq, hr, hz, rfl⟩ := namesVal_cons hx
    have hr' : k < 0 → r ≠ 0 := fun h => right_ne_zero_of_mul (hk h)
    have ht := ih r hr hr'
    have hz' : ¬(q = 0 ∧ p * k < 0) := by
      rintro ⟨rfl, hneg⟩
      have hp : 0 ≤ p := by by_contra h; exact hz ⟨rfl, by omega⟩
      by_cases hk0 : k < 0
      · have hne := left_ne_zero_of_mul (hk hk0)
        have hp0 : p = 0 := by
          by_contra hp0
          exact hne (zero_zpow p hp0)
        subst hp0; simp at hneg
      · have : 0 ≤ p * k := Int.mul_nonneg hp (by omega)
        omega
    have : Dim.scale ((n, p) :: t) k = (n, p * k) :: Dim.scale t k := by simp [Dim.scale]
    rw [this, namesVal_cons_intro hq ht hz', mul_zpow, zpow_mul]

theorem namesVal_pow (ctx : Ctx) (k : Int) (a : NameMap) (x : Rat)
    (hx : namesVal ctx a = some x) (hk : k < 0 → x ≠ 0) : namesVal ctx (Dim.pow a k) = some (x ^ k) := by
  unfold Dim.pow
  split
  · rename_i h; subst h; simp [namesVal]
  · exact namesVal_scale ctx k a x hx hk

theorem namesVal_recip (ctx : Ctx) (a : NameMap) (x : Rat) (hx : namesVal ctx a = some x) (h0 : x ≠ 0) :
    namesVal ctx (a.map fun (k, p) => (k, -p)) = some x⁻¹ := by
  have : (a.map fun (k, p) => (k, -p)) = Dim.scale a (-1) := by
    unfold Dim.scale
    apply List.map_congr_left
    intro ⟨k, p⟩ _
    simp
  rw [this, namesVal_scale ctx (-1) a x hx (fun _ => h0), zpow_neg_one]

/-! ### what the arithmetic of `Number` does to exact values -/

theorem numeric_add_rat {a b : Numeric} {c : Rat} (h : a.add b = .rational c) :
    ∃ x y, a = .rational x ∧ b = .rational y ∧ c = x + y := by
  cases a <;> cases b <;> simp [Numeric.add] at h
  exact ⟨_, _, rfl, rfl, h.symm⟩

theorem numeric_sub_rat {a b : Numeric} {c : Rat} (h : a.sub b = .rational c) :
    ∃ x y, a = .rational x ∧ b = .rational y ∧ c = x - y := by
  cases a <;> cases b <;> simp [Numeric.sub] at h
  exact ⟨_, _, rfl, rfl, h.symm⟩

theorem numeric_mul_rat {a b : Numeric} {c : Rat} (h : a.mul b = .rational c) :
    ∃ x y, a = .rational x ∧ b = .rational y ∧ c = x * y := by
  cases a <;> cases b <;> simp [Numeric.mul] at h
  exact ⟨_, _, rfl, rfl, h.symm⟩

theorem numeric_div_rat {a b : Numeric} {c : Rat} (h : a.div b = .ok (.rational c)) :
    ∃ x y, a = .rational x ∧ b = .rational y ∧ y ≠ 0 ∧ c = x / y := by
  cases a <;> cases b <;> simp [Numeric.div] at h
  rename_i x y
  split at h
  · simp at h
  · rename_i hy
    simp at h
    exact ⟨x, y, rfl, rfl, hy, h.symm⟩

theorem numeric_pow_rat {a : Numeric} {k : Int} {c : Rat} (h : a.pow k = .ok (.rational c)) :
    ∃ x, a = .rational x ∧ ¬(x = 0 ∧ k < 0) ∧ c = x ^ k := by
  cases a with
  | float =>
    unfold Numeric.pow at h
    split at h <;> simp [Numeric.powNat, Numeric.div, Numeric.one] at h
  | rational x =>
    refine ⟨x, rfl, ?_⟩
    unfold Numeric.pow at h
    split at h
    · rename_i hk
      simp only [Numeric.powNat, Numeric.one] at h
      obtain ⟨u, v, hu, hv, hv0, hc⟩ := numeric_div_rat h
      cases hu; cases hv
      constructor
      · rintro ⟨rfl, _⟩
        apply hv0
        have : k.natAbs ≠ 0 := by omega
        simp [this]
      · rw [hc]
        have hk' : k = -(k.natAbs : Int) := by omega
        conv_rhs => rw [hk', zpow_neg, zpow_natCast]
        simp
    · rename_i hk
      simp only [Numeric.powNat] at h
      have hc : c = x ^ k.natAbs := by simpa using h.symm
      constructor
      · rintro ⟨_, hneg⟩; exact hk hneg
      · have hk' : k = (k.natAbs : Int) := by omega
        conv_rhs => rw [hk', zpow_natCast]
        exact hc


theorem number_add_rat {a b c : Number} {cv : Rat} (h : Number.add a b = .ok c) (hc : c.value = .rational cv) :
    ∃ x y, a.value = .rational x ∧ b.value = .rational y ∧ cv = x + y := by
  unfold Number.add at h
  split at h
  · simp at h
  · cases h; exact numeric_add_rat hc

theorem number_sub_rat {a b c : Number} {cv : Rat} (h : Number.sub a b = .ok c) (hc : c.value = .rational cv) :
    ∃ x y, a.value = .rational x ∧ b.value = .rational y ∧ cv = x - y := by
  unfold Number.sub at h
  split at h
  · simp at h
  · cases h; exact numeric_sub_rat hc

theorem number_div_rat {a b c : Number} {cv : Rat} (h : Number.div a b = .ok c) (hc : c.value = .rational cv) :
    ∃ x y, a.value = .rational x ∧ b.value = .rational y ∧ y ≠ 0 ∧ cv = x / y := by
  unfold Number.div at h
  split at h
  · rename_i q hq
    split at h
    · simp at h
    · rename_i hq0
      obtain ⟨i, hi, hm⟩ := (Outcome.bind_eq_ok _ _ _).mp h
      unfold Number.invert at hi
      obtain ⟨v, hv, hi'⟩ := (Outcome.bind_eq_ok _ _ _).mp hi
      cases hi'
      cases hm
      simp only [Number.mul] at hc
      obtain ⟨x, y, hx, hy, hxy⟩ := numeric_mul_rat hc
      subst hy
      obtain ⟨u, w, hu, hw, hw0, hyv⟩ := numeric_div_rat hv
      rw [hq] at hw; cases hw
      simp only [Numeric.one] at hu; cases hu
      exact ⟨x, q, hx, hq, hw0, by rw [hxy, hyv]; ring⟩
  · simp at h

theorem number_rem_rat {a b c : Number} {cv : Rat} (h : Number.rem a b = .ok c) (hc : c.value = .rational cv) :
    ∃ x y, a.value = .rational x ∧ b.value = .rational y ∧ y ≠ 0 ∧ cv = Numeric.ratRem x y := by
  unfold Number.rem at h
  split at h
  · simp at h
  · split at h
    · rename_i q hq
      split at h
      · simp at h
      · rename_i hq0
        obtain ⟨v, hv, hm⟩ := (Outcome.bind_eq_ok _ _ _).mp h
        cases hm
        simp only at hc
        subst hc
        rw [hq] at hv
        cases ha : a.value with
        | float => rw [ha] at hv; simp [Numeric.rem] at hv
        | rational x =>
          rw [ha] at hv
          simp only [Numeric.rem] at hv
          split at hv
          · simp at hv
          · simp at hv
            exact ⟨x, q, rfl, hq, hq0, hv.symm⟩
    · cases h; simp at hc

theorem number_bitop_rat {f : Int → Int → Int} {a b c : Number} (h : Number.bitop f a b = .ok c) :
    ∃ x y : Int, a.value = .rational x ∧ b.value = .rational y ∧ c.value = .rational (f x y) := by
  unfold Number.bitop at h
  split at h
  · simp at h
  · split at h
    · rename_i x y hx hy
      cases h
      have h1 : ∀ (n : Numeric) (z : Int), n.asInt? = some z → n = .rational z := by
        intro n z hn
        cases n with
        | float => simp [Numeric.asInt?] at hn
        | rational q =>
          simp only [Numeric.asInt?] at hn
          split at hn
          · rename_i hd
            simp at hn
            congr
            rw [← hn]
            exact (Rat.den_eq_one_iff q).mp hd |>.symm
          · simp at hn
      exact ⟨x, y, h1 _ _ hx, h1 _ _ hy, rfl⟩
    · simp at h

theorem powi_parts {a c : Number} {k : Int} (h : Number.powi a k = .ok c) :
    c.unit = Dim.pow a.unit k ∧ a.value.pow k = .ok c.value := by
  unfold Number.powi at h
  split at h
  · simp at h
  · split at h
    · simp at h
    · obtain ⟨v, hv, hm⟩ := (Outcome.bind_eq_ok _ _ _).mp h
      cases hm
      exact ⟨rfl, hv⟩

/-- `Number::pow` with an integer exponent `k`: every power of the unit is multiplied by `k`
and the value is `Numeric::pow(k)` of the value -/
theorem number_pow_of_int {a e c : Number} {k : Int} (he : e.value = .rational k)
    (h : Number.pow a e = .ok c) : c.unit = Dim.pow a.unit k ∧ a.value.pow k = .ok c.value := by
  unfold Number.pow at h
  split at h
  · simp at h
  · rw [he] at h
    simp only at h
    split at h
    · simp at h
    · have hd : ((k : Rat)).den = 1 := Rat.den_intCast k
      have hn : ((k : Rat)).num = k := Rat.num_intCast k
      rw [if_pos hd, hn] at h
      split at h
      · split at h
        · simp at h
        · exact powi_parts h
      · exact powi_parts h

/-- `Number::pow` with an exact result: the exponent is an integer -/
theorem number_pow_rat {a e c : Number} {cv : Rat} (h : Number.pow a e = .ok c) (hc : c.value = .rational cv) :
    ∃ k : Int, e.value = .rational k := by
  unfold Number.pow at h
  split at h
  · simp at h
  · split at h
    · cases h
    · rename_i r hr
      split at h
      · simp at h
      · split at h
        · rename_i hd
          exact ⟨r.num, by rw [hr]; congr; exact ((Rat.den_eq_one_iff r).mp hd).symm⟩
        · split at h
          · -- a root is a machine float
            unfold Number.root at h
            split at h
            · simp at h
            · split at h
              · simp at h
              · split at h
                · simp at h
                · cases h; simp at hc
          · split at h
            · simp at h
            · cases h; simp at hc


/-! ### the theorem -/

/-- the canonical name printed for a unit denotes what the name typed denotes -/
def CanonOK (ctx : Ctx) : Prop :=
  ∀ name c v, ctx.canonicalize name = some c → ctx.lookup name = some v → ctx.lookup c = some v

/-- conversion targets without quoted strings and without `name = expr` -/
def TargetOK : Expr → Prop
  | .quote _ => False
  | .binop op l r =>
    match op with
    | .equals => False
    | .pow => TargetOK l
    | _ => TargetOK l ∧ TargetOK r
  | .unary _ e => TargetOK e
  | .mul es => TargetOKList es
  | _ => True
where
  TargetOKList : List Expr → Prop
    | [] => True
    | e :: es => TargetOK e ∧ TargetOKList es

/-- value `b` of the target and printed (names, factor) agree: `b = factor · ∏ nameᵢ ^ powerᵢ` -/
def Agree (ctx : Ctx) (b : Number) (nc : NameMap × Numeric) : Prop :=
  ∀ bv, b.value = .rational bv →
    ∃ cv nv, nc.2 = .rational cv ∧ namesVal ctx nc.1 = some nv ∧ bv = cv * nv

theorem agree_mul {ctx : Ctx} {a b : Number} {an bn : NameMap × Numeric}
    (ha : Agree ctx a an) (hb : Agree ctx b bn) :
    Agree ctx (Number.mul a b) (nmMerge an.1 bn.1, an.2.mul bn.2) := by
  intro v hv
  simp only [Number.mul] at hv
  obtain ⟨x, y, hx, hy, rfl⟩ := numeric_mul_rat hv
  obtain ⟨c1, n1, hc1, hn1, rfl⟩ := ha x hx
  obtain ⟨c2, n2, hc2, hn2, rfl⟩ := hb y hy
  refine ⟨c1 * c2, n1 * n2, ?_, ?_, by ring⟩
  · simp [hc1, hc2, Numeric.mul]
  · exact namesVal_merge ctx _ _ _ _ hn1 hn2


theorem numeric_pow_is_rat {c : Rat} {k : Int} {v : Numeric} (h : (Numeric.rational c).pow k = .ok v) :
    ∃ w, v = .rational w := by
  unfold Numeric.pow at h
  split at h
  · simp only [Numeric.powNat, Numeric.one, Numeric.div] at h
    split at h
    · simp at h
    · simp at h; exact ⟨_, h.symm⟩
  · simp only [Numeric.powNat] at h
    simp at h; exact ⟨_, h.symm⟩

theorem number_rem_exact {p q : Rat} {u : Dim} {v : Number}
    (h : Number.rem ⟨.rational p, u⟩ ⟨.rational q, u⟩ = .ok v) : v.value = .rational (Numeric.ratRem p q) := by
  unfold Number.rem at h
  simp only [bne_self_eq_false, Bool.false_eq_true, if_false] at h
  split at h
  · simp at h
  · obtain ⟨w, hw, hm⟩ := (Outcome.bind_eq_ok _ _ _).mp h
    cases hm
    simp only [Numeric.rem] at hw
    split at hw
    · simp at hw
    · simpa using hw.symm

theorem ratRem_scale (a b n : Rat) (hn : n ≠ 0) : Numeric.ratRem (a * n) (b * n) = Numeric.ratRem a b * n := by
  unfold Numeric.ratRem
  have : a * n / (b * n) = a / b := by
    rw [mul_div_mul_right _ _ hn]
  simp only [this]
  ring

theorem agree_bits (ctx : Ctx) (f : Int → Int → Int) {a b' b : Number} {an bn nc : NameMap × Numeric}
    (h1 : Number.bitop f a b' = .ok b) (iha : Agree ctx a an) (ihb : Agree ctx b' bn)
    (h2 : unitNameBits (Number.bitop f) an bn = .ok nc) : Agree ctx b nc := by
  unfold unitNameBits at h2
  split at h2
  · simp at h2
  · rename_i hemp
    obtain ⟨v, hv, hm⟩ := (Outcome.bind_eq_ok _ _ _).mp h2
    cases hm
    have he : an.1 = [] ∧ bn.1 = [] := by
      simp only [Bool.or_eq_true, Bool.not_eq_true', not_or, Bool.not_eq_false] at hemp
      exact ⟨List.isEmpty_iff.mp hemp.1, List.isEmpty_iff.mp hemp.2⟩
    obtain ⟨x, y, hx, hy, hb⟩ := number_bitop_rat h1
    obtain ⟨c1, n1, hc1, hn1, e1⟩ := iha x hx
    obtain ⟨c2, n2, hc2, hn2, e2⟩ := ihb y hy
    rw [he.1] at hn1; rw [he.2] at hn2
    simp only [namesVal, Option.some.injEq] at hn1 hn2
    subst hn1; subst hn2
    simp only [mul_one] at e1 e2
    obtain ⟨x', y', hx', hy', hv'⟩ := number_bitop_rat hv
    simp only [hc1, hc2, Numeric.rational.injEq] at hx' hy'
    have hxx : x' = x := by exact_mod_cast (hx'.symm.trans e1.symm)
    have hyy : y' = y := by exact_mod_cast (hy'.symm.trans e2.symm)
    subst hxx; subst hyy
    intro bv hbv
    rw [hb] at hbv
    simp only [Numeric.rational.injEq] at hbv
    refine ⟨bv, 1, ?_, ?_, by ring⟩
    · simp only; rw [hv', ← hbv]
    · simp only; rw [he.1]; simp [namesVal]

mutual
/-- **the printed unit of a conversion target denotes the target**: for every target expression
both evaluators accept, `bottom = factor · ∏ (value of nameᵢ) ^ powerᵢ` whenever `bottom` is
exact -/
theorem target_denotes (ctx : Ctx) (hc : CanonOK ctx) : ∀ e : Expr, TargetOK e → ∀ (b : Number) (nc : NameMap × Numeric),
    evalExpr ctx e = .ok b → evalUnitName ctx e = .ok nc → Agree ctx b nc
  | .quote _, ht, _, _, _, _ => by simp [TargetOK] at ht
  | .date _, _, _, _, h1, _ => by simp [evalExpr] at h1
  | .call _ _, _, _, _, _, h2 => by simp [evalUnitName] at h2
  | .error _, _, _, _, _, h2 => by simp only [evalUnitName] at h2; split at h2 <;> simp at h2
  | .ofProp _ e, _, _, _, _, h2 => by
    simp only [evalUnitName] at h2
    obtain ⟨_, _, h⟩ := (Outcome.bind_eq_ok _ _ _).mp h2
    simp at h
  | .const v, _, b, nc, h1, h2 => by
    simp only [evalExpr] at h1; simp only [evalUnitName] at h2
    cases h1; cases h2
    intro bv hbv
    simp only [Number.ofNumeric] at hbv
    exact ⟨bv, 1, hbv, by simp [namesVal], by ring⟩
  | .unit name, _, b, nc, h1, h2 => by
    simp only [evalExpr] at h1; simp only [evalUnitName] at h2
    cases h2
    split at h1
    · simp at h1
    · split at h1
      · rename_i n hn
        cases h1
        intro bv hbv
        have hl : ctx.lookup ((ctx.canonicalize name).getD name) = some b := by
          cases hcn : ctx.canonicalize name with
          | none => simpa using hn
          | some c => simpa using hc name c b hcn hn
        refine ⟨1, bv, rfl, ?_, by ring⟩
        have hnv : nameVal ctx ((ctx.canonicalize name).getD name) = some bv := by
          unfold nameVal; rw [hl]
          obtain ⟨v, u⟩ := b
          simp only at hbv; subst hbv; rfl
        have := namesVal_cons_intro (p := 1) (rest := []) hnv (by simp [namesVal] : namesVal ctx [] = some 1) (by omega)
        simpa using this
      · split at h1 <;> simp at h1
  | .unary .positive e, ht, b, nc, h1, h2 => by
    simp only [evalExpr] at h1; simp only [evalUnitName] at h2
    exact target_denotes ctx hc e (by simpa [TargetOK] using ht) b nc h1 h2
  | .unary .negative e, ht, b, nc, h1, h2 => by
    simp only [evalExpr] at h1; simp only [evalUnitName] at h2
    obtain ⟨v, hv, hb⟩ := (Outcome.bind_eq_ok _ _ _).mp h1
    obtain ⟨uv, huv, hn⟩ := (Outcome.bind_eq_ok _ _ _).mp h2
    cases hb; cases hn
    have ih := target_denotes ctx hc e (by simpa [TargetOK] using ht) v uv hv huv
    intro bv hbv
    simp only [Number.neg] at hbv
    cases hvv : v.value with
    | float => rw [hvv] at hbv; simp [Numeric.neg] at hbv
    | rational x =>
      rw [hvv] at hbv
      simp only [Numeric.neg, Numeric.rational.injEq] at hbv
      obtain ⟨cv, nv, h3, h4, h5⟩ := ih x hvv
      refine ⟨-cv, nv, ?_, h4, ?_⟩
      · simp [h3, Numeric.neg]
      · rw [← hbv, h5]; ring
  | .unary (.degree _) _, _, _, _, _, h2 => by simp [evalUnitName] at h2
  | .mul [], _, _, _, _, h2 => by simp [evalUnitName] at h2
  | .mul (e :: es), ht, b, nc, h1, h2 => by
    simp only [evalExpr, evalMul] at h1; simp only [evalUnitName] at h2
    have ht' : TargetOK e ∧ TargetOK.TargetOKList es := by simpa [TargetOK, TargetOK.TargetOKList] using ht
    obtain ⟨b0, hb0, hrest⟩ := (Outcome.bind_eq_ok _ _ _).mp h1
    obtain ⟨first, hfirst, hfold⟩ := (Outcome.bind_eq_ok _ _ _).mp h2
    have ih := target_denotes ctx hc e ht'.1 b0 first hb0 hfirst
    have hacc : Agree ctx (Number.mul Number.one b0) first := by
      intro v hv
      simp only [Number.mul, Number.one] at hv
      obtain ⟨x, y, hx, hy, rfl⟩ := numeric_mul_rat hv
      simp only [Numeric.one, Numeric.rational.injEq] at hx
      obtain ⟨cv, nv, h3, h4, h5⟩ := ih y hy
      exact ⟨cv, nv, h3, h4, by rw [← hx, h5]; ring⟩
    exact target_fold ctx hc es ht'.2 _ _ b nc hacc hrest hfold
  | .binop op l r, ht, b, nc, h1, h2 => by
    cases op with
    | equals => simp [TargetOK] at ht
    | shl => simp [evalUnitName] at h2
    | shr => simp [evalUnitName] at h2
    | add =>
      have ht' : TargetOK l ∧ TargetOK r := by simpa [TargetOK] using ht
      simp only [evalExpr, applyBin] at h1; simp only [evalUnitName] at h2
      obtain ⟨a, ha, h1⟩ := (Outcome.bind_eq_ok _ _ _).mp h1
      obtain ⟨b', hb', h1⟩ := (Outcome.bind_eq_ok _ _ _).mp h1
      obtain ⟨an, han, h2⟩ := (Outcome.bind_eq_ok _ _ _).mp h2
      obtain ⟨bn, hbn, h2⟩ := (Outcome.bind_eq_ok _ _ _).mp h2
      have iha := target_denotes ctx hc l ht'.1 a an ha han
      have ihb := target_denotes ctx hc r ht'.2 b' bn hb' hbn
      split at h2
      · simp at h2
      · rename_i hne
        cases h2
        have hu : an.1 = bn.1 := by simpa using hne
        intro bv hbv
        obtain ⟨x, y, hx, hy, rfl⟩ := number_add_rat h1 hbv
        obtain ⟨c1, n1, hc1, hn1, rfl⟩ := iha x hx
        obtain ⟨c2, n2, hc2, hn2, rfl⟩ := ihb y hy
        rw [← hu, hn1] at hn2; cases hn2
        exact ⟨c1 + c2, n1, by simp [hc1, hc2, Numeric.add], hn1, by ring⟩
    | sub =>
      have ht' : TargetOK l ∧ TargetOK r := by simpa [TargetOK] using ht
      simp only [evalExpr, applyBin] at h1; simp only [evalUnitName] at h2
      obtain ⟨a, ha, h1⟩ := (Outcome.bind_eq_ok _ _ _).mp h1
      obtain ⟨b', hb', h1⟩ := (Outcome.bind_eq_ok _ _ _).mp h1
      obtain ⟨an, han, h2⟩ := (Outcome.bind_eq_ok _ _ _).mp h2
      obtain ⟨bn, hbn, h2⟩ := (Outcome.bind_eq_ok _ _ _).mp h2
      have iha := target_denotes ctx hc l ht'.1 a an ha han
      have ihb := target_denotes ctx hc r ht'.2 b' bn hb' hbn
      split at h2
      · simp at h2
      · rename_i hne
        cases h2
        have hu : an.1 = bn.1 := by simpa using hne
        intro bv hbv
        obtain ⟨x, y, hx, hy, rfl⟩ := number_sub_rat h1 hbv
        obtain ⟨c1, n1, hc1, hn1, rfl⟩ := iha x hx
        obtain ⟨c2, n2, hc2, hn2, rfl⟩ := ihb y hy
        rw [← hu, hn1] at hn2; cases hn2
        exact ⟨c1 - c2, n1, by simp [hc1, hc2, Numeric.sub], hn1, by ring⟩
    | mod =>
      have ht' : TargetOK l ∧ TargetOK r := by simpa [TargetOK] using ht
      simp only [evalExpr, applyBin] at h1; simp only [evalUnitName] at h2
      obtain ⟨a, ha, h1⟩ := (Outcome.bind_eq_ok _ _ _).mp h1
      obtain ⟨b', hb', h1⟩ := (Outcome.bind_eq_ok _ _ _).mp h1
      obtain ⟨an, han, h2⟩ := (Outcome.bind_eq_ok _ _ _).mp h2
      obtain ⟨bn, hbn, h2⟩ := (Outcome.bind_eq_ok _ _ _).mp h2
      have iha := target_denotes ctx hc l ht'.1 a an ha han
      have ihb := target_denotes ctx hc r ht'.2 b' bn hb' hbn
      split at h2
      · simp at h2
      · rename_i hne
        have hu : an.1 = bn.1 := by simpa using hne
        obtain ⟨v, hv, hm⟩ := (Outcome.bind_eq_ok _ _ _).mp h2
        cases hm
        intro bv hbv
        obtain ⟨x, y, hx, hy, hy0, rfl⟩ := number_rem_rat h1 hbv
        obtain ⟨c1, n1, hc1, hn1, rfl⟩ := iha x hx
        obtain ⟨c2, n2, hc2, hn2, rfl⟩ := ihb y hy
        rw [← hu, hn1] at hn2; cases hn2
        have hn0 : n1 ≠ 0 := right_ne_zero_of_mul hy0
        rw [hc1, hc2] at hv
        refine ⟨Numeric.ratRem c1 c2, n1, number_rem_exact hv, hn1, ratRem_scale c1 c2 n1 hn0⟩
    | and =>
      have ht' : TargetOK l ∧ TargetOK r := by simpa [TargetOK] using ht
      simp only [evalExpr, applyBin] at h1; simp only [evalUnitName] at h2
      obtain ⟨a, ha, h1⟩ := (Outcome.bind_eq_ok _ _ _).mp h1
      obtain ⟨b', hb', h1⟩ := (Outcome.bind_eq_ok _ _ _).mp h1
      obtain ⟨an, han, h2⟩ := (Outcome.bind_eq_ok _ _ _).mp h2
      obtain ⟨bn, hbn, h2⟩ := (Outcome.bind_eq_ok _ _ _).mp h2
      exact agree_bits ctx IntBits.land h1 (target_denotes ctx hc l ht'.1 a an ha han) (target_denotes ctx hc r ht'.2 b' bn hb' hbn) h2
    | or =>
      have ht' : TargetOK l ∧ TargetOK r := by simpa [TargetOK] using ht
      simp only [evalExpr, applyBin] at h1; simp only [evalUnitName] at h2
      obtain ⟨a, ha, h1⟩ := (Outcome.bind_eq_ok _ _ _).mp h1
      obtain ⟨b', hb', h1⟩ := (Outcome.bind_eq_ok _ _ _).mp h1
      obtain ⟨an, han, h2⟩ := (Outcome.bind_eq_ok _ _ _).mp h2
      obtain ⟨bn, hbn, h2⟩ := (Outcome.bind_eq_ok _ _ _).mp h2
      exact agree_bits ctx IntBits.lor h1 (target_denotes ctx hc l ht'.1 a an ha han) (target_denotes ctx hc r ht'.2 b' bn hb' hbn) h2
    | xor =>
      have ht' : TargetOK l ∧ TargetOK r := by simpa [TargetOK] using ht
      simp only [evalExpr, applyBin] at h1; simp only [evalUnitName] at h2
      obtain ⟨a, ha, h1⟩ := (Outcome.bind_eq_ok _ _ _).mp h1
      obtain ⟨b', hb', h1⟩ := (Outcome.bind_eq_ok _ _ _).mp h1
      obtain ⟨an, han, h2⟩ := (Outcome.bind_eq_ok _ _ _).mp h2
      obtain ⟨bn, hbn, h2⟩ := (Outcome.bind_eq_ok _ _ _).mp h2
      exact agree_bits ctx IntBits.lxor h1 (target_denotes ctx hc l ht'.1 a an ha han) (target_denotes ctx hc r ht'.2 b' bn hb' hbn) h2
    | frac =>
      have ht' : TargetOK l ∧ TargetOK r := by simpa [TargetOK] using ht
      simp only [evalExpr, applyBin] at h1; simp only [evalUnitName] at h2
      obtain ⟨a, ha, h1⟩ := (Outcome.bind_eq_ok _ _ _).mp h1
      obtain ⟨b', hb', h1⟩ := (Outcome.bind_eq_ok _ _ _).mp h1
      obtain ⟨an, han, h2⟩ := (Outcome.bind_eq_ok _ _ _).mp h2
      obtain ⟨bn, hbn, h2⟩ := (Outcome.bind_eq_ok _ _ _).mp h2
      have iha := target_denotes ctx hc l ht'.1 a an ha han
      have ihb := target_denotes ctx hc r ht'.2 b' bn hb' hbn
      split at h2
      · simp at h2
      · split at h2
        · simp at h2
        · obtain ⟨v, hv, hm⟩ := (Outcome.bind_eq_ok _ _ _).mp h2
          cases hm
          intro bv hbv
          obtain ⟨x, y, hx, hy, hy0, rfl⟩ := number_div_rat h1 hbv
          obtain ⟨c1, n1, hc1, hn1, rfl⟩ := iha x hx
          obtain ⟨c2, n2, hc2, hn2, rfl⟩ := ihb y hy
          have hc0 : c2 ≠ 0 := left_ne_zero_of_mul hy0
          have hn0 : n2 ≠ 0 := right_ne_zero_of_mul hy0
          rw [hc1, hc2] at hv
          simp only [Numeric.div, hc0, if_false, Outcome.ok.injEq] at hv
          refine ⟨c1 / c2, n1 * n2⁻¹, hv.symm, ?_, ?_⟩
          · exact namesVal_merge ctx _ _ _ _ hn1 (namesVal_recip ctx _ _ hn2 hn0)
          · field_simp
    | pow =>
      have ht' : TargetOK l := by simpa [TargetOK] using ht
      simp only [evalExpr, applyBin] at h1; simp only [evalUnitName] at h2
      obtain ⟨a, ha, h1⟩ := (Outcome.bind_eq_ok _ _ _).mp h1
      obtain ⟨e', he', h1⟩ := (Outcome.bind_eq_ok _ _ _).mp h1
      obtain ⟨e, he, h2⟩ := (Outcome.bind_eq_ok _ _ _).mp h2
      rw [he'] at he; cases he
      split at h2
      · simp at h2
      · obtain ⟨an, han, h2⟩ := (Outcome.bind_eq_ok _ _ _).mp h2
        obtain ⟨res, hres, hm⟩ := (Outcome.bind_eq_ok _ _ _).mp h2
        split at hm
        · simp at hm
        cases hm
        have iha := target_denotes ctx hc l ht' a an ha han
        intro bv hbv
        obtain ⟨k, hk⟩ := number_pow_rat h1 hbv
        obtain ⟨_, hpv⟩ := number_pow_of_int hk h1
        rw [hbv] at hpv
        obtain ⟨x, hx, hxz, rfl⟩ := numeric_pow_rat hpv
        obtain ⟨c1, n1, hc1, hn1, rfl⟩ := iha x hx
        obtain ⟨hru, hrv⟩ := number_pow_of_int hk hres
        simp only at hru hrv
        rw [hc1] at hrv
        obtain ⟨w, hw⟩ := numeric_pow_is_rat hrv
        rw [hw] at hrv
        obtain ⟨c1', hc1', _, hwc⟩ := numeric_pow_rat hrv
        cases hc1'
        have hn0 : k < 0 → n1 ≠ 0 := by
          intro hk0 hn
          exact hxz ⟨by rw [hn]; ring, hk0⟩
        refine ⟨w, n1 ^ k, hw, ?_, ?_⟩
        · simp only; rw [hru]; exact namesVal_pow ctx k _ _ hn1 hn0
        · rw [hwc, mul_zpow]

theorem target_fold (ctx : Ctx) (hc : CanonOK ctx) : ∀ es : List Expr, TargetOK.TargetOKList es →
    ∀ (acc : Number) (accn : NameMap × Numeric) (b : Number) (nc : NameMap × Numeric),
      Agree ctx acc accn → evalMul ctx acc es = .ok b → evalUnitName.unitNameFold ctx accn es = .ok nc → Agree ctx b nc
  | [], _, acc, accn, b, nc, ha, h1, h2 => by
    simp only [evalMul] at h1; simp only [evalUnitName.unitNameFold] at h2
    cases h1; cases h2; exact ha
  | e :: es, ht, acc, accn, b, nc, ha, h1, h2 => by
    simp only [evalMul] at h1; simp only [evalUnitName.unitNameFold] at h2
    have ht' : TargetOK e ∧ TargetOK.TargetOKList es := by simpa [TargetOK.TargetOKList] using ht
    obtain ⟨b0, hb0, hrest⟩ := (Outcome.bind_eq_ok _ _ _).mp h1
    obtain ⟨bn, hbn, hfold⟩ := (Outcome.bind_eq_ok _ _ _).mp h2
    have ih := target_denotes ctx hc e ht'.1 b0 bn hb0 hbn
    exact target_fold ctx hc es ht'.2 _ _ b nc (agree_mul ha ih) hrest hfold
end


/-- the reply of a conversion: `raw = top / bottom` is printed next to `factor` and the unit
names, and `raw · factor · ∏ nameᵢ^powerᵢ = top` -/
theorem conversion_displays_top (ctx : Ctx) (hc : CanonOK ctx) (target : Expr) (ht : TargetOK target)
    (top bottom raw : Number) (nc : NameMap × Numeric) (tv rv : Rat)
    (hb : evalExpr ctx target = .ok bottom) (hn : evalUnitName ctx target = .ok nc)
    (hraw : Number.div top bottom = .ok raw) (htv : top.value = .rational tv) (hrv : raw.value = .rational rv) :
    ∃ factor names, nc.2 = .rational factor ∧ namesVal ctx nc.1 = some names ∧ rv * factor * names = tv := by
  obtain ⟨x, y, hx, hy, hy0, rfl⟩ := number_div_rat hraw hrv
  rw [htv] at hx; cases hx
  obtain ⟨cv, nv, h1, h2, rfl⟩ := target_denotes ctx hc target ht bottom nc hb hn y hy
  exact ⟨cv, nv, h1, h2, by rw [mul_assoc, div_mul_cancel₀ _ hy0]⟩

/-! Non-vacuity: the premises hold for `2 m + 3 m` and for `7 m mod 4 m` in any database where `m`
is the metre (canonical name `meter`); the unit printed is `5 meter`, resp. `3 meter`. -/
section
variable (ctx : Ctx) (hm : ctx.lookup "m" = some ⟨.rational 1, [("m", 1)]⟩)
  (hcan : ctx.canonicalize "m" = some "meter")

def cm (k : Rat) : Expr := .mul [.const (.rational k), .unit "m"]

include hm hcan in
example : evalExpr ctx (.binop .add (cm 2) (cm 3)) = .ok ⟨.rational 5, [("m", 1)]⟩ ∧
    evalUnitName ctx (.binop .add (cm 2) (cm 3)) = .ok ([("meter", 1)], .rational 5) ∧
    TargetOK (.binop .add (cm 2) (cm 3)) := by
  refine ⟨?_, ?_, ?_⟩
  · simp [cm, evalExpr, evalMul, hm, applyBin, Number.add, Number.mul, Number.one, Number.ofNumeric, Numeric.mul, Numeric.add,
      Numeric.one, Dim.mul, Dim.merge]
    norm_num
  · simp [cm, evalUnitName, evalUnitName.unitNameFold, hcan, nmMerge, Dim.merge, Numeric.mul, Numeric.add, Numeric.one]
    norm_num
  · simp [cm, TargetOK, TargetOK.TargetOKList]
end

end Rink.Spec.C06T
