import Rink.Model.Load
import Rink.Lemmas.DimCanon
import Rink.Lemmas.DimGet
/-!
# C13 — loading arbitrary definition text is safe and reports its problems

Every function of the loader model is total (Lean accepts the definitions: structural recursion,
or recursion on a fuel argument), so the model terminates on every input by construction.  What
is proved here is that the fuel is never what ends the work, and the three places where the
code used to panic:

* the tokenizer always advances, and its output does not depend on the fuel once the fuel
  exceeds the input length (`next_progress`, `next_fuel_irrelevant`, `lex_terminates_within_length`);
* the resolver reports a cycle instead of following it (`visit_on_cycle_reports`), and nothing it
  does later removes a reported error (`visit_errors_mono`);
* a zero divisor in a prefix is an error value (`evalPrefix_total_zero_divisor`); the checked
  dimension arithmetic of `eval_quantity` keeps every power inside `i64`
  (`dimPowChecked_bounded`, `dimMulChecked_bounded`).

Stack depth and wall-clock time belong to the compiled code and are exercised by the
correspondence runs (chains and cycles of thousands of definitions in child processes).
-/
set_option linter.unusedSimpArgs false
set_option linter.unusedVariables false

namespace Rink.Spec.C13
open Rink Rink.Load Rink.Gnu

/-! ### the tokenizer always advances -/

theorem span_len (p : Char → Bool) (cs : List Char) : (span p cs).2.length ≤ cs.length := by
  induction cs with
  | nil => simp [span]
  | cons c cs ih => simp only [span]; split <;> simp <;> omega

theorem toEol_len (cs : List Char) : (toEol cs).2.length ≤ cs.length := by
  induction cs with
  | nil => simp [toEol]
  | cons c cs ih => simp only [toEol]; split <;> simp <;> omega

theorem dquote_len (acc cs : List Char) : (dquote acc cs).2.length ≤ cs.length := by
  fun_induction dquote acc cs <;> simp_all <;> omega

theorem expSign_len (r : List Char) : (expSign r).2.length ≤ r.length := by
  unfold expSign; split <;> simp

theorem lexNumber_len (x : Char) (cs : List Char) : (lexNumber x cs).2.length ≤ cs.length := by
  unfold lexNumber
  -- name the three scanning stages and bound each remainder by the previous one
  generalize hr1 : (if x != '.' then (let (d, r) := span isDec cs; (x :: d, r)) else (['0'], cs)) = s1
  obtain ⟨int, r1⟩ := s1
  have h1 : r1.length ≤ cs.length := by
    split at hr1
    · have := span_len isDec cs; simp at hr1; rw [← hr1.2]; exact this
    · simp at hr1; rw [← hr1.2]
  simp only []
  generalize hr2 : (if (x != '.' && (x == '.' || r1.head? == some '.')) = true then r1.tail else r1) = r2
  have h2 : r2.length ≤ r1.length := by
    split at hr2 <;> rw [← hr2] <;> simp
  generalize hr3 : (if (x == '.' || r1.head? == some '.') = true then span isDec r2 else ([], r2)) = s3
  obtain ⟨fd, r3⟩ := s3
  have h3 : r3.length ≤ r2.length := by
    split at hr3
    · have := span_len isDec r2; rw [hr3] at this; exact this
    · simp at hr3; rw [← hr3.2]
  simp only []
  split
  · rename_i e r4
    have h3' : r4.length + 1 ≤ r2.length := by simpa using h3
    split
    · -- the optional sign, then the exponent digits
      have h5 := expSign_len r4
      have h6 := span_len isDec (expSign r4).2
      simp only [List.length_cons] at *
      omega
    · simp only [List.length_cons] at *; omega
  · simp

theorem toEol_len' {cs d r : List Char} (h : toEol cs = (d, r)) : r.length ≤ cs.length := by
  have := toEol_len cs; rw [h] at this; exact this
theorem dquote_len' {acc cs d r : List Char} (h : dquote acc cs = (d, r)) : r.length ≤ cs.length := by
  have := dquote_len acc cs; rw [h] at this; exact this
theorem span_len' {p : Char → Bool} {cs d r : List Char} (h : span p cs = (d, r)) : r.length ≤ cs.length := by
  have := span_len p cs; rw [h] at this; exact this

/-- the remainder is never longer than the input; and one call of `TokenIterator::next`
consumes at least one character whenever there is input (and fuel) left -/
theorem next_len (fuel : Nat) (cs : List Char) :
    (next fuel cs).2.length ≤ cs.length ∧ (fuel ≠ 0 → cs ≠ [] → (next fuel cs).2.length < cs.length) := by
  fun_induction next fuel cs
  all_goals (try (first
    | (simp; done)
    | (simp_all; omega)
    | (refine ⟨?_, ?_⟩ <;> simp_all <;> omega)))
  all_goals first
    | (have := toEol_len' (by assumption); refine ⟨?_, ?_⟩ <;> simp_all <;> omega)
    | (have := dquote_len' (by assumption); refine ⟨?_, ?_⟩ <;> simp_all <;> omega)
    | (have := span_len' (by assumption); refine ⟨?_, ?_⟩ <;> simp_all <;> omega)
    | exact ⟨Nat.le_trans (lexNumber_len _ _) (by simp), fun _ _ => Nat.lt_of_le_of_lt (lexNumber_len _ _) (by simp)⟩

theorem next_progress (fuel : Nat) (cs : List Char) (hf : fuel ≠ 0) (hne : cs ≠ []) :
    (next fuel cs).2.length < cs.length := (next_len fuel cs).2 hf hne

/-- `next` does not depend on the fuel once the fuel exceeds the input length. -/
theorem next_fuel_irrelevant (fuel : Nat) (cs : List Char) : cs.length < fuel →
    next (fuel + 1) cs = next fuel cs := by
  fun_induction next fuel cs <;> intro h <;> simp_all [next] <;> (first | omega | (apply_assumption; omega))

/-- The token list does not depend on the fuel: with `fuel = length + 1` (what `lex` passes) the
tokenizer stops because the input is exhausted, never because the fuel is. -/
theorem lexAll_fuel_irrelevant : ∀ (fuel : Nat) (cs : List Char), cs.length < fuel →
    lexAll (fuel + 1) cs = lexAll fuel cs := by
  intro fuel
  induction fuel with
  | zero => intro cs h; omega
  | succ fuel ih =>
    intro cs hlen
    match cs with
    | [] => simp [lexAll]
    | c :: cs =>
      simp only [lexAll]
      rw [next_fuel_irrelevant (fuel + 1) (c :: cs) hlen]
      have hp := next_progress (fuel + 1) (c :: cs) (by omega) (by simp)
      generalize next (fuel + 1) (c :: cs) = res at hp ⊢
      obtain ⟨t, r⟩ := res
      simp only []
      cases t <;> simp <;> exact ih r (by simp at hp hlen ⊢; omega)

theorem lex_terminates_within_length (cs : List Char) (extra : Nat) :
    lexAll (cs.length + 1 + extra) cs = lex cs := by
  induction extra with
  | zero => rfl
  | succ n ih =>
    rw [← ih, ← Nat.add_assoc]
    exact lexAll_fuel_irrelevant (cs.length + 1 + n) cs (by omega)

/-! ### the resolver reports cycles -/

/-- Coming back to a definition that is still being resolved is reported as a dependency
cycle, and the walk stops there: nothing else in the state changes. -/
theorem visit_on_cycle_reports (env : Env) (fuel : Nat) (st : RS) (id : Id) (h : st.temp.contains id = true) :
    visit env (fuel + 1) st id = { st with errors := st.errors ++ ["cycle:" ++ id.tag] } := by
  simp [visit, h]

/-- reported errors are never dropped: every step of the resolver extends the error list -/
def Ext (a b : RS) : Prop := ∃ extra, b.errors = a.errors ++ extra

theorem Ext.refl (a : RS) : Ext a a := ⟨[], by simp⟩
theorem Ext.trans {a b c : RS} (h1 : Ext a b) (h2 : Ext b c) : Ext a c := by
  obtain ⟨x, hx⟩ := h1; obtain ⟨y, hy⟩ := h2; exact ⟨x ++ y, by rw [hy, hx, List.append_assoc]⟩

theorem resolver_errors_mono (env : Env) : ∀ fuel : Nat,
    (∀ st id, Ext st (visit env fuel st id)) ∧
    (∀ st ps ctx, Ext st (depsProps env fuel st ps ctx)) ∧
    (∀ st e ctx, Ext st (deps env fuel st e ctx)) ∧
    (∀ st es ctx, Ext st (depsList env fuel st es ctx)) ∧
    (∀ st n ctx nss, Ext st (lookupExact env fuel st n ctx nss).1) ∧
    (∀ st n ctx ps, Ext st (lookupPrefixes env fuel st n ctx ps).1) ∧
    (∀ st n ctx, Ext st (lookupWithPrefix env fuel st n ctx).1) ∧
    (∀ st n ctx, Ext st (lookup env fuel st n ctx).1) ∧
    (∀ st ids, Ext st (visitAll env fuel st ids)) := by
  intro fuel
  induction fuel with
  | zero =>
    refine ⟨?_, ?_, ?_, ?_, ?_, ?_, ?_, ?_, ?_⟩ <;> intros <;> simp [visit, depsProps, deps, depsList, lookupExact, lookupPrefixes, lookupWithPrefix, lookup, visitAll] <;> exact ⟨[], by simp⟩
  | succ fuel ih =>
    obtain ⟨iv, ip, id_, il, ie, ipf, iw, ilk, iva⟩ := ih
    have hv : ∀ st id, Ext st (visit env (fuel + 1) st id) := by
      intro st id
      simp only [visit]
      split
      · exact ⟨_, rfl⟩
      · split
        · have key : ∀ st' : RS, Ext { st with temp := st.temp.insert id } st' →
              Ext st { st' with unmarked := st'.unmarked.erase id, temp := st'.temp.erase id, sorted := id :: st'.sorted } := by
            intro st' h; obtain ⟨x, hx⟩ := h; exact ⟨x, by simpa using hx⟩
          apply key
          split
          · exact id_ _ _ _
          · exact id_ _ _ _
          · exact id_ _ _ _
          · exact ip _ _ _
          · exact Ext.refl _
        · exact Ext.refl _
    have hp : ∀ st ps ctx, Ext st (depsProps env (fuel + 1) st ps ctx) := by
      intro st ps ctx
      induction ps generalizing st with
      | nil => simp [depsProps]; exact Ext.refl _
      | cons p ps ihp =>
        simp only [depsProps]
        exact ((id_ _ _ _).trans (id_ _ _ _)).trans (ip _ _ _)
    have hd : ∀ st e ctx, Ext st (deps env (fuel + 1) st e ctx) := by
      intro st e ctx
      simp only [deps]
      split
      · exact ilk _ _ _
      · exact (id_ _ _ _).trans (id_ _ _ _)
      · exact id_ _ _ _
      · exact id_ _ _ _
      · exact il _ _ _
      · exact il _ _ _
      · exact Ext.refl _
    have hl : ∀ st es ctx, Ext st (depsList env (fuel + 1) st es ctx) := by
      intro st es ctx
      cases es with
      | nil => simp [depsList]; exact Ext.refl _
      | cons e es => simp only [depsList]; exact (id_ _ _ _).trans (il _ _ _)
    have he : ∀ st n ctx nss, Ext st (lookupExact env (fuel + 1) st n ctx nss).1 := by
      intro st n ctx nss
      cases nss with
      | nil => simp [lookupExact]; exact Ext.refl _
      | cons ns rest =>
        simp only [lookupExact]
        split
        · exact (iv _ _).trans (ie _ _ _ _)
        · exact ie _ _ _ _
    have hpf : ∀ st n ctx ps, Ext st (lookupPrefixes env (fuel + 1) st n ctx ps).1 := by
      intro st n ctx ps
      cases ps with
      | nil => simp [lookupPrefixes]; exact Ext.refl _
      | cons pre rest =>
        simp only [lookupPrefixes]
        split
        · have h1 := ie st (Registry.dropPrefix n pre) ctx (namespacesFor ctx)
          generalize lookupExact env fuel st (Registry.dropPrefix n pre) ctx (namespacesFor ctx) = res at h1 ⊢
          obtain ⟨st', ok⟩ := res
          simp only []
          split
          · exact h1.trans (iv _ _)
          · exact ipf _ _ _ _
        · exact ipf _ _ _ _
    have hw : ∀ st n ctx, Ext st (lookupWithPrefix env (fuel + 1) st n ctx).1 := by
      intro st n ctx
      simp only [lookupWithPrefix]
      have h1 := ie st n ctx (namespacesFor ctx)
      generalize lookupExact env fuel st n ctx (namespacesFor ctx) = res at h1 ⊢
      obtain ⟨st', ok⟩ := res
      simp only []
      split
      · exact h1
      · exact ipf _ _ _ _
    have hlk : ∀ st n ctx, Ext st (lookup env (fuel + 1) st n ctx).1 := by
      intro st n ctx
      simp only [lookup]
      have h1 := iw st n ctx
      generalize lookupWithPrefix env fuel st n ctx = res at h1 ⊢
      obtain ⟨st', ok⟩ := res
      simp only []
      split
      · exact h1
      · split
        · rename_i c _
          have h3 := iw st' c ctx
          split
          · exact h1.trans h3
          · split
            · exact (h1.trans h3).trans (iva _ _)
            · exact h1.trans h3
        · split
          · rename_i hf; simp at hf
          · split
            · exact h1.trans (iva _ _)
            · exact h1
    have hva : ∀ st ids, Ext st (visitAll env (fuel + 1) st ids) := by
      intro st ids
      cases ids with
      | nil => simp [visitAll]; exact Ext.refl _
      | cons i rest => simp only [visitAll]; exact (iv _ _).trans (iva _ _)
    exact ⟨hv, hp, hd, hl, he, hpf, hw, hlk, hva⟩

theorem visit_errors_mono (env : Env) (fuel : Nat) (st : RS) (id : Id) :
    ∃ extra, (visit env fuel st id).errors = st.errors ++ extra :=
  (resolver_errors_mono env fuel).1 st id

/-- the same for the whole drain loop: the messages present before (the "multiple definitions"
warnings of stage 1) and every cycle report survive to the end -/
theorem drain_errors_mono (env : Env) (fuel : Nat) (ids : List Id) (st : RS) :
    ∃ extra, (drain env fuel ids st).errors = st.errors ++ extra := by
  induction ids generalizing st with
  | nil => exact ⟨[], by simp [drain]⟩
  | cons id rest ih =>
    simp only [drain]
    exact Ext.trans ((resolver_errors_mono env fuel).1 st id) (ih _)

/-! ### arithmetic that used to panic -/

/-- a zero divisor in a prefix definition is an error value -/
theorem evalPrefix_total_zero_divisor (prefixes : Std.HashMap String Numeric) (l r : Expr) (a : Numeric)
    (hl : evalPrefix prefixes l = .ok a) (hr : evalPrefix prefixes r = .ok (.rational 0)) :
    evalPrefix prefixes (.binop .frac l r) = .error "Division by zero" := by
  simp [evalPrefix, hl, hr, bind, Except.bind]

theorem dimPowChecked_bounded (d : Dim) (e : Int) (r : Dim) (h : dimPowChecked d e = .ok r) :
    ∀ kp ∈ r, i64ok kp.2 = true := by
  unfold dimPowChecked at h
  simp only [] at h
  split at h
  · rename_i hall; injection h with h; subst h; simpa using hall
  · cases h

theorem get_of_mem_sorted : ∀ (b : Dim) (k : String) (q : Int), Dim.Sorted b → (k, q) ∈ b → Dim.get b k = q := by
  intro b
  induction b with
  | nil => intro k q _ h; cases h
  | cons x xs ih =>
    intro k q hs hmem
    obtain ⟨k', p'⟩ := x
    rw [Dim.sorted_cons_iff] at hs
    rw [Dim.get_cons]
    rcases List.mem_cons.mp hmem with h | h
    · injection h with h1 h2; subst h1; subst h2; simp
    · have hlb : ∀ y ∈ xs, k' < y.1 := by
        have := hs.1; unfold Dim.LB at this; exact this
      have hlt : k' < k := hlb (k, q) h
      have hne : ¬ k' = k := fun e => by subst e; exact Dim.str_lt_irrefl _ hlt
      simp [hne]; exact ih k q hs.2 h

/-- every entry of a product comes from one factor, or is the sum of two entries with the same unit -/
theorem merge_entries (a b : Dim) : ∀ kp ∈ Dim.merge Dim.addDrop a b,
    kp ∈ a ∨ kp ∈ b ∨ ∃ p q, (kp.1, p) ∈ a ∧ (kp.1, q) ∈ b ∧ kp.2 = p + q := by
  fun_induction Dim.merge Dim.addDrop a b with
  | case1 r => intro kp h; right; left; exact h
  | case2 l hl => intro kp h; left; exact h
  | case3 ka va l kb vb r hlt ih =>
    intro kp h
    rcases List.mem_cons.mp h with h | h
    · left; rw [h]; simp
    · rcases ih kp h with h' | h' | ⟨p, q, h1, h2, h3⟩
      · left; exact List.mem_cons_of_mem _ h'
      · right; left; exact h'
      · right; right; exact ⟨p, q, List.mem_cons_of_mem _ h1, h2, h3⟩
  | case4 ka va l kb vb r hlt hgt ih =>
    intro kp h
    rcases List.mem_cons.mp h with h | h
    · right; left; rw [h]; simp
    · rcases ih kp h with h' | h' | ⟨p, q, h1, h2, h3⟩
      · left; exact h'
      · right; left; exact List.mem_cons_of_mem _ h'
      · right; right; exact ⟨p, q, h1, List.mem_cons_of_mem _ h2, h3⟩
  | case5 ka va l kb vb r hlt hgt v hv ih =>
    intro kp h
    have hk : ka = kb := by
      rcases lt_trichotomy ka kb with h1 | h1 | h1
      · exact absurd h1 hlt
      · exact h1
      · exact absurd h1 hgt
    rcases List.mem_cons.mp h with h | h
    · right; right
      refine ⟨va, vb, by rw [h]; simp, by rw [h, hk]; simp, ?_⟩
      rw [h]; unfold Dim.addDrop at hv; split at hv <;> simp at hv; exact hv.symm
    · rcases ih kp h with h' | h' | ⟨p, q, h1, h2, h3⟩
      · left; exact List.mem_cons_of_mem _ h'
      · right; left; exact List.mem_cons_of_mem _ h'
      · right; right; exact ⟨p, q, List.mem_cons_of_mem _ h1, List.mem_cons_of_mem _ h2, h3⟩
  | case6 ka va l kb vb r hlt hgt hv ih =>
    intro kp h
    rcases ih kp h with h' | h' | ⟨p, q, h1, h2, h3⟩
    · left; exact List.mem_cons_of_mem _ h'
    · right; left; exact List.mem_cons_of_mem _ h'
    · right; right; exact ⟨p, q, List.mem_cons_of_mem _ h1, List.mem_cons_of_mem _ h2, h3⟩

/-- the checked product of two dimensionalities with powers inside `i64` has powers inside `i64` -/
theorem dimMulChecked_bounded (a b r : Dim) (hb : Dim.Sorted b)
    (ba : ∀ kp ∈ a, i64ok kp.2 = true) (bb : ∀ kp ∈ b, i64ok kp.2 = true)
    (h : dimMulChecked a b = .ok r) : ∀ kp ∈ r, i64ok kp.2 = true := by
  unfold dimMulChecked at h
  split at h
  · rename_i hall
    injection h with h; subst h
    intro kp hkp
    rcases merge_entries a b kp hkp with h' | h' | ⟨p, q, h1, h2, h3⟩
    · exact ba kp h'
    · exact bb kp h'
    · have hchk := List.all_eq_true.mp hall (kp.1, p) h1
      have hany : (b.any fun kq => kq.1 == kp.1) = true := List.any_eq_true.mpr ⟨(kp.1, q), h2, by simp⟩
      simp [hany] at hchk
      rw [get_of_mem_sorted b kp.1 q hb h2] at hchk
      rw [h3]; exact hchk
  · cases h

end Rink.Spec.C13
