import Rink.Model.CtxCheck
/-!
# C04 — totality of evaluation: no input reaches a panic site

Lexer, parser and evaluator of the model are total Lean functions: they terminate on every
input by construction.  The Rust code can in addition *panic*; every place where it can
(`unwrap`, `expect`, `todo!`, a zero divisor handed to num-rational, `unreachable!`) is a
`.panic site` outcome in the model.  The theorems show that `eval_expr` never produces one,
for every expression and every context whose database satisfies two facts that are checked on
the real registry at every run (`DegreesOK`, `SubstancesOK`): the guards in front of each site
are sufficient.
-/
set_option linter.unusedSimpArgs false
set_option linter.unusedVariables false

namespace Rink.Spec.C04
open Rink Rink.Eval

/-- the outcome is not a panic -/
def NoPanic {α} (o : Outcome α) : Prop := ∀ s, o ≠ .panic s

theorem noPanic_ok {α} (a : α) : NoPanic (Outcome.ok a) := fun _ h => by cases h
theorem noPanic_err {α} (c) : NoPanic (Outcome.err c : Outcome α) := fun _ h => by cases h
theorem noPanic_unsupported {α} (w) : NoPanic (Outcome.unsupported w : Outcome α) := fun _ h => by cases h

theorem noPanic_bind {α β} {o : Outcome α} {f : α → Outcome β} (h : NoPanic o) (hf : ∀ a, o = .ok a → NoPanic (f a)) :
    NoPanic (o >>= f) := by
  cases o with
  | ok a => exact hf a rfl
  | err c => exact noPanic_err c
  | panic s => exact absurd rfl (h s)
  | unsupported w => exact noPanic_unsupported w

/-! ### arithmetic -/

theorem numeric_div_noPanic (a b : Numeric) (hb : b ≠ .rational 0) : NoPanic (Numeric.div a b) := by
  intro s h
  cases a <;> cases b <;> simp [Numeric.div] at h
  rename_i x y
  split at h
  · rename_i hy; exact hb (by rw [hy])
  · cases h

theorem invert_noPanic (b : Number) (hb : b.value ≠ .rational 0) : NoPanic (Number.invert b) := by
  unfold Number.invert
  exact noPanic_bind (numeric_div_noPanic _ _ hb) (fun _ _ => noPanic_ok _)

theorem div_noPanic (a b : Number) : NoPanic (Number.div a b) := by
  unfold Number.div
  split
  · rename_i q hq
    split
    · exact noPanic_err _
    · rename_i hz
      exact noPanic_bind (invert_noPanic b (by rw [hq]; intro h; injection h with h; exact hz h)) (fun _ _ => noPanic_ok _)
  · exact noPanic_unsupported _

theorem add_noPanic (a b : Number) : NoPanic (Number.add a b) := by
  unfold Number.add; split <;> first | exact noPanic_err _ | exact noPanic_ok _

theorem sub_noPanic (a b : Number) : NoPanic (Number.sub a b) := by
  unfold Number.sub; split <;> first | exact noPanic_err _ | exact noPanic_ok _

theorem rat_pow_ne_zero {a : Rat} (h : a ≠ 0) (n : Nat) : a ^ n ≠ 0 := by
  induction n with
  | zero => simp
  | succ n ih =>
    rw [Rat.pow_succ]
    intro hz
    rcases Rat.mul_eq_zero.mp hz with h1 | h1
    · exact ih h1
    · exact h h1

/-- `Numeric::pow` divides one by the positive power for negative exponents: fine unless the base is zero -/
theorem numeric_pow_noPanic (x : Numeric) (e : Int) (h : e < 0 → x ≠ .rational 0) : NoPanic (Numeric.pow x e) := by
  unfold Numeric.pow
  split
  · rename_i he
    apply numeric_div_noPanic
    cases x with
    | float => simp [Numeric.powNat]
    | rational q =>
      simp only [Numeric.powNat]
      intro hq
      injection hq with hq
      have hq0 : q ≠ 0 := fun h0 => h he (by rw [h0])
      exact rat_pow_ne_zero hq0 _ hq
  · exact noPanic_ok _

theorem powi_noPanic (a : Number) (e : Int) (h : e < 0 → a.value ≠ .rational 0) : NoPanic (Number.powi a e) := by
  unfold Number.powi
  split
  · exact noPanic_err _
  · split
    · exact noPanic_unsupported _
    · exact noPanic_bind (numeric_pow_noPanic _ _ h) (fun _ _ => noPanic_ok _)

theorem root_noPanic (a : Number) (e : Int) : NoPanic (Number.root a e) := by
  unfold Number.root
  split
  · exact noPanic_unsupported _
  · split
    · exact noPanic_err _
    · split
      · exact noPanic_err _
      · exact noPanic_ok _

theorem pow_noPanic (a e : Number) : NoPanic (Number.pow a e) := by
  unfold Number.pow
  split
  · exact noPanic_err _
  · split
    · exact noPanic_unsupported _
    · rename_i q hq
      split
      · exact noPanic_err _
      · split
        · split
          · rename_i x hx
            split
            · exact noPanic_err _
            · rename_i hz
              apply powi_noPanic
              intro hneg hval
              rw [hx] at hval; injection hval with hval
              exact hz ⟨hneg, hval⟩
          · rename_i hx
            apply powi_noPanic
            intro _ hval; rw [hx] at hval; cases hval
        · split
          · exact root_noPanic _ _
          · split
            · exact noPanic_err _
            · exact noPanic_ok _

theorem two_pow_ne_zero (n : Nat) : ((2 ^ n : Nat) : Rat) ≠ 0 := by
  intro h
  have h1 : (2 ^ n : Nat) = 0 := Rat.natCast_eq_zero_iff.mp h
  have h2 : 0 < 2 ^ n := Nat.pow_pos (by decide)
  omega

theorem shiftBy_noPanic (a : Number) (k : Int) : NoPanic (Number.shiftBy a k) := by
  unfold Number.shiftBy
  split
  · exact noPanic_unsupported _
  · simp only []
    split
    · exact noPanic_ok _
    · apply noPanic_bind
      · apply numeric_div_noPanic
        intro h; injection h with h; exact two_pow_ne_zero _ h
      · intro _ _; exact noPanic_ok _

theorem shiftCount_noPanic (e : Number) : NoPanic (Number.shiftCount e) := by
  unfold Number.shiftCount
  split
  · exact noPanic_err _
  · split
    · exact noPanic_unsupported _
    · split
      · exact noPanic_err _
      · split
        · exact noPanic_err _
        · exact noPanic_ok _

theorem shl_noPanic (a e : Number) : NoPanic (Number.shl a e) := by
  unfold Number.shl
  exact noPanic_bind (shiftCount_noPanic e) (fun _ _ => shiftBy_noPanic _ _)

theorem shr_noPanic (a e : Number) : NoPanic (Number.shr a e) := by
  unfold Number.shr
  exact noPanic_bind (shiftCount_noPanic e) (fun _ _ => shiftBy_noPanic _ _)

theorem numeric_rem_noPanic (a b : Numeric) (hb : b ≠ .rational 0) : NoPanic (Numeric.rem a b) := by
  intro s h
  cases a <;> cases b <;> simp [Numeric.rem] at h
  rename_i x y
  split at h
  · rename_i hy; exact hb (by rw [hy])
  · cases h

theorem rem_noPanic (a b : Number) : NoPanic (Number.rem a b) := by
  unfold Number.rem
  split
  · exact noPanic_err _
  · split
    · rename_i q hq
      split
      · exact noPanic_err _
      · rename_i hz
        exact noPanic_bind (numeric_rem_noPanic _ _ (by rw [hq]; intro h; injection h with h; exact hz h)) (fun _ _ => noPanic_ok _)
    · exact noPanic_ok _

theorem bitop_noPanic (f : Int → Int → Int) (a b : Number) : NoPanic (Number.bitop f a b) := by
  unfold Number.bitop
  split
  · exact noPanic_err _
  · split
    · exact noPanic_ok _
    · exact noPanic_err _

/-- every binary operator except `=` (which `eval_expr` handles itself: the `unreachable!` arm) -/
theorem applyBin_noPanic (op : BinOp) (l r : Number) (hop : op ≠ .equals) : NoPanic (applyBin op l r) := by
  cases op with
  | equals => exact absurd rfl hop
  | add => exact add_noPanic l r
  | sub => exact sub_noPanic l r
  | frac => exact div_noPanic l r
  | pow => exact pow_noPanic l r
  | shl => exact shl_noPanic l r
  | shr => exact shr_noPanic l r
  | mod => exact rem_noPanic l r
  | and => exact bitop_noPanic _ l r
  | or => exact bitop_noPanic _ l r
  | xor => exact bitop_noPanic _ l r

theorem applyFunc_noPanic (f : Func) (args : List Number) : NoPanic (applyFunc f args) := by
  unfold applyFunc
  split <;> (try split) <;> first
    | exact root_noPanic _ _
    | exact noPanic_err _
    | exact noPanic_ok _
    | (unfold floatWith; exact noPanic_ok _)

/-! ### substances -/

/-- no property of the substance has a zero input (what `expect("Non-zero property")` relies on) -/
def SubstOK (s : Substance) : Prop := ∀ kp ∈ s.props, kp.2.input.value ≠ .rational 0

theorem getLoop_noPanic (amount : Number) (name : String) (props : List (String × Property)) :
    NoPanic (Substance.getLoop amount name props) := by
  induction props with
  | nil => exact noPanic_err _
  | cons kp rest ih =>
    obtain ⟨k, p⟩ := kp
    simp only [Substance.getLoop]
    split
    · have h := div_noPanic amount p.input
      generalize Number.div amount p.input = r at h
      cases r with
      | ok v => simp only []; split <;> first | exact noPanic_ok _ | exact noPanic_err _
      | err c => exact noPanic_err _
      | panic s => exact absurd rfl (h s)
      | unsupported w => exact noPanic_unsupported _
    · split
      · have h := div_noPanic amount p.output
        generalize Number.div amount p.output = r at h
        cases r with
        | ok v => simp only []; split <;> first | exact noPanic_ok _ | exact noPanic_err _
        | err c => exact noPanic_err _
        | panic s => exact absurd rfl (h s)
        | unsupported w => exact noPanic_unsupported _
      · exact ih

theorem lookup_mem {α} [BEq α] [LawfulBEq α] {β} (l : List (α × β)) (k : α) (v : β) (h : l.lookup k = some v) : (k, v) ∈ l := by
  induction l with
  | nil => simp at h
  | cons x xs ih =>
    obtain ⟨a, b⟩ := x
    simp only [List.lookup] at h
    split at h
    · rename_i heq; simp at h; have := eq_of_beq heq; subst this; subst h; simp
    · exact List.mem_cons_of_mem _ (ih h)

theorem get_noPanic (s : Substance) (name : String) (hs : SubstOK s) : NoPanic (Substance.get s name) := by
  unfold Substance.get
  split
  · split
    · exact noPanic_err _
    · rename_i p hp
      have hin : p.input.value ≠ .rational 0 := hs (name, p) (lookup_mem _ _ _ hp)
      have h := div_noPanic (Number.mul s.amount p.output) p.input
      -- the division cannot even fail: the divisor is not zero
      have hne : ∀ c, Number.div (Number.mul s.amount p.output) p.input ≠ .err c := by
        intro c hc
        unfold Number.div at hc
        split at hc
        · rename_i q hq
          split at hc
          · rename_i hz; exact hin (by rw [hq, hz])
          · have hi := invert_noPanic p.input hin
            unfold Number.invert at hc hi
            cases hd : Numeric.div Numeric.one p.input.value with
            | ok v => simp [hd] at hc
            | err c' =>
              unfold Numeric.div at hd
              cases hv : p.input.value <;> simp [hv, Numeric.one] at hd
              split at hd <;> cases hd
            | panic s' => simp [hd] at hc
            | unsupported w => simp [hd] at hc
        · cases hc
      generalize Number.div (Number.mul s.amount p.output) p.input = r at h hne
      cases r with
      | ok v => exact noPanic_ok _
      | err c => exact absurd rfl (hne c)
      | panic s' => exact absurd rfl (h s')
      | unsupported w => exact noPanic_unsupported _
  · exact getLoop_noPanic _ _ _

/-! ### the evaluator -/

/-- the two facts about the database that `eval_expr` relies on -/
structure CtxOK (ctx : Ctx) : Prop where
  /-- the constants behind every temperature suffix exist and the scale has the unit of the base -/
  degrees : ∀ d : Degree, ∃ s b, ctx.lookup d.baseScale.2 = some s ∧ ctx.lookup d.baseScale.1 = some b ∧ s.unit = b.unit ∧
    s.value ≠ .rational 0
  /-- no substance has a property with a zero input -/
  substances : ∀ name s, ctx.reg.substance name = some s → SubstOK s

theorem mul_nil_unit (v s : Number) (hv : v.unit = []) : (Number.mul v s).unit = s.unit := by
  simp [Number.mul, hv, Dim.mul, Dim.merge]

mutual
theorem evalExpr_noPanic (ctx : Ctx) (hc : CtxOK ctx) : ∀ e : Expr, NoPanic (evalExpr ctx e)
  | .unit name => by
    simp only [evalExpr]
    split
    · exact noPanic_unsupported _
    · split
      · exact noPanic_ok _
      · split <;> first | exact noPanic_unsupported _ | exact noPanic_err _
  | .quote s => by simp only [evalExpr]; exact noPanic_ok _
  | .const v => by simp only [evalExpr]; exact noPanic_ok _
  | .date _ => by simp only [evalExpr]; exact noPanic_unsupported _
  | .binop op l r => by
    cases op with
    | equals =>
      simp only [evalExpr]
      split
      · exact evalExpr_noPanic ctx hc r
      · exact noPanic_err _
    | add | sub | frac | pow | shl | shr | mod | and | or | xor =>
      simp only [evalExpr]
      exact noPanic_bind (evalExpr_noPanic ctx hc l) (fun a _ =>
        noPanic_bind (evalExpr_noPanic ctx hc r) (fun b _ => applyBin_noPanic _ a b (by simp)))
  | .unary .positive e => by simp only [evalExpr]; exact evalExpr_noPanic ctx hc e
  | .unary .negative e => by
    simp only [evalExpr]
    exact noPanic_bind (evalExpr_noPanic ctx hc e) (fun _ _ => noPanic_ok _)
  | .unary (.degree d) e => by
    simp only [evalExpr]
    apply noPanic_bind (evalExpr_noPanic ctx hc e)
    intro v _
    split
    · exact noPanic_err _
    · rename_i hv
      have hvu : v.unit = [] := by simpa using hv
      obtain ⟨s, b, hs, hb, hsb, _⟩ := hc.degrees d
      simp only [hs, hb]
      have hu : (Number.mul v s).unit = b.unit := by rw [mul_nil_unit v s hvu, hsb]
      split
      · rename_i hne; simp [hu] at hne
      · exact noPanic_ok _
  | .mul es => by simp only [evalExpr]; exact evalMul_noPanic ctx hc es Number.one
  | .ofProp p (.unit name) => by
    simp only [evalExpr]
    split
    · exact noPanic_unsupported _
    · split
      · exact noPanic_err _
      · split
        · rename_i s hs; exact get_noPanic s p (hc.substances name s hs)
        · split <;> first | exact noPanic_unsupported _ | exact noPanic_err _
  | .ofProp p (.mul es) => by
    simp only [evalExpr]
    apply noPanic_bind (evalFactors_noPanic ctx hc es Number.one none (fun s h => by cases h)).1
    intro r hr
    obtain ⟨amount, sub⟩ := r
    cases sub with
    | none => exact noPanic_err _
    | some s =>
      have hs := (evalFactors_noPanic ctx hc es Number.one none (fun s h => by cases h)).2 amount (some s) hr s rfl
      exact get_noPanic _ p hs
  | .ofProp _ (.quote s) => by
    have h := evalExpr_noPanic ctx hc (.quote s)
    simp only [evalExpr] at h ⊢
    exact noPanic_bind h (fun _ _ => noPanic_err _)
  | .ofProp _ (.const v) => by
    have h := evalExpr_noPanic ctx hc (.const v)
    simp only [evalExpr] at h ⊢
    exact noPanic_bind h (fun _ _ => noPanic_err _)
  | .ofProp _ (.date d) => by
    have h := evalExpr_noPanic ctx hc (.date d)
    simp only [evalExpr] at h ⊢
    exact noPanic_bind h (fun _ _ => noPanic_err _)
  | .ofProp _ (.binop o l r) => by
    have h := evalExpr_noPanic ctx hc (.binop o l r)
    simp only [evalExpr] at h ⊢
    exact noPanic_bind h (fun _ _ => noPanic_err _)
  | .ofProp _ (.unary o e) => by
    have h := evalExpr_noPanic ctx hc (.unary o e)
    simp only [evalExpr] at h ⊢
    exact noPanic_bind h (fun _ _ => noPanic_err _)
  | .ofProp _ (.ofProp q e) => by
    have h := evalExpr_noPanic ctx hc (.ofProp q e)
    simp only [evalExpr] at h ⊢
    exact noPanic_bind h (fun _ _ => noPanic_err _)
  | .ofProp _ (.call f a) => by
    have h := evalExpr_noPanic ctx hc (.call f a)
    simp only [evalExpr] at h ⊢
    exact noPanic_bind h (fun _ _ => noPanic_err _)
  | .ofProp _ (.error m) => by
    have h := evalExpr_noPanic ctx hc (.error m)
    simp only [evalExpr] at h ⊢
    exact noPanic_bind h (fun _ _ => noPanic_err _)
  | .call f args => by
    simp only [evalExpr]
    exact noPanic_bind (evalArgs_noPanic ctx hc args) (fun vs _ => applyFunc_noPanic f vs)
  | .error msg => by simp only [evalExpr]; split <;> first | exact noPanic_unsupported _ | exact noPanic_err _

theorem evalMul_noPanic (ctx : Ctx) (hc : CtxOK ctx) : ∀ (es : List Expr) (acc : Number), NoPanic (evalMul ctx acc es)
  | [], acc => by simp only [evalMul]; exact noPanic_ok _
  | e :: es, acc => by
    simp only [evalMul]
    exact noPanic_bind (evalExpr_noPanic ctx hc e) (fun b _ => evalMul_noPanic ctx hc es _)

/-- factors under `of`: no panic, and the substance that comes out is one of the database's
(with its property table unchanged) -/
theorem evalFactors_noPanic (ctx : Ctx) (hc : CtxOK ctx) :
    ∀ (es : List Expr) (acc : Number) (sub : Option Substance), (∀ s, sub = some s → SubstOK s) →
      NoPanic (evalFactors ctx acc sub es) ∧
      ∀ a r, evalFactors ctx acc sub es = .ok (a, r) → ∀ s, r = some s → SubstOK s
  | [], acc, sub, hsub => by
    simp only [evalFactors]
    exact ⟨noPanic_ok _, fun a r h s hs => by cases h; exact hsub s hs⟩
  | .unit name :: es, acc, sub, hsub => by
    simp only [evalFactors]
    split
    · exact ⟨noPanic_unsupported _, fun a r h => by cases h⟩
    · split
      · exact evalFactors_noPanic ctx hc es _ sub hsub
      · split
        · rename_i s hs
          cases sub with
          | none => exact evalFactors_noPanic ctx hc es acc (some s) (fun t ht => by cases ht; exact hc.substances name s hs)
          | some t => exact ⟨noPanic_err _, fun a r h => by cases h⟩
        · split
          · exact ⟨noPanic_unsupported _, fun a r h => by cases h⟩
          · exact ⟨noPanic_err _, fun a r h => by cases h⟩
  | .quote q :: es, acc, sub, hsub => by
    simp only [evalFactors]
    refine ⟨noPanic_bind (evalExpr_noPanic ctx hc _) (fun n _ => (evalFactors_noPanic ctx hc es _ sub hsub).1), ?_⟩
    intro a r h s hs
    obtain ⟨n, _, hn⟩ := (Outcome.bind_eq_ok _ _ _).mp h
    exact (evalFactors_noPanic ctx hc es _ sub hsub).2 a r hn s hs
  | .const v :: es, acc, sub, hsub => by
    simp only [evalFactors]
    refine ⟨noPanic_bind (evalExpr_noPanic ctx hc _) (fun n _ => (evalFactors_noPanic ctx hc es _ sub hsub).1), ?_⟩
    intro a r h s hs
    obtain ⟨n, _, hn⟩ := (Outcome.bind_eq_ok _ _ _).mp h
    exact (evalFactors_noPanic ctx hc es _ sub hsub).2 a r hn s hs
  | .date d :: es, acc, sub, hsub => by
    simp only [evalFactors]
    refine ⟨noPanic_bind (evalExpr_noPanic ctx hc _) (fun n _ => (evalFactors_noPanic ctx hc es _ sub hsub).1), ?_⟩
    intro a r h s hs
    obtain ⟨n, _, hn⟩ := (Outcome.bind_eq_ok _ _ _).mp h
    exact (evalFactors_noPanic ctx hc es _ sub hsub).2 a r hn s hs
  | .binop o l r :: es, acc, sub, hsub => by
    simp only [evalFactors]
    refine ⟨noPanic_bind (evalExpr_noPanic ctx hc _) (fun n _ => (evalFactors_noPanic ctx hc es _ sub hsub).1), ?_⟩
    intro a r h s hs
    obtain ⟨n, _, hn⟩ := (Outcome.bind_eq_ok _ _ _).mp h
    exact (evalFactors_noPanic ctx hc es _ sub hsub).2 a r hn s hs
  | .unary o e :: es, acc, sub, hsub => by
    simp only [evalFactors]
    refine ⟨noPanic_bind (evalExpr_noPanic ctx hc _) (fun n _ => (evalFactors_noPanic ctx hc es _ sub hsub).1), ?_⟩
    intro a r h s hs
    obtain ⟨n, _, hn⟩ := (Outcome.bind_eq_ok _ _ _).mp h
    exact (evalFactors_noPanic ctx hc es _ sub hsub).2 a r hn s hs
  | .mul ms :: es, acc, sub, hsub => by
    simp only [evalFactors]
    refine ⟨noPanic_bind (evalExpr_noPanic ctx hc _) (fun n _ => (evalFactors_noPanic ctx hc es _ sub hsub).1), ?_⟩
    intro a r h s hs
    obtain ⟨n, _, hn⟩ := (Outcome.bind_eq_ok _ _ _).mp h
    exact (evalFactors_noPanic ctx hc es _ sub hsub).2 a r hn s hs
  | .ofProp q e :: es, acc, sub, hsub => by
    simp only [evalFactors]
    refine ⟨noPanic_bind (evalExpr_noPanic ctx hc _) (fun n _ => (evalFactors_noPanic ctx hc es _ sub hsub).1), ?_⟩
    intro a r h s hs
    obtain ⟨n, _, hn⟩ := (Outcome.bind_eq_ok _ _ _).mp h
    exact (evalFactors_noPanic ctx hc es _ sub hsub).2 a r hn s hs
  | .call f a :: es, acc, sub, hsub => by
    simp only [evalFactors]
    refine ⟨noPanic_bind (evalExpr_noPanic ctx hc _) (fun n _ => (evalFactors_noPanic ctx hc es _ sub hsub).1), ?_⟩
    intro a r h s hs
    obtain ⟨n, _, hn⟩ := (Outcome.bind_eq_ok _ _ _).mp h
    exact (evalFactors_noPanic ctx hc es _ sub hsub).2 a r hn s hs
  | .error m :: es, acc, sub, hsub => by
    simp only [evalFactors]
    refine ⟨noPanic_bind (evalExpr_noPanic ctx hc _) (fun n _ => (evalFactors_noPanic ctx hc es _ sub hsub).1), ?_⟩
    intro a r h s hs
    obtain ⟨n, _, hn⟩ := (Outcome.bind_eq_ok _ _ _).mp h
    exact (evalFactors_noPanic ctx hc es _ sub hsub).2 a r hn s hs

theorem evalArgs_noPanic (ctx : Ctx) (hc : CtxOK ctx) : ∀ es : List Expr, NoPanic (evalArgs ctx es)
  | [] => by simp only [evalArgs]; exact noPanic_ok _
  | e :: es => by
    simp only [evalArgs]
    exact noPanic_bind (evalExpr_noPanic ctx hc e) (fun v _ =>
      noPanic_bind (evalArgs_noPanic ctx hc es) (fun vs _ => noPanic_ok _))
end

end Rink.Spec.C04

/-! ### the two database facts, as executable checks (run by the driver on the real registry) -/
namespace Rink.Spec.C04
open Rink Rink.Eval

theorem substOK_of_b (s : Substance) (h : substOKb s = true) : SubstOK s := by
  intro kp hkp hz
  have := List.all_eq_true.mp h kp hkp
  simp [hz] at this

theorem lookup_previous_irrelevant (ctx : Ctx) (p : Option Number) (n : String) (hn : notAns n = true) :
    ({ ctx with previous := p } : Ctx).lookup n = ctx.lookup n := by
  unfold notAns at hn
  simp only [Bool.not_eq_true', Bool.or_eq_false_iff] at hn
  simp [Ctx.lookup, hn.1.1, hn.1.2, hn.2]

/-- **The database facts hold for every session state** once the two checks pass on the loaded
registry: `ans` is the only thing a query can change. -/
theorem ctxOK_of_checks (ctx : Ctx) (p : Option Number) (hd : degreesOKb ctx = true)
    (hs : ∀ name s, ctx.reg.substance name = some s → substOKb s = true) :
    CtxOK { ctx with previous := p } := by
  refine ⟨?_, fun name s h => substOK_of_b s (hs name s h)⟩
  intro d
  have hd' := List.all_eq_true.mp hd d (by cases d <;> simp [allDegrees])
  simp only [Bool.and_eq_true] at hd'
  obtain ⟨⟨h1, h2⟩, h3⟩ := hd'
  rw [lookup_previous_irrelevant ctx p _ h1, lookup_previous_irrelevant ctx p _ h2]
  cases hs' : ctx.lookup d.baseScale.2 with
  | none => simp [hs'] at h3
  | some s =>
    cases hb' : ctx.lookup d.baseScale.1 with
    | none => simp [hs', hb'] at h3
    | some b =>
      simp [hs', hb'] at h3
      exact ⟨s, b, rfl, rfl, h3.1, h3.2⟩

/-- **C04, evaluator.** For every expression, in every session state of a database that passes
the two checks, `eval_expr` ends in a value, an error value, or outside the modelled subset —
never at a panic site. -/
theorem eval_never_panics (ctx : Ctx) (p : Option Number) (hd : degreesOKb ctx = true)
    (hs : ∀ name s, ctx.reg.substance name = some s → substOKb s = true) (e : Expr) :
    ∀ site, evalExpr { ctx with previous := p } e ≠ .panic site :=
  evalExpr_noPanic _ (ctxOK_of_checks ctx p hd hs) e

end Rink.Spec.C04

/-! ### beyond `eval_expr`: unit lists, conversion targets and the query dispatcher -/
namespace Rink.Spec.C04
open Rink Rink.Eval

theorem numeric_divRem_noPanic (a b : Numeric) (hb : b ≠ .rational 0) : NoPanic (Numeric.divRem a b) := by
  intro s h
  cases a <;> cases b <;> simp [Numeric.divRem] at h
  rename_i x y
  split at h
  · rename_i hy; exact hb (by rw [hy])
  · cases h

/-- the division loop of `to_list` over members that are all non-zero -/
theorem listLoop_noPanic : ∀ (units : List Number) (v : Numeric), (∀ u ∈ units, u.value ≠ .rational 0) →
    NoPanic (listLoop v units)
  | [], v, _ => by simp only [listLoop]; exact noPanic_ok _
  | [u], v, h => by
    simp only [listLoop]
    exact noPanic_bind (numeric_div_noPanic _ _ (h u (by simp))) (fun _ _ => noPanic_ok _)
  | u :: u' :: us, v, h => by
    simp only [listLoop]
    apply noPanic_bind (numeric_divRem_noPanic _ _ (h u (by simp)))
    intro dr _
    obtain ⟨d, r⟩ := dr
    exact noPanic_bind (listLoop_noPanic (u' :: us) r (fun x hx => h x (List.mem_cons_of_mem _ hx))) (fun _ _ => noPanic_ok _)

theorem lookupAll_noPanic (ctx : Ctx) : ∀ names : List String, NoPanic (lookupAll ctx names)
  | [] => by simp only [lookupAll]; exact noPanic_ok _
  | n :: ns => by
    simp only [lookupAll]
    split
    · exact noPanic_bind (lookupAll_noPanic ctx ns) (fun _ _ => noPanic_ok _)
    · exact noPanic_err _

/-- `to_list` (after the fix): a zero-valued member is refused before the division loop runs -/
theorem toList_noPanic (ctx : Ctx) (top : Number) (names : List String) : NoPanic (toList ctx top names) := by
  unfold toList
  apply noPanic_bind (lookupAll_noPanic ctx names)
  intro units _
  cases units with
  | nil => exact noPanic_err _
  | cons first rest =>
    simp only []
    split
    · exact noPanic_err _
    · split
      · exact noPanic_err _
      · split
        · exact noPanic_err _
        · rename_i hz
          split
          · exact noPanic_unsupported _
          · apply noPanic_bind
            · apply listLoop_noPanic
              intro u hu hv
              apply hz
              apply List.any_eq_true.mpr
              refine ⟨u, hu, ?_⟩
              rw [hv]; simp
            · intro _ _; exact noPanic_ok _

theorem finishExpr_noPanic (ctx : Ctx) (n : Number) : NoPanic (finishExpr ctx n) := by
  unfold finishExpr
  split
  · exact noPanic_bind (toList_noPanic ctx n _) (fun _ _ => noPanic_ok _)
  · exact noPanic_ok _

/-- no product node without factors (the parser never builds one; the driver checks every
parsed conversion target of the stream) -/
def NoEmptyMul : Expr → Prop
  | .mul [] => False
  | .mul (e :: es) => NoEmptyMul e ∧ NoEmptyMulList es
  | .binop _ l r => NoEmptyMul l ∧ NoEmptyMul r
  | .unary _ e => NoEmptyMul e
  | .ofProp _ e => NoEmptyMul e
  | _ => True
where
  NoEmptyMulList : List Expr → Prop
    | [] => True
    | e :: es => NoEmptyMul e ∧ NoEmptyMulList es

theorem unitNameBits_noPanic (f : Int → Int → Int) (a b : NameMap × Numeric) :
    NoPanic (unitNameBits (Number.bitop f) a b) := by
  unfold unitNameBits
  split
  · exact noPanic_err _
  · exact noPanic_bind (bitop_noPanic f _ _) (fun _ _ => noPanic_ok _)

mutual
/-- `eval_unit_name`: the zero divisors and `todo!()` arms are error values (after the fixes),
and `exprs[1..]` is never taken of an empty product -/
theorem evalUnitName_noPanic (ctx : Ctx) (hc : CtxOK ctx) : ∀ e : Expr, NoEmptyMul e → NoPanic (evalUnitName ctx e)
  | .call _ _, _ => by simp only [evalUnitName]; exact noPanic_err _
  | .unit _, _ => by simp only [evalUnitName]; exact noPanic_ok _
  | .quote _, _ => by simp only [evalUnitName]; exact noPanic_ok _
  | .const _, _ => by simp only [evalUnitName]; exact noPanic_ok _
  | .date _, _ => by simp only [evalUnitName]; exact noPanic_err _
  | .error _, _ => by simp only [evalUnitName]; split <;> first | exact noPanic_unsupported _ | exact noPanic_err _
  | .ofProp _ e, _ => by
    simp only [evalUnitName]
    exact noPanic_bind (evalExpr_noPanic ctx hc e) (fun _ _ => noPanic_err _)
  | .unary .positive e, h => by simp only [evalUnitName]; exact evalUnitName_noPanic ctx hc e (by simpa [NoEmptyMul] using h)
  | .unary .negative e, h => by
    simp only [evalUnitName]
    exact noPanic_bind (evalUnitName_noPanic ctx hc e (by simpa [NoEmptyMul] using h)) (fun _ _ => noPanic_ok _)
  | .unary (.degree _) _, _ => by simp only [evalUnitName]; exact noPanic_err _
  | .mul [], h => by simp [NoEmptyMul] at h
  | .mul (e :: es), h => by
    simp only [evalUnitName]
    have h' : NoEmptyMul e ∧ NoEmptyMul.NoEmptyMulList es := by simpa [NoEmptyMul] using h
    apply noPanic_bind (evalUnitName_noPanic ctx hc e h'.1)
    intro first _
    exact unitNameFold_noPanic ctx hc es first h'.2
  | .binop op l r, h => by
    have h' : NoEmptyMul l ∧ NoEmptyMul r := by simpa [NoEmptyMul] using h
    cases op with
    | equals => simp only [evalUnitName]; split <;> first | exact noPanic_ok _ | exact noPanic_err _
    | add | sub =>
      simp only [evalUnitName]
      apply noPanic_bind (evalUnitName_noPanic ctx hc l h'.1)
      intro a _
      apply noPanic_bind (evalUnitName_noPanic ctx hc r h'.2)
      intro b _
      split <;> first | exact noPanic_err _ | exact noPanic_ok _
    | mod =>
      simp only [evalUnitName]
      apply noPanic_bind (evalUnitName_noPanic ctx hc l h'.1)
      intro a _
      apply noPanic_bind (evalUnitName_noPanic ctx hc r h'.2)
      intro b _
      split
      · exact noPanic_err _
      · exact noPanic_bind (rem_noPanic _ _) (fun _ _ => noPanic_ok _)
    | frac =>
      simp only [evalUnitName]
      apply noPanic_bind (evalUnitName_noPanic ctx hc l h'.1)
      intro a _
      apply noPanic_bind (evalUnitName_noPanic ctx hc r h'.2)
      intro b _
      split
      · exact noPanic_err _
      · rename_i hz
        split
        · exact noPanic_unsupported _
        · apply noPanic_bind
          · apply numeric_div_noPanic
            intro hb; apply hz; rw [hb]; rfl
          · intro _ _; exact noPanic_ok _
    | pow =>
      simp only [evalUnitName]
      apply noPanic_bind (evalExpr_noPanic ctx hc r)
      intro e _
      split
      · exact noPanic_err _
      · apply noPanic_bind (evalUnitName_noPanic ctx hc l h'.1)
        intro lv _
        apply noPanic_bind (pow_noPanic _ _)
        intro res _
        split
        · exact noPanic_unsupported _
        · exact noPanic_ok _
    | shl | shr => simp only [evalUnitName]; exact noPanic_err _
    | and | or | xor =>
      simp only [evalUnitName]
      apply noPanic_bind (evalUnitName_noPanic ctx hc l h'.1)
      intro a _
      apply noPanic_bind (evalUnitName_noPanic ctx hc r h'.2)
      intro b _
      exact unitNameBits_noPanic _ a b

theorem unitNameFold_noPanic (ctx : Ctx) (hc : CtxOK ctx) :
    ∀ (es : List Expr) (acc : NameMap × Numeric), NoEmptyMul.NoEmptyMulList es →
      NoPanic (evalUnitName.unitNameFold ctx acc es)
  | [], acc, _ => by simp only [evalUnitName.unitNameFold]; exact noPanic_ok _
  | e :: es, acc, h => by
    simp only [evalUnitName.unitNameFold]
    have h' : NoEmptyMul e ∧ NoEmptyMul.NoEmptyMulList es := by simpa [NoEmptyMul.NoEmptyMulList] using h
    apply noPanic_bind (evalUnitName_noPanic ctx hc e h'.1)
    intro b _
    exact unitNameFold_noPanic ctx hc es _ h'.2
end

end Rink.Spec.C04

/-! ### the query dispatcher -/
namespace Rink.Spec.C04
open Rink Rink.Eval

/-- what showing the definition of `name` relies on: alias expansion ends (its `assert!`s hold)
and a quantity name has a definition -/
def DefShowOK (ctx : Ctx) (name : String) : Prop :=
  ∃ n canon, expandAliases ctx 1000 name ((ctx.canonicalize name).getD name) = some (n, canon) ∧
    (ctx.reg.isBaseUnit n = false → ctx.reg.isQuantityName n = true → (ctx.reg.definition n).isSome = true)

theorem quantityOrValue_noPanic (ctx : Ctx) (hc : CtxOK ctx) (e : Expr) : NoPanic (quantityOrValue ctx e) := by
  unfold quantityOrValue
  simp only []
  split
  · exact noPanic_ok _
  · exact evalExpr_noPanic ctx hc e

theorem degreeConv_noPanic (ctx : Ctx) (hc : CtxOK ctx) (top : Expr) (d : Degree) (digits : Digits) :
    NoPanic (evalQuery ctx (.convert top (.degree d) none digits)) := by
  simp only [evalQuery]
  apply noPanic_bind (evalExpr_noPanic ctx hc top)
  intro t _
  obtain ⟨s, b, hs, hb, hsb, hnz⟩ := hc.degrees d
  simp only [hs, hb]
  split
  · exact noPanic_err _
  · rename_i hu
    have hts : t.unit = s.unit := by simpa using hu
    split
    · rename_i hne; simp [hts, hsb] at hne
    · -- the scale is not zero, so the division cannot fail
      have hdiv := div_noPanic ⟨t.value.sub b.value, t.unit⟩ s
      have hne : ∀ c, Number.div ⟨t.value.sub b.value, t.unit⟩ s ≠ .err c := by
        intro c hc'
        unfold Number.div at hc'
        split at hc'
        · rename_i q hq
          split at hc'
          · rename_i hz; exact hnz (by rw [hq, hz])
          · unfold Number.invert at hc'
            cases hd : Numeric.div Numeric.one s.value with
            | ok v => simp [hd] at hc'
            | err c' =>
              unfold Numeric.div at hd
              cases hv : s.value <;> simp [hv, Numeric.one] at hd
              split at hd <;> cases hd
            | panic s' => simp [hd] at hc'
            | unsupported w => simp [hd] at hc'
        · cases hc'
      generalize Number.div ⟨t.value.sub b.value, t.unit⟩ s = r at hdiv hne
      cases r with
      | ok v => exact noPanic_ok _
      | err c => exact absurd rfl (hne c)
      | panic s' => exact absurd rfl (hdiv s')
      | unsupported w => exact noPanic_unsupported _

/-- **C04, dispatcher.** `eval_query` never reaches a panic site, for every query whose
conversion target (if any) has no empty product node, given the database facts and, for the one
branch that prints a definition, that alias expansion of that name ends. -/
theorem evalQuery_noPanic (ctx : Ctx) (hc : CtxOK ctx) (q : Query)
    (hdef : ∀ name, q = .expr (.unit name) → canShowDefinition ctx name = true → DefShowOK ctx name)
    (hmul : ∀ top bottom base digits, q = .convert top (.expr bottom) base digits → NoEmptyMul bottom) :
    NoPanic (evalQuery ctx q) := by
  have ev := fun e => evalExpr_noPanic ctx hc e
  have bindEv : ∀ {β} (e : Expr) (f : Number → Outcome β), (∀ n, NoPanic (f n)) → NoPanic (evalExpr ctx e >>= f) :=
    fun e f hf => noPanic_bind (ev e) (fun n _ => hf n)
  cases q with
  | search s => simp only [evalQuery]; exact noPanic_unsupported _
  | error msg => simp only [evalQuery]; first | exact noPanic_err _ | (split <;> first | exact noPanic_err _ | exact noPanic_unsupported _)
  | factorize e =>
    simp only [evalQuery]
    apply noPanic_bind (quantityOrValue_noPanic ctx hc e)
    intro v _
    split
    · exact noPanic_err _
    · split <;> first | exact noPanic_unsupported _ | exact noPanic_ok _
  | unitsFor e =>
    simp only [evalQuery]
    exact noPanic_bind (quantityOrValue_noPanic ctx hc e) (fun _ _ => noPanic_ok _)
  | expr e =>
    cases e with
    | unit name =>
      simp only [evalQuery]
      by_cases hshow : canShowDefinition ctx name = true
      · obtain ⟨n, canon, hexp, hq⟩ := hdef name rfl hshow
        simp only [hshow, if_true, hexp]
        split
        · exact noPanic_ok _
        · rename_i hb
          split
          · rename_i hqn
            have := hq (by simpa using hb) hqn
            simp [this]; exact noPanic_ok _
          · exact noPanic_ok _
      · simp only [hshow, if_false]
        exact bindEv _ _ (fun n => finishExpr_noPanic ctx n)
    | quote _ | const _ | date _ | binop _ _ _ | unary _ _ | mul _ | ofProp _ _ | call _ _ | error _ =>
      simp only [evalQuery]
      exact bindEv _ _ (fun n => finishExpr_noPanic ctx n)
  | convert top c base digits =>
    cases c with
    | degree d =>
      cases base with
      | none => exact degreeConv_noPanic ctx hc top d digits
      | some b => simp only [evalQuery]; exact noPanic_err _
    | expr bottom =>
      simp only [evalQuery]
      apply bindEv; intro t
      apply bindEv; intro b
      apply noPanic_bind (evalUnitName_noPanic ctx hc bottom (hmul top bottom base digits rfl))
      intro nc _
      obtain ⟨names, const⟩ := nc
      simp only []
      split
      · exact noPanic_bind (div_noPanic t b) (fun _ _ => noPanic_ok _)
      · exact noPanic_err _
    | none =>
      cases base with
      | some b => simp only [evalQuery]; exact bindEv _ _ (fun _ => noPanic_ok _)
      | none =>
        cases digits <;> simp only [evalQuery] <;>
          first
          | exact bindEv _ _ (fun n => finishExpr_noPanic ctx n)
          | exact bindEv _ _ (fun _ => noPanic_ok _)
    | list names =>
      cases base with
      | some b => simp only [evalQuery]; exact noPanic_err _
      | none =>
        cases digits <;> simp only [evalQuery] <;>
          first
          | exact noPanic_err _
          | (apply bindEv; intro t; exact noPanic_bind (toList_noPanic ctx t names) (fun _ _ => noPanic_ok _))
    | offset secs =>
      cases base with
      | some b => simp only [evalQuery]; exact noPanic_err _
      | none =>
        cases digits <;> simp only [evalQuery] <;>
          first
          | exact noPanic_err _
          | exact bindEv _ _ (fun _ => noPanic_err _)
    | timezone tz =>
      cases base with
      | some b => simp only [evalQuery]; exact noPanic_err _
      | none =>
        cases digits <;> simp only [evalQuery] <;>
          first
          | exact noPanic_err _
          | exact bindEv _ _ (fun _ => noPanic_err _)

end Rink.Spec.C04

/-! ### the executable forms of the dispatcher's hypotheses -/
namespace Rink.Spec.C04
open Rink Rink.Eval

mutual
theorem noEmptyMul_of_b : ∀ e : Expr, noEmptyMulb e = true → NoEmptyMul e
  | .mul [], h => by simp [noEmptyMulb] at h
  | .mul (e :: es), h => by
    simp only [noEmptyMulb, Bool.and_eq_true] at h
    simp only [NoEmptyMul]
    exact ⟨noEmptyMul_of_b e h.1, noEmptyMulList_of_b es h.2⟩
  | .binop _ l r, h => by
    simp only [noEmptyMulb, Bool.and_eq_true] at h
    simp only [NoEmptyMul]
    exact ⟨noEmptyMul_of_b l h.1, noEmptyMul_of_b r h.2⟩
  | .unary _ e, h => by simp only [noEmptyMulb] at h; simp only [NoEmptyMul]; exact noEmptyMul_of_b e h
  | .ofProp _ e, h => by simp only [noEmptyMulb] at h; simp only [NoEmptyMul]; exact noEmptyMul_of_b e h
  | .unit _, _ => by simp [NoEmptyMul]
  | .quote _, _ => by simp [NoEmptyMul]
  | .const _, _ => by simp [NoEmptyMul]
  | .date _, _ => by simp [NoEmptyMul]
  | .call _ _, _ => by simp [NoEmptyMul]
  | .error _, _ => by simp [NoEmptyMul]
theorem noEmptyMulList_of_b : ∀ es : List Expr, noEmptyMulListb es = true → NoEmptyMul.NoEmptyMulList es
  | [], _ => by simp [NoEmptyMul.NoEmptyMulList]
  | e :: es, h => by
    simp only [noEmptyMulListb, Bool.and_eq_true] at h
    simp only [NoEmptyMul.NoEmptyMulList]
    exact ⟨noEmptyMul_of_b e h.1, noEmptyMulList_of_b es h.2⟩
end

theorem defShowOK_of_b (ctx : Ctx) (name : String) (h : defShowOKb ctx name = true) : DefShowOK ctx name := by
  unfold defShowOKb at h
  split at h
  · cases h
  · rename_i n canon hexp
    refine ⟨n, canon, hexp, ?_⟩
    intro hb hq
    simp [hb, hq] at h
    exact h

/-- **C04, one query.** With the executable checks: the database facts (run once per registry),
the shape of the conversion target and the definition display of the queried name (run by the
driver on every line of the stream), `eval_query` does not reach a panic site — in any session
state. -/
theorem query_never_panics (ctx : Ctx) (p : Option Number) (hd : degreesOKb ctx = true)
    (hs : ∀ name s, ctx.reg.substance name = some s → substOKb s = true) (q : Query)
    (hname : ∀ name, q = .expr (.unit name) → canShowDefinition { ctx with previous := p } name = true →
      defShowOKb { ctx with previous := p } name = true)
    (htarget : ∀ b, conversionTarget q = some b → noEmptyMulb b = true) :
    ∀ site, evalQuery { ctx with previous := p } q ≠ .panic site := by
  apply evalQuery_noPanic _ (ctxOK_of_checks ctx p hd hs) q
  · intro name hq hshow; exact defShowOK_of_b _ name (hname name hq hshow)
  · intro top bottom base digits hq
    exact noEmptyMul_of_b bottom (htarget bottom (by rw [hq]; rfl))

end Rink.Spec.C04
