import Rink.Model.Sandbox
/-!
# C18 — Sandbox: one reply per request, and recovery after any failure

For every sequence of requests of any length, every fault in every position and every
resolution of the write-to-dead-child race, the repaired loop answers each request with its
own outcome, in order, and is back in the idle invariant (child alive, fresh pipes, nothing
unread) before the next request — so no stale reply can be delivered and a failure affects
only the request that caused it.
-/
namespace Rink.Sandbox

theorem serve_good (p : Parent) (r : Req) (ch : Bool) (h : Good p) :
    (serve true p r ch).2 = ownOutcome r ∧ Good (serve true p r ch).1 := by
  obtain ⟨h1, h2⟩ := h
  cases p with | mk ta g c =>
  simp only at h1 h2
  subst h1 h2
  cases r <;> simp [serve, freshChild, childHandle, ownOutcome, restart, Good]

/-- **one reply per request, each its own outcome, in order; idle invariant restored** -/
theorem sandbox_refines (p : Parent) (h : Good p) (rs : List (Req × Bool)) :
    (run true p rs).2 = rs.map (fun x => ownOutcome x.1) ∧ Good (run true p rs).1 := by
  induction rs generalizing p with
  | nil => simp [run, h]
  | cons x xs ih =>
    obtain ⟨r, ch⟩ := x
    have hs := serve_good p r ch h
    have := ih (serve true p r ch).1 hs.2
    simp only [run, List.map_cons]
    exact ⟨by rw [hs.1, this.1], this.2⟩

theorem init_good : Good init := ⟨rfl, rfl⟩

/-- a normal request is always answered by its own result, whatever happened before -/
theorem no_stale_reply (rs : List (Req × Bool)) (id : Nat) (ch : Bool) :
    (run true init (rs ++ [(.normal id, ch)])).2.getLast? = some (.ok id) := by
  have h := (sandbox_refines init init_good (rs ++ [(.normal id, ch)])).1
  rw [h]; simp [ownOutcome]

/-- the number of replies equals the number of requests -/
theorem one_reply_per_request (rs : List (Req × Bool)) : (run true init rs).2.length = rs.length := by
  rw [(sandbox_refines init init_good rs).1]; simp

/-! ### the loop before the fix: the request after a panic is sacrificed, or the sandbox wedges -/

theorem unfixed_next_request_crashes :
    (run false init [(.normal 1, true), (.panic, true), (.normal 2, true)]).2 = [.ok 1, .panic, .crashed] := by
  decide

theorem unfixed_sandbox_wedges :
    (run false init [(.normal 1, false), (.panic, false), (.normal 2, false), (.normal 3, false)]).2
      = [.ok 1, .panic, .dead, .dead] := by
  decide

/-- a loop that would not restart after a timeout would deliver the late reply of the abandoned
request to the next one — the generation change is what excludes it (illustration) -/
example : (serve true { init with child := { alive := true, out := [], late := some (.ok 7) } } (.normal 8) true).2 = .ok 7 := by
  decide

end Rink.Sandbox
