import Rink.Model.LoadCheck
import Rink.Driver.Load
import Rink.Gen.Bundled
/-!
# C08 — the loaded database is a fixed point of its own definitions

The quantifier of C08 is a finite table: every entry of `definitions.units`, `currency.units`
and the currency snapshot.  `Gen/Bundled.lean` is regenerated from the compiled source on every
run (`rkh tables`), so the theorems below are statements about the text that /repo contains
*now*; they are decided by evaluating the loader model on that text (`native_decide`: the
compiled evaluator is trusted in addition to the kernel — recorded in the evidence).

That the model's loader computes what `load_defs` computes is the correspondence check
(`rinkmodel load` vs `rkh loaddump`: the two registry dumps are compared line by line).
-/
namespace Rink.Spec.C08
open Rink Rink.Load

/-- `Context::load_definitions(DEFAULT_FILE)` -/
def base : LS := loadDefs {} (Gnu.parseStr Gen.definitionsText)

/-- the currency overlay: `currency.units` followed by the live definitions, one `Context::load` -/
def overlayDefs : List Gnu.DefEntry :=
  Gnu.parseStr Gen.currencyText ++ (Gen.currencySnapshot.splitOn "\n").filterMap Rink.Driver.Load.parseJdef

def withCurrency : LS := loadDefs base overlayDefs

/-- Without currency data: the bundled definitions load with no error or warning; every stored
value is what its definition evaluates to in the finished database; dimensionalities are
canonical and use declared base units only; quantities and dimensionalities are in bijection;
alias chains end at something that resolves; docs and categories belong to existing names. -/
theorem bundled_clean : report base = Report.clean := by native_decide

/-- The same with the currency overlay loaded on top. -/
theorem bundled_currency_clean : report withCurrency = Report.clean := by native_decide

/-- every currency entry of the snapshot was read (none dropped by the line reader) -/
theorem snapshot_read :
    ((Gen.currencySnapshot.splitOn "\n").filter (· ≠ "")).length =
    ((Gen.currencySnapshot.splitOn "\n").filterMap Rink.Driver.Load.parseJdef).length := by native_decide

/-- non-vacuity: the database is not empty, and the fixed-point predicate looked at the bulk of it -/
theorem bundled_nonempty :
    2000 ≤ base.units.size ∧ 1500 ≤ fixedPointChecked base ∧ 100 ≤ withCurrency.units.size - base.units.size := by
  native_decide

/-- Loading is a function of the text alone (a Lean function: equal inputs give equal outputs);
stated for completeness — two loads of the same text agree on every predicate and every dump line. -/
theorem load_deterministic (t : String) : loadDefs {} (Gnu.parseStr t) = loadDefs {} (Gnu.parseStr t) := rfl

end Rink.Spec.C08
