import Rink.Lemmas.DimGet
import Rink.Model.Substance
import Mathlib.Tactic.FieldSimp
import Mathlib.Tactic.Ring
import Mathlib.Data.Rat.Defs
import Mathlib.Algebra.Order.Field.Rat
/-!
# C16 — Substance properties scale linearly and invert

A property `p` relates `p.input` (e.g. 1 m³) to `p.output` (e.g. 1000 kg).  A name identifies
`p` *unambiguously* when no property earlier in the substance's (key-ordered) table answers to
it — the hypothesis `Skips`.  All theorems hold for every substance, every exact amount,
every dimensionality.
-/
namespace Rink.Spec
open Rink Rink.Dim Rink.Substance

/-- no property of `pre` answers to `name` (neither as output nor as input) -/
def Skips (name : String) (pre : List (String × Property)) : Prop :=
  ∀ x ∈ pre, name ≠ x.2.outputName ∧ name ≠ x.2.inputName

theorem getLoop_skip (amount : Number) (name : String) (pre rest : List (String × Property))
    (h : Skips name pre) : getLoop amount name (pre ++ rest) = getLoop amount name rest := by
  induction pre with
  | nil => rfl
  | cons x xs ih =>
    obtain ⟨k, p⟩ := x
    have hx := h (k, p) (by simp)
    simp only [List.cons_append, getLoop]
    have h1 : (name == p.outputName) = false := by simpa using hx.1
    have h2 : (name == p.inputName) = false := by simpa using hx.2
    simp only [h1, h2, Bool.false_eq_true, if_false]
    exact ih (fun y hy => h y (by simp [hy]))

/-- `x / y` for exact numbers with `y ≠ 0` -/
theorem number_div_exact (x y : Number) (a b : ℚ) (hx : x.value = .rational a) (hy : y.value = .rational b) (hb : b ≠ 0) :
    Number.div x y = .ok ⟨.rational (a * (1 / b)), Dim.mul x.unit (y.unit.map fun (k, p) => (k, -p))⟩ := by
  simp [Number.div, hy, hb, Number.invert, Numeric.div, Numeric.one, Number.mul, hx, Numeric.mul]

theorem dim_mul_nil_right (u : Dim) : Dim.mul u [] = u := by
  cases u <;> simp [Dim.mul, Dim.merge]

/-- **linear**: asking an amount `a` (in the input dimensionality) for the output gives
`output · (a / input)` exactly, in the output's dimensionality — for every `a`, zero included. -/
theorem get_linear (s : Substance) (pre post : List (String × Property)) (key : String) (p : Property)
    (a i o : ℚ) (hprops : s.props = pre ++ (key, p) :: post) (hskip : Skips p.outputName pre)
    (hdim : s.amount.unit ≠ []) (hunit : s.amount.unit = p.input.unit)
    (ha : s.amount.value = .rational a) (hi : p.input.value = .rational i) (hi0 : i ≠ 0)
    (ho : p.output.value = .rational o) :
    s.get p.outputName = .ok ⟨.rational (o * (a / i)), p.output.unit⟩ := by
  have hnd : s.amount.dimless = false := by
    simp [Number.dimless]; exact hdim
  unfold Substance.get
  simp only [hnd, Bool.false_eq_true, if_false, hprops]
  rw [getLoop_skip _ _ _ _ hskip]
  simp only [getLoop, beq_self_eq_true, if_true]
  rw [number_div_exact s.amount p.input a i ha hi hi0]
  have hd : Dim.mul s.amount.unit (p.input.unit.map fun (k, p) => (k, -p)) = [] := by
    rw [hunit]; exact mul_recip_self _
  simp only [Number.dimless, hd, List.isEmpty_nil, if_true, Number.mul, ho, Numeric.mul]
  congr 2
  · congr 1; field_simp
  · exact dim_mul_nil_right _

/-- **inverse**: asking the result for the input returns the amount: with an amount in the
output dimensionality, the input is `input · (a / output)`; in particular for
`a = output · (x / input)` it is `x`. -/
theorem get_inverse (s : Substance) (pre post : List (String × Property)) (key : String) (p : Property)
    (a i o : ℚ) (hprops : s.props = pre ++ (key, p) :: post) (hskip : Skips p.inputName pre)
    (hne_names : p.inputName ≠ p.outputName)
    (hdim : s.amount.unit ≠ []) (hunit : s.amount.unit = p.output.unit)
    (ha : s.amount.value = .rational a) (hi : p.input.value = .rational i)
    (ho : p.output.value = .rational o) (ho0 : o ≠ 0) :
    s.get p.inputName = .ok ⟨.rational (i * (a / o)), p.input.unit⟩ := by
  have hnd : s.amount.dimless = false := by
    simp [Number.dimless]; exact hdim
  unfold Substance.get
  simp only [hnd, Bool.false_eq_true, if_false, hprops]
  rw [getLoop_skip _ _ _ _ hskip]
  have h1 : (p.inputName == p.outputName) = false := by simpa using hne_names
  simp only [getLoop, h1, Bool.false_eq_true, if_false, beq_self_eq_true, if_true]
  rw [number_div_exact s.amount p.output a o ha ho ho0]
  have hd : Dim.mul s.amount.unit (p.output.unit.map fun (k, p) => (k, -p)) = [] := by
    rw [hunit]; exact mul_recip_self _
  simp only [Number.dimless, hd, List.isEmpty_nil, if_true, Number.mul, hi, Numeric.mul]
  congr 2
  · congr 1; field_simp
  · exact dim_mul_nil_right _

/-- the round trip in one statement: the amount `output·(x/input)` maps back to `x` -/
theorem roundtrip_value (x i o : ℚ) (hi : i ≠ 0) (ho : o ≠ 0) : i * ((o * (x / i)) / o) = x := by
  field_simp

/-- **wrong dimensionality**: an amount that conforms with neither side is refused with a
conformance error (canonical dimensionalities). -/
theorem get_wrong_dim (s : Substance) (pre post : List (String × Property)) (key : String) (p : Property)
    (a : ℚ) (hprops : s.props = pre ++ (key, p) :: post) (hskip : Skips p.outputName pre)
    (hdim : s.amount.unit ≠ []) (hca : Canonical s.amount.unit) (hci : Canonical p.input.unit)
    (hunit : p.input.unit ≠ s.amount.unit)
    (ha : s.amount.value = .rational a) (i : ℚ) (hi : p.input.value = .rational i) (hi0 : i ≠ 0) :
    s.get p.outputName = .err .conformance := by
  have hnd : s.amount.dimless = false := by
    simp [Number.dimless]; exact hdim
  unfold Substance.get
  simp only [hnd, Bool.false_eq_true, if_false, hprops]
  rw [getLoop_skip _ _ _ _ hskip]
  simp only [getLoop, beq_self_eq_true, if_true]
  rw [number_div_exact s.amount p.input a i ha hi hi0]
  have hd : Dim.mul s.amount.unit (p.input.unit.map fun (k, p) => (k, -p)) ≠ [] := by
    intro h; exact hunit ((div_eq_nil_iff _ _ hca hci).mp h).symm
  simp [Number.dimless, hd]

/-- **scaling**: multiplying a substance (dimensionless amount) by a number multiplies every
property read from it by the same factor. -/
theorem get_scales (s : Substance) (key : String) (p : Property) (a c i o : ℚ)
    (hp : s.props.lookup key = some p) (hamt : s.amount = ⟨.rational a, []⟩)
    (hi : p.input.value = .rational i) (hi0 : i ≠ 0) (ho : p.output.value = .rational o) :
    (s.get key = .ok ⟨.rational (a * o * (1 / i)), Dim.mul p.output.unit (p.input.unit.map fun (k, p) => (k, -p))⟩) ∧
    ((s.mul ⟨.rational c, []⟩).get key =
      .ok ⟨.rational (c * (a * o * (1 / i))), Dim.mul p.output.unit (p.input.unit.map fun (k, p) => (k, -p))⟩) := by
  constructor
  · unfold Substance.get
    simp only [hamt, Number.dimless, List.isEmpty_nil, if_true, hp]
    rw [number_div_exact (Number.mul ⟨.rational a, []⟩ p.output) p.input (a * o) i (by simp [Number.mul, ho, Numeric.mul]) hi hi0]
    simp [Number.mul]
  · unfold Substance.get Substance.mul
    simp only [hamt, Number.mul, Numeric.mul, Dim.mul_nil_left, Number.dimless, List.isEmpty_nil, if_true, hp]
    rw [number_div_exact _ p.input (a * c * o) i (by simp [ho, Numeric.mul]) hi hi0]
    simp only [Dim.mul_nil_left]
    congr 3; ring

/-! ### formulas -/
open Rink.Formula

/-- tokens of a written formula: each element symbol followed by an optional count -/
def formulaToks : List (String × Option Nat) → List Tok
  | [] => []
  | (s, some n) :: rest => .symbol s :: .count n :: formulaToks rest
  | (s, none) :: rest => .symbol s :: formulaToks rest

def formulaSum (mm : String → Option ℚ) : List (String × Option Nat) → ℚ
  | [] => 0
  | (s, c) :: rest => (mm s).getD 0 * ((c.getD 1 : ℕ) : ℚ) + formulaSum mm rest

def startsWithCount : List Tok → Bool
  | .count _ :: _ => true
  | _ => false

/-- **scaling commutes with division**: `(k · s) / j` is the same amount of the same substance as
`(k / j) · s` — a substance divided by a number keeps, and divides, the amount it already carries -/
theorem div_scales_amount (s : Substance) (a k j : ℚ) (ha : s.amount.value = .rational a) (hj : j ≠ 0) :
    Substance.div (Substance.mul s ⟨.rational k, []⟩) ⟨.rational j, []⟩ =
      .ok (Substance.mul s ⟨.rational (k / j), []⟩) := by
  have hv : a * k * (1 / j) = a * (k / j) := by field_simp
  simp only [Substance.div, Substance.mul]
  rw [number_div_exact (Number.mul s.amount ⟨.rational k, []⟩) ⟨.rational j, []⟩ (a * k) j
        (by simp [Number.mul, ha, Numeric.mul]) rfl hj]
  have hv' : a * k * j⁻¹ = a * (k / j) := by rw [← hv]; simp [one_div]
  simp [Number.mul, ha, Numeric.mul, Bind.bind, Outcome.bind, hv']

theorem formulaToks_no_count (cs : List (String × Option Nat)) : startsWithCount (formulaToks cs) = false := by
  cases cs with
  | nil => rfl
  | cons x xs => obtain ⟨s, c⟩ := x; cases c <;> rfl

theorem sumLoop_symbol_nocount (mm : String → Option ℚ) (s : String) (toks : List Tok) (acc m : ℚ)
    (hm : mm s = some m) (h : startsWithCount toks = false) :
    sumLoop mm (.symbol s :: toks) acc = sumLoop mm toks (acc + m) := by
  cases toks with
  | nil => simp [sumLoop, hm]
  | cons t ts =>
    cases t with
    | count n => simp [startsWithCount] at h
    | symbol s2 => simp [sumLoop, hm]
    | error => simp [sumLoop, hm]

/-- **the molar mass of a formula is the exact count-weighted sum of its elements'** -/
theorem formula_sum (mm : String → Option ℚ) (cs : List (String × Option Nat)) (acc : ℚ)
    (hknown : ∀ x ∈ cs, (mm x.1).isSome) :
    sumLoop mm (formulaToks cs) acc = some (acc + formulaSum mm cs) := by
  induction cs generalizing acc with
  | nil => simp [formulaToks, sumLoop, formulaSum]
  | cons x xs ih =>
    obtain ⟨s, c⟩ := x
    have hs := hknown (s, c) (by simp)
    obtain ⟨m, hm⟩ := Option.isSome_iff_exists.mp hs
    have ih' := fun acc => ih acc (fun y hy => hknown y (by simp [hy]))
    cases c with
    | some n =>
      simp only [formulaToks, sumLoop, hm, formulaSum, Option.getD_some]
      rw [ih']; congr 1; ring
    | none =>
      simp only [formulaToks, formulaSum, hm, Option.getD_some, Option.getD_none, Nat.cast_one, mul_one]
      rw [sumLoop_symbol_nocount mm s _ acc m hm (formulaToks_no_count xs), ih']
      congr 1; ring

/-- text that is not a well-formed formula of known symbols is not treated as one -/
theorem formula_rejects_unknown (mm : String → Option ℚ) (s : String) (rest : List Tok) (acc : ℚ)
    (h : mm s = none) : sumLoop mm (.symbol s :: rest) acc = none := by
  cases rest with
  | nil => simp [sumLoop, h]
  | cons t ts => cases t <;> simp [sumLoop, h]

theorem formula_rejects_error (mm : String → Option ℚ) (rest : List Tok) (acc : ℚ) :
    sumLoop mm (.error :: rest) acc = none ∧ ∀ n, sumLoop mm (.count n :: rest) acc = none := by
  constructor
  · simp [sumLoop]
  · intro n; simp [sumLoop]

theorem empty_is_not_a_formula (mm : String → Option ℚ) : Formula.molarMass mm "" = none := by
  simp [Formula.molarMass]

/-! non-vacuity: H2O with H = 1, O = 16 (kernel-evaluated) -/
example : Formula.molarMass (fun s => if s = "H" then some 1 else if s = "O" then some 16 else none) "H2O" = some 18 := by
  decide +kernel

end Rink.Spec
