import Rink.Lemmas.Dates
import Mathlib.Logic.Function.Iterate
/-!
# C14 — Date arithmetic is consistent

Objects: `Rink.Dates` (`lean/Rink/Model/Dates.lean`), the model of `to_duration`,
`from_duration`, `Value` `Add`/`Sub` for dates, `parse_offset`, the `Conversion::Offset` /
`Conversion::Timezone` arms, the field computations of `parse_date` and the datetime
construction of `attempt`.  Instants are integer nanoseconds since the Unix epoch.

Every theorem quantifies over **all** rationals / instants / offsets / literals; the only
bounds are the code's own range checks (`|t| ≤ i64::MAX / 1000` seconds, chrono's datetime
range).

The pinned commit violates the property in six places; for each the full-strength theorem
is proved about the repaired behaviour (a hypothesis on the `CodeVariant` field) and the
violation of the pinned behaviour is proved as a `…_counterexample`, whose witness the
check replays on the implementation.
-/
namespace Rink.C14
open Rink Rink.Dates Rink.Spec

/-- a number of seconds as the evaluator holds it -/
def secs (t : ℚ) : Number := ⟨.rational t, secondsDim⟩

/-- `t` seconds is a whole number of nanoseconds -/
def WholeNs (t : ℚ) : Prop := ∃ k : ℤ, t = (k : ℚ) / 1000000000

/-! ## (a) duration round trip -/

/-- the repaired `to_duration` keeps exactly the whole nanoseconds of any rational number
of seconds in the documented range (truncation toward zero), and `from_duration` reads
them back exactly -/
theorem duration_truncates (t : ℚ) (hr : |t| ≤ (maxSecs : ℚ)) :
    (toDurationFixed t >>= fromDuration) = .ok (((trunc (t * 1000000000) : ℤ) : ℚ) / 1000000000) := by
  rw [toDurationFixed_eq_trunc t hr]
  simp [fromDuration_eq]

/-- **duration_roundtrip**: every `t` that is a whole number of nanoseconds within the
supported range survives `to_duration` followed by `from_duration` (repaired code) -/
theorem duration_roundtrip (t : ℚ) (hns : WholeNs t) (hr : |t| ≤ (maxSecs : ℚ)) :
    (toDurationFixed t >>= fromDuration) = .ok t := by
  obtain ⟨k, hk⟩ := hns
  rw [duration_truncates t hr]
  have : t * 1000000000 = (k : ℚ) := by rw [hk]; field_simp
  rw [this, trunc_intCast, hk]

/-- the conversion itself: a whole number `k` of nanoseconds becomes the `TimeDelta` of `k` ns -/
theorem toDurationFixed_exact (k : ℤ) (hr : |(k : ℚ) / 1000000000| ≤ (maxSecs : ℚ)) :
    toDurationFixed ((k : ℚ) / 1000000000) = .ok k := by
  rw [toDurationFixed_eq_trunc _ hr]
  have : (k : ℚ) / 1000000000 * 1000000000 = (k : ℚ) := by field_simp
  rw [this, trunc_intCast]

/-- out of the documented range the repaired computation is an error, in range a value:
never a panic -/
theorem toDurationFixed_total (t : ℚ) :
    (|t| ≤ (maxSecs : ℚ) → ∃ d, toDurationFixed t = .ok d) ∧
    (¬ |t| ≤ (maxSecs : ℚ) → toDurationFixed t = .err .generic) := by
  constructor
  · intro h; exact ⟨_, toDurationFixed_eq_trunc t h⟩
  · intro h
    unfold toDurationFixed toDurationWith
    rw [if_pos]; rw [rat_abs_eq]; exact not_le.mp h

/-- **the pinned code violates the round trip**: 0.0005 s comes back as 0.5 s -/
theorem duration_roundtrip_counterexample :
    (toDuration (1 / 2000) >>= fromDuration) = .ok (1 / 2) := by decide +kernel

theorem duration_roundtrip_counterexample_ns :
    toDuration (1 / 1000000000) = .ok 1000 ∧ toDuration (-1 / 1000000000) = .ok (-1000) := by
  decide +kernel

/-- so the law is false of the pinned `to_duration` -/
theorem duration_roundtrip_fails_pinned :
    ¬ ∀ t : ℚ, WholeNs t → |t| ≤ (maxSecs : ℚ) → (toDuration t >>= fromDuration) = .ok t := by
  intro h
  have h1 := h (1 / 2000) ⟨500000, by norm_num⟩ (by norm_num [maxSecs])
  rw [duration_roundtrip_counterexample] at h1
  have : (1 / 2 : ℚ) = 1 / 2000 := by injection h1
  norm_num at this

/-- near the documented maximum the pinned sum of the two parts leaves `TimeDelta`'s range:
`Duration + Duration` panics -/
theorem toDuration_panic_counterexample :
    toDuration (9223372036854775 - 1 / 2000000) = .panic "`TimeDelta + TimeDelta` overflowed" := by
  decide +kernel

/-- what the pinned code does get right: whole milliseconds -/
theorem duration_roundtrip_partial (t : ℚ) (hms : ∃ k : ℤ, t = (k : ℚ) / 1000) (hr : |t| ≤ (maxSecs : ℚ)) :
    (toDuration t >>= fromDuration) = .ok t := by
  obtain ⟨k, hk⟩ := hms
  have ht : t = ((k * 1000000 : ℤ) : ℚ) / 1000000000 := by rw [hk]; push_cast; field_simp; ring
  have hr' : |((k * 1000000 : ℤ) : ℚ) / 1000000000| ≤ (maxSecs : ℚ) := by rw [← ht]; exact hr
  rw [ht, toDuration_ns _ hr']
  have h1 : Int.tdiv (k * 1000000) 1000000 = k := Int.mul_tdiv_cancel _ (by norm_num)
  have h2 : Int.tmod (k * 1000000) 1000000 = 0 := Int.mul_tmod_left _ _
  rw [h1, h2]
  have hb : -tdMaxNs ≤ k * 1000000 ∧ k * 1000000 ≤ tdMaxNs := by
    have hmax : (maxSecs : ℚ) = 9223372036854775 := by norm_num [maxSecs]
    rw [hk, hmax, abs_le] at hr
    have h3 : (-9223372036854775000 : ℚ) ≤ (k : ℚ) := by
      have := hr.1; rw [le_div_iff₀ (by norm_num)] at this; linarith
    have h4 : (k : ℚ) ≤ 9223372036854775000 := by
      have := hr.2; rw [div_le_iff₀ (by norm_num)] at this; linarith
    have h3' : -9223372036854775000 ≤ k := by exact_mod_cast h3
    have h4' : k ≤ 9223372036854775000 := by exact_mod_cast h4
    simp only [tdMaxNs]; constructor <;> omega
  simp [tdNew, hb.1, hb.2, fromDuration_eq]

/-! ## (b) `(d + t) − d = t` and `(d − t) + t = d` -/

theorem toDurationNum_secs (v : CodeVariant) (t : ℚ) :
    toDurationNum v (secs t) = toDurationWith v.subMsScale t := by
  simp [toDurationNum, secs]

theorem diff_eq (a b : Instant) (h : -tdMaxNs ≤ a.ns - b.ns ∧ a.ns - b.ns ≤ tdMaxNs) :
    diff a b = .ok (secs (((a.ns - b.ns : ℤ) : ℚ) / 1000000000)) := by
  simp [diff, tdNew, h.1, h.2, fromDuration_eq, secs]

/-- adding a duration: in range the instant moves by exactly the whole nanoseconds of `t`,
otherwise the result is the range error — never a panic (repaired scale) -/
theorem addDur_eq (v : CodeVariant) (hv : v.subMsScale = 1000000) (d : Instant) (t : ℚ)
    (hr : |t| ≤ (maxSecs : ℚ)) :
    addDur v d (secs t) =
      if inRange (d.ns + trunc (t * 1000000000)) then .ok { d with ns := d.ns + trunc (t * 1000000000) }
      else .err .generic := by
  have := toDurationFixed_eq_trunc t hr
  unfold toDurationFixed at this
  simp [addDur, toDurationNum_secs, hv, this, checkedAdd]

theorem subDur_eq (v : CodeVariant) (hv : v.subMsScale = 1000000) (d : Instant) (t : ℚ)
    (hr : |t| ≤ (maxSecs : ℚ)) :
    subDur v d (secs t) =
      if inRange (d.ns - trunc (t * 1000000000)) then .ok { d with ns := d.ns - trunc (t * 1000000000) }
      else .err .generic := by
  have := toDurationFixed_eq_trunc t hr
  unfold toDurationFixed at this
  simp [subDur, toDurationNum_secs, hv, this, checkedSub]

/-- **add_sub, first half**: if `d + t` is in range then `(d + t) − d = t`, for every
instant and every whole-nanosecond `t` in the supported range (repaired scale) -/
theorem add_sub (v : CodeVariant) (hv : v.subMsScale = 1000000) (d d' : Instant) (t : ℚ)
    (hns : WholeNs t) (hr : |t| ≤ (maxSecs : ℚ)) (h : addDur v d (secs t) = .ok d') :
    diff d' d = .ok (secs t) := by
  obtain ⟨k, hk⟩ := hns
  have htk : t * 1000000000 = (k : ℚ) := by rw [hk]; field_simp
  rw [addDur_eq v hv d t hr, htk, trunc_intCast] at h
  split at h
  · injection h with h; subst h
    have hb := trunc_ns_bound t hr
    rw [htk, trunc_intCast] at hb
    rw [diff_eq _ _ (by simp only []; constructor <;> omega)]
    simp only []
    have : d.ns + k - d.ns = k := by omega
    rw [this, hk]
  · exact absurd h (by simp)

/-- **add_sub, second half**: `(d − t) + t = d` -/
theorem sub_add (v : CodeVariant) (hv : v.subMsScale = 1000000) (d d' : Instant) (t : ℚ)
    (hr : |t| ≤ (maxSecs : ℚ)) (hd : inRange d.ns = true) (h : subDur v d (secs t) = .ok d') :
    addDur v d' (secs t) = .ok d := by
  rw [subDur_eq v hv d t hr] at h
  split at h
  · injection h with h; subst h
    rw [addDur_eq v hv _ t hr]
    have : d.ns - trunc (t * 1000000000) + trunc (t * 1000000000) = d.ns := by omega
    simp [this, hd]
  · exact absurd h (by simp)

/-- and symmetrically `(d + t) − t = d` -/
theorem add_sub_dur (v : CodeVariant) (hv : v.subMsScale = 1000000) (d d' : Instant) (t : ℚ)
    (hr : |t| ≤ (maxSecs : ℚ)) (hd : inRange d.ns = true) (h : addDur v d (secs t) = .ok d') :
    subDur v d' (secs t) = .ok d := by
  rw [addDur_eq v hv d t hr] at h
  split at h
  · injection h with h; subst h
    rw [subDur_eq v hv _ t hr]
    have : d.ns + trunc (t * 1000000000) - trunc (t * 1000000000) = d.ns := by omega
    simp [this, hd]
  · exact absurd h (by simp)

/-- date arithmetic with the repaired scale never panics, whatever the duration -/
theorem addDur_never_panics (v : CodeVariant) (hv : v.subMsScale = 1000000) (d : Instant) (t : ℚ) :
    (addDur v d (secs t)).isPanic = false ∧ (subDur v d (secs t)).isPanic = false := by
  by_cases hr : |t| ≤ (maxSecs : ℚ)
  · rw [addDur_eq v hv d t hr, subDur_eq v hv d t hr]
    constructor <;> (split <;> rfl)
  · have := (toDurationFixed_total t).2 hr
    unfold toDurationFixed at this
    simp [addDur, subDur, toDurationNum_secs, hv, this, Outcome.isPanic]

/-- a number that is not a time is refused -/
theorem addDur_wrong_unit (v : CodeVariant) (d : Instant) (n : Number) (h : n.unit ≠ secondsDim) :
    addDur v d n = .err .generic ∧ subDur v d n = .err .generic := by
  simp [addDur, subDur, toDurationNum, h]

def jan2020 : Instant := ⟨1577836800000000000, .fixed 0⟩

/-- **the pinned code violates (d + t) − d = t**: `(#2020-01-01# + 0.0005 s) - #2020-01-01#`
is half a second -/
theorem add_sub_counterexample :
    (addDur CodeVariant.pinned jan2020 (secs (1 / 2000)) >>= fun d' => diff d' jan2020) = .ok (secs (1 / 2)) := by
  decide +kernel

/-- and `d + 1 ns` lands a microsecond later -/
theorem add_counterexample :
    addDur CodeVariant.pinned jan2020 (secs (1 / 1000000000)) = .ok ⟨1577836800000001000, .fixed 0⟩ := by
  decide +kernel

/-- with the pinned scale a duration just below the documented maximum panics instead of
reporting the range error -/
theorem addDur_panic_counterexample :
    (addDur CodeVariant.pinned jan2020 (secs (9223372036854775 - 1 / 2000000))).isPanic = true := by
  decide +kernel

/-! ## (c) re-zoning keeps the instant -/

theorem diff_self_ns (a b : Instant) (h : a.ns = b.ns) : diff a b = .ok (secs 0) := by
  rw [diff_eq _ _ (by rw [h]; simp [tdMaxNs])]
  simp [h]

/-- **rezone_preserves_instant**: converting to a fixed offset changes the displayed zone
only; the difference to the original is exactly zero -/
theorem rezone_preserves_instant (v : CodeVariant) (d d' : Instant) (off : ℤ)
    (h : convertOffset v d off = .ok d') :
    d'.ns = d.ns ∧ d'.zone = .fixed off ∧ diff d' d = .ok (secs 0) := by
  unfold convertOffset at h
  split at h
  · injection h with h; subst h
    exact ⟨rfl, rfl, diff_self_ns _ _ rfl⟩
  · split at h <;> exact absurd h (by simp)

/-- converting to a named zone always succeeds and keeps the instant -/
theorem rezone_named_preserves_instant (d : Instant) (id : String) :
    ∃ d', convertZone d id = .ok d' ∧ d'.ns = d.ns ∧ d'.zone = .named id ∧ diff d' d = .ok (secs 0) :=
  ⟨_, rfl, rfl, rfl, diff_self_ns _ _ rfl⟩

/-- re-zoning twice is re-zoning once: no offset is ever applied to the instant -/
theorem rezone_twice (v : CodeVariant) (d d1 d2 : Instant) (o1 o2 : ℤ)
    (h1 : convertOffset v d o1 = .ok d1) (h2 : convertOffset v d1 o2 = .ok d2) :
    convertOffset v d o2 = .ok d2 := by
  unfold convertOffset at h1 h2 ⊢
  split at h2
  · rw [if_pos (by assumption)]
    split at h1
    · injection h1 with h1; subst h1; injection h2 with h2; subst h2; rfl
    · split at h1 <;> exact absurd h1 (by simp)
  · split at h2 <;> exact absurd h2 (by simp)

/-! ## (d) offsets of 24 h and more are refused -/

/-- **offset_refused**: with the check in place an offset of magnitude ≥ 86400 s is an error -/
theorem offset_refused (v : CodeVariant) (hv : v.convOffsetChecked = true) (d : Instant) (off : ℤ)
    (h : 86400 ≤ |off|) : convertOffset v d off = .err .generic := by
  unfold convertOffset
  have : ¬ (-86400 < off ∧ off < 86400) := by
    intro ⟨h1, h2⟩
    have := abs_lt.mpr ⟨h1, h2⟩
    omega
  rw [if_neg this, if_pos hv]

theorem offset_accepted (v : CodeVariant) (d : Instant) (off : ℤ) (h : |off| < 86400) :
    convertOffset v d off = .ok ⟨d.ns, .fixed off⟩ := by
  unfold convertOffset
  have := abs_lt.mp h
  rw [if_pos this]

/-- never a panic (repaired) -/
theorem convertOffset_never_panics (v : CodeVariant) (hv : v.convOffsetChecked = true) (d : Instant) (off : ℤ) :
    (convertOffset v d off).isPanic = false := by
  simp only [convertOffset, hv, if_true]
  split <;> rfl

/-- what the parser hands to the conversion for the three out-of-range spellings and the
largest legal one -/
theorem parseOffset_examples :
    parseOffset [.plus, .dec "25", .colon, .dec "00"] = some 90000 ∧
    parseOffset [.minus, .dec "24", .colon, .dec "00"] = some (-86400) ∧
    parseOffset [.plus, .dec "99", .colon, .dec "99"] = some 362340 ∧
    parseOffset [.plus, .dec "23", .colon, .dec "59"] = some 86340 ∧
    parseOffset [.minus, .dec "08", .colon, .dec "00"] = some (-28800) ∧
    parseOffset [.plus, .dec "5", .colon, .dec "00"] = none := by
  decide +kernel

/-- **the pinned code panics** on `-> +25:00`, `-> -24:00`, `-> +99:99` -/
theorem offset_refused_counterexample :
    convertOffset CodeVariant.pinned jan2020 90000 = .panic "FixedOffset::east_opt(off).unwrap()" ∧
    convertOffset CodeVariant.pinned jan2020 (-86400) = .panic "FixedOffset::east_opt(off).unwrap()" ∧
    convertOffset CodeVariant.pinned jan2020 362340 = .panic "FixedOffset::east_opt(off).unwrap()" := by
  decide +kernel

/-! ## (e) the calendar -/

theorem epoch_is_day_zero : daysFromCivil 1970 1 1 = 0 := by decide
theorem day_of_2000_03_01 : daysFromCivil 2000 3 1 = 11017 := by decide
theorem calendar_anchors :
    daysFromCivil 1969 12 31 = -1 ∧ daysFromCivil 1 1 1 = -719162 ∧ daysFromCivil 9999 12 31 = 2932896 ∧
    daysFromCivil 1900 3 1 = -25508 ∧ daysFromCivil 2024 2 29 = 19782 ∧ daysFromCivil 0 3 1 = -719468 := by
  decide
theorem range_bounds : minDay = daysFromCivil (-262143) 1 1 ∧ maxDay = daysFromCivil 262142 12 31 := by
  decide
theorem weekday_anchors :
    weekdayOf (daysFromCivil 1970 1 1) = 3 ∧ weekdayOf (daysFromCivil 2000 1 1) = 5 ∧
    weekdayOf (daysFromCivil 2023 11 14) = 1 ∧ weekdayOf (daysFromCivil 1 1 1) = 0 := by decide

/-- within a month consecutive days differ by one -/
theorem daysFromCivil_succ_day (y m d : ℤ) : daysFromCivil y m (d + 1) = daysFromCivil y m d + 1 := by
  unfold daysFromCivil daysFromOrdinal; omega

/-- the first of the next month follows the last day of this month -/
theorem daysFromCivil_month_rollover (y m : ℤ) (h1 : 1 ≤ m) (h2 : m ≤ 11) :
    daysFromCivil y (m + 1) 1 = daysFromCivil y m (monthLength y m) + 1 := by
  unfold daysFromCivil daysFromOrdinal
  rw [daysBeforeMonth_succ y m h1 h2]; omega

/-- January 1st follows December 31st -/
theorem daysFromCivil_year_rollover (y : ℤ) : daysFromCivil (y + 1) 1 1 = daysFromCivil y 12 31 + 1 := by
  unfold daysFromCivil daysFromOrdinal
  rw [daysBeforeYear_succ, daysBeforeMonth_jan, ← daysBeforeMonth_dec y]; omega

/-- a year has 365 days, 366 when divisible by 4 and not by 100 unless by 400 -/
theorem year_length (y : ℤ) :
    daysFromCivil (y + 1) 1 1 - daysFromCivil y 1 1 =
      if y % 4 = 0 ∧ (y % 100 ≠ 0 ∨ y % 400 = 0) then 366 else 365 := by
  unfold daysFromCivil daysFromOrdinal
  rw [daysBeforeYear_succ, daysBeforeMonth_jan, daysBeforeMonth_jan]
  unfold yearLength
  by_cases h : isLeap y = true
  · rw [if_pos h, if_pos ((isLeap_iff y).mp h)]; omega
  · rw [if_neg h, if_neg (fun h' => h ((isLeap_iff y).mpr h'))]; omega

/-- the Gregorian cycle: 400 years are 146 097 days -/
theorem era_length (y m d : ℤ) : daysFromCivil (y + 400) m d = daysFromCivil y m d + 146097 := by
  unfold daysFromCivil daysFromOrdinal daysBeforeMonth
  rw [daysBeforeYear_era, isLeap_era]; omega

theorem month_lengths (y : ℤ) :
    monthLength y 1 = 31 ∧ monthLength y 3 = 31 ∧ monthLength y 4 = 30 ∧ monthLength y 5 = 31 ∧
    monthLength y 6 = 30 ∧ monthLength y 7 = 31 ∧ monthLength y 8 = 31 ∧ monthLength y 9 = 30 ∧
    monthLength y 10 = 31 ∧ monthLength y 11 = 30 ∧ monthLength y 12 = 31 ∧
    monthLength y 2 = if y % 4 = 0 ∧ (y % 100 ≠ 0 ∨ y % 400 = 0) then 29 else 28 := by
  refine ⟨rfl, rfl, rfl, rfl, rfl, rfl, rfl, rfl, rfl, rfl, rfl, ?_⟩
  unfold monthLength
  by_cases h : isLeap y = true
  · simp [h, (isLeap_iff y).mp h]
  · have h' : ¬ (y % 4 = 0 ∧ (y % 100 ≠ 0 ∨ y % 400 = 0)) := fun h' => h ((isLeap_iff y).mpr h')
    simp [h, h']

/-- the day number of a date is its ordinal within the year (pattern `year-ordinal`) -/
theorem ordinal_agrees (y m d : ℤ) : daysFromCivil y m d = daysFromOrdinal y (daysBeforeMonth y m + d) := rfl

/-! ### against the naive definition: counting days one at a time -/

structure Civil where
  y : ℤ
  m : ℤ
  d : ℤ
deriving DecidableEq, Repr

def Civil.Valid (c : Civil) : Prop := validYmd c.y c.m c.d = true
def Civil.days (c : Civil) : ℤ := daysFromCivil c.y c.m c.d

/-- tomorrow, by the rules of the calendar -/
def nextDay (c : Civil) : Civil :=
  if c.d < monthLength c.y c.m then ⟨c.y, c.m, c.d + 1⟩
  else if c.m < 12 then ⟨c.y, c.m + 1, 1⟩
  else ⟨c.y + 1, 1, 1⟩

theorem valid_iff (c : Civil) : c.Valid ↔ (1 ≤ c.m ∧ c.m ≤ 12 ∧ 1 ≤ c.d ∧ c.d ≤ monthLength c.y c.m) := by
  simp [Civil.Valid, validYmd, and_assoc]

theorem nextDay_valid (c : Civil) (h : c.Valid) : (nextDay c).Valid := by
  rw [valid_iff] at h
  obtain ⟨h1, h2, h3, h4⟩ := h
  unfold nextDay
  split
  · rw [valid_iff]; simp only []; omega
  · split
    · rw [valid_iff]; simp only []
      have := monthLength_pos c.y (c.m + 1); omega
    · rw [valid_iff]; simp only []
      have := monthLength_pos (c.y + 1) 1; omega

/-- **consecutive civil dates differ by exactly one day** -/
theorem days_nextDay (c : Civil) (h : c.Valid) : (nextDay c).days = c.days + 1 := by
  rw [valid_iff] at h
  obtain ⟨h1, h2, h3, h4⟩ := h
  unfold nextDay Civil.days
  split
  · exact daysFromCivil_succ_day _ _ _
  · have hd : c.d = monthLength c.y c.m := by omega
    split
    · simp only []; rw [daysFromCivil_month_rollover c.y c.m h1 (by omega), hd]
    · have hm : c.m = 12 := by omega
      simp only []
      rw [daysFromCivil_year_rollover, hd, hm]
      rfl

def epoch : Civil := ⟨1970, 1, 1⟩

/-- the `n`-th day after the epoch, counted one day at a time, has day number `n`: on
valid dates `daysFromCivil` *is* the naive day count -/
theorem days_iterate (n : ℕ) : (nextDay^[n] epoch).Valid ∧ (nextDay^[n] epoch).days = n := by
  induction n with
  | zero =>
    exact ⟨by show validYmd 1970 1 1 = true; decide, by show daysFromCivil 1970 1 1 = ((0 : ℕ) : ℤ); decide⟩
  | succ n ih =>
    rw [Function.iterate_succ_apply']
    refine ⟨nextDay_valid _ ih.1, ?_⟩
    rw [days_nextDay _ ih.1, ih.2]; push_cast; ring

/-! ## (e′) differences agree with the calendar -/

/-- **diff_gregorian**: the difference of two instants built from civil fields is the
Gregorian day difference times 86 400 plus the differences of the times of day, of the
offsets and of the nanoseconds -/
theorem diff_gregorian (y1 m1 d1 h1 mi1 s1 n1 o1 y2 m2 d2 h2 mi2 s2 n2 o2 : ℤ) (a b : Instant)
    (ha : mkInstant y1 m1 d1 h1 mi1 s1 n1 o1 = .ok a) (hb : mkInstant y2 m2 d2 h2 mi2 s2 n2 o2 = .ok b) :
    diff a b = .ok (secs (
      (((daysFromCivil y1 m1 d1 - daysFromCivil y2 m2 d2) * 86400
        + ((h1 * 3600 + mi1 * 60 + s1) - (h2 * 3600 + mi2 * 60 + s2)) - (o1 - o2) : ℤ) : ℚ)
      + ((n1 - n2 : ℤ) : ℚ) / 1000000000)) := by
  unfold mkInstant placeAt at ha hb
  split at ha
  · split at ha
    · rename_i hra
      split at hb
      · split at hb
        · rename_i hrb
          injection ha with ha; injection hb with hb
          subst ha; subst hb
          rw [inRange_iff, range_numerals.1, range_numerals.2] at hra hrb
          rw [diff_eq _ _ (by simp only [tdMaxNs]; constructor <;> omega)]
          congr 2
          simp only [localNs, nsPerSec]
          push_cast
          ring
        · exact absurd hb (by simp)
      · exact absurd hb (by simp)
    · exact absurd ha (by simp)
  · exact absurd ha (by simp)

/-! ## (f) date literals -/

/-- `sec`: with the check in place no digit string panics -/
theorem secField_never_panics (v : CodeVariant) (hv : v.secFracChecked = true) (s : String) (f : Option String) :
    (secField v s f).isPanic = false := by
  unfold secField
  simp only [hv, if_true]
  repeat' split
  all_goals rfl

theorem litOffset_never_panics (v : CodeVariant) (hv : v.litOffsetOverflowChecked = true) (sign : ℤ)
    (h : String) (m : Option String) : (litOffset v sign h m).isPanic = false := by
  unfold litOffset
  simp only [hv, if_true]
  repeat' split
  all_goals rfl

/-- **the pinned code panics** on ten fraction digits and on a huge hour offset -/
theorem literal_panic_counterexample :
    secField CodeVariant.pinned "00" (some "0000000000") = .panic "9 - f.len() as u32" ∧
    litOffset CodeVariant.pinned 1 "999999999" (some "00") = .panic "h * 3600 + m * 60" := by
  decide +kernel

/-- nine digits are fine and denote nanoseconds -/
theorem secField_examples :
    secField CodeVariant.pinned "30" (some "5") = .ok (30, some 500000000) ∧
    secField CodeVariant.pinned "59" (some "123456789") = .ok (59, some 123456789) ∧
    secField CodeVariant.pinned "07" none = .ok (7, none) ∧
    secField CodeVariant.pinned "61" none = .err .generic := by
  decide +kernel

theorem litOffset_examples :
    litOffset CodeVariant.pinned 1 "0530" none = .ok 19800 ∧
    litOffset CodeVariant.pinned (-1) "08" (some "00") = .ok (-28800) ∧
    litOffset CodeVariant.pinned 1 "5" (some "45") = .ok 20700 ∧
    litOffset CodeVariant.pinned 1 "05" (some "60") = .err .generic := by
  decide +kernel

/-- the literal `2021-02-30 10:00`, the clock pinned at 2023-11-14T22:13:20Z -/
def feb30 : Literal := ⟨.ymd 2021 2 30 none, .hm 10 0 none, .absent⟩
def min60 : Literal := ⟨.ymd 2021 2 28 none, .hm 10 60 none, .absent⟩
def off2400 : Literal := ⟨.ymd 2020 1 1 none, .hm 0 0 none, .fixed 1 "24" (some "00")⟩

/-- **the pinned code** reads the impossible date `2021-02-30 10:00` as today 10:00, the
impossible time `2021-02-28 10:60` as midnight, and the offset `+24:00` as UTC -/
theorem literal_counterexample :
    literalInstant CodeVariant.pinned 1700000000 feb30 = .ok ⟨1699956000000000000, .fixed 0⟩ ∧
    literalInstant CodeVariant.pinned 1700000000 min60 = .ok ⟨1614470400000000000, .fixed 0⟩ ∧
    literalInstant CodeVariant.pinned 1700000000 off2400 = .ok ⟨1577836800000000000, .fixed 0⟩ := by
  decide +kernel

theorem literal_repaired_examples :
    literalInstant CodeVariant.repaired 1700000000 feb30 = .err .generic ∧
    literalInstant CodeVariant.repaired 1700000000 min60 = .err .generic ∧
    literalInstant CodeVariant.repaired 1700000000 off2400 = .err .generic := by
  decide +kernel

/-- **a literal that spells an impossible date is refused** (repaired): whatever the time
and zone, no instant comes out -/
theorem literal_impossible_date_refused (v : CodeVariant) (hv : v.fallbackOnlyWhenAbsent = true)
    (now : ℤ) (l : Literal) (hp : l.date.present = true) (hd : resolveDate l.date = none) (i : Instant) :
    literalInstant v now l ≠ .ok i := by
  intro h
  unfold literalInstant at h
  split at h
  · exact absurd h (by simp)
  · split at h
    · split at h
      · rw [hd] at h
        unfold assemble at h
        split at h <;> simp_all
      all_goals exact absurd h (by simp)
    all_goals exact absurd h (by simp)

/-- likewise a literal that spells an impossible time (minute 60, second above 60) -/
theorem literal_impossible_time_refused (v : CodeVariant) (hv : v.fallbackOnlyWhenAbsent = true)
    (now : ℤ) (l : Literal) (hp : l.time.present = true) (ht : resolveTime v l.time = .ok none) (i : Instant) :
    literalInstant v now l ≠ .ok i := by
  intro h
  unfold literalInstant at h
  split at h
  · exact absurd h (by simp)
  · rw [ht] at h
    simp only [] at h
    split at h
    · unfold assemble at h
      split at h <;> simp_all
    all_goals exact absurd h (by simp)

/-- an explicit offset of 24 h or more is refused (repaired), never read as UTC -/
theorem literal_offset_refused (v : CodeVariant) (hv : v.litOffsetRangeChecked = true) (sign : ℤ) (h : String)
    (m : Option String) (off : ℤ) (ho : litOffset v sign h m = .ok off) (hbig : ¬ (-86400 < off ∧ off < 86400)) :
    resolveZone v (.fixed sign h m) = .err .generic := by
  simp [resolveZone, ho, hbig, hv]

/-- with every check in place no literal panics -/
theorem literal_never_panics (now : ℤ) (l : Literal) :
    (literalInstant CodeVariant.repaired now l).isPanic = false := by
  have hsec : ∀ s f, (secField CodeVariant.repaired s f).isPanic = false :=
    secField_never_panics _ rfl
  have hoff : ∀ sign h m, (litOffset CodeVariant.repaired sign h m).isPanic = false :=
    litOffset_never_panics _ rfl
  have htime : (resolveTime CodeVariant.repaired l.time).isPanic = false := by
    cases l.time with
    | absent => rfl
    | hm h mi sec =>
      cases sec with
      | none =>
        simp only [resolveTime, bind, Outcome.bind]
        repeat' split
        all_goals rfl
      | some p =>
        obtain ⟨s, f⟩ := p
        have := hsec s f
        simp only [resolveTime, bind, Outcome.bind]
        cases hs : secField CodeVariant.repaired s f with
        | ok r =>
          simp only []
          repeat' split
          all_goals rfl
        | err c => rfl
        | panic w => rw [hs] at this; exact absurd this (by simp [Outcome.isPanic])
        | unsupported w => rfl
  have hzone : (resolveZone CodeVariant.repaired l.zone).isPanic = false := by
    cases l.zone with
    | absent => rfl
    | named id o loc => rfl
    | fixed sign h m =>
      have := hoff sign h m
      simp only [resolveZone]
      cases ho : litOffset CodeVariant.repaired sign h m with
      | ok r =>
        simp only []
        repeat' split
        all_goals rfl
      | err c => rfl
      | panic w => rw [ho] at this; exact absurd this (by simp [Outcome.isPanic])
      | unsupported w => rfl
  have hplaceAt : ∀ z off days sod ns, (placeAt z off days sod ns).isPanic = false := by
    intro z off days sod ns; unfold placeAt; split <;> rfl
  have hplace : ∀ z loc days sod ns, (placeEarliest z loc days sod ns).isPanic = false := by
    intro z loc days sod ns
    cases loc with
    | single o => exact hplaceAt _ _ _ _ _
    | ambiguous a b => exact hplaceAt _ _ _ _ _
    | gap => rfl
  unfold literalInstant
  split
  · rfl
  · cases ht : resolveTime CodeVariant.repaired l.time with
    | ok time =>
      cases hz : resolveZone CodeVariant.repaired l.zone with
      | ok zone =>
        simp only []
        unfold assemble
        simp only [CodeVariant.repaired, Bool.true_and, if_true]
        repeat' split
        all_goals first | rfl | exact hplace _ _ _ _ _ | exact hplaceAt _ _ _ _ _
      | err c => rfl
      | panic w => rw [hz] at hzone; exact absurd hzone (by simp [Outcome.isPanic])
      | unsupported w => rfl
    | err c => rfl
    | panic w => rw [ht] at htime; exact absurd htime (by simp [Outcome.isPanic])
    | unsupported w => rfl

/-- **pattern_denotes**: a literal with a complete valid date, a time whose seconds token
reads `(s, ns)` and an explicit offset that reads `off` (|off| < 24 h) denotes exactly the
instant of those civil fields at that offset -/
theorem literal_denotes (v : CodeVariant) (now y m d h mi s ns off sign : ℤ) (ss : String) (f : Option String)
    (hh : String) (mm : Option String)
    (hsec : secField v ss f = .ok (s, some ns)) (hoff : litOffset v sign hh mm = .ok off)
    (hvalid : validYmd y m d = true) (hy : -262143 ≤ y ∧ y ≤ 262142)
    (hh0 : 0 ≤ h ∧ h ≤ 23) (hm0 : 0 ≤ mi ∧ mi ≤ 59) (hs0 : 0 ≤ s ∧ s ≤ 59) (hn0 : 0 ≤ ns ∧ ns < 1000000000)
    (ho : -86400 < off ∧ off < 86400) :
    literalInstant v now ⟨.ymd y m d none, .hm h mi (some (ss, f)), .fixed sign hh mm⟩
      = mkInstant y m d h mi s ns off := by
  have hv' := hvalid
  simp only [validYmd, Bool.and_eq_true, decide_eq_true_eq] at hv'
  have hml := monthLength_pos y m
  have htok : tokensOk ⟨.ymd y m d none, .hm h mi (some (ss, f)), .fixed sign hh mm⟩ = true := by
    simp only [tokensOk, Bool.and_eq_true, decide_eq_true_eq]
    refine ⟨⟨⟨⟨⟨?_, ?_⟩, ?_⟩, ?_⟩, ?_⟩, ⟨⟨⟨?_, ?_⟩, ?_⟩, ?_⟩⟩ <;> first | omega | trivial
  have hs60 : (s == 60) = false := by simp; omega
  have c1 : (decide (mi ≤ 59) && decide (s ≤ 59)) = true := by simp; omega
  have htime : resolveTime v (.hm h mi (some (ss, f))) = .ok (some (h * 3600 + mi * 60 + s, ns)) := by
    simp [resolveTime, hsec, bind, Outcome.bind, hs60, c1]
  have hzone : resolveZone v (.fixed sign hh mm) = .ok (.fixed off, off, .single off) := by
    simp [resolveZone, hoff, ho.1, ho.2]
  have hdate : resolveDate (.ymd y m d none) = some (daysFromCivil y m d) := by
    simp [resolveDate, hvalid, hy.1, hy.2]
  have c3 : (validYmd y m d && decide (0 ≤ h) && decide (h ≤ 23) && decide (0 ≤ mi) && decide (mi ≤ 59) && decide (0 ≤ s)
      && decide (s ≤ 59) && decide (0 ≤ ns) && decide (ns < nsPerSec) && decide (-86400 < off) && decide (off < 86400)) = true := by
    simp [hvalid, nsPerSec, hh0.1, hh0.2, hm0.1, hm0.2, hs0.1, hs0.2, hn0.1, hn0.2, ho.1, ho.2]
  unfold literalInstant mkInstant
  simp only [htok, Bool.not_true, Bool.false_eq_true, if_false, htime, hzone, hdate, c3, if_true, assemble, placeEarliest]

/-- `#01:30 Europe/London#` asked on 2020-03-29 (the clocks there jump from 01:00 to 02:00):
**the pinned code panics**, the repaired code reports that the time does not exist; on
2020-10-25 (01:30 happens twice) the pinned code panics too, the repaired code takes the
earlier instant as dated literals do -/
theorem today_counterexample :
    literalInstant CodeVariant.pinned 1585483200 ⟨.absent, .hm 1 30 none, .named "Europe/London" 3600 .gap⟩
      = .panic "LocalResult::unwrap" ∧
    literalInstant CodeVariant.repaired 1585483200 ⟨.absent, .hm 1 30 none, .named "Europe/London" 3600 .gap⟩
      = .err .generic ∧
    literalInstant CodeVariant.pinned 1603627200 ⟨.absent, .hm 1 30 none, .named "Europe/London" 0 (.ambiguous 3600 0)⟩
      = .panic "LocalResult::unwrap" ∧
    literalInstant CodeVariant.repaired 1603627200 ⟨.absent, .hm 1 30 none, .named "Europe/London" 0 (.ambiguous 3600 0)⟩
      = .ok ⟨1603585800000000000, .named "Europe/London"⟩ := by
  decide +kernel

/-! ## non-vacuity: the hypotheses of the theorems above are satisfiable and the repaired
computation produces the documented values -/

example : WholeNs (1 / 2000) ∧ |(1 / 2000 : ℚ)| ≤ (maxSecs : ℚ) := ⟨⟨500000, by norm_num⟩, by norm_num [maxSecs]⟩
example : (toDurationFixed (1 / 2000) >>= fromDuration) = .ok (1 / 2000) := by decide +kernel
example : toDurationFixed (9223372036854775 - 1 / 2000000) = .ok 9223372036854774999999500 := by decide +kernel
example : addDur CodeVariant.repaired jan2020 (secs (1 / 2000)) = .ok ⟨1577836800000500000, .fixed 0⟩ := by decide +kernel
example : (addDur CodeVariant.repaired jan2020 (secs (1 / 2000)) >>= fun d => diff d jan2020) = .ok (secs (1 / 2000)) := by
  decide +kernel
example : subDur CodeVariant.repaired jan2020 (secs 8300000000000) = .ok ⟨-8298422163200000000000, .fixed 0⟩ := by decide +kernel
example : addDur CodeVariant.repaired jan2020 (secs 9223372036854775) = .err .generic := by decide +kernel
example : convertOffset CodeVariant.repaired jan2020 90000 = .err .generic := by decide +kernel
example : convertOffset CodeVariant.repaired jan2020 (-28800) = .ok ⟨1577836800000000000, .fixed (-28800)⟩ := by decide +kernel
example : mkInstant 2020 1 1 12 0 30 500000000 19800 = .ok ⟨1577860230500000000, .fixed 19800⟩ := by decide +kernel
example : (nextDay ⟨2024, 2, 28⟩ = ⟨2024, 2, 29⟩) ∧ (nextDay ⟨2023, 2, 28⟩ = ⟨2023, 3, 1⟩) ∧ (nextDay ⟨1999, 12, 31⟩ = ⟨2000, 1, 1⟩) := by
  decide

end Rink.C14
