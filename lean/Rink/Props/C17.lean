import Rink.Lemmas.DimGet
import Rink.Model.Commands
import Rink.Model.Eval
import Mathlib.Data.List.Lex
import Mathlib.Data.List.Perm.Basic
import Mathlib.Tactic.Ring
import Mathlib.Tactic.Linarith
/-!
# C17 — `units for` and `factorize` are dimensionally sound and complete

For every registry and every dimensionality (no bound on the database):
* what `units for X` displays is exactly — as a multiset, nothing lost, nothing added — the
  entries selected by the filter "non-alias unit with dimensionality X" (plus the base unit's
  own name), each shown under the category it was selected with;
* every product returned by `factorize X` multiplies out to X, for any pruning of candidates;
* the candidate list `keepTen` produces is strictly ordered, hence without duplicates.
-/
namespace Rink.Spec
open Rink Rink.Dim Rink.Commands

/-! ### `units for` -/

def flatten (gs : List (Option String × List String)) : List (Option String × String) :=
  gs.flatMap fun g => g.2.map fun n => (g.1, n)

/-- grouping loses nothing and keeps every unit under its own category -/
theorem groupAdjacent_flatten (l : List (Option String × String)) : flatten (groupAdjacent l) = l := by
  induction l with
  | nil => rfl
  | cons x xs ih =>
    obtain ⟨c, n⟩ := x
    simp only [groupAdjacent]
    cases hg : groupAdjacent xs with
    | nil =>
      rw [hg] at ih
      simp only [flatten, List.flatMap_nil] at ih
      simp [flatten, ← ih]
    | cons g gs =>
      obtain ⟨c', ns⟩ := g
      rw [hg] at ih
      simp only
      split
      · rename_i hc
        have hc' : c = c' := by simpa using hc
        subst hc'
        simp only [flatten, List.flatMap_cons, List.map_cons, List.cons_append] at ih ⊢
        rw [ih]
      · simp only [flatten, List.flatMap_cons, List.map_cons, List.map_nil, List.cons_append, List.nil_append] at ih ⊢
        rw [ih]

theorem insertSortedBack_perm (x : Option String × String) (l : List (Option String × String)) :
    (stableSort.insertSortedBack x l).Perm (x :: l) := by
  induction l with
  | nil => simp [stableSort.insertSortedBack]
  | cons y ys ih =>
    simp only [stableSort.insertSortedBack]
    split
    · exact (List.Perm.cons y ih).trans (List.Perm.swap x y ys)
    · exact List.Perm.refl _

/-- sorting is a permutation -/
theorem stableSort_perm (l : List (Option String × String)) : (stableSort l).Perm l := by
  induction l with
  | nil => simp [stableSort]
  | cons x xs ih =>
    simp only [stableSort, List.foldr_cons] at ih ⊢
    exact (insertSortedBack_perm x _).trans (List.Perm.cons x ih)

/-- **exactness of `units for`**: the displayed (category, unit) pairs are a permutation of
the selected entries — none missing, none added, each as often as it was selected. -/
theorem unitsfor_exact (reg : Registry) (canon : String → Option String) (x : Dim) :
    (flatten (groupAdjacent (stableSort (unitsForEntries reg canon x)))).Perm (unitsForEntries reg canon x) := by
  rw [groupAdjacent_flatten]; exact stableSort_perm _

/-- what is selected: exactly the non-alias units whose dimensionality is `x` -/
theorem unitsFor_selects (reg : Registry) (canon : String → Option String) (x : Dim) (c : Option String) (n : String)
    (hns : Dim.asSingle x = none) :
    (c, n) ∈ unitsForEntries reg canon x ↔
      ∃ u, (n, u) ∈ reg.unitList ∧ (∀ t, reg.definition n ≠ some (.alias t)) ∧ u.unit = x ∧ c = reg.category n := by
  unfold unitsForEntries
  simp only [hns, List.mem_filterMap]
  constructor
  · rintro ⟨⟨n', u⟩, hmem, h⟩
    cases hd : reg.definition n' with
    | none =>
      simp only [hd] at h
      split at h
      · rename_i hu; cases h; exact ⟨u, hmem, by simp [hd], by simpa using hu, rfl⟩
      · cases h
    | some k =>
      rcases k with t | _
      · simp [hd] at h
      · simp only [hd] at h
        split at h
        · rename_i hu; cases h; exact ⟨u, hmem, by simp [hd], by simpa using hu, rfl⟩
        · cases h
  · rintro ⟨u, hmem, hna, hu, hc⟩
    refine ⟨(n, u), hmem, ?_⟩
    cases hd : reg.definition n with
    | none => simp [hu, hc]
    | some k =>
      rcases k with t | _
      · exact absurd hd (hna t)
      · simp [hu, hc]

/-! ### `factorize` -/

/-- `names` multiplies out to `v`: there are quantities of the table, one per name, whose
exponents add up to `v`'s for every base unit -/
def Sound (qs : List (Dim × String)) (v : Dim) (names : List String) : Prop :=
  ∃ pairs : List (Dim × String), (∀ p ∈ pairs, p ∈ qs) ∧ (pairs.map (·.2)).Perm names ∧
    ∀ k, get v k = (pairs.map fun p => get p.1 k).sum

theorem insertName_perm (n : String) (l : List String) : (insertName n l).Perm (n :: l) := by
  induction l with
  | nil => simp [insertName]
  | cons m ms ih =>
    simp only [insertName]
    split
    · exact List.Perm.refl _
    · exact (List.Perm.cons m ih).trans (List.Perm.swap n m ms)

theorem insertFactor_mem (x y : Factors) (l : List Factors) (h : y ∈ insertFactor x l) : y = x ∨ y ∈ l := by
  induction l with
  | nil => simp [insertFactor] at h; exact Or.inl h
  | cons z zs ih =>
    simp only [insertFactor] at h
    split at h
    · exact Or.inr h
    · split at h
      · rcases List.mem_cons.mp h with h | h
        · exact Or.inl h
        · exact Or.inr h
      · rcases List.mem_cons.mp h with h | h
        · exact Or.inr (by simp [h])
        · rcases ih h with h | h
          · exact Or.inl h
          · exact Or.inr (by simp [h])

theorem keepTen_subset (l : List Factors) (y : Factors) (h : y ∈ keepTen l) : y ∈ l := by
  unfold keepTen at h
  have h := List.mem_of_mem_take h
  have key : ∀ (l acc : List Factors), y ∈ l.foldl (fun acc x => insertFactor x acc) acc → y ∈ acc ∨ y ∈ l := by
    intro l
    induction l with
    | nil => intro acc h; exact Or.inl h
    | cons x xs ih =>
      intro acc h
      simp only [List.foldl_cons] at h
      rcases ih _ h with h | h
      · rcases insertFactor_mem x y acc h with h | h
        · exact Or.inr (by simp [h])
        · exact Or.inl h
      · exact Or.inr (by simp [h])
  rcases key l [] h with h | h
  · simp at h
  · exact h

theorem sorted_div (v d : Dim) (hv : Sorted v) (hd : Sorted d) : Sorted (Dim.mul v (d.map fun (k, p) => (k, -p))) :=
  (merge_sorted _ v _ hv (map_exp_sorted (fun p => -p) d hd)).1

/-- **every factorization multiplies out to X** — for every quantity table with sorted
dimensionalities, every (sorted) X and any fuel. -/
theorem factorize_sound (qs : List (Dim × String)) (hqs : ∀ p ∈ qs, Sorted p.1) :
    ∀ (fuel : Nat) (v : Dim), Sorted v → ∀ f ∈ factorize qs fuel v, Sound qs v f.2 := by
  intro fuel
  induction fuel with
  | zero => intro v _ f hf; simp [factorize] at hf
  | succ fuel ih =>
    intro v hv f hf
    unfold factorize at hf
    split at hf
    · rename_i hempty
      simp at hf; subst hf
      have : v = [] := by simpa using hempty
      subst this
      exact ⟨[], by simp, by simp, by intro k; simp [get_nil]⟩
    · -- invariant of the fold over the quantity table
      have inv : ∀ (l : List (Dim × String)) (cands : List Factors),
          (∀ p ∈ l, p ∈ qs) → (∀ c ∈ cands, Sound qs v c.2) →
          ∀ c ∈ l.foldl (fun (cands : List Factors) (entry : Dim × String) =>
              if score (Dim.mul v (entry.1.map fun (k, p) => (k, -p))) ≥ score v then cands
              else keepTen (cands ++ (factorize qs fuel (Dim.mul v (entry.1.map fun (k, p) => (k, -p)))).map
                  fun (s, names) => (s + 1, insertName entry.2 names))) cands, Sound qs v c.2 := by
        intro l
        induction l with
        | nil => intro cands _ hc c hmem; exact hc c hmem
        | cons e es ihl =>
          intro cands hl hc c hmem
          simp only [List.foldl_cons] at hmem
          refine ihl _ (fun p hp => hl p (by simp [hp])) ?_ c hmem
          intro c' hc'
          split at hc'
          · exact hc c' hc'
          · have hsub := keepTen_subset _ c' hc'
            rcases List.mem_append.mp hsub with h | h
            · exact hc c' h
            · obtain ⟨⟨s, names⟩, hmem2, rfl⟩ := List.mem_map.mp h
              have heq : e ∈ qs := hl e (by simp)
              have hsd := sorted_div v e.1 hv (hqs e heq)
              obtain ⟨pairs, hp1, hp2, hp3⟩ := ih _ hsd (s, names) hmem2
              refine ⟨e :: pairs, ?_, ?_, ?_⟩
              · intro p hp
                rcases List.mem_cons.mp hp with rfl | hp
                · exact heq
                · exact hp1 p hp
              · simp only [List.map_cons]
                exact (List.Perm.cons e.2 hp2).trans (insertName_perm e.2 names).symm
              · intro k
                have := hp3 k
                rw [get_mul v _ hv (map_exp_sorted (fun p => -p) e.1 (hqs e heq)), get_recip] at this
                simp only [List.map_cons, List.sum_cons]
                omega
      exact inv qs.reverse [] (fun p hp => List.mem_reverse.mp hp) (by simp) f hf

/-! no duplicates: `keepTen` builds a strictly ordered list -/

def FLt (a b : Factors) : Prop := a.1 < b.1 ∨ (a.1 = b.1 ∧ a.2 < b.2)

theorem factorsLt_iff (a b : Factors) : factorsLt a b = true ↔ FLt a b := by
  unfold factorsLt FLt
  simp [Bool.or_eq_true, Bool.and_eq_true, decide_eq_true_eq]

theorem FLt_trans {a b c : Factors} (h1 : FLt a b) (h2 : FLt b c) : FLt a c := by
  rcases h1 with h1 | ⟨h1, h1'⟩ <;> rcases h2 with h2 | ⟨h2, h2'⟩
  · left; omega
  · left; omega
  · left; omega
  · right; exact ⟨by omega, lt_trans h1' h2'⟩

theorem FLt_total (a b : Factors) : FLt a b ∨ a = b ∨ FLt b a := by
  obtain ⟨a1, a2⟩ := a; obtain ⟨b1, b2⟩ := b
  rcases Nat.lt_trichotomy a1 b1 with h | h | h
  · left; left; exact h
  · rcases lt_trichotomy a2 b2 with h' | h' | h'
    · left; right; exact ⟨h, h'⟩
    · right; left; simp [h, h']
    · right; right; right; exact ⟨h.symm, h'⟩
  · right; right; left; exact h

theorem insertFactor_sorted (x : Factors) (l : List Factors) (hl : l.Pairwise FLt) :
    (insertFactor x l).Pairwise FLt := by
  induction l with
  | nil => simp [insertFactor]
  | cons y ys ih =>
    rw [List.pairwise_cons] at hl
    simp only [insertFactor]
    split
    · exact List.pairwise_cons.mpr hl
    · rename_i hne
      have hne' : x ≠ y := by simpa using hne
      split
      · rename_i hlt
        have hxy : FLt x y := (factorsLt_iff x y).mp hlt
        refine List.pairwise_cons.mpr ⟨?_, List.pairwise_cons.mpr hl⟩
        intro z hz
        rcases List.mem_cons.mp hz with rfl | hz
        · exact hxy
        · exact FLt_trans hxy (hl.1 z hz)
      · rename_i hnlt
        have hyx : FLt y x := by
          rcases FLt_total x y with h | h | h
          · exact absurd ((factorsLt_iff x y).mpr h) hnlt
          · exact absurd h hne'
          · exact h
        refine List.pairwise_cons.mpr ⟨?_, ih hl.2⟩
        intro z hz
        rcases insertFactor_mem x z ys hz with rfl | hz
        · exact hyx
        · exact hl.1 z hz

/-- **no duplicates** in what `keepTen` keeps (and at most ten entries) -/
theorem keepTen_nodup (l : List Factors) : (keepTen l).Nodup ∧ (keepTen l).length ≤ 10 := by
  unfold keepTen
  have key : ∀ (l acc : List Factors), acc.Pairwise FLt → (l.foldl (fun acc x => insertFactor x acc) acc).Pairwise FLt := by
    intro l
    induction l with
    | nil => intro acc h; exact h
    | cons x xs ih => intro acc h; simp only [List.foldl_cons]; exact ih _ (insertFactor_sorted x acc h)
  have hs := key l [] List.Pairwise.nil
  constructor
  · have hp : ((l.foldl (fun acc x => insertFactor x acc) []).take 10).Pairwise FLt := hs.sublist (List.take_sublist _ _)
    exact hp.imp (fun {a b} h heq => by
      subst heq
      rcases h with h | ⟨_, h⟩
      · exact lt_irrefl _ h
      · exact lt_irrefl _ h)
  · simp [List.length_take]

/-- the quantity-name shortcut denotes the quantity's own dimensionality, so `units for`
and `factorize` answer a name and an expression of that dimensionality alike -/
theorem name_or_expr (ctx : Ctx) (name : String) (d : Dim) (e : Expr) (n : Number)
    (hq : (ctx.reg.quantities.find? fun x => x.2 == name) = some (d, name))
    (he : Eval.evalExpr ctx e = .ok n) (hd : n.unit = d) (hnq : ∀ m, e ≠ .unit m) :
    (do let v ← Eval.quantityOrValue ctx (.unit name); pure v.unit) =
    (do let v ← Eval.quantityOrValue ctx e; pure v.unit : Outcome Dim) := by
  have h1 : Eval.quantityOrValue ctx (.unit name) = .ok ⟨.one, d⟩ := by
    simp [Eval.quantityOrValue, hq]
  have h2 : Eval.quantityOrValue ctx e = .ok n := by
    unfold Eval.quantityOrValue
    cases e <;> simp_all
  rw [h1, h2]; simp [hd]

end Rink.Spec
