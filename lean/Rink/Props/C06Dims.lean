import Rink.Props.C06Target
import Rink.Props.C02
import Rink.Lemmas.DimGet
/-!
# C06 — the unit printed for a conversion target has the target's dimensionality

Companion of `target_denotes` for the exponents: for every base unit `k`, the exponent of `k`
in the value of the target is `∑ powerᵢ · (exponent of k in the unit nameᵢ denotes)`.
-/
namespace Rink.Spec.C06T
open Rink Rink.Eval Rink.Dim Rink.Spec

/-- exponent of the base unit `k` in what the printed names denote -/
def namesGet (ctx : Ctx) (k : String) : NameMap → Option Int
  | [] => some 0
  | (n, p) :: rest =>
    match ctx.lookup n, namesGet ctx k rest with
    | some v, some r => some (p * get v.unit k + r)
    | _, _ => none

theorem namesGet_cons {ctx : Ctx} {k n : String} {p : Int} {rest : NameMap} {x : Int}
    (h : namesGet ctx k ((n, p) :: rest) = some x) :
    ∃ v r, ctx.lookup n = some v ∧ namesGet ctx k rest = some r ∧ x = p * get v.unit k + r := by
  simp only [namesGet] at h
  split at h
  · rename_i v r hv hr
    exact ⟨v, r, hv, hr, by simpa using h.symm⟩
  · simp at h

theorem namesGet_cons_intro {ctx : Ctx} {k n : String} {p : Int} {rest : NameMap} {v : Number} {r : Int}
    (hv : ctx.lookup n = some v) (hr : namesGet ctx k rest = some r) :
    namesGet ctx k ((n, p) :: rest) = some (p * get v.unit k + r) := by
  simp only [namesGet, hv, hr]

theorem namesGet_merge (ctx : Ctx) (k : String) : ∀ (a b : NameMap) (x y : Int),
    namesGet ctx k a = some x → namesGet ctx k b = some y →
    namesGet ctx k (Dim.merge Dim.addDrop a b) = some (x + y) := by
  intro a b
  fun_induction Dim.merge Dim.addDrop a b with
  | case1 r =>
    intro x y hx hy
    simp only [namesGet] at hx; cases hx; simpa using hy
  | case2 l hl =>
    intro x y hx hy
    simp only [namesGet] at hy; cases hy; simpa using hx
  | case3 ka va l kb vb r hlt ih =>
    intro x y hx hy
    obtain ⟨v, x', hv, hx', rfl⟩ := namesGet_cons hx
    rw [namesGet_cons_intro hv (ih x' y hx' hy)]
    congr 1; ring
  | case4 ka va l kb vb r hnlt hlt ih =>
    intro x y hx hy
    obtain ⟨v, y', hv, hy', rfl⟩ := namesGet_cons hy
    rw [namesGet_cons_intro hv (ih x y' hx hy')]
    congr 1; ring
  | case5 ka va l kb vb r h1 h2 v hv ih =>
    intro x y hx hy
    have hk : ka = kb := by
      rcases lt_trichotomy ka kb with h | h | h
      · exact absurd h h1
      · exact h
      · exact absurd h h2
    subst hk
    obtain ⟨u, x', hu, hx', rfl⟩ := namesGet_cons hx
    obtain ⟨u', y', hu', hy', rfl⟩ := namesGet_cons hy
    rw [hu] at hu'; cases hu'
    have hv' : v = va + vb := by
      unfold Dim.addDrop at hv; split at hv <;> simp at hv; exact hv.symm
    subst hv'
    rw [namesGet_cons_intro hu (ih x' y' hx' hy')]
    congr 1; ring
  | case6 ka va l kb vb r h1 h2 hv ih =>
    intro x y hx hy
    have hk : ka = kb := by
      rcases lt_trichotomy ka kb with h | h | h
      · exact absurd h h1
      · exact h
      · exact absurd h h2
    subst hk
    obtain ⟨u, x', hu, hx', rfl⟩ := namesGet_cons hx
    obtain ⟨u', y', hu', hy', rfl⟩ := namesGet_cons hy
    rw [hu] at hu'; cases hu'
    have hs : va + vb = 0 := by
      unfold Dim.addDrop at hv; split at hv
      · simp at hv
      · rename_i h; simpa using h
    rw [ih x' y' hx' hy']
    congr 1
    have : va * get u.unit k + vb * get u.unit k = 0 := by rw [← add_mul, hs, zero_mul]
    omega

theorem namesGet_scale (ctx : Ctx) (k : String) (e : Int) : ∀ (a : NameMap) (x : Int),
    namesGet ctx k a = some x → namesGet ctx k (Dim.scale a e) = some (x * e) := by
  intro a
  induction a with
  | nil => intro x hx; simp only [namesGet] at hx; cases hx; simp [Dim.scale, namesGet]
  | cons h t ih =>
    obtain ⟨n, p⟩ := h
    intro x hx
    obtain ⟨v, r, hv, hr, rfl⟩ := namesGet_cons hx
    have : Dim.scale ((n, p) :: t) e = (n, p * e) :: Dim.scale t e := by simp [Dim.scale]
    rw [this, namesGet_cons_intro hv (ih r hr)]
    congr 1; ring

theorem namesGet_pow (ctx : Ctx) (k : String) (e : Int) (a : NameMap) (x : Int)
    (hx : namesGet ctx k a = some x) : namesGet ctx k (Dim.pow a e) = some (x * e) := by
  unfold Dim.pow
  split
  · rename_i h; subst h; simp [namesGet]
  · exact namesGet_scale ctx k e a x hx

theorem namesGet_recip (ctx : Ctx) (k : String) (a : NameMap) (x : Int) (hx : namesGet ctx k a = some x) :
    namesGet ctx k (a.map fun (k, p) => (k, -p)) = some (-x) := by
  have : (a.map fun (k, p) => (k, -p)) = Dim.scale a (-1) := by
    unfold Dim.scale
    apply List.map_congr_left
    intro ⟨k, p⟩ _
    simp
  rw [this, namesGet_scale ctx k (-1) a x hx]
  congr 1; ring

/-- the exponents of the value and of the printed names agree -/
def AgreeDim (ctx : Ctx) (k : String) (b : Number) (nc : NameMap × Numeric) : Prop :=
  namesGet ctx k nc.1 = some (get b.unit k)


theorem agreeDim_mul {ctx : Ctx} {k : String} {a b : Number} {an bn : NameMap × Numeric}
    (hca : Canonical a.unit) (hcb : Canonical b.unit)
    (ha : AgreeDim ctx k a an) (hb : AgreeDim ctx k b bn) :
    AgreeDim ctx k (Number.mul a b) (nmMerge an.1 bn.1, an.2.mul bn.2) := by
  unfold AgreeDim at *
  simp only [Number.mul]
  rw [get_mul _ _ hca.1 hcb.1]
  exact namesGet_merge ctx k _ _ _ _ ha hb

theorem rem_unit' {a b c : Number} (h : Number.rem a b = .ok c) : c.unit = a.unit := by
  unfold Number.rem at h
  split at h
  · simp at h
  · split at h
    · split at h
      · simp at h
      · obtain ⟨v, _, hm⟩ := (Outcome.bind_eq_ok _ _ _).mp h
        cases hm; rfl
    · cases h; rfl

theorem add_unit' {a b c : Number} (h : Number.add a b = .ok c) : c.unit = a.unit := by
  unfold Number.add at h; split at h
  · simp at h
  · cases h; rfl

theorem sub_unit' {a b c : Number} (h : Number.sub a b = .ok c) : c.unit = a.unit := by
  unfold Number.sub at h; split at h
  · simp at h
  · cases h; rfl

theorem bitop_unit' {f : Int → Int → Int} {a b c : Number} (h : Number.bitop f a b = .ok c) : c.unit = [] := by
  unfold Number.bitop at h
  split at h
  · simp at h
  · rename_i hd
    split at h
    · cases h
      simp only [Bool.or_eq_true, Bool.not_eq_true', not_or, Bool.not_eq_false] at hd
      exact List.isEmpty_iff.mp hd.1
    · simp at h

theorem agreeDim_bits (ctx : Ctx) (k : String) (f : Int → Int → Int) {a b' b : Number} {an bn nc : NameMap × Numeric}
    (h1 : Number.bitop f a b' = .ok b) (h2 : unitNameBits (Number.bitop f) an bn = .ok nc) : AgreeDim ctx k b nc := by
  unfold unitNameBits at h2
  split at h2
  · simp at h2
  · rename_i hemp
    obtain ⟨v, hv, hm⟩ := (Outcome.bind_eq_ok _ _ _).mp h2
    cases hm
    have he : an.1 = [] := by
      simp only [Bool.or_eq_true, Bool.not_eq_true', not_or, Bool.not_eq_false] at hemp
      exact List.isEmpty_iff.mp hemp.1
    unfold AgreeDim
    simp only [he, bitop_unit' h1, namesGet, get_nil]

mutual
/-- **the printed unit of a conversion target has the target's dimensionality**: for every
base unit `k`, `∑ powerᵢ · (exponent of k in nameᵢ) = exponent of k in the value of the target` -/
theorem target_dims (ctx : Ctx) (hc : CanonOK ctx) (hcan : CtxCanonical ctx) (k : String) :
    ∀ e : Expr, TargetOK e → ∀ (b : Number) (nc : NameMap × Numeric),
      evalExpr ctx e = .ok b → evalUnitName ctx e = .ok nc → AgreeDim ctx k b nc
  | .quote _, ht, _, _, _, _ => by simp [TargetOK] at ht
  | .date _, _, _, _, h1, _ => by simp [evalExpr] at h1
  | .call _ _, _, _, _, _, h2 => by simp [evalUnitName] at h2
  | .error _, _, _, _, _, h2 => by simp only [evalUnitName] at h2; split at h2 <;> simp at h2
  | .ofProp _ e, _, _, _, _, h2 => by
    simp only [evalUnitName] at h2
    obtain ⟨_, _, h⟩ := (Outcome.bind_eq_ok _ _ _).mp h2
    simp at h
  | .const v, _, b, nc, h1, h2 => by
    simp only [evalExpr] at h1; simp only [evalUnitName] at h2
    cases h1; cases h2
    simp [AgreeDim, namesGet, Number.ofNumeric, get_nil]
  | .unit name, _, b, nc, h1, h2 => by
    simp only [evalExpr] at h1; simp only [evalUnitName] at h2
    cases h2
    split at h1
    · simp at h1
    · split at h1
      · rename_i n hn
        cases h1
        have hl : ctx.lookup ((ctx.canonicalize name).getD name) = some b := by
          cases hcn : ctx.canonicalize name with
          | none => simpa using hn
          | some c => simpa using hc name c b hcn hn
        unfold AgreeDim
        have := namesGet_cons_intro (k := k) (p := 1) (rest := []) hl (by simp [namesGet] : namesGet ctx k [] = some 0)
        simpa using this
      · split at h1 <;> simp at h1
  | .unary .positive e, ht, b, nc, h1, h2 => by
    simp only [evalExpr] at h1; simp only [evalUnitName] at h2
    exact target_dims ctx hc hcan k e (by simpa [TargetOK] using ht) b nc h1 h2
  | .unary .negative e, ht, b, nc, h1, h2 => by
    simp only [evalExpr] at h1; simp only [evalUnitName] at h2
    obtain ⟨v, hv, hb⟩ := (Outcome.bind_eq_ok _ _ _).mp h1
    obtain ⟨uv, huv, hn⟩ := (Outcome.bind_eq_ok _ _ _).mp h2
    cases hb; cases hn
    exact target_dims ctx hc hcan k e (by simpa [TargetOK] using ht) v uv hv huv
  | .unary (.degree _) _, _, _, _, _, h2 => by simp [evalUnitName] at h2
  | .mul [], _, _, _, _, h2 => by simp [evalUnitName] at h2
  | .mul (e :: es), ht, b, nc, h1, h2 => by
    simp only [evalExpr, evalMul] at h1; simp only [evalUnitName] at h2
    have ht' : TargetOK e ∧ TargetOK.TargetOKList es := by simpa [TargetOK, TargetOK.TargetOKList] using ht
    obtain ⟨b0, hb0, hrest⟩ := (Outcome.bind_eq_ok _ _ _).mp h1
    obtain ⟨first, hfirst, hfold⟩ := (Outcome.bind_eq_ok _ _ _).mp h2
    have ih := target_dims ctx hc hcan k e ht'.1 b0 first hb0 hfirst
    have hcb0 := eval_canonical ctx hcan e b0 hb0
    have hacc : AgreeDim ctx k (Number.mul Number.one b0) first := by
      unfold AgreeDim at *
      simp only [Number.mul, Number.one]
      rw [get_mul _ _ nil_canonical.1 hcb0.1, get_nil]
      simpa using ih
    have hcacc : Canonical (Number.mul Number.one b0).unit := mul_canonical _ _ nil_canonical hcb0
    exact target_dims_fold ctx hc hcan k es ht'.2 _ _ b nc hcacc hacc hrest hfold
  | .binop op l r, ht, b, nc, h1, h2 => by
    cases op with
    | equals => simp [TargetOK] at ht
    | shl => simp [evalUnitName] at h2
    | shr => simp [evalUnitName] at h2
    | add =>
      have ht' : TargetOK l ∧ TargetOK r := by simpa [TargetOK] using ht
      simp only [evalExpr, applyBin] at h1; simp only [evalUnitName] at h2
      obtain ⟨a, ha, h1⟩ := (Outcome.bind_eq_ok _ _ _).mp h1
      obtain ⟨b', hb', h1⟩ := (Outcome.bind_eq_ok _ _ _).mp h1
      obtain ⟨an, han, h2⟩ := (Outcome.bind_eq_ok _ _ _).mp h2
      obtain ⟨bn, hbn, h2⟩ := (Outcome.bind_eq_ok _ _ _).mp h2
      have iha := target_dims ctx hc hcan k l ht'.1 a an ha han
      split at h2
      · simp at h2
      · cases h2
        unfold AgreeDim at *
        rw [add_unit' h1]; exact iha
    | sub =>
      have ht' : TargetOK l ∧ TargetOK r := by simpa [TargetOK] using ht
      simp only [evalExpr, applyBin] at h1; simp only [evalUnitName] at h2
      obtain ⟨a, ha, h1⟩ := (Outcome.bind_eq_ok _ _ _).mp h1
      obtain ⟨b', hb', h1⟩ := (Outcome.bind_eq_ok _ _ _).mp h1
      obtain ⟨an, han, h2⟩ := (Outcome.bind_eq_ok _ _ _).mp h2
      obtain ⟨bn, hbn, h2⟩ := (Outcome.bind_eq_ok _ _ _).mp h2
      have iha := target_dims ctx hc hcan k l ht'.1 a an ha han
      split at h2
      · simp at h2
      · cases h2
        unfold AgreeDim at *
        rw [sub_unit' h1]; exact iha
    | mod =>
      have ht' : TargetOK l ∧ TargetOK r := by simpa [TargetOK] using ht
      simp only [evalExpr, applyBin] at h1; simp only [evalUnitName] at h2
      obtain ⟨a, ha, h1⟩ := (Outcome.bind_eq_ok _ _ _).mp h1
      obtain ⟨b', hb', h1⟩ := (Outcome.bind_eq_ok _ _ _).mp h1
      obtain ⟨an, han, h2⟩ := (Outcome.bind_eq_ok _ _ _).mp h2
      obtain ⟨bn, hbn, h2⟩ := (Outcome.bind_eq_ok _ _ _).mp h2
      have iha := target_dims ctx hc hcan k l ht'.1 a an ha han
      split at h2
      · simp at h2
      · obtain ⟨v, hv, hm⟩ := (Outcome.bind_eq_ok _ _ _).mp h2
        cases hm
        unfold AgreeDim at *
        rw [rem_unit' h1]; exact iha
    | and =>
      simp only [evalExpr, applyBin] at h1; simp only [evalUnitName] at h2
      obtain ⟨a, ha, h1⟩ := (Outcome.bind_eq_ok _ _ _).mp h1
      obtain ⟨b', hb', h1⟩ := (Outcome.bind_eq_ok _ _ _).mp h1
      obtain ⟨an, han, h2⟩ := (Outcome.bind_eq_ok _ _ _).mp h2
      obtain ⟨bn, hbn, h2⟩ := (Outcome.bind_eq_ok _ _ _).mp h2
      exact agreeDim_bits ctx k IntBits.land h1 h2
    | or =>
      simp only [evalExpr, applyBin] at h1; simp only [evalUnitName] at h2
      obtain ⟨a, ha, h1⟩ := (Outcome.bind_eq_ok _ _ _).mp h1
      obtain ⟨b', hb', h1⟩ := (Outcome.bind_eq_ok _ _ _).mp h1
      obtain ⟨an, han, h2⟩ := (Outcome.bind_eq_ok _ _ _).mp h2
      obtain ⟨bn, hbn, h2⟩ := (Outcome.bind_eq_ok _ _ _).mp h2
      exact agreeDim_bits ctx k IntBits.lor h1 h2
    | xor =>
      simp only [evalExpr, applyBin] at h1; simp only [evalUnitName] at h2
      obtain ⟨a, ha, h1⟩ := (Outcome.bind_eq_ok _ _ _).mp h1
      obtain ⟨b', hb', h1⟩ := (Outcome.bind_eq_ok _ _ _).mp h1
      obtain ⟨an, han, h2⟩ := (Outcome.bind_eq_ok _ _ _).mp h2
      obtain ⟨bn, hbn, h2⟩ := (Outcome.bind_eq_ok _ _ _).mp h2
      exact agreeDim_bits ctx k IntBits.lxor h1 h2
    | frac =>
      have ht' : TargetOK l ∧ TargetOK r := by simpa [TargetOK] using ht
      simp only [evalExpr, applyBin] at h1; simp only [evalUnitName] at h2
      obtain ⟨a, ha, h1⟩ := (Outcome.bind_eq_ok _ _ _).mp h1
      obtain ⟨b', hb', h1⟩ := (Outcome.bind_eq_ok _ _ _).mp h1
      obtain ⟨an, han, h2⟩ := (Outcome.bind_eq_ok _ _ _).mp h2
      obtain ⟨bn, hbn, h2⟩ := (Outcome.bind_eq_ok _ _ _).mp h2
      have iha := target_dims ctx hc hcan k l ht'.1 a an ha han
      have ihb := target_dims ctx hc hcan k r ht'.2 b' bn hb' hbn
      have hca := eval_canonical ctx hcan l a ha
      have hcb := eval_canonical ctx hcan r b' hb'
      split at h2
      · simp at h2
      · split at h2
        · simp at h2
        · obtain ⟨v, hv, hm⟩ := (Outcome.bind_eq_ok _ _ _).mp h2
          cases hm
          unfold AgreeDim at *
          rw [div_unit a b' b h1, get_mul _ _ hca.1 (map_exp_sorted (fun p => -p) _ hcb.1), get_recip]
          exact namesGet_merge ctx k _ _ _ _ iha (namesGet_recip ctx k _ _ ihb)
    | pow =>
      have ht' : TargetOK l := by simpa [TargetOK] using ht
      simp only [evalExpr, applyBin] at h1; simp only [evalUnitName] at h2
      obtain ⟨a, ha, h1⟩ := (Outcome.bind_eq_ok _ _ _).mp h1
      obtain ⟨e', he', h1⟩ := (Outcome.bind_eq_ok _ _ _).mp h1
      obtain ⟨e, he, h2⟩ := (Outcome.bind_eq_ok _ _ _).mp h2
      rw [he'] at he; cases he
      split at h2
      · simp at h2
      · obtain ⟨an, han, h2⟩ := (Outcome.bind_eq_ok _ _ _).mp h2
        obtain ⟨res, hres, hm⟩ := (Outcome.bind_eq_ok _ _ _).mp h2
        split at hm
        · simp at hm
        rename_i hfl
        cases hm
        have iha := target_dims ctx hc hcan k l ht' a an ha han
        cases hrv : res.value with
        | float => simp [hrv] at hfl
        | rational w =>
          obtain ⟨k', hk'⟩ := number_pow_rat hres hrv
          obtain ⟨hbu, _⟩ := number_pow_of_int hk' h1
          obtain ⟨hru, _⟩ := number_pow_of_int hk' hres
          unfold AgreeDim at *
          simp only at hru
          rw [hbu, get_pow, hru]
          exact namesGet_pow ctx k k' _ _ iha

theorem target_dims_fold (ctx : Ctx) (hc : CanonOK ctx) (hcan : CtxCanonical ctx) (k : String) :
    ∀ es : List Expr, TargetOK.TargetOKList es →
    ∀ (acc : Number) (accn : NameMap × Numeric) (b : Number) (nc : NameMap × Numeric),
      Canonical acc.unit → AgreeDim ctx k acc accn → evalMul ctx acc es = .ok b →
      evalUnitName.unitNameFold ctx accn es = .ok nc → AgreeDim ctx k b nc
  | [], _, acc, accn, b, nc, _, ha, h1, h2 => by
    simp only [evalMul] at h1; simp only [evalUnitName.unitNameFold] at h2
    cases h1; cases h2; exact ha
  | e :: es, ht, acc, accn, b, nc, hca, ha, h1, h2 => by
    simp only [evalMul] at h1; simp only [evalUnitName.unitNameFold] at h2
    have ht' : TargetOK e ∧ TargetOK.TargetOKList es := by simpa [TargetOK.TargetOKList] using ht
    obtain ⟨b0, hb0, hrest⟩ := (Outcome.bind_eq_ok _ _ _).mp h1
    obtain ⟨bn, hbn, hfold⟩ := (Outcome.bind_eq_ok _ _ _).mp h2
    have ih := target_dims ctx hc hcan k e ht'.1 b0 bn hb0 hbn
    have hcb0 := eval_canonical ctx hcan e b0 hb0
    exact target_dims_fold ctx hc hcan k es ht'.2 _ _ b nc (mul_canonical _ _ hca hcb0) (agreeDim_mul hca hcb0 ha ih) hrest hfold
end

end Rink.Spec.C06T
