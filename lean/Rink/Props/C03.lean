import Rink.Lemmas.Dim
import Rink.Model.Eval
/-!
# C03 — Conversions are exact and refuse non-conformable targets

`convert v t` is the decision of the `Convert(top, Expr bottom)` arm of `eval_query` once
both sides have been evaluated to numbers (`evalQuery_convert` shows the arm is exactly this).
All theorems hold for every pair of numbers with exact values: any rationals, any
dimensionalities.
-/
namespace Rink.Spec
open Rink Rink.Eval

def convert (v t : Number) : Outcome Number :=
  if v.unit == t.unit then Number.div v t else .err .conformance

/-- the conversion arm of the model is `convert` applied to the evaluated sides -/
theorem evalQuery_convert (ctx : Ctx) (top bottom : Expr) (base : Option Nat) (digits : Digits)
    (v t : Number) (names : NameMap) (const : Numeric)
    (hv : evalExpr ctx top = .ok v) (ht : evalExpr ctx bottom = .ok t)
    (hn : evalUnitName ctx bottom = .ok (names, const)) :
    evalQuery ctx (.convert top (.expr bottom) base digits) =
      (do let raw ← convert v t; pure (.conversion raw t names const (base.getD 10) digits)) := by
  simp only [evalQuery, hv, ht, hn, Outcome.bind_ok, convert]
  by_cases h : v.unit == t.unit <;> simp [h]

/-- **succeeds exactly when conformable** (and the target is not zero — forced by `x·t = v`). -/
theorem convert_ok_iff (v t : Number) (q : Rat) (ht : t.value = .rational q) :
    (∃ x, convert v t = .ok x) ↔ (v.unit = t.unit ∧ q ≠ 0) := by
  unfold convert Number.div
  by_cases hu : v.unit = t.unit
  · by_cases hq : q = 0
    · simp [hu, ht, hq]
    · simp [hu, ht, hq, Number.invert, Numeric.div, Numeric.one, Number.mul]
  · simp [hu]

/-- **exactness**: the reported number `x` satisfies `x · t = v` exactly and is dimensionless. -/
theorem convert_exact (v t x : Number) (p q : Rat) (hv : v.value = .rational p) (ht : t.value = .rational q)
    (h : convert v t = .ok x) :
    ∃ r : Rat, x.value = .rational r ∧ r * q = p ∧ x.unit = [] := by
  unfold convert Number.div at h
  by_cases hu : v.unit = t.unit
  · by_cases hq : q = 0
    · simp [hu, ht, hq] at h
    · simp [hu, ht, hq, Number.invert, Numeric.div, Numeric.one, Number.mul, hv, Numeric.mul] at h
      subst h
      refine ⟨p * (1 / q), by simp, ?_, ?_⟩
      · rw [Rat.mul_assoc, Rat.div_def, Rat.one_mul, Rat.mul_comm q⁻¹, Rat.mul_inv_cancel q hq, Rat.mul_one]
      · simpa using Dim.mul_recip_self t.unit
  · simp [hu] at h

/-- **converting back**: `x t` *is* `v` (value and dimensionality), so converting it to
anything — in particular to `v`'s own unit — is converting `v`. -/
theorem convert_back (v t x : Number) (p q : Rat) (hv : v.value = .rational p) (ht : t.value = .rational q)
    (h : convert v t = .ok x) : Number.mul x t = v := by
  obtain ⟨r, hx, hr, hxu⟩ := convert_exact v t x p q hv ht h
  have hu : v.unit = t.unit := by
    unfold convert at h
    by_cases hu : v.unit = t.unit
    · exact hu
    · simp [hu] at h
  cases v with | mk vv vu =>
  cases x with | mk xv xu =>
  simp only at hv hx hxu hu
  subst hv hx hxu hu
  simp [Number.mul, Numeric.mul, ht, hr]

/-- **refusal**: differing dimensionalities give a conformance error, never a number. -/
theorem convert_mismatch (v t : Number) (h : v.unit ≠ t.unit) : convert v t = .err .conformance := by
  simp [convert, h]

/-- a zero target is an error (generic: "Division by zero"), never a number -/
theorem convert_zero_target (v t : Number) (hu : v.unit = t.unit) (ht : t.value = .rational 0) :
    convert v t = .err .generic := by
  simp [convert, hu, Number.div, ht]

/-! non-vacuity: 3 m → foot (381/1250 m) -/
example : convert ⟨.rational 3, [("m", 1)]⟩ ⟨.rational (381/1250), [("m", 1)]⟩ = .ok ⟨.rational (1250/127), []⟩ := by
  decide +kernel

end Rink.Spec
