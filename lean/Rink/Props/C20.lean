import Rink.Lemmas.Cache

/-!
# C20 — The currency cache is replaced atomically or not at all

Property theorems only.  Model: `Rink/Model/Cache.lean` (one `Op` per system call that
`download_to_file` / `cached` issue on the cache directory).  Every theorem quantifies over

* **all prior file systems** `fs` (cache file absent, fresh, stale, with any bytes — readable
  JSON or not; any other files, including orphans of earlier crashed runs),
* **all server scripts** `e.script` (any status, any list of chunks, ending complete, with a
  transport error after any number of chunks, or stalling after any number of chunks) and
  all random temp-name draws `e.rands`,
* **all crash points** `k` (the process is killed after `k` operations; `k` past the end is
  the run that was not killed),
* both entry points (normal start, `--fetch-currency`).

## What is assumed about the operating system and libcurl (not proved)

* `rename(2)` replaces the directory entry atomically — `Op.rename` is a single step of the
  model; an observer (including the next start) sees the old or the new file.
* A process killed by a signal loses nothing it already passed to `write(2)`; `fsync` is in
  the sequence before the rename (`commit_is_last_and_synced`) which is what power-loss
  safety additionally needs on journaling file systems, but durability across power loss is
  not part of the model.
* libcurl returns an error from `perform()` when the body is shorter than the declared
  `Content-Length`, when a chunked body lacks its terminator, on reset, refusal and timeout;
  i.e. each of these servers *is* a script with `Ending.transportError`/`Ending.stall`.
  A close-delimited response cut by the peer is indistinguishable from a complete one and
  counts, here as for any client, as a complete (shorter) body.
* `tempfile` opens its candidates with `O_CREAT|O_EXCL` in the cache directory, and no other
  process writes there during the run.
-/
namespace Rink.Cache

/-- The statement of C20 about the cache file after a (possibly killed) run: either the entry
is exactly what it was (including "absent"), or it is exactly the complete new body — and the
latter only if the transfer ended without transport error and with status 200. -/
def OldOrNew (c : Cfg) (fs : FS) (e : Env) (after : FS) : Prop :=
  after.file c.cache = fs.file c.cache ∨
  (after.file c.cache = some ⟨e.script.body, e.now⟩ ∧
    e.script.ending = .complete ∧ e.script.status = 200)

/-! ## (a) atomic replacement under every crash point -/

theorem download_atomic (c : Cfg) (fs : FS) (e : Env) (k : Nat) :
    OldOrNew c fs e (runCrash e.now fs (download c fs e).ops k) := by
  cases hok : (download c fs e).ok with
  | false => exact Or.inl (runCrash_offCache _ _ _ _ (download_fail_offCache c fs e hok) k)
  | true =>
    obtain ⟨pre, t, hops, hoff, hfin⟩ := download_ok_shape c fs e hok
    obtain ⟨hs, _⟩ := (download_ok_iff c fs e).1 hok
    rw [hops]
    rcases runCrash_commit e.now c.cache (pre ++ [Op.fsync t]) (Op.rename t c.cache) fs hoff k with h | h
    · exact Or.inl h
    · right
      rw [h, ← hops]
      exact ⟨hfin, (success_iff _).1 hs⟩

theorem cachedRefresh_ops_ok (c : Cfg) (fs : FS) (e : Env) (h : (download c fs e).ok = true) :
    (cachedRefresh c fs e).ops = Op.openRead c.cache :: (download c fs e).ops := by
  unfold cachedRefresh; simp only [h, ↓reduceIte]

theorem cachedRefresh_ops_fail (c : Cfg) (fs : FS) (e : Env) (h : (download c fs e).ok = false) :
    (cachedRefresh c fs e).ops =
      Op.openRead c.cache :: (download c fs e).ops ++ [Op.openRead c.cache] := by
  unfold cachedRefresh; simp only [h, Bool.false_eq_true, ↓reduceIte]

theorem cachedRefresh_atomic (c : Cfg) (fs : FS) (e : Env) (k : Nat) :
    OldOrNew c fs e (runCrash e.now fs (cachedRefresh c fs e).ops k) := by
  cases hok : (download c fs e).ok with
  | false =>
    left
    rw [cachedRefresh_ops_fail c fs e hok]
    apply runCrash_offCache
    intro op hop
    simp only [List.cons_append, List.mem_cons, List.mem_append, List.not_mem_nil, or_false] at hop
    rcases hop with hop | hop | hop
    · subst hop; trivial
    · exact download_fail_offCache c fs e hok op hop
    · subst hop; trivial
  | true =>
    obtain ⟨pre, t, hops, hoff, hfin⟩ := download_ok_shape c fs e hok
    obtain ⟨hs, _⟩ := (download_ok_iff c fs e).1 hok
    have hops' : (cachedRefresh c fs e).ops =
        (Op.openRead c.cache :: (pre ++ [Op.fsync t])) ++ [Op.rename t c.cache] := by
      rw [cachedRefresh_ops_ok c fs e hok, hops]; simp
    have hoff' : ∀ op ∈ Op.openRead c.cache :: (pre ++ [Op.fsync t]), op.offCache c.cache := by
      intro op hop
      rw [List.mem_cons] at hop
      rcases hop with hop | hop
      · subst hop; trivial
      · exact hoff op hop
    rw [hops']
    rcases runCrash_commit e.now c.cache _ (Op.rename t c.cache) fs hoff' k with h | h
    · exact Or.inl h
    · right
      rw [h, ← hops', cachedRefresh_ops_ok c fs e hok, run_cons]
      exact ⟨hfin, (success_iff _).1 hs⟩

theorem cached_atomic (c : Cfg) (exp : Option Nat) (fs : FS) (e : Env) (k : Nat) :
    OldOrNew c fs e (runCrash e.now fs (cached c exp fs e).ops k) := by
  unfold cached
  split
  · split
    · left
      exact runCrash_offCache _ _ _ _ (by intro op hop; simp at hop; subst hop; trivial) k
    · exact cachedRefresh_atomic c fs e k
  · exact cachedRefresh_atomic c fs e k

theorem startup_atomic (c : Cfg) (baseOk : Bool) (parses : Bytes → Bool) (fs : FS) (e : Env) (k : Nat) :
    OldOrNew c fs e (runCrash e.now fs (load c baseOk parses fs e).ops k) := by
  have hnil : OldOrNew c fs e (runCrash e.now fs [] k) := by
    left; simp [runCrash, run_nil]
  unfold load
  split
  · exact hnil
  · split
    · exact hnil
    · simp only []
      split <;> exact cached_atomic c _ fs e k

theorem fetch_atomic (c : Cfg) (fs : FS) (e : Env) (k : Nat) :
    OldOrNew c fs e (runCrash e.now fs (forceRefresh c fs e).ops k) :=
  download_atomic c fs e k

/-- **cache_atomic.** For every prior directory, server script, entry point and crash point:
after the first `k` operations the cache file's entry is exactly the prior one (including
"absent") or exactly the complete new body; the latter only if the transfer completed
without transport error with status 200. -/
theorem cache_atomic (c : Cfg) (fs : FS) (e : Env) (entry : Entry) (k : Nat) :
    OldOrNew c fs e (runCrash e.now fs (entryOps c entry fs e) k) := by
  cases entry with
  | startup => exact startup_atomic c true _ fs e k
  | fetchCurrency => exact fetch_atomic c fs e k

/-- The same statement on contents: the bytes of the cache file are the old bytes or the whole
new body — never a proper prefix of it, never a mixture. -/
theorem cache_never_partial (c : Cfg) (fs : FS) (e : Env) (entry : Entry) (k : Nat) :
    ((runCrash e.now fs (entryOps c entry fs e) k).file c.cache).map File.data =
        (fs.file c.cache).map File.data ∨
    ((runCrash e.now fs (entryOps c entry fs e) k).file c.cache).map File.data =
        some e.script.body := by
  rcases cache_atomic c fs e entry k with h | ⟨h, _⟩
  · left; rw [h]
  · right; rw [h]; rfl

/-- Any change of the cache entry implies a clean `200`. In particular a non-200 status, a
transport error after any number of chunks, or a stall leave the entry alone at every crash
point. -/
theorem cache_changes_only_on_complete_200 (c : Cfg) (fs : FS) (e : Env) (entry : Entry) (k : Nat)
    (h : (runCrash e.now fs (entryOps c entry fs e) k).file c.cache ≠ fs.file c.cache) :
    e.script.ending = .complete ∧ e.script.status = 200 := by
  rcases cache_atomic c fs e entry k with h' | ⟨_, h'⟩
  · exact absurd h' h
  · exact h'

theorem failed_transfer_leaves_cache (c : Cfg) (fs : FS) (e : Env) (entry : Entry) (k : Nat)
    (h : e.script.ending ≠ .complete ∨ e.script.status ≠ 200) :
    (runCrash e.now fs (entryOps c entry fs e) k).file c.cache = fs.file c.cache := by
  rcases cache_atomic c fs e entry k with h' | ⟨_, h1, h2⟩
  · exact h'
  · rcases h with h | h
    · exact absurd h1 h
    · exact absurd h2 h

/-- The rename is the last operation of a successful download, directly preceded by `fsync`
of the same temp file, after the write of every chunk of the body; no other operation of the
download is a rename, and a failed download issues none. -/
theorem commit_is_last_and_synced (c : Cfg) (fs : FS) (e : Env) :
    ((download c fs e).ok = true →
      ∃ pre t, (download c fs e).ops = pre ++ [Op.fsync t, Op.rename t c.cache] ∧
        (∀ op ∈ pre, op.isRename = false) ∧ (∀ ch ∈ e.script.chunks, Op.append t ch ∈ pre)) ∧
    ((download c fs e).ok = false → ∀ op ∈ (download c fs e).ops, op.isRename = false) :=
  ⟨download_ok_order c fs e, download_fail_noRename c fs e⟩

/-- The temp file never has the cache file's name, whatever `tempfile` draws. -/
theorem temp_name_differs (c : Cfg) (rand : String) : c.temp rand ≠ c.cache :=
  temp_ne_cache c rand

/-! ## (b) a failed refresh falls back and never stops the start -/

/-- When does the refresh fail: the script is not a clean 200 (or no temp file could be made). -/
theorem refresh_fails_of_script (c : Cfg) (fs : FS) (e : Env)
    (h : e.script.ending ≠ .complete ∨ e.script.status ≠ 200) : (download c fs e).ok = false := by
  cases hok : (download c fs e).ok with
  | false => rfl
  | true =>
    obtain ⟨hs, _⟩ := (download_ok_iff c fs e).1 hok
    obtain ⟨h1, h2⟩ := (success_iff _).1 hs
    rcases h with h | h
    · exact absurd h1 h
    · exact absurd h2 h

/-- `load()` returns a context whatever happens to currency data: with the base definitions
loadable, the start continues for every directory state and every server behaviour. -/
theorem startup_always_continues (c : Cfg) (parses : Bytes → Bool) (fs : FS) (e : Env) :
    (load c true parses fs e).started = true := by
  unfold load
  simp only [Bool.not_true, Bool.false_eq_true, ↓reduceIte]
  split
  · rfl
  · split <;> rfl

theorem cachedRefresh_fail (c : Cfg) (fs : FS) (e : Env) (hfail : (download c fs e).ok = false) :
    (cachedRefresh c fs e).fs.file c.cache = fs.file c.cache ∧
    (cachedRefresh c fs e).result = (fs.file c.cache).map (fun f => (f.data, Source.stale)) := by
  have hkeep : (run e.now fs (download c fs e).ops).file c.cache = fs.file c.cache :=
    run_offCache _ _ _ _ (download_fail_offCache c fs e hfail)
  unfold cachedRefresh
  simp only [hfail, Bool.false_eq_true, ↓reduceIte, hkeep, and_self]

/-- **failed_refresh_falls_back.** The cache file exists but is out of date, and the refresh
fails (for any reason): the loader is handed exactly the stale contents, the file is still
there unchanged, and the start continues. -/
theorem failed_refresh_falls_back (c : Cfg) (parses : Bytes → Bool) (fs : FS) (e : Env) (f : File)
    (hen : c.enabled = true)
    (hstale : fs.file c.cache = some f)
    (hold : isCurrent e.now (if c.fetchOnStartup then some c.cacheDuration else none) f = false)
    (hfail : (download c fs e).ok = false) :
    (load c true parses fs e).started = true ∧
    (load c true parses fs e).liveDefs = some f.data ∧
    (load c true parses fs e).source = some .stale ∧
    (load c true parses fs e).currencyLoaded = parses f.data ∧
    (load c true parses fs e).fs.file c.cache = some f := by
  obtain ⟨h1, h2⟩ := cachedRefresh_fail c fs e hfail
  have hc : cached c (if c.fetchOnStartup then some c.cacheDuration else none) fs e =
      cachedRefresh c fs e := by
    unfold cached; simp only [hstale, hold, Bool.false_eq_true, ↓reduceIte]
  unfold load
  simp only [Bool.not_true, Bool.false_eq_true, ↓reduceIte, hen, hc]
  rw [hstale] at h1 h2
  simp only [Option.map_some] at h2
  simp only [h2, h1, and_self]

/-- **no_cache_still_starts.** No cache file and the refresh fails: no currency text is
loaded, no cache file appears, and the start continues (non-currency queries work). -/
theorem no_cache_still_starts (c : Cfg) (parses : Bytes → Bool) (fs : FS) (e : Env)
    (habs : fs.file c.cache = none) (hfail : (download c fs e).ok = false) :
    (load c true parses fs e).started = true ∧
    (load c true parses fs e).liveDefs = none ∧
    (load c true parses fs e).currencyLoaded = false ∧
    (load c true parses fs e).fs.file c.cache = none := by
  refine ⟨startup_always_continues c parses fs e, ?_⟩
  obtain ⟨h1, h2⟩ := cachedRefresh_fail c fs e hfail
  rw [habs] at h1 h2
  simp only [Option.map_none] at h2
  have hc : ∀ exp, cached c exp fs e = cachedRefresh c fs e := by
    intro exp; unfold cached; simp only [habs]
  unfold load
  simp only [Bool.not_true, Bool.false_eq_true, ↓reduceIte]
  split
  · exact ⟨rfl, rfl, habs⟩
  · simp only [hc, h2, h1, and_self]

/-- A fresh cache file is used as it is, without contacting the server and without any
operation other than opening it (so a faulty server cannot matter); an unreadable fresh
file makes `load_currency` fail, which is not fatal (`startup_always_continues`). -/
theorem fresh_cache_used (c : Cfg) (parses : Bytes → Bool) (fs : FS) (e : Env) (f : File)
    (hen : c.enabled = true) (hf : fs.file c.cache = some f)
    (hcur : isCurrent e.now (if c.fetchOnStartup then some c.cacheDuration else none) f = true) :
    (load c true parses fs e).ops = [Op.openRead c.cache] ∧
    (load c true parses fs e).liveDefs = some f.data ∧
    (load c true parses fs e).currencyLoaded = parses f.data ∧
    (load c true parses fs e).fs = fs := by
  unfold load cached
  simp only [Bool.not_true, Bool.false_eq_true, ↓reduceIte, hen, hf, hcur, and_self]

/-- A failed `--fetch-currency` exits with an error and leaves the cache entry as it was. -/
theorem failed_fetch_leaves_cache (c : Cfg) (fs : FS) (e : Env) (hfail : (download c fs e).ok = false) :
    (forceRefresh c fs e).exitOk = false ∧
    (forceRefresh c fs e).fs.file c.cache = fs.file c.cache :=
  ⟨hfail, run_offCache _ _ _ _ (download_fail_offCache c fs e hfail)⟩

/-! ## (c) a successful refresh is visible to the next start -/

theorem fetch_installs_body (c : Cfg) (fs : FS) (e : Env) (hok : (download c fs e).ok = true) :
    (forceRefresh c fs e).exitOk = true ∧
    (forceRefresh c fs e).fs.file c.cache = some ⟨e.script.body, e.now⟩ := by
  obtain ⟨_, _, _, _, hfin⟩ := download_ok_shape c fs e hok
  exact ⟨hok, hfin⟩

/-- A start that refreshes successfully (cache absent or out of date) hands the complete new
body to the loader and leaves it in the cache file. -/
theorem startup_installs_body (c : Cfg) (parses : Bytes → Bool) (fs : FS) (e : Env)
    (hen : c.enabled = true)
    (hneed : ∀ f, fs.file c.cache = some f →
      isCurrent e.now (if c.fetchOnStartup then some c.cacheDuration else none) f = false)
    (hok : (download c fs e).ok = true) :
    (load c true parses fs e).liveDefs = some e.script.body ∧
    (load c true parses fs e).source = some .downloaded ∧
    (load c true parses fs e).fs.file c.cache = some ⟨e.script.body, e.now⟩ := by
  obtain ⟨_, _, _, _, hfin⟩ := download_ok_shape c fs e hok
  have hc : cached c (if c.fetchOnStartup then some c.cacheDuration else none) fs e =
      cachedRefresh c fs e := by
    unfold cached
    cases hf : fs.file c.cache with
    | none => rfl
    | some f => simp only [hneed f hf, Bool.false_eq_true, ↓reduceIte]
  have hr : (cachedRefresh c fs e).result = some (e.script.body, Source.downloaded) ∧
      (cachedRefresh c fs e).fs.file c.cache = some ⟨e.script.body, e.now⟩ := by
    unfold cachedRefresh
    simp only [hok, ↓reduceIte, hfin, Option.map_some, and_self]
  unfold load
  simp only [Bool.not_true, Bool.false_eq_true, ↓reduceIte, hen, hc, hr.1, hr.2, and_self]

/-- What the next start reads when the cache file holds `b`: `b` itself whenever the file is
still current, and also whenever it is out of date but the new refresh fails. -/
theorem next_start_reads (c : Cfg) (parses : Bytes → Bool) (fs' : FS) (e' : Env) (b : Bytes) (m : Nat)
    (hen : c.enabled = true) (hb : fs'.file c.cache = some ⟨b, m⟩)
    (h : isCurrent e'.now (if c.fetchOnStartup then some c.cacheDuration else none) ⟨b, m⟩ = true ∨
      (download c fs' e').ok = false) :
    (load c true parses fs' e').started = true ∧ (load c true parses fs' e').liveDefs = some b := by
  refine ⟨startup_always_continues c parses fs' e', ?_⟩
  cases hcur : isCurrent e'.now (if c.fetchOnStartup then some c.cacheDuration else none) ⟨b, m⟩ with
  | true => exact (fresh_cache_used c parses fs' e' ⟨b, m⟩ hen hb hcur).2.1
  | false =>
    rcases h with h | h
    · rw [hcur] at h; cases h
    · exact (failed_refresh_falls_back c parses fs' e' ⟨b, m⟩ hen hb hcur h).2.1

/-- The final directory of an entry point that ran to completion. -/
def entryFs (c : Cfg) (entry : Entry) (fs : FS) (e : Env) : FS :=
  match entry with
  | .startup => (load c true (fun _ => true) fs e).fs
  | .fetchCurrency => (forceRefresh c fs e).fs

/-- **success_visible.** After a refresh that succeeded (through either entry point; for the
normal start: the cache was absent or out of date so that a refresh took place), the cache
file holds the complete new body, and the next start — at any later time `e'.now` within the
cache duration, against any server, or at any time at all if that later refresh fails — hands
exactly the new body to the loader. -/
theorem success_visible (c : Cfg) (entry : Entry) (fs : FS) (e : Env)
    (hen : c.enabled = true)
    (hneed : entry = .startup → ∀ f, fs.file c.cache = some f →
      isCurrent e.now (if c.fetchOnStartup then some c.cacheDuration else none) f = false)
    (hok : (download c fs e).ok = true) :
    (entryFs c entry fs e).file c.cache = some ⟨e.script.body, e.now⟩ ∧
    ∀ (parses : Bytes → Bool) (e' : Env),
      (isCurrent e'.now (if c.fetchOnStartup then some c.cacheDuration else none)
          ⟨e.script.body, e.now⟩ = true ∨ (download c (entryFs c entry fs e) e').ok = false) →
      (load c true parses (entryFs c entry fs e) e').started = true ∧
      (load c true parses (entryFs c entry fs e) e').liveDefs = some e.script.body := by
  have hfs : (entryFs c entry fs e).file c.cache = some ⟨e.script.body, e.now⟩ := by
    cases entry with
    | startup => exact (startup_installs_body c _ fs e hen (hneed rfl) hok).2.2
    | fetchCurrency => exact (fetch_installs_body c fs e hok).2
  exact ⟨hfs, fun parses e' h => next_start_reads c parses _ e' _ _ hen hfs h⟩

/-- With the default one-hour cache duration: a next start between 0 and 3600 seconds later
reads the body. -/
theorem current_within_duration (now now' d : Nat) (b : Bytes) (h1 : now ≤ now') (h2 : now' - now ≤ d) :
    isCurrent now' (some d) ⟨b, now⟩ = true := by
  simp [isCurrent, h1, h2]

/-! ## Non-vacuity: a concrete scenario, evaluated by the kernel -/

section Example

/-- Stale cache `currency.json` = bytes 1 2 3 written at time 0; an orphan temp file
`currency.aaa.json` from an earlier crash; now = 10000 s. -/
def exFs : FS :=
  { dir := true,
    file := fun n =>
      if n = "currency.json" then some ⟨[1, 2, 3], 0⟩
      else if n = "currency.aaa.json" then some ⟨[9], 5⟩ else none }

def exOk : Env :=
  { now := 10000, rands := ["aaa", "bbb"], script := ⟨200, [[10, 11], [12]], .complete⟩ }

/-- the same server cutting the body after the first chunk (declared length not reached) -/
def exCut : Env :=
  { now := 10000, rands := ["aaa", "bbb"], script := ⟨200, [[10, 11], [12]], .transportError 1⟩ }

def ex404 : Env :=
  { now := 10000, rands := ["aaa", "bbb"], script := ⟨404, [[110, 111]], .complete⟩ }

/-- the operation sequence of the successful start: the first temp name is taken, the second
is created; two writes; fsync; rename -/
example : entryOps {} .startup exFs exOk =
    [.openRead "currency.json", .mkdir, .createExcl "currency.aaa.json", .createExcl "currency.bbb.json",
     .append "currency.bbb.json" [10, 11], .append "currency.bbb.json" [12],
     .fsync "currency.bbb.json", .rename "currency.bbb.json" "currency.json"] := by decide

/-- killed after 7 of the 8 operations (just before the rename): still the old bytes -/
example : ((runCrash 10000 exFs (entryOps {} .startup exFs exOk) 7).file "currency.json") =
    some ⟨[1, 2, 3], 0⟩ := by decide

/-- … while the orphan temp file holds the whole body -/
example : ((runCrash 10000 exFs (entryOps {} .startup exFs exOk) 7).file "currency.bbb.json") =
    some ⟨[10, 11, 12], 10000⟩ := by decide

/-- not killed: the complete new body -/
example : ((runCrash 10000 exFs (entryOps {} .startup exFs exOk) 8).file "currency.json") =
    some ⟨[10, 11, 12], 10000⟩ := by decide

/-- the hypotheses of `success_visible` are satisfiable -/
example : (download {} exFs exOk).ok = true := by decide

/-- cut body: temp dropped, old bytes kept, stale contents loaded, start continues -/
example : entryOps {} .startup exFs exCut =
    [.openRead "currency.json", .mkdir, .createExcl "currency.aaa.json", .createExcl "currency.bbb.json",
     .append "currency.bbb.json" [10, 11], .unlink "currency.bbb.json", .openRead "currency.json"] := by
  decide

example : (load {} true (fun _ => true) exFs exCut).liveDefs = some [1, 2, 3] ∧
    (load {} true (fun _ => true) exFs exCut).source = some .stale ∧
    (load {} true (fun _ => true) exFs exCut).started = true ∧
    ((load {} true (fun _ => true) exFs exCut).fs.file "currency.json") = some ⟨[1, 2, 3], 0⟩ := by
  decide

/-- 404 with a body: the error page is written to the temp file and dropped -/
example : (forceRefresh {} exFs ex404).exitOk = false ∧
    ((forceRefresh {} exFs ex404).fs.file "currency.json") = some ⟨[1, 2, 3], 0⟩ ∧
    ((forceRefresh {} exFs ex404).fs.file "currency.bbb.json") = none := by decide

/-- What the theorem excludes, shown on a deliberately broken variant: a download that writes
straight into the cache file is *not* old-or-new when killed after 4 operations (the file
then holds the proper prefix `10 11` of the body). -/
def exBad : List Op :=
  [.mkdir, .unlink "currency.json", .createExcl "currency.json",
   .append "currency.json" [10, 11], .append "currency.json" [12]]

example : ((runCrash 10000 exFs exBad 4).file "currency.json") = some ⟨[10, 11], 10000⟩ := by decide

example : ¬ OldOrNew {} exFs exOk (runCrash 10000 exFs exBad 4) := by
  unfold OldOrNew; decide

end Example

end Rink.Cache
