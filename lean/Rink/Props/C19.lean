import Rink.Lemmas.AllocStep

/-!
# C19 — Sandbox allocator accounts for every byte and enforces its limit

Property theorems only. Model: `Rink/Model/Alloc.lean` (one constructor of `PC` per atomic
statement of `sandbox/src/alloc.rs`). A *schedule* is an arbitrary list of events: which
thread starts which operation, which thread advances by one atomic step next, whether the
parent allocator succeeds, and when `reset_max` happens. Nothing bounds the number of
threads, the length of the schedule or the sizes.
-/
namespace Rink.Alloc

/-- States reachable from the initial state by any schedule. -/
def Reachable (s : State) : Prop := ∃ limit threads es, s = runState (init limit threads) es

theorem inv_runState (s : State) (es : List Ev) (h : Inv s) : Inv (runState s es) := by
  induction es generalizing s with
  | nil => exact h
  | cons e es ih => exact ih _ (inv_step s e h)

theorem reachable_inv {s : State} (h : Reachable s) : Inv s := by
  obtain ⟨l, n, es, rfl⟩ := h
  exact inv_runState _ es (inv_init l n)

/-- **Conservation** (any number of threads, any interleaving): tracked usage is exactly
live bytes plus bytes charged by operations still in flight. -/
theorem conservation {s : State} (h : Reachable s) : s.used = s.live + s.charges :=
  (reachable_inv h).cons

/-- At quiescence (no operation in flight) tracked usage equals the total size of live
allocations. -/
theorem conservation_quiescent {s : State} (h : Reachable s) (hq : s.quiescent) :
    s.used = s.blocks.sum := by
  have hc := conservation h
  have h1 := sumBy_idle PC.charge rfl s.pcs hq
  have h2 := sumBy_idle PC.held rfl s.pcs hq
  simp only [State.live, State.charges, State.heldTotal] at hc; omega

/-- `fetch_sub` never wraps: whenever a thread is about to subtract its charge, `used`
is at least that large (the model's truncated subtraction is therefore exact). -/
theorem no_underflow {s : State} (h : Reachable s) (t : Nat) (pc : PC)
    (hpc : s.pcs[t]? = some pc) : pc.charge ≤ s.used := by
  have hc := conservation h
  have := le_sumBy PC.charge s.pcs t pc hpc
  simp only [State.charges] at hc; omega

/-- **Limit**: in every reachable state the live bytes, together with every charge that has
passed the limit check, are within the configured limit. In particular an operation can
complete successfully only into a state whose usage is within the limit. -/
theorem within_limit {s : State} (h : Reachable s) : s.live + s.acceptedTotal ≤ s.limit :=
  (reachable_inv h).lim

theorem live_within_limit {s : State} (h : Reachable s) : s.live ≤ s.limit := by
  have := within_limit h; omega

/-- **Peak**: whenever no thread sits between an accepted `fetch_add` and its `fetch_max`
(in particular at quiescence), the reported peak is at least the current live usage. Since
`max` only grows between resets (`max_monotone`), it dominates every such usage reached
since the last reset. -/
theorem peak_dominates {s : State} (h : Reachable s)
    (hq : ∀ pc ∈ s.pcs, ¬ pc.pendingMax s.limit) : s.live ≤ s.max := by
  have hI := reachable_inv h
  have hcov := hI.cov
  rcases hI.peak with hp | ⟨t, pc, _, h2, h3⟩
  · omega
  · exfalso
    have hm : pc ∈ s.pcs := List.mem_of_getElem? h2
    apply hq pc hm
    cases pc <;> simp_all [PC.inQ, PC.pendingMax] <;> omega

theorem peak_dominates_quiescent {s : State} (h : Reachable s) (hq : s.quiescent) :
    s.blocks.sum ≤ s.max := by
  have := peak_dominates h (fun pc hpc => by rw [hq pc hpc]; simp [PC.pendingMax])
  simp only [State.live] at this; omega

/-- `max` never decreases except by `reset_max`. -/
theorem max_monotone (s : State) (e : Ev) (hne : e ≠ .reset) :
    s.max ≤ (step s e).1.max := by
  cases e with
  | reset => exact absurd rfl hne
  | start t op =>
    simp only [step]; split
    · cases op <;> simp only [setPc] <;> (try split) <;> simp
    · simp
  | adv t ok =>
    simp only [step]; split <;> (try split) <;> simp [setPc, Nat.le_max_left]

/-- **Refusal is neutral** (sequential form): an operation started at a quiescent reachable
state that returns null leaves `used` unchanged and the set of live blocks intact (the
`realloc`ed block keeps its old size). -/
theorem refusal_neutral_alloc (s : State) (size : Nat) (z ok : Bool) (s' : State)
    (hpc : s.pcs[0]? = some .idle)
    (h : runOp s (.alloc size z) ok = (s', some .null)) :
    s'.used = s.used ∧ s'.blocks = s.blocks := by
  have h0 : 0 < s.pcs.length := (List.getElem?_eq_some_iff.mp hpc).1
  simp only [runOp, step, hpc, setPc, runOp.go] at h
  simp [List.getElem?_set, h0] at h
  by_cases hle : s.used + size ≤ s.limit <;> simp [hle, runOp.go, step, List.getElem?_set, h0, setPc] at h
  · cases ok <;> simp [runOp.go, step, List.getElem?_set, h0, setPc] at h
    obtain ⟨rfl⟩ := h; simp
  · obtain ⟨rfl⟩ := h; simp

theorem refusal_neutral_realloc (s : State) (i new old : Nat) (ok : Bool) (s' : State)
    (hpc : s.pcs[0]? = some .idle) (hb : s.blocks[i]? = some old)
    (h : runOp s (.realloc i new) ok = (s', some .null)) :
    s'.used = s.used ∧ s'.blocks = s.blocks.eraseIdx i ++ [old] := by
  have h0 : 0 < s.pcs.length := (List.getElem?_eq_some_iff.mp hpc).1
  simp only [runOp, step, hpc, hb, setPc, runOp.go] at h
  simp [List.getElem?_set, h0] at h
  by_cases hle : s.used + new ≤ s.limit <;> simp [hle, runOp.go, step, List.getElem?_set, h0, setPc] at h
  · cases ok <;> simp [runOp.go, step, List.getElem?_set, h0, setPc] at h
    obtain ⟨rfl⟩ := h; simp
  · obtain ⟨rfl⟩ := h; simp

/-! ## Non-vacuity and the defect the peak theorem excludes -/

/-- a concrete non-trivial schedule: two threads, interleaved alloc / realloc / dealloc -/
def demo : State :=
  runState (init 100 2)
    [.start 0 (.alloc 10 false), .start 1 (.alloc 30 true), .adv 0 true, .adv 1 true,
     .adv 1 true, .adv 0 true, .adv 0 true, .adv 1 true,
     .start 0 (.realloc 0 60), .adv 0 true, .adv 0 true, .adv 0 true, .adv 0 true,
     .start 1 (.dealloc 0), .adv 1 true, .adv 1 true]

example : Reachable demo := ⟨100, 2, _, rfl⟩
example : demo.quiescent ∧ demo.used = 60 ∧ demo.blocks = [60] ∧ demo.max = 100 := by decide

/-- `realloc` as it stood before the fix (`rChk` did not `fetch_max`). -/
def stepUnfixed (s : State) : Ev → State
  | .adv t ok =>
    match s.pcs[t]? with
    | some (.rChk old new nu) =>
      if nu ≤ s.limit then setPc s t (.rPar old new) else setPc s t (.rSubNew old new)
    | _ => (step s (.adv t ok)).1
  | e => (step s e).1

/-- With the unfixed `realloc` the peak law fails: alloc 10, grow to 1000, quiescent,
`max = 10 < 1000 = used`. This is the history the correspondence check replays on the
implementation. -/
theorem peak_counterexample_unfixed :
    let s := [Ev.start 0 (.alloc 10 false), .adv 0 true, .adv 0 true, .adv 0 true,
              .start 0 (.realloc 0 1000), .adv 0 true, .adv 0 true, .adv 0 true, .adv 0 true].foldl
              stepUnfixed (init 2000 1)
    s.quiescent ∧ s.used = 1000 ∧ s.max = 10 := by decide

end Rink.Alloc
