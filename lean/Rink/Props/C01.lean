import Rink.Lemmas.Arith
/-!
# C01 — Exact arithmetic

`eval_exact`: for every arithmetic tree (any shape, any depth, literals of any size) and
every context, evaluating the expression the parser builds for it yields exactly the
rational that unbounded-precision arithmetic gives, dimensionless — or an error exactly when
the mathematical result is undefined.  It never yields a float and never panics.  The only
other permitted answer is `unsupported`, produced by the explicit "astronomically large"
guard (`Number.hugeBits`).
-/
namespace Rink.Spec
open Rink Rink.Eval

theorem eval_exponent (ctx : Ctx) (k : Int) :
    evalExpr ctx (if k < 0 then .unary .negative (constE (k.natAbs : Nat)) else constE (k.natAbs : Nat))
      = .ok (rn (k : Rat)) := by
  by_cases hk : k < 0
  · have : -((k.natAbs : Nat) : Rat) = (k : Rat) := by
      have h : (k : Int) = -((k.natAbs : Nat) : Int) := by omega
      conv => rhs; rw [h]
      rw [Rat.intCast_neg]; rfl
    simp [hk, constE, evalExpr, Number.ofNumeric, Number.neg, Numeric.neg, rn, this]
  · have : ((k.natAbs : Nat) : Rat) = (k : Rat) := by
      have h : (k : Int) = ((k.natAbs : Nat) : Int) := by omega
      conv => rhs; rw [h]
      rfl
    simp [hk, constE, evalExpr, Number.ofNumeric, rn, this]

/-- **C01 / T2.** -/
theorem eval_exact (ctx : Ctx) (e : AExp) : Agrees (evalExpr ctx (toExpr e)) (denote e) := by
  induction e with
  | lit q => simp [toExpr, constE, evalExpr, Number.ofNumeric, denote, Agrees]
  | add l r ihl ihr =>
    simp only [toExpr, evalExpr, denote]
    exact agrees_bind2 _ (fun a b => some (a + b)) ihl ihr op_add
  | sub l r ihl ihr =>
    simp only [toExpr, evalExpr, denote]
    exact agrees_bind2 _ (fun a b => some (a - b)) ihl ihr op_sub
  | mul l r ihl ihr =>
    simp only [toExpr, evalExpr, evalMul, denote]
    refine agrees_bind2 (fun x y => do let v ← Outcome.ok (Number.mul (Number.mul Number.one x) y); pure v)
      (fun a b => some (a * b)) ihl ihr ?_ |> (by simpa using ·)
    intro a b
    simp [Number.mul, Number.one, Numeric.one, Numeric.mul, rn, Agrees, Rat.one_mul]
  | juxt l r ihl ihr =>
    simp only [toExpr, evalExpr, evalMul, denote]
    refine agrees_bind2 (fun x y => do let v ← Outcome.ok (Number.mul (Number.mul Number.one x) y); pure v)
      (fun a b => some (a * b)) ihl ihr ?_ |> (by simpa using ·)
    intro a b
    simp [Number.mul, Number.one, Numeric.one, Numeric.mul, rn, Agrees, Rat.one_mul]
  | div l r ihl ihr =>
    simp only [toExpr, evalExpr, denote]
    exact agrees_bind2 _ (fun a b => if b = 0 then none else some (a / b)) ihl ihr op_frac
  | frac l r ihl ihr =>
    simp only [toExpr, evalExpr, denote]
    exact agrees_bind2 _ (fun a b => if b = 0 then none else some (a / b)) ihl ihr op_frac
  | pow b k ih =>
    simp only [toExpr, evalExpr, denote, eval_exponent]
    exact agrees_bind1 (fun x => do let y ← Outcome.ok (rn (k : Rat)); applyBin .pow x y) _ ih
      (fun a => by simpa using op_pow a k)
  | mod l r ihl ihr =>
    simp only [toExpr, evalExpr, denote]
    exact agrees_bind2 _ (fun a b => if b = 0 then none else some (tmod a b)) ihl ihr op_mod
  | shl l r ihl ihr =>
    simp only [toExpr, evalExpr, denote]
    exact agrees_bind2 _ _ ihl ihr op_shl
  | shr l r ihl ihr =>
    simp only [toExpr, evalExpr, denote]
    exact agrees_bind2 _ _ ihl ihr op_shr
  | and l r ihl ihr =>
    simp only [toExpr, evalExpr, denote]
    exact agrees_bind2 _ _ ihl ihr op_and
  | or l r ihl ihr =>
    simp only [toExpr, evalExpr, denote]
    exact agrees_bind2 _ _ ihl ihr op_or
  | xor l r ihl ihr =>
    simp only [toExpr, evalExpr, denote]
    exact agrees_bind2 _ _ ihl ihr op_xor
  | neg e ih =>
    simp only [toExpr, evalExpr, denote]
    exact agrees_bind1 (fun v => pure (Number.neg v)) (fun a => some (-a)) ih
      (fun a => by simp [Number.neg, Numeric.neg, rn, Agrees])
  | pos e ih =>
    simpa only [toExpr, evalExpr, denote] using ih

/-- corollaries in words -/
theorem eval_never_panics (ctx : Ctx) (e : AExp) (s : String) : evalExpr ctx (toExpr e) ≠ .panic s := by
  intro h; have := eval_exact ctx e; rw [h] at this; exact this

theorem eval_never_float (ctx : Ctx) (e : AExp) (u : Dim) : evalExpr ctx (toExpr e) ≠ .ok ⟨.float, u⟩ := by
  intro h; have := eval_exact ctx e; rw [h] at this
  obtain ⟨q, hq, _⟩ := this; cases hq

theorem undefined_is_error (ctx : Ctx) (e : AExp) (h : denote e = none) (n : Number) :
    evalExpr ctx (toExpr e) ≠ .ok n := by
  intro hn; have := eval_exact ctx e; rw [hn, h] at this
  obtain ⟨q, _, hq⟩ := this; cases hq

/-! non-vacuity: a concrete tree that exercises several operators, evaluated by the kernel -/
def demoTree : AExp := .sub (.mul (.lit 7) (.pow (.lit (1/2)) (-3))) (.mod (.neg (.lit 7)) (.lit 2))
example : denote demoTree = some 57 := by decide +kernel

end Rink.Spec
