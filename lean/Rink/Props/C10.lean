import Rink.Model.Eval
import Mathlib.Tactic.Ring
import Mathlib.Tactic.NormNum
import Mathlib.Tactic.FieldSimp
import Mathlib.Data.Rat.Defs
import Mathlib.Algebra.Order.Field.Rat
/-!
# C10 — Temperature scales are exact, mutually inverse affine maps

`Rink/Gen/TempConsts.lean` is regenerated on every run from the compiled code
(`Degree::name_base_scale`) and the loaded bundled database (`Context::lookup` of the ten
constants).  `resolved_textbook` is re-checked by the kernel against that table, so a changed
constant in `definitions.units` or a changed row of `name_base_scale` re-opens it.
-/
namespace Rink.Spec
open Rink Rink.Eval

def kelvinDim : Dim := [("K", 1)]

/-- `x <scale>` as the evaluator computes it: `x·scale + base` -/
def opDeg (s b x : ℚ) : ℚ := x * s + b
/-- `T -> <scale>` as the conversion arm computes it: `(T − base) / scale` -/
def convDeg (s b t : ℚ) : ℚ := (t - b) / s

/-- **round trip**, for any constants with a non-zero scale and every rational `x` -/
theorem degree_roundtrip (s b x : ℚ) (hs : s ≠ 0) : convDeg s b (opDeg s b x) = x := by
  unfold convDeg opDeg; field_simp; ring

theorem degree_roundtrip_inv (s b t : ℚ) (hs : s ≠ 0) : opDeg s b (convDeg s b t) = t := by
  unfold convDeg opDeg; field_simp; ring

/-- (scale, base) of a degree as resolved through the regenerated tables; `none` if a name is
missing or does not have the dimensionality of temperature -/
def resolved (d : Degree) : Option (Rat × Rat) :=
  let (base, scale) := d.baseScale
  match Gen.tempConsts.lookup scale, Gen.tempConsts.lookup base with
  | some (sv, sd), some (bv, bd) => if sd = kelvinDim ∧ bd = kelvinDim then some (sv, bv) else none
  | _, _ => none

/-- the textbook constants: `K = x·scale + base` -/
def textbook : Degree → Rat × Rat
  | .celsius => (1, 27315 / 100)
  | .fahrenheit => (5 / 9, 45967 / 180)
  | .reaumur => (5 / 4, 27315 / 100)
  | .romer => (40 / 21, 36241 / 140)
  | .delisle => (-2 / 3, 37315 / 100)
  | .newton => (100 / 33, 27315 / 100)

/-- **the code's tables are the textbook's** (kernel-checked against the regenerated file) -/
theorem resolved_textbook (d : Degree) : resolved d = some (textbook d) := by
  cases d <;> decide +kernel

/-- the textbook formulas in the form the property states them -/
theorem textbook_celsius (x : ℚ) : opDeg (textbook .celsius).1 (textbook .celsius).2 x = x + 273.15 := by
  simp only [textbook, opDeg]; norm_num
theorem textbook_fahrenheit (x : ℚ) : opDeg (textbook .fahrenheit).1 (textbook .fahrenheit).2 x = (x + 459.67) * 5 / 9 := by
  simp only [textbook, opDeg]; ring
theorem textbook_reaumur (x : ℚ) : opDeg (textbook .reaumur).1 (textbook .reaumur).2 x = x * 5 / 4 + 273.15 := by
  simp only [textbook, opDeg]; ring
theorem textbook_romer (x : ℚ) : opDeg (textbook .romer).1 (textbook .romer).2 x = (x - 7.5) * 40 / 21 + 273.15 := by
  simp only [textbook, opDeg]; ring
theorem textbook_delisle (x : ℚ) : opDeg (textbook .delisle).1 (textbook .delisle).2 x = 373.15 - x * 2 / 3 := by
  simp only [textbook, opDeg]; ring
theorem textbook_newton (x : ℚ) : opDeg (textbook .newton).1 (textbook .newton).2 x = x * 100 / 33 + 273.15 := by
  simp only [textbook, opDeg]; ring

theorem textbook_scale_ne_zero (d : Degree) : (textbook d).1 ≠ 0 := by
  cases d <;> simp [textbook]

/-- **all 36 pairs**: converting `x` of scale `d₁` to scale `d₂` is the composition of the two
textbook maps, and the pair `(d, d)` returns `x`. -/
theorem pair_roundtrip (d : Degree) (x : ℚ) :
    convDeg (textbook d).1 (textbook d).2 (opDeg (textbook d).1 (textbook d).2 x) = x :=
  degree_roundtrip _ _ _ (textbook_scale_ne_zero d)

theorem pair_compose (d₁ d₂ d₃ : Degree) (x : ℚ) :
    let k := opDeg (textbook d₁).1 (textbook d₁).2 x
    let y := convDeg (textbook d₂).1 (textbook d₂).2 k
    convDeg (textbook d₃).1 (textbook d₃).2 (opDeg (textbook d₂).1 (textbook d₂).2 y)
      = convDeg (textbook d₃).1 (textbook d₃).2 k := by
  intro k y
  rw [degree_roundtrip_inv _ _ _ (textbook_scale_ne_zero d₂)]

/-! ### the evaluator computes `opDeg` / `convDeg` -/

/-- the suffix operator on a dimensionless exact operand -/
theorem eval_degree (ctx : Ctx) (d : Degree) (e : Expr) (x s b : Rat)
    (he : evalExpr ctx e = .ok ⟨.rational x, []⟩)
    (hs : ctx.lookup d.baseScale.2 = some ⟨.rational s, kelvinDim⟩)
    (hb : ctx.lookup d.baseScale.1 = some ⟨.rational b, kelvinDim⟩) :
    evalExpr ctx (.unary (.degree d) e) = .ok ⟨.rational (x * s + b), kelvinDim⟩ := by
  simp [evalExpr, he, hs, hb, Number.mul, Numeric.mul, Numeric.add, Dim.mul, Dim.merge, kelvinDim]

/-- scale operators are refused on operands that already carry a dimension -/
theorem degree_refuses_dimensioned (ctx : Ctx) (d : Degree) (e : Expr) (n : Number)
    (he : evalExpr ctx e = .ok n) (hn : n.unit ≠ []) :
    evalExpr ctx (.unary (.degree d) e) = .err .generic := by
  simp [evalExpr, he, hn]

/-- … and inside compound conversion targets -/
theorem degree_refused_in_target (ctx : Ctx) (d : Degree) (e : Expr) :
    evalUnitName ctx (.unary (.degree d) e) = .err .generic := by
  simp [evalUnitName]

/-- the conversion arm `T -> <scale>` -/
theorem convert_degree (ctx : Ctx) (d : Degree) (top : Expr) (digits : Digits) (t s b : Rat) (hs0 : s ≠ 0)
    (ht : evalExpr ctx top = .ok ⟨.rational t, kelvinDim⟩)
    (hs : ctx.lookup d.baseScale.2 = some ⟨.rational s, kelvinDim⟩)
    (hb : ctx.lookup d.baseScale.1 = some ⟨.rational b, kelvinDim⟩) :
    ∃ r, evalQuery ctx (.convert top (.degree d) none digits) = .ok r ∧
      ∀ raw bt nm c bs dg, r = .conversion raw bt nm c bs dg → raw.value = .rational ((t - b) * (1 / s)) := by
  simp [evalQuery, ht, hs, hb, Numeric.sub, Number.div, hs0, Number.invert, Numeric.div, Numeric.one, Number.mul,
    Numeric.mul, kelvinDim]
  intro raw bt nm c bs dg h1 _ _ _ _ _
  rw [← h1]

/-- a temperature of another dimensionality is a conformance error -/
theorem convert_degree_mismatch (ctx : Ctx) (d : Degree) (top : Expr) (digits : Digits) (n bottom : Number)
    (ht : evalExpr ctx top = .ok n) (hs : ctx.lookup d.baseScale.2 = some bottom) (hne : n.unit ≠ bottom.unit) :
    evalQuery ctx (.convert top (.degree d) none digits) = .err .conformance := by
  simp [evalQuery, ht, hs, hne]

/-! ### spellings -/
open Rink.Lex in
theorem spelling_table :
    (["degC", "°C", "celsius", "℃"].all fun s => degreeOrKeyword s == .degree .celsius) ∧
    (["degF", "°F", "fahrenheit", "℉"].all fun s => degreeOrKeyword s == .degree .fahrenheit) ∧
    (["degRé", "°Ré", "degRe", "°Re", "réaumur", "reaumur"].all fun s => degreeOrKeyword s == .degree .reaumur) ∧
    (["degRø", "°Rø", "degRo", "°Ro", "rømer", "romer"].all fun s => degreeOrKeyword s == .degree .romer) ∧
    (["degDe", "°De", "delisle"].all fun s => degreeOrKeyword s == .degree .delisle) ∧
    (["degN", "°N", "degnewton"].all fun s => degreeOrKeyword s == .degree .newton) := by
  decide +kernel

end Rink.Spec
