import Rink.Model.Eval
/-!
# C15 — Queries are pure; only `ans` carries state between them

`Eval.step` is `helpers::eval` on a lexed line.  A history is a list of lexed lines; `run`
folds `step` over it.  All theorems are by induction over the history: no bound on its length.
-/
namespace Rink.Spec
open Rink Rink.Eval

abbrev Line := List Token

/-- evaluate a history on one context, collecting the replies -/
def run (isTz : String → Bool) : Ctx → List Line → List (Outcome Reply) × Ctx
  | ctx, [] => ([], ctx)
  | ctx, l :: ls =>
    let (r, ctx') := step ctx isTz l
    let (rs, ctx'') := run isTz ctx' ls
    (r :: rs, ctx'')

/-- the reply a context with previous answer `prev` gives to one line, and the answer in
force afterwards -/
def fresh (isTz : String → Bool) (ctx₀ : Ctx) (prev : Option Number) (l : Line) : Outcome Reply :=
  (step { ctx₀ with previous := prev } isTz l).1

def nextAns (ctx₀ : Ctx) (prev : Option Number) (r : Outcome Reply) : Option Number :=
  match r with
  | .ok (.number n) => if ctx₀.saveAns then some n else prev
  | _ => prev

/-- specification: replies of the history, each computed on a *fresh* copy of the initial
context that differs only in the previous answer, threaded by `nextAns` -/
def specReplies (isTz : String → Bool) (ctx₀ : Ctx) : Option Number → List Line → List (Outcome Reply)
  | _, [] => []
  | prev, l :: ls =>
    let r := fresh isTz ctx₀ prev l
    r :: specReplies isTz ctx₀ (nextAns ctx₀ prev r) ls

theorem step_ctx (ctx : Ctx) (isTz : String → Bool) (l : Line) :
    (step ctx isTz l).2 = { ctx with previous := nextAns ctx ctx.previous (step ctx isTz l).1 } := by
  simp only [step]
  generalize evalQuery ctx (Parse.parseQuery isTz l) = r
  cases r with
  | ok rep =>
    cases rep with
    | number n =>
      by_cases hs : ctx.saveAns = true
      · simp [nextAns, hs]
      · simp only [nextAns, hs]; cases ctx; simp_all
    | _ => simp [nextAns]
  | err c => simp [nextAns]
  | panic s => simp [nextAns]
  | unsupported s => simp [nextAns]

/-- **the database, the settings and everything but `ans` are untouched by any history** -/
theorem run_untouched (isTz : String → Bool) (ctx : Ctx) (ls : List Line) :
    (run isTz ctx ls).2.reg = ctx.reg ∧ (run isTz ctx ls).2.saveAns = ctx.saveAns ∧
    (run isTz ctx ls).2.canonFuel = ctx.canonFuel := by
  induction ls generalizing ctx with
  | nil => simp [run]
  | cons l ls ih =>
    simp only [run]
    have h := step_ctx ctx isTz l
    have := ih (step ctx isTz l).2
    rw [h] at this ⊢
    simpa using this

/-- **every reply equals the reply a fresh context would give for the same previous answer** -/
theorem replies_are_fresh (isTz : String → Bool) (ctx₀ : Ctx) (prev : Option Number) (ls : List Line) :
    (run isTz { ctx₀ with previous := prev } ls).1 = specReplies isTz ctx₀ prev ls := by
  induction ls generalizing prev with
  | nil => simp [run, specReplies]
  | cons l ls ih =>
    simp only [run, specReplies, fresh]
    have h := step_ctx { ctx₀ with previous := prev } isTz l
    rw [h]
    simp only [nextAns] at ih ⊢
    congr 1
    exact ih _

/-- `ans` is never set while the feature is off -/
theorem flag_off_never_sets (isTz : String → Bool) (ctx : Ctx) (hoff : ctx.saveAns = false) (ls : List Line) :
    (run isTz ctx ls).2.previous = ctx.previous := by
  induction ls generalizing ctx with
  | nil => simp [run]
  | cons l ls ih =>
    simp only [run]
    have h := step_ctx ctx isTz l
    have hprev : (step ctx isTz l).2.previous = ctx.previous := by
      rw [h]; simp only [nextAns]; split <;> simp [hoff]
    have hflag : (step ctx isTz l).2.saveAns = false := by rw [h]; exact hoff
    rw [ih _ hflag, hprev]

/-- errors, conversions, definition lookups, unit lists, duration breakdowns and every other
non-`number` reply leave `ans` unchanged -/
theorem ans_unchanged_unless_number (ctx : Ctx) (isTz : String → Bool) (l : Line)
    (h : ∀ n, (step ctx isTz l).1 ≠ .ok (.number n)) : (step ctx isTz l).2.previous = ctx.previous := by
  rw [step_ctx]
  show nextAns ctx ctx.previous (step ctx isTz l).1 = ctx.previous
  unfold nextAns
  split
  · rename_i n hn; exact absurd hn (h n)
  · rfl

/-- a successful numeric result of a plain expression becomes `ans` (feature on) -/
theorem ans_set_by_number (ctx : Ctx) (isTz : String → Bool) (l : Line) (n : Number) (hon : ctx.saveAns = true)
    (h : (step ctx isTz l).1 = .ok (.number n)) : (step ctx isTz l).2.previous = some n := by
  rw [step_ctx]; simp [nextAns, h, hon]

/-- `ans`, `ANS` and `_` denote the previous answer, before anything in the database -/
theorem lookup_ans (ctx : Ctx) : ctx.lookup "ans" = ctx.previous ∧ ctx.lookup "ANS" = ctx.previous ∧ ctx.lookup "_" = ctx.previous := by
  simp [Ctx.lookup]

end Rink.Spec
