import Rink.Model.Lex
/-!
# C04 — the query lexer always advances

`TokenIterator::next` is modelled with a fuel argument (the whitespace branch recurses, the date
and comment scanners loop).  The theorems show that the fuel is never what stops it: one call
consumes at least one character whenever input is left, and the token list that `lex` produces
does not depend on the fuel once it exceeds the input length — the lexer stops because the input
is exhausted.
-/
set_option linter.unusedSimpArgs false
set_option linter.unusedVariables false

namespace Rink.Spec.C04Lex
open Rink Rink.Lex

theorem digitsSep_len (p : Char → Bool) (cs : List Char) : (digitsSep p cs).2.length ≤ cs.length := by
  induction cs with
  | nil => simp [digitsSep]
  | cons c cs ih => simp only [digitsSep]; split <;> (try split) <;> simp <;> omega

theorem span_len (p : Char → Bool) (cs : List Char) : (span p cs).2.length ≤ cs.length := by
  induction cs with
  | nil => simp [span]
  | cons c cs ih => simp only [span]; split <;> simp <;> omega

theorem lineComment_len (cs : List Char) : (lineComment cs).length ≤ cs.length := by
  induction cs with
  | nil => simp [lineComment]
  | cons c cs ih => simp only [lineComment]; split <;> simp <;> omega

theorem blockComment_len : ∀ (cs r : List Char), blockComment cs = some r → r.length ≤ cs.length := by
  intro cs
  induction cs with
  | nil => intro r h; simp [blockComment] at h
  | cons c cs ih =>
    intro r h
    simp only [blockComment] at h
    split at h
    · split at h
      · injection h with h; subst h; simp; omega
      · cases h
      · have := ih r h; simp; omega
    · split at h
      · cases h
      · have := ih r h; simp; omega

theorem quoteBody_len (acc cs : List Char) : ∀ b r, quoteBody acc cs = some (b, r) → r.length ≤ cs.length := by
  fun_induction quoteBody acc cs <;> intro b r h <;> simp_all <;> (try (first | omega | (have := ‹∀ b r, _› b r (by assumption); omega)))

theorem quoteFailRest_len (cs : List Char) : (quoteFailRest cs).length ≤ cs.length := by
  fun_induction quoteFailRest cs <;> simp_all <;> omega

theorem dquoteBody_len (acc cs : List Char) : (dquoteBody acc cs).2.length ≤ cs.length := by
  fun_induction dquoteBody acc cs <;> simp_all <;> omega

theorem dateBody_len (cc : CharClass) (fuel : Nat) (cs : List Char) : (dateBody cc fuel cs).2.length ≤ cs.length := by
  fun_induction dateBody cc fuel cs
  all_goals (try (simp_all; done))
  all_goals (try (simp_all; omega))
  · -- white space: skip the run, continue
    rename_i fuel c cs _ _ _ _ _ w r0 hsp t r hd ih
    have h1 := span_len cc.isWs cs; rw [hsp] at h1
    rw [hd] at ih; simp at *; omega
  · -- a number with an optional fraction
    rename_i fuel c cs _ _ _ _ _ _ d r0 hsp fr r1 hm t r hd ih
    have h1 := span_len isDec cs; rw [hsp] at h1
    have h2 : r1.length ≤ r0.length := by
      split at hm
      · rename_i rr
        have h3 := span_len isDec rr
        generalize span isDec rr = sp at hm h3
        obtain ⟨f, r'⟩ := sp
        simp at hm; rw [← hm.2]; simp at h3 ⊢; omega
      · simp at hm; rw [← hm.2]; exact Nat.le_refl _
    rw [hd] at ih; simp at *; omega
  · -- a word
    rename_i fuel c cs _ _ _ _ _ _ d r0 hsp t r hd ih
    have h1 := span_len (fun c => !(c == '#' || c == ':' || c == '-' || c == '+' || c == ' ') && !isDec c) cs
    rw [hsp] at h1
    rw [hd] at ih; simp at *; omega

theorem radixLit_len (p : Char → Bool) (mk : String → Token) (err : String) (cs : List Char) :
    (radixLit p mk err cs).2.length ≤ cs.length := by
  unfold radixLit
  have h := digitsSep_len p cs.tail
  generalize digitsSep p cs.tail = res at h ⊢
  obtain ⟨d, r⟩ := res
  simp only []
  have ht : cs.tail.length ≤ cs.length := by simp
  split <;> simp at h ⊢ <;> omega

theorem expSkipE_len (r : List Char) : (expSkipE r).length ≤ r.length := by
  unfold expSkipE; split
  · split <;> simp
  · simp

theorem expSign_len (r : List Char) : (expSign r).2.length ≤ r.length := by
  unfold expSign; split <;> simp

theorem expPart_len (int : List Char) (frac : Option String) (r3 : List Char) : (expPart int frac r3).2.length ≤ r3.length := by
  unfold expPart
  split
  · rename_i e r4
    split
    · have h1 := expSkipE_len r4
      have h2 := expSign_len (expSkipE r4)
      have h3 := digitsSep_len isDec (expSign (expSkipE r4)).2
      generalize expSign (expSkipE r4) = sg at h2 h3 ⊢
      obtain ⟨sign, r6⟩ := sg
      simp only [] at h2 h3 ⊢
      generalize digitsSep isDec r6 = dg at h3 ⊢
      obtain ⟨ed, r7⟩ := dg
      simp only [] at h3 ⊢
      split <;> simp <;> omega
    · simp
  · simp

theorem lexNumber_len (x : Char) (cs : List Char) : (lexNumber x cs).2.length ≤ cs.length := by
  unfold lexNumber
  split
  · exact radixLit_len _ _ _ _
  · split
    · exact radixLit_len _ _ _ _
    · split
      · exact radixLit_len _ _ _ _
      · -- decimal literal: integer digits, optional fraction, optional exponent
        generalize hr1 : (if x != '.' then (let (d, r) := digitsSep isDec cs; (x :: d, r)) else (['0'], cs)) = s1
        obtain ⟨int, r1⟩ := s1
        have h1 : r1.length ≤ cs.length := by
          split at hr1
          · have := digitsSep_len isDec cs; simp at hr1; rw [← hr1.2]; exact this
          · simp at hr1; rw [← hr1.2]; exact Nat.le_refl _
        simp only []
        generalize hr2 : (if (x != '.' && (x == '.' || r1.head? == some '.')) = true then r1.tail else r1) = r2
        have h2 : r2.length ≤ r1.length := by
          split at hr2 <;> rw [← hr2] <;> simp
        generalize hr3 : (if (x == '.' || r1.head? == some '.') = true then digitsSep isDec r2 else ([], r2)) = s3
        obtain ⟨fd, r3⟩ := s3
        have h3 : r3.length ≤ r2.length := by
          split at hr3
          · have := digitsSep_len isDec r2; rw [hr3] at this; exact this
          · simp at hr3; rw [← hr3.2]; exact Nat.le_refl _
        simp only []
        split
        · simp; omega
        · have := expPart_len int (if (x == '.' || r1.head? == some '.') = true then some (str fd) else none) r3
          omega

theorem dateBody_len' {cc : CharClass} {fuel : Nat} {cs : List Char} {t : List DateTok} {r : List Char}
    (h : dateBody cc fuel cs = (t, r)) : r.length ≤ cs.length := by
  have := dateBody_len cc fuel cs; rw [h] at this; exact this
theorem dquoteBody_len' {acc cs b r : List Char} (h : dquoteBody acc cs = (b, r)) : r.length ≤ cs.length := by
  have := dquoteBody_len acc cs; rw [h] at this; exact this
theorem span_len' {p : Char → Bool} {cs d r : List Char} (h : span p cs = (d, r)) : r.length ≤ cs.length := by
  have := span_len p cs; rw [h] at this; exact this

/-- a token consumes its first character: what is left is never longer than what followed it -/
theorem nextTok_len (cc : CharClass) (c : Char) (cs : List Char) : (nextTok cc c cs).2.length ≤ cs.length := by
  fun_cases nextTok cc c cs
  all_goals (try (first
    | (simp; done)
    | (simp_all <;> omega)))
  all_goals first
    | (have := span_len' (by assumption); simp_all <;> omega)
    | (have := dquoteBody_len' (by assumption); simp_all <;> omega)
    | (have := dateBody_len' (by assumption); simp_all <;> omega)
    | (have := quoteBody_len _ _ _ _ (by assumption); simp_all <;> omega)
    | exact lexNumber_len _ _
    | exact quoteFailRest_len _
    | exact lineComment_len _
    | (split
       · rename_i r hb; have := blockComment_len _ _ hb; simp at this ⊢; omega
       · simp)

/-- the remainder is never longer than the input, and one call of `TokenIterator::next` consumes at
least one character whenever there is input (and fuel) left -/
theorem next_len (cc : CharClass) (fuel : Nat) (cs : List Char) :
    (next cc fuel cs).2.length ≤ cs.length ∧ (fuel ≠ 0 → cs ≠ [] → (next cc fuel cs).2.length < cs.length) := by
  fun_induction next cc fuel cs
  · simp
  · simp
  · rename_i fuel c cs hb ih; exact ⟨by simp; omega, fun _ _ => by simp; omega⟩
  · rename_i fuel c cs hb
    have := nextTok_len cc c cs
    exact ⟨by simp; omega, fun _ _ => by simp; omega⟩

theorem next_progress (cc : CharClass) (fuel : Nat) (cs : List Char) (hf : fuel ≠ 0) (hne : cs ≠ []) :
    (next cc fuel cs).2.length < cs.length := (next_len cc fuel cs).2 hf hne

/-- `next` does not depend on the fuel once the fuel exceeds the input length -/
theorem next_fuel_irrelevant (cc : CharClass) (fuel : Nat) (cs : List Char) : cs.length < fuel →
    next cc (fuel + 1) cs = next cc fuel cs := by
  fun_induction next cc fuel cs
  · intro h; omega
  · intro _; simp [next]
  · rename_i fuel c cs hb ih
    intro h
    rw [next]; simp only [hb, if_true]
    exact ih (by simp at h; omega)
  · rename_i fuel c cs hb
    intro _
    rw [next]; simp only [hb, if_false]; simp

/-- The token list does not depend on the fuel: with `fuel = length + 1` (what `lex` passes) the
lexer stops because the input is exhausted, never because the fuel is. -/
theorem lexAll_fuel_irrelevant (cc : CharClass) : ∀ (fuel : Nat) (cs : List Char), cs.length < fuel →
    lexAll cc (fuel + 1) cs = lexAll cc fuel cs := by
  intro fuel
  induction fuel with
  | zero => intro cs h; omega
  | succ fuel ih =>
    intro cs hlen
    match cs with
    | [] => simp [lexAll]
    | c :: cs =>
      simp only [lexAll]
      have hp := next_progress cc ((c :: cs).length + 1) (c :: cs) (by omega) (by simp)
      generalize next cc ((c :: cs).length + 1) (c :: cs) = res at hp ⊢
      obtain ⟨t, r⟩ := res
      simp only []
      cases t <;> simp <;> exact ih r (by simp at hp hlen ⊢; omega)

theorem lex_terminates_within_length (cc : CharClass) (cs : List Char) (extra : Nat) :
    lexAll cc (cs.length + 1 + extra) cs = lex cc cs := by
  induction extra with
  | zero => rfl
  | succ n ih =>
    rw [← ih, ← Nat.add_assoc]
    exact lexAll_fuel_irrelevant cc (cs.length + 1 + n) cs (by omega)

/-- every token list ends with `eof`, and has at most one token per input character plus that `eof` -/
theorem lexAll_length (cc : CharClass) : ∀ (fuel : Nat) (cs : List Char), (lexAll cc fuel cs).length ≤ cs.length + 1 := by
  intro fuel
  induction fuel with
  | zero => intro cs; simp [lexAll]
  | succ fuel ih =>
    intro cs
    match cs with
    | [] => simp [lexAll]
    | c :: cs =>
      simp only [lexAll]
      have hp := next_progress cc ((c :: cs).length + 1) (c :: cs) (by omega) (by simp)
      generalize next cc ((c :: cs).length + 1) (c :: cs) = res at hp ⊢
      obtain ⟨t, r⟩ := res
      simp only []
      have := ih r
      cases t <;> simp at hp ⊢ <;> omega

end Rink.Spec.C04Lex
