import Rink.Lemmas.DimGet
import Rink.Model.Pretty
import Mathlib.Tactic.FieldSimp
import Mathlib.Tactic.Ring
import Mathlib.Data.Rat.Defs
import Mathlib.Algebra.Order.Field.Rat
/-!
# C06 — Displayed value × displayed unit = computed quantity

Readability choices are arithmetic identities on the model of the display path:
* regrouping into a derived unit (`fast_decompose`): the regrouped dimensionality plus `i`
  copies of the derived unit's own dimensionality is the original one, for every base unit;
* SI prefix selection: the shown value times the prefix value to the unit's power is the
  computed value; the gram/tonne and bit/byte special cases are exact rescalings;
* the dimensionality and quantity shown in parentheses are those of the result.
That the printed *names* denote prefix × unit when read back is C07's theorem
(`prefix_reading`) together with the exhaustive computation over the database; the full
reply (every field of `NumberParts`) is compared with the implementation by the check.
-/
namespace Rink.Spec
open Rink Rink.Dim Rink.Pretty

/-- **regrouping algebra**: for sorted `v`, `u` and any power `i`:
`(v / u^i)[k] + i · u[k] = v[k]` for every base unit `k`. -/
theorem divPow_get (v u : Dim) (i : Int) (hv : Sorted v) (hu : Sorted u) (k : String) :
    get (divPow v u i) k + i * get u k = get v k := by
  unfold divPow
  have hs : Sorted ((Dim.pow u i).map fun (k, p) => (k, -p)) := by
    apply map_exp_sorted (fun p => -p)
    unfold Dim.pow
    split
    · simp [Sorted]
    · exact map_exp_sorted (fun p => p * i) u hu
  rw [get_mul v _ hv hs, get_recip, get_pow]
  ring

def BestOK (derived : List (Dim × String)) (b : Best) : Prop :=
  ∀ name u i sc, b = some (name, u, i, sc) → (u, name) ∈ derived ∧ (i = -1 ∨ i = 1 ∨ i = 2)

theorem candStep_ok (derived : List (Dim × String)) (v u : Dim) (name : String) (b : Best) (j : Int)
    (hmem : (u, name) ∈ derived) (hj : j = -1 ∨ j = 1 ∨ j = 2) (hb : BestOK derived b) :
    BestOK derived (candStep v u name b j) := by
  intro n u' i s hm
  unfold candStep at hm
  cases b with
  | none => simp at hm; obtain ⟨rfl, rfl, rfl, _⟩ := hm; exact ⟨hmem, hj⟩
  | some t =>
    obtain ⟨a1, a2, a3, a4⟩ := t
    simp only at hm
    split at hm
    · simp at hm; obtain ⟨rfl, rfl, rfl, _⟩ := hm; exact ⟨hmem, hj⟩
    · exact hb n u' i s hm

theorem entryStep_ok (derived : List (Dim × String)) (v : Dim) (b : Best) (x : Dim × String)
    (hx : x ∈ derived) (hb : BestOK derived b) : BestOK derived (entryStep v b x) := by
  unfold entryStep
  split
  · exact hb
  · have hx' : (x.1, x.2) ∈ derived := by simpa using hx
    exact candStep_ok derived v x.1 x.2 _ 2 hx' (Or.inr (Or.inr rfl))
      (candStep_ok derived v x.1 x.2 _ 1 hx' (Or.inr (Or.inl rfl))
        (candStep_ok derived v x.1 x.2 b (-1) hx' (Or.inl rfl) hb))

theorem foldl_ok (derived : List (Dim × String)) (v : Dim) (l : List (Dim × String)) (b : Best)
    (hl : ∀ x ∈ l, x ∈ derived) (hb : BestOK derived b) : BestOK derived (l.foldl (entryStep v) b) := by
  induction l generalizing b with
  | nil => exact hb
  | cons x xs ih =>
    simp only [List.foldl_cons]
    exact ih _ (fun y hy => hl y (by simp [hy])) (entryStep_ok derived v b x (hl x (by simp)) hb)

/-- what `fast_decompose` can return: the input itself, or the input divided by a power
−1, 1 or 2 of one of the registered derived units, with that unit's name inserted. -/
theorem fastDecompose_spec (v : Dim) (derived : List (Dim × String)) :
    fastDecompose v derived = v ∨
    ∃ u name i, (u, name) ∈ derived ∧ (i = -1 ∨ i = 1 ∨ i = 2) ∧
      fastDecompose v derived = Dim.insert (divPow v u i) name i := by
  unfold fastDecompose
  have hok := foldl_ok derived v derived none (fun x hx => hx) (by intro _ _ _ _ h; cases h)
  split
  · rename_i name u pow sc hbest
    split
    · right
      have := hok name u pow sc hbest
      exact ⟨u, name, pow, this.1, this.2, rfl⟩
    · left; rfl
  · left; rfl

/-- **SI prefix selection keeps the value**: the shown number times the selected prefix value
to the unit's power is the original number, and the printed unit is prefix ++ unit (or `tonne`). -/
theorem prefixSearch_sound (val : ℚ) (name : String) (k : Int) (ps : List (String × Numeric)) (v' : ℚ) (uname : String)
    (h : prefixSearch val name k ps = some (v', uname)) :
    ∃ p pv, (p, Numeric.rational pv) ∈ ps ∧ p ∈ siPrefixes ∧
      uname = (if name == "gram" && p == "mega" then "tonne" else p ++ name) ∧
      v' * (if k < 0 then 1 / pv ^ k.natAbs else pv ^ k.natAbs) = val := by
  induction ps with
  | nil => simp [prefixSearch] at h
  | cons x xs ih =>
    obtain ⟨p, v⟩ := x
    have lift : prefixSearch val name k xs = some (v', uname) →
        ∃ p₁ pv₁, (p₁, Numeric.rational pv₁) ∈ (⟨p, v⟩ :: xs : List (String × Numeric)) ∧ p₁ ∈ siPrefixes ∧
          uname = (if name == "gram" && p₁ == "mega" then "tonne" else p₁ ++ name) ∧
          v' * (if k < 0 then 1 / pv₁ ^ k.natAbs else pv₁ ^ k.natAbs) = val := by
      intro h'
      obtain ⟨p', pv', h1, h2, h3, h4⟩ := ih h'
      exact ⟨p', pv', by simp [h1], h2, h3, h4⟩
    unfold prefixSearch at h
    by_cases hsi : siPrefixes.contains p = true
    · simp only [hsi, Bool.not_true, Bool.false_eq_true, if_false] at h
      cases v with
      | float => exact lift h
      | rational pv =>
        simp only at h
        by_cases hsel : (decide (val.abs ≥ (if k < 0 then 1 / pv ^ k.natAbs else pv ^ k.natAbs)) &&
            decide (val.abs < (if k < 0 then 1 / (pv * 1000) ^ k.natAbs else (pv * 1000) ^ k.natAbs))) = true
        · rw [if_pos hsel] at h
          simp only [Option.some.injEq, Prod.mk.injEq] at h
          obtain ⟨hv, hu⟩ := h
          refine ⟨p, pv, by simp, by simpa using hsi, hu.symm, ?_⟩
          simp only [Bool.and_eq_true, decide_eq_true_eq] at hsel
          have hne : (if k < 0 then 1 / pv ^ k.natAbs else pv ^ k.natAbs) ≠ 0 := by
            intro hz
            by_cases hk : k < 0
            · simp only [hk, if_true] at hz hsel
              have hp0 : pv ^ k.natAbs = 0 := by
                by_contra hc; exact (one_div_ne_zero hc) hz
              have hk0 : k.natAbs ≠ 0 := by omega
              have hpv : pv = 0 := (pow_eq_zero_iff hk0).mp hp0
              have h2 := hsel.2
              simp [hpv, zero_pow hk0] at h2
              exact absurd (Rat.abs_nonneg (x := val)) (not_le.mpr h2)
            · simp only [hk, if_false] at hz hsel
              by_cases hk0 : k.natAbs = 0
              · simp [hk0] at hz
              · have hpv : pv = 0 := (pow_eq_zero_iff hk0).mp hz
                have h2 := hsel.2
                simp [hpv, zero_pow hk0] at h2
                exact absurd (Rat.abs_nonneg (x := val)) (not_le.mpr h2)
          rw [← hv]; field_simp
        · rw [if_neg hsel] at h
          exact lift h
    · have : (!siPrefixes.contains p) = true := by simpa using hsi
      simp only [this, if_true] at h
      exact lift h

/-- the kilogram → gram rescaling is exact: `(q·1000^k) · (1/1000)^k = q` -/
theorem gram_rescale (q : ℚ) (k : ℕ) : q * (1000 : ℚ) ^ k * (1 / 1000) ^ k = q := by
  rw [mul_assoc, ← mul_pow]; norm_num
theorem gram_rescale_neg (q : ℚ) (k : ℕ) : q * (1 / (1000 : ℚ) ^ k) * (1000 : ℚ) ^ k = q := by
  field_simp
/-- the bit → byte rescaling is exact -/
theorem byte_rescale (q : ℚ) : q / 8 * 8 = q := by ring

/-- **the dimensionality and quantity in parentheses are the result's** -/
theorem toParts_dims (sz : Nat → Nat → Nat) (reg : Registry) (n : Number) (base : Nat) (d : Digits) (p : Parts)
    (h : toPartsDigits sz reg n base d = some p) :
    p.rawDimensions = some n.unit ∧ p.rawValue = some n ∧ p.dimensions = some (unitToString n.unit) ∧
    p.quantity = quantityOf reg n.unit := by
  unfold toPartsDigits at h
  obtain ⟨value, _, h⟩ := Option.bind_eq_some_iff.mp h
  obtain ⟨ea, _, h⟩ := Option.bind_eq_some_iff.mp h
  simp only [Option.some.injEq] at h
  subst h
  exact ⟨rfl, rfl, rfl, rfl⟩

theorem quantityOf_registered (reg : Registry) (u : Dim) (q : String) (h : reg.quantity u = some q) :
    quantityOf reg u = some q := by
  simp [quantityOf, h]

/-- a conversion reply shows the raw ratio with exactly the target's names and constant factor -/
theorem showConv_fields (sz : Nat → Nat → Nat) (reg : Registry) (raw bottom : Number) (names : List (String × Int))
    (c : ℚ) (base : Nat) (d : Digits) (p : Parts)
    (h : showConv sz reg raw bottom names (.rational c) base d = some p) :
    p.rawValue = some raw ∧ p.rawUnit = some names ∧
    p.factor = (if c.num != 1 then some (toString c.num) else none) ∧
    p.divfactor = (if c.den != 1 then some (toString c.den) else none) := by
  unfold showConv at h
  cases hn : numericValue sz raw.value base d with
  | none => simp [hn] at h
  | some ea =>
    cases hb : toParts sz reg bottom with
    | none => simp [hn, hb] at h
    | some bp =>
      obtain ⟨e, a⟩ := ea
      simp only [hn, hb, Option.some.injEq] at h
      subst h
      exact ⟨rfl, rfl, rfl, rfl⟩

/-! non-vacuity: 1 kg·m²/s³ regroups to watt -/
example : fastDecompose [("kg", 1), ("m", 2), ("s", -3)] [([("kg", 1), ("m", 2), ("s", -3)], "watt")] = [("watt", 1)] := by
  decide +kernel

end Rink.Spec
