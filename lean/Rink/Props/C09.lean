import Rink.Lemmas.Trunc
import Mathlib.Algebra.Order.AbsoluteValue.Basic
import Mathlib.Algebra.Order.Ring.Abs
/-!
# C09 — Unit lists and duration breakdowns decompose without loss

`decomp v us` is the numeric loop of `to_list` (`Eval.listLoop`) over the rationals:
every unit but the last takes the truncated quotient, the last takes what is left.
Theorems hold for every rational `v` and every list of non-zero units (any length ≥ 1);
the sign law needs positive units, exactly as the property's wording does.
-/
namespace Rink.Spec
open Rink Rink.Eval

def decomp : ℚ → List ℚ → List ℚ
  | _, [] => []
  | v, [u] => [v / u]
  | v, u :: u' :: us => (trunc (v / u) : ℚ) :: decomp (v - u * (trunc (v / u) : ℚ)) (u' :: us)

/-- what remains after each unit of the list has taken its part -/
def remainders : ℚ → List ℚ → List ℚ
  | _, [] => []
  | v, [u] => [v - u * (v / u)]
  | v, u :: u' :: us =>
    let r := v - u * (trunc (v / u) : ℚ)
    r :: remainders r (u' :: us)

def dot : List ℚ → List ℚ → ℚ
  | p :: ps, u :: us => p * u + dot ps us
  | _, _ => 0

/-- the model's loop computes `decomp` (and never panics) when no unit is zero -/
theorem listLoop_eq (v : ℚ) (us : List ℚ) (d : Dim) (h : ∀ u ∈ us, u ≠ 0) :
    listLoop (.rational v) (us.map fun u => ⟨.rational u, d⟩) = .ok ((decomp v us).map .rational) := by
  induction us generalizing v with
  | nil => simp [listLoop, decomp]
  | cons u us ih =>
    have hu : u ≠ 0 := h u (by simp)
    cases us with
    | nil => simp [listLoop, decomp, Numeric.div, hu]
    | cons u' us =>
      have := ih (v - u * (trunc (v / u) : ℚ)) (fun x hx => h x (by simp [hx]))
      simp only [List.map_cons] at this ⊢
      simp only [trunc] at this
      simp [listLoop, decomp, Numeric.divRem, hu, trunc, this]

/-- **Law 1.** the parts times their units add up to the value, exactly. -/
theorem decomp_sum (v : ℚ) (us : List ℚ) (hne : us ≠ []) (h : ∀ u ∈ us, u ≠ 0) :
    dot (decomp v us) us = v := by
  induction us generalizing v with
  | nil => exact absurd rfl hne
  | cons u us ih =>
    have hu : u ≠ 0 := h u (by simp)
    cases us with
    | nil => simp [decomp, dot]; field_simp
    | cons u' us =>
      have := ih (v - u * (trunc (v / u) : ℚ)) (by simp) (fun x hx => h x (by simp [hx]))
      simp only [decomp, dot] at this ⊢
      rw [this]; ring

/-- **Law 2.** every part but the last is an integer. -/
theorem decomp_integral (v : ℚ) (us : List ℚ) :
    ∀ p ∈ (decomp v us).dropLast, ∃ n : ℤ, p = (n : ℚ) := by
  induction us generalizing v with
  | nil => simp [decomp]
  | cons u us ih =>
    cases us with
    | nil => simp [decomp]
    | cons u' us =>
      intro p hp
      have hlen : decomp (v - u * (trunc (v / u) : ℚ)) (u' :: us) ≠ [] := by
        cases us <;> simp [decomp]
      simp only [decomp, List.dropLast_cons_of_ne_nil hlen, List.mem_cons] at hp
      rcases hp with rfl | hp
      · exact ⟨_, rfl⟩
      · exact ih _ p hp

/-- one step: the remainder is smaller in magnitude than the unit just used -/
theorem step_remainder_lt (v u : ℚ) (hu : u ≠ 0) : |v - u * (trunc (v / u) : ℚ)| < |u| := by
  have h1 : v - u * (trunc (v / u) : ℚ) = u * fracPart (v / u) := by
    unfold fracPart; field_simp
  rw [h1, abs_mul]
  have := abs_fracPart_lt_one (v / u)
  have hupos : 0 < |u| := abs_pos.mpr hu
  calc |u| * |fracPart (v / u)| < |u| * 1 := by exact mul_lt_mul_of_pos_left this hupos
    _ = |u| := by ring

/-- **Law 4.** what remains after each step is smaller in magnitude than the unit just used
(and nothing remains after the last). -/
theorem remainders_lt (v : ℚ) (us : List ℚ) (h : ∀ u ∈ us, u ≠ 0) :
    List.Forall₂ (fun r u => |r| < |u|) (remainders v us) us := by
  induction us generalizing v with
  | nil => simp [remainders]
  | cons u us ih =>
    have hu : u ≠ 0 := h u (by simp)
    cases us with
    | nil =>
      simp only [remainders]
      refine List.Forall₂.cons ?_ List.Forall₂.nil
      have : v - u * (v / u) = 0 := by field_simp; ring
      rw [this]; simpa using hu
    | cons u' us =>
      simp only [remainders]
      exact List.Forall₂.cons (step_remainder_lt v u hu) (ih _ (fun x hx => h x (by simp [hx])))

/-- one step with a positive unit keeps the sign of the value in both the part and the remainder -/
theorem step_sign_nonneg (v u : ℚ) (hu : 0 < u) (hv : 0 ≤ v) :
    0 ≤ (trunc (v / u) : ℚ) ∧ 0 ≤ v - u * (trunc (v / u) : ℚ) := by
  have hq : 0 ≤ v / u := div_nonneg hv (le_of_lt hu)
  constructor
  · exact_mod_cast trunc_sign_nonneg hq
  · have h1 : v - u * (trunc (v / u) : ℚ) = u * fracPart (v / u) := by unfold fracPart; field_simp
    rw [h1]; exact mul_nonneg (le_of_lt hu) (fracPart_nonneg hq).1

/-- **Law 3 (non-negative values).** with positive units every part is ≥ 0 when `v ≥ 0`. -/
theorem decomp_sign_nonneg (v : ℚ) (us : List ℚ) (hpos : ∀ u ∈ us, 0 < u) (hv : 0 ≤ v) :
    ∀ p ∈ decomp v us, 0 ≤ p := by
  induction us generalizing v with
  | nil => simp [decomp]
  | cons u us ih =>
    have hu : 0 < u := hpos u (by simp)
    cases us with
    | nil => simp [decomp]; exact div_nonneg hv (le_of_lt hu)
    | cons u' us =>
      have hs := step_sign_nonneg v u hu hv
      intro p hp
      simp only [decomp, List.mem_cons] at hp
      rcases hp with rfl | hp
      · exact hs.1
      · exact ih _ (fun x hx => hpos x (by simp [hx])) hs.2 p (by simpa [List.mem_cons] using hp)

theorem trunc_neg_div (v u : ℚ) : (trunc (-v / u) : ℚ) = -(trunc (v / u) : ℚ) := by
  rw [neg_div, trunc_neg]; push_cast; ring

theorem decomp_neg (v : ℚ) (us : List ℚ) : decomp (-v) us = (decomp v us).map (fun p => -p) := by
  induction us generalizing v with
  | nil => simp [decomp]
  | cons u us ih =>
    cases us with
    | nil => simp [decomp, neg_div]
    | cons u' us =>
      simp only [decomp, List.map_cons, trunc_neg_div]
      congr 1
      rw [← ih]; congr 1; ring

/-- **Law 3 (non-positive values).** -/
theorem decomp_sign_nonpos (v : ℚ) (us : List ℚ) (hpos : ∀ u ∈ us, 0 < u) (hv : v ≤ 0) :
    ∀ p ∈ decomp v us, p ≤ 0 := by
  intro p hp
  have h := decomp_neg (-v) us
  rw [neg_neg] at h
  rw [h] at hp
  obtain ⟨q, hq, rfl⟩ := List.mem_map.mp hp
  have := decomp_sign_nonneg (-v) us hpos (by linarith) q hq
  linarith

/-- **Refusal.** a list with a member of another dimensionality is refused … -/
theorem toList_refuses_member (ctx : Ctx) (top : Number) (names : List String) (first : Number)
    (rest : List Number) (hl : lookupAll ctx names = .ok (first :: rest))
    (hm : rest.any (fun x => x.unit != first.unit) = true) :
    toList ctx top names = .err .generic := by
  unfold toList; rw [hl]; simp only [Outcome.bind_ok, hm, if_true]

/-- … and so is a value that does not conform with the list (a conformance error). -/
theorem toList_refuses_value (ctx : Ctx) (top : Number) (names : List String) (first : Number)
    (rest : List Number) (hl : lookupAll ctx names = .ok (first :: rest))
    (hm : rest.any (fun x => x.unit != first.unit) = false) (ht : top.unit ≠ first.unit) :
    toList ctx top names = .err .conformance := by
  unfold toList; rw [hl]; simp only [Outcome.bind_ok, hm]; simp [ht]

/-! non-vacuity: `-1000 s -> minute;second` -/
example : decomp (-1000) [60, 1] = [-16, -40] := by
  simp [decomp, trunc]; norm_num [Int.tdiv]
  decide +kernel

end Rink.Spec
