import Rink.Lemmas.DimCanon
import Rink.Model.Eval
/-!
# C02 — Dimensional analysis is sound

* `eval_canonical`: for every expression of the whole language (every operator and function,
  any nesting) evaluated in a context whose database entries are canonical, the
  dimensionality of the result is canonical: strictly ordered base units and **no base unit
  carried with exponent zero**.
* the algebra itself: `mul_unit`, `div_unit`, `pow_unit`, `root_unit` state that products add
  exponents (`Dim.mul` = merge with zero-dropping), quotients subtract, integer powers
  multiply, roots divide and are refused unless exact.
* the gates: sum, difference, `mod`, `hypot`, `atan2` are refused between different
  dimensionalities; trigonometric functions accept only dimensionless or `radian`; inverse
  ones return `radian`.
-/
namespace Rink.Spec
open Rink Rink.Eval Rink.Dim

def SubstCanonical (s : Substance) : Prop :=
  Canonical s.amount.unit ∧ ∀ x ∈ s.props, Canonical x.2.input.unit ∧ Canonical x.2.output.unit

/-- every number and every substance property the database hands out has a canonical
dimensionality -/
def CtxCanonical (ctx : Ctx) : Prop :=
  (∀ name n, ctx.lookup name = some n → Canonical n.unit) ∧
  (∀ name s, ctx.reg.substance name = some s → SubstCanonical s)

/-! ### the algebra of the four unit-transforming operations -/

theorem mul_unit (a b : Number) : (Number.mul a b).unit = Dim.mul a.unit b.unit := rfl

theorem div_unit (a b x : Number) (h : Number.div a b = .ok x) :
    x.unit = Dim.mul a.unit (b.unit.map fun (k, p) => (k, -p)) := by
  unfold Number.div at h
  cases hb : b.value with
  | float => simp [hb] at h
  | rational q =>
    simp only [hb] at h
    split at h
    · cases h
    · simp only [Number.invert, hb, Numeric.div, Numeric.one] at h
      split at h
      · cases h
      · cases h; rfl

theorem pow_unit (a x : Number) (e : Int) (h : Number.powi a e = .ok x) : x.unit = Dim.pow a.unit e := by
  unfold Number.powi at h
  split at h
  · cases h
  · split at h
    · cases h
    · obtain ⟨v, _, hv⟩ := (Outcome.bind_eq_ok _ _ _).mp h
      cases hv; rfl

/-- roots divide every exponent and are refused unless every exponent is divisible -/
theorem root_unit (a x : Number) (e : Int) (h : Number.root a e = .ok x) :
    x.unit = (a.unit.map fun (k, p) => (k, p / e)) ∧ a.unit.any (fun (_, p) => p % e != 0) = false := by
  unfold Number.root at h
  cases hv : a.value with
  | float => simp [hv] at h
  | rational q =>
    simp only [hv] at h
    split at h
    · cases h
    · split at h
      · cases h
      · rename_i hany
        cases h
        exact ⟨rfl, by simpa using hany⟩

theorem root_refuses (a : Number) (e : Int) (q : Rat) (hv : a.value = .rational q) (hq : ¬ q < 0)
    (h : a.unit.any (fun (_, p) => p % e != 0) = true) : Number.root a e = .err .generic := by
  simp [Number.root, hv, hq, h]

/-! ### gates -/

theorem add_refuses_mismatch (a b : Number) (h : a.unit ≠ b.unit) : Number.add a b = .err .generic := by
  simp [Number.add, h]
theorem sub_refuses_mismatch (a b : Number) (h : a.unit ≠ b.unit) : Number.sub a b = .err .generic := by
  simp [Number.sub, h]
theorem rem_refuses_mismatch (a b : Number) (h : a.unit ≠ b.unit) : Number.rem a b = .err .generic := by
  simp [Number.rem, h]
theorem hypot_refuses_mismatch (a b : Number) (h : a.unit ≠ b.unit) : applyFunc .hypot [a, b] = .err .generic := by
  simp [applyFunc, h]
theorem atan2_refuses_mismatch (a b : Number) (h : a.unit ≠ b.unit) : applyFunc .atan2 [a, b] = .err .generic := by
  simp [applyFunc, h]
theorem trig_accepts_only_angle (f : Func) (hf : f = .sin ∨ f = .cos ∨ f = .tan) (a : Number)
    (h1 : a.unit ≠ []) (h2 : a.unit ≠ radian) : applyFunc f [a] = .err .generic := by
  rcases hf with rfl | rfl | rfl <;> simp [applyFunc, Number.dimless, h1, h2]
theorem trig_result_dimensionless (f : Func) (hf : f = .sin ∨ f = .cos ∨ f = .tan) (a x : Number)
    (h : applyFunc f [a] = .ok x) : x.unit = [] := by
  rcases hf with rfl | rfl | rfl <;>
    (simp only [applyFunc, floatWith] at h
     split at h
     · cases h
     · cases h; rfl)
theorem inverse_trig_returns_angle (f : Func) (hf : f = .asin ∨ f = .acos ∨ f = .atan) (a x : Number)
    (h : applyFunc f [a] = .ok x) : a.unit = [] ∧ x.unit = radian := by
  rcases hf with rfl | rfl | rfl <;>
    (simp only [applyFunc, floatWith, Number.dimless] at h
     by_cases hd : a.unit = []
     · simp [hd] at h; subst h; exact ⟨hd, rfl⟩
     · simp [hd] at h)
theorem atan2_returns_angle (a b x : Number) (h : applyFunc .atan2 [a, b] = .ok x) : a.unit = b.unit ∧ x.unit = radian := by
  simp only [applyFunc, floatWith] at h
  by_cases hd : a.unit = b.unit
  · simp [hd] at h; subst h; exact ⟨hd, rfl⟩
  · simp [hd] at h

/-! ### every operation preserves canonical dimensionalities -/

theorem div_canonical (a b x : Number) (ha : Canonical a.unit) (hb : Canonical b.unit)
    (h : Number.div a b = .ok x) : Canonical x.unit := by
  rw [div_unit a b x h]; exact mul_canonical _ _ ha (recip_canonical _ hb)

theorem powi_canonical (a x : Number) (e : Int) (ha : Canonical a.unit) (h : Number.powi a e = .ok x) :
    Canonical x.unit := by
  rw [pow_unit a x e h]; exact pow_canonical _ _ ha

theorem root_canonical' (a x : Number) (e : Int) (ha : Canonical a.unit) (h : Number.root a e = .ok x) :
    Canonical x.unit := by
  obtain ⟨h1, h2⟩ := root_unit a x e h
  rw [h1]; exact Dim.root_canonical _ _ ha h2

theorem pow_canonical' (a b x : Number) (ha : Canonical a.unit) (h : Number.pow a b = .ok x) : Canonical x.unit := by
  unfold Number.pow at h
  split at h
  · cases h
  · cases hb : b.value with
    | float => simp [hb] at h
    | rational e =>
      simp only [hb] at h
      split at h
      · cases h
      · split at h
        · cases hav : a.value with
          | float => simp only [hav] at h; exact powi_canonical a x _ ha h
          | rational q =>
            simp only [hav] at h
            split at h
            · cases h
            · exact powi_canonical a x _ ha h
        · split at h
          · exact root_canonical' a x _ ha h
          · split at h
            · cases h
            · cases h; exact ha

theorem shiftBy_unit (a x : Number) (k : Int) (h : Number.shiftBy a k = .ok x) : x.unit = a.unit := by
  unfold Number.shiftBy at h
  split at h
  · cases h
  · split at h
    · cases h; rfl
    · obtain ⟨v, _, hv⟩ := (Outcome.bind_eq_ok _ _ _).mp h
      cases hv; rfl

theorem applyBin_canonical (op : BinOp) (a b x : Number) (ha : Canonical a.unit) (hb : Canonical b.unit)
    (h : applyBin op a b = .ok x) : Canonical x.unit := by
  cases op with
  | add => simp only [applyBin, Number.add] at h; split at h <;> cases h; exact ha
  | sub => simp only [applyBin, Number.sub] at h; split at h <;> cases h; exact ha
  | frac => exact div_canonical a b x ha hb h
  | pow => exact pow_canonical' a b x ha h
  | equals => cases h
  | shl =>
    simp only [applyBin, Number.shl] at h
    obtain ⟨k, _, hk⟩ := (Outcome.bind_eq_ok _ _ _).mp h
    rw [shiftBy_unit a x k hk]; exact ha
  | shr =>
    simp only [applyBin, Number.shr] at h
    obtain ⟨k, _, hk⟩ := (Outcome.bind_eq_ok _ _ _).mp h
    rw [shiftBy_unit a x _ hk]; exact ha
  | mod =>
    simp only [applyBin, Number.rem] at h
    split at h
    · cases h
    · cases hbv : b.value with
      | float => simp [hbv] at h; rw [← h]; exact ha
      | rational q =>
        simp only [hbv] at h
        split at h
        · cases h
        · obtain ⟨v, _, hv⟩ := (Outcome.bind_eq_ok _ _ _).mp h
          cases hv; exact ha
  | and => simp only [applyBin, Number.and, Number.bitop] at h; split at h; · cases h
           · split at h <;> cases h; exact ha
  | or => simp only [applyBin, Number.or, Number.bitop] at h; split at h; · cases h
          · split at h <;> cases h; exact ha
  | xor => simp only [applyBin, Number.xor, Number.bitop] at h; split at h; · cases h
           · split at h <;> cases h; exact ha

theorem radian_canonical : Canonical radian := baseUnit_canonical _

theorem applyFunc_unit (f : Func) (args : List Number) (x : Number) (h : applyFunc f args = .ok x) :
    x.unit = [] ∨ x.unit = radian ∨ (∃ a ∈ args, x.unit = a.unit) ∨ (∃ a ∈ args, Number.root a 2 = .ok x) := by
  cases f <;> rcases args with _ | ⟨a, _ | ⟨b, _ | ⟨c, r⟩⟩⟩ <;> simp only [applyFunc, floatWith] at h <;>
    first
    | (cases h; done)
    | (right; right; right; exact ⟨a, by simp, h⟩)
    | (cases h; right; right; left; exact ⟨a, by simp, rfl⟩)
    | (split at h <;> cases h <;>
        first
        | (left; rfl)
        | (right; left; rfl)
        | (right; right; left; exact ⟨a, by simp, rfl⟩))

theorem applyFunc_canonical (f : Func) (args : List Number) (x : Number)
    (hargs : ∀ a ∈ args, Canonical a.unit) (h : applyFunc f args = .ok x) : Canonical x.unit := by
  rcases applyFunc_unit f args x h with h1 | h1 | ⟨a, ha, h1⟩ | ⟨a, ha, h1⟩
  · rw [h1]; exact nil_canonical
  · rw [h1]; exact radian_canonical
  · rw [h1]; exact hargs a ha
  · exact root_canonical' a x 2 (hargs a ha) h1

theorem getLoop_canonical (amount : Number) (name : String) (props : List (String × Property)) (n : Number)
    (ha : Canonical amount.unit) (hp : ∀ x ∈ props, Canonical x.2.input.unit ∧ Canonical x.2.output.unit)
    (h : Substance.getLoop amount name props = .ok n) : Canonical n.unit := by
  induction props with
  | nil => simp [Substance.getLoop] at h
  | cons x xs ih =>
    obtain ⟨k, p⟩ := x
    have hx := hp (k, p) (by simp)
    simp only [Substance.getLoop] at h
    split at h
    · cases hd : Number.div amount p.input with
      | ok ratio =>
        simp only [hd] at h
        split at h
        · cases h
          exact Dim.mul_canonical _ _ hx.2 (div_canonical _ _ _ ha hx.1 hd)
        · cases h
      | err c => simp [hd] at h
      | panic s => simp [hd] at h
      | unsupported s => simp [hd] at h
    · split at h
      · cases hd : Number.div amount p.output with
        | ok ratio =>
          simp only [hd] at h
          split at h
          · cases h
            exact Dim.mul_canonical _ _ hx.1 (div_canonical _ _ _ ha hx.2 hd)
          · cases h
        | err c => simp [hd] at h
        | panic s => simp [hd] at h
        | unsupported s => simp [hd] at h
      · exact ih (fun y hy => hp y (by simp [hy])) h

theorem get_canonical (s : Substance) (name : String) (n : Number) (hs : SubstCanonical s)
    (h : s.get name = .ok n) : Canonical n.unit := by
  unfold Substance.get at h
  split at h
  · cases hl : s.props.lookup name with
    | none => simp [hl] at h
    | some p =>
      simp only [hl] at h
      have hmem : ∃ k, (k, p) ∈ s.props := by
        have := List.lookup_eq_some_iff.mp hl
        obtain ⟨l1, l2, h1, _⟩ := this
        exact ⟨name, by rw [h1]; simp⟩
      obtain ⟨k, hk⟩ := hmem
      have hp := hs.2 (k, p) hk
      cases hd : Number.div (Number.mul s.amount p.output) p.input with
      | ok v => simp only [hd] at h; cases h; exact div_canonical _ _ _ (mul_canonical _ _ hs.1 hp.2) hp.1 hd
      | err c => simp [hd] at h
      | panic s => simp [hd] at h
      | unsupported s => simp [hd] at h
  · exact getLoop_canonical _ _ _ _ hs.1 hs.2 h

/-! ### the main theorem: induction over the whole expression language -/

mutual
theorem eval_canonical (ctx : Ctx) (hc : CtxCanonical ctx) :
    ∀ (e : Expr) (n : Number), evalExpr ctx e = .ok n → Canonical n.unit
  | .unit name, n, h => by
    simp only [evalExpr] at h
    split at h
    · cases h
    · split at h
      · rename_i v hv; cases h; exact hc.1 name _ hv
      · split at h <;> cases h
  | .quote s, n, h => by simp only [evalExpr] at h; cases h; exact baseUnit_canonical s
  | .const v, n, h => by simp only [evalExpr] at h; cases h; exact nil_canonical
  | .date _, n, h => by simp [evalExpr] at h
  | .binop op l r, n, h => by
    cases op with
    | equals =>
      simp only [evalExpr] at h
      split at h
      · exact eval_canonical ctx hc r n h
      · cases h
    | add | sub | frac | pow | shl | shr | mod | and | or | xor =>
      simp only [evalExpr] at h
      cases hl : evalExpr ctx l with
      | ok a =>
        cases hr : evalExpr ctx r with
        | ok b =>
          simp [hl, hr] at h
          exact applyBin_canonical _ a b n (eval_canonical ctx hc l a hl) (eval_canonical ctx hc r b hr) h
        | err c => simp [hl, hr] at h
        | panic s => simp [hl, hr] at h
        | unsupported s => simp [hl, hr] at h
      | err c => simp [hl] at h
      | panic s => simp [hl] at h
      | unsupported s => simp [hl] at h
  | .unary .positive e, n, h => by simp only [evalExpr] at h; exact eval_canonical ctx hc e n h
  | .unary .negative e, n, h => by
    simp only [evalExpr] at h
    cases he : evalExpr ctx e with
    | ok a => simp [he] at h; rw [← h]; exact eval_canonical ctx hc e a he
    | err c => simp [he] at h
    | panic s => simp [he] at h
    | unsupported s => simp [he] at h
  | .unary (.degree d) e, n, h => by
    simp only [evalExpr] at h
    cases he : evalExpr ctx e with
    | ok a =>
      simp only [he, Outcome.bind_ok] at h
      split at h
      · cases h
      · split at h
        · rename_i s b hs hb
          split at h
          · cases h
          · cases h
            exact mul_canonical _ _ (eval_canonical ctx hc e a he) (hc.1 _ _ hs)
        · cases h
    | err c => simp [he] at h
    | panic s => simp [he] at h
    | unsupported s => simp [he] at h
  | .mul es, n, h => by
    simp only [evalExpr] at h
    exact evalMul_canonical ctx hc es Number.one n nil_canonical h
  | .ofProp p (.unit name), n, h => by
    simp only [evalExpr] at h
    split at h
    · cases h
    · split at h
      · cases h
      · split at h
        · rename_i s hs; exact get_canonical s p n (hc.2 name s hs) h
        · split at h <;> cases h
  | .ofProp p (.mul es), n, h => by
    simp only [evalExpr] at h
    obtain ⟨⟨amount, sub⟩, hf, h⟩ := (Outcome.bind_eq_ok _ _ _).mp h
    have hfc := evalFactors_canonical ctx hc es Number.one none amount sub nil_canonical (by intro s hs; cases hs) hf
    cases sub with
    | none => simp at h
    | some s =>
      simp only at h
      have hsc := hfc.2 s rfl
      exact get_canonical { s with amount := Number.mul s.amount amount } p n ⟨mul_canonical _ _ hsc.1 hfc.1, hsc.2⟩ h
  | .ofProp _ (.quote _), n, h => by simp [evalExpr] at h
  | .ofProp _ (.const _), n, h => by simp [evalExpr] at h
  | .ofProp _ (.date _), n, h => by simp [evalExpr] at h
  | .ofProp _ (.binop op l r), n, h => by
    simp only [evalExpr] at h
    obtain ⟨_, _, h⟩ := (Outcome.bind_eq_ok _ _ _).mp h; cases h
  | .ofProp _ (.unary op e), n, h => by
    simp only [evalExpr] at h
    obtain ⟨_, _, h⟩ := (Outcome.bind_eq_ok _ _ _).mp h; cases h
  | .ofProp _ (.ofProp q e), n, h => by
    simp only [evalExpr] at h
    obtain ⟨_, _, h⟩ := (Outcome.bind_eq_ok _ _ _).mp h; cases h
  | .ofProp _ (.call f args), n, h => by
    simp only [evalExpr] at h
    obtain ⟨_, _, h⟩ := (Outcome.bind_eq_ok _ _ _).mp h; cases h
  | .ofProp _ (.error m), n, h => by
    simp only [evalExpr] at h
    obtain ⟨_, _, h⟩ := (Outcome.bind_eq_ok _ _ _).mp h; cases h
  | .call f args, n, h => by
    simp only [evalExpr] at h
    cases ha : evalArgs ctx args with
    | ok vs => simp [ha] at h; exact applyFunc_canonical f vs n (evalArgs_canonical ctx hc args vs ha) h
    | err c => simp [ha] at h
    | panic s => simp [ha] at h
    | unsupported s => simp [ha] at h
  | .error msg, n, h => by simp only [evalExpr] at h; split at h <;> cases h

theorem evalMul_canonical (ctx : Ctx) (hc : CtxCanonical ctx) :
    ∀ (es : List Expr) (acc n : Number), Canonical acc.unit → evalMul ctx acc es = .ok n → Canonical n.unit
  | [], acc, n, hacc, h => by simp only [evalMul] at h; cases h; exact hacc
  | e :: es, acc, n, hacc, h => by
    simp only [evalMul] at h
    cases he : evalExpr ctx e with
    | ok b =>
      simp [he] at h
      exact evalMul_canonical ctx hc es _ n (mul_canonical _ _ hacc (eval_canonical ctx hc e b he)) h
    | err c => simp [he] at h
    | panic s => simp [he] at h
    | unsupported s => simp [he] at h

theorem evalFactors_canonical (ctx : Ctx) (hc : CtxCanonical ctx) :
    ∀ (es : List Expr) (acc : Number) (sub : Option Substance) (amount : Number) (sub' : Option Substance),
      Canonical acc.unit → (∀ s, sub = some s → SubstCanonical s) →
      evalFactors ctx acc sub es = .ok (amount, sub') →
      Canonical amount.unit ∧ ∀ s, sub' = some s → SubstCanonical s
  | [], acc, sub, amount, sub', hacc, hsub, h => by
    simp only [evalFactors] at h; cases h; exact ⟨hacc, hsub⟩
  | .unit name :: es, acc, sub, amount, sub', hacc, hsub, h => by
    simp only [evalFactors] at h
    split at h
    · cases h
    · split at h
      · rename_i v hv
        exact evalFactors_canonical ctx hc es _ sub amount sub' (mul_canonical _ _ hacc (hc.1 name v hv)) hsub h
      · split at h
        · rename_i s hs
          cases sub with
          | none =>
            simp only at h
            exact evalFactors_canonical ctx hc es acc (some s) amount sub' hacc (by intro s' hs'; cases hs'; exact hc.2 name s hs) h
          | some _ => simp at h
        · split at h <;> cases h
  | .quote q :: es, acc, sub, amount, sub', hacc, hsub, h => by
    simp only [evalFactors] at h
    obtain ⟨v, hv, h⟩ := (Outcome.bind_eq_ok _ _ _).mp h
    exact evalFactors_canonical ctx hc es _ sub amount sub' (mul_canonical _ _ hacc (eval_canonical ctx hc _ v hv)) hsub h
  | .const c :: es, acc, sub, amount, sub', hacc, hsub, h => by
    simp only [evalFactors] at h
    obtain ⟨v, hv, h⟩ := (Outcome.bind_eq_ok _ _ _).mp h
    exact evalFactors_canonical ctx hc es _ sub amount sub' (mul_canonical _ _ hacc (eval_canonical ctx hc _ v hv)) hsub h
  | .date d :: es, acc, sub, amount, sub', hacc, hsub, h => by
    simp only [evalFactors] at h
    obtain ⟨v, hv, h⟩ := (Outcome.bind_eq_ok _ _ _).mp h
    exact evalFactors_canonical ctx hc es _ sub amount sub' (mul_canonical _ _ hacc (eval_canonical ctx hc _ v hv)) hsub h
  | .binop op l r :: es, acc, sub, amount, sub', hacc, hsub, h => by
    simp only [evalFactors] at h
    obtain ⟨v, hv, h⟩ := (Outcome.bind_eq_ok _ _ _).mp h
    exact evalFactors_canonical ctx hc es _ sub amount sub' (mul_canonical _ _ hacc (eval_canonical ctx hc _ v hv)) hsub h
  | .unary op e :: es, acc, sub, amount, sub', hacc, hsub, h => by
    simp only [evalFactors] at h
    obtain ⟨v, hv, h⟩ := (Outcome.bind_eq_ok _ _ _).mp h
    exact evalFactors_canonical ctx hc es _ sub amount sub' (mul_canonical _ _ hacc (eval_canonical ctx hc _ v hv)) hsub h
  | .mul ms :: es, acc, sub, amount, sub', hacc, hsub, h => by
    simp only [evalFactors] at h
    obtain ⟨v, hv, h⟩ := (Outcome.bind_eq_ok _ _ _).mp h
    exact evalFactors_canonical ctx hc es _ sub amount sub' (mul_canonical _ _ hacc (eval_canonical ctx hc _ v hv)) hsub h
  | .ofProp q e :: es, acc, sub, amount, sub', hacc, hsub, h => by
    simp only [evalFactors] at h
    obtain ⟨v, hv, h⟩ := (Outcome.bind_eq_ok _ _ _).mp h
    exact evalFactors_canonical ctx hc es _ sub amount sub' (mul_canonical _ _ hacc (eval_canonical ctx hc _ v hv)) hsub h
  | .call f args :: es, acc, sub, amount, sub', hacc, hsub, h => by
    simp only [evalFactors] at h
    obtain ⟨v, hv, h⟩ := (Outcome.bind_eq_ok _ _ _).mp h
    exact evalFactors_canonical ctx hc es _ sub amount sub' (mul_canonical _ _ hacc (eval_canonical ctx hc _ v hv)) hsub h
  | .error m :: es, acc, sub, amount, sub', hacc, hsub, h => by
    simp only [evalFactors] at h
    obtain ⟨v, hv, h⟩ := (Outcome.bind_eq_ok _ _ _).mp h
    exact evalFactors_canonical ctx hc es _ sub amount sub' (mul_canonical _ _ hacc (eval_canonical ctx hc _ v hv)) hsub h

theorem evalArgs_canonical (ctx : Ctx) (hc : CtxCanonical ctx) :
    ∀ (es : List Expr) (vs : List Number), evalArgs ctx es = .ok vs → ∀ a ∈ vs, Canonical a.unit
  | [], vs, h => by simp only [evalArgs] at h; cases h; simp
  | e :: es, vs, h => by
    simp only [evalArgs] at h
    cases he : evalExpr ctx e with
    | ok v =>
      cases hr : evalArgs ctx es with
      | ok rest =>
        simp [he, hr] at h
        subst h
        intro a ha
        rcases List.mem_cons.mp ha with rfl | ha
        · exact eval_canonical ctx hc e _ he
        · exact evalArgs_canonical ctx hc es rest hr a ha
      | err c => simp [he, hr] at h
      | panic s => simp [he, hr] at h
      | unsupported s => simp [he, hr] at h
    | err c => simp [he] at h
    | panic s => simp [he] at h
    | unsupported s => simp [he] at h
end

/-- in particular: no result ever carries a base unit with exponent zero -/
theorem eval_no_zero_exponent (ctx : Ctx) (hc : CtxCanonical ctx) (e : Expr) (n : Number)
    (h : evalExpr ctx e = .ok n) : ∀ x ∈ n.unit, x.2 ≠ 0 :=
  (eval_canonical ctx hc e n h).2

/-! non-vacuity and the defect the theorem excludes: the unfixed `powi` kept `m^0` -/
example : Dim.pow [("m", 2)] 0 = [] := by decide
example : ¬ Canonical (Dim.scale [("m", 2)] 0) := by
  intro h; exact h.2 ("m", 0) (by decide) rfl

end Rink.Spec
