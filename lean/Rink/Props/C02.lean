import Rink.Model.Eval
/-! property theorems: under construction -/
