import Rink.Lemmas.Alloc

namespace Rink.Alloc

/-- common shape: thread `t` moves from `old` to `new`, other fields given explicitly -/
theorem inv_of_move (s : State) (t : Nat) (old new : PC) (used' max' cover' : Nat)
    (blocks' : List Nat) (coverBy' : Option Nat)
    (hpc : s.pcs[t]? = some old) (hI : Inv s)
    (hcons : used' + old.charge + s.blocks.sum + old.held
              = s.used + new.charge + blocks'.sum + new.held)
    (hlive : blocks'.sum + new.held + new.accepted s.limit ≤ s.blocks.sum + old.held + old.accepted s.limit
              ∨ (blocks'.sum + new.held = s.blocks.sum + old.held ∧ old.accepted s.limit = 0 ∧
                 s.used + new.accepted s.limit ≤ s.limit ∧ cover' = s.used + new.accepted s.limit))
    (hcover : cover' = s.cover ∨ (cover' = s.used + new.accepted s.limit ∧ old.accepted s.limit = 0
                 ∧ blocks'.sum + new.held = s.blocks.sum + old.held))
    (hpeak : cover' ≤ max' ∨ ∃ t' pc, coverBy' = some t' ∧ (s.pcs.set t new)[t']? = some pc ∧ pc.inQ s.limit cover') :
    Inv { used := used', max := max', limit := s.limit, blocks := blocks', pcs := s.pcs.set t new,
          cover := cover', coverBy := coverBy' } := by
  have hc := sumBy_set PC.charge s.pcs t old new hpc
  have hh := sumBy_set PC.held s.pcs t old new hpc
  have ha := sumBy_set (PC.accepted s.limit) s.pcs t old new hpc
  have hle := sumBy_le (PC.accepted s.limit) PC.charge (accepted_le_charge s.limit) s.pcs
  have hle1 := le_sumBy (PC.accepted s.limit) s.pcs t old hpc
  obtain ⟨c1, c2, c3, _⟩ := hI
  simp only [State.live, State.charges, State.heldTotal, State.acceptedTotal] at *
  refine ⟨?_, ?_, ?_, hpeak⟩
  · simp only [State.live, State.charges, State.heldTotal]; omega
  · simp only [State.live, State.heldTotal, State.acceptedTotal]
    rcases hlive with h | ⟨h1, h2, h3, _⟩ <;> omega
  · simp only [State.live, State.heldTotal, State.acceptedTotal]
    rcases hcover with h | ⟨h1, h2, h3⟩
    · rcases hlive with h' | ⟨h1', h2', h3', h4'⟩ <;> omega
    · omega

end Rink.Alloc

namespace Rink.Alloc

theorem sum_append_single (l : List Nat) (x : Nat) : (l ++ [x]).sum = l.sum + x := by simp

theorem inv_step (s : State) (e : Ev) (hI : Inv s) : Inv (step s e).1 := by
  cases e with
  | reset =>
    obtain ⟨c1, c2, c3, _⟩ := hI
    have hle := sumBy_le (PC.accepted s.limit) PC.charge (accepted_le_charge s.limit) s.pcs
    simp only [step]
    refine ⟨?_, ?_, ?_, ?_⟩ <;>
      simp only [State.live, State.charges, State.heldTotal, State.acceptedTotal] at * <;> omega
  | start t op =>
    simp only [step]
    split
    · rename_i hpc
      cases op with
      | alloc size z =>
        have := inv_of_move s t .idle (.aAdd size z) s.used s.max s.cover s.blocks s.coverBy hpc hI
          (by simp [PC.charge, PC.held]) (by simp [PC.accepted, PC.held]) (Or.inl rfl)
          (peak_preserved s t _ _ s.max hpc (by simp [PC.inQ]) (Nat.le_refl _) hI.peak)
        simpa [setPc] using this
      | dealloc i =>
        simp only
        split
        · rename_i sz hb
          have hs := sum_eraseIdx s.blocks i sz hb
          have := inv_of_move s t .idle (.dPar sz) s.used s.max s.cover (s.blocks.eraseIdx i) s.coverBy hpc hI
            (by simp [PC.charge, PC.held]; omega) (by simp [PC.accepted, PC.held]; omega) (Or.inl rfl)
            (peak_preserved s t _ _ s.max hpc (by simp [PC.inQ]) (Nat.le_refl _) hI.peak)
          simpa using this
        · exact hI
      | realloc i new =>
        simp only
        split
        · rename_i sz hb
          have hs := sum_eraseIdx s.blocks i sz hb
          have := inv_of_move s t .idle (.rAdd sz new) s.used s.max s.cover (s.blocks.eraseIdx i) s.coverBy hpc hI
            (by simp [PC.charge, PC.held]; omega) (by simp [PC.accepted, PC.held]; omega) (Or.inl rfl)
            (peak_preserved s t _ _ s.max hpc (by simp [PC.inQ]) (Nat.le_refl _) hI.peak)
          simpa using this
        · exact hI
    · exact hI
  | adv t ok =>
    simp only [step]
    split
    · -- aAdd
      rename_i size z hpc
      split
      · rename_i hle
        have := inv_of_move s t (.aAdd size z) (.aChk size (s.used + size)) (s.used + size) s.max (s.used + size) s.blocks (some t) hpc hI
          (by simp [PC.charge, PC.held])
          (Or.inr (by simp [PC.accepted, PC.held, hle]))
          (Or.inr (by simp [PC.accepted, PC.held, hle]))
          (Or.inr ⟨t, .aChk size (s.used + size), rfl, by
            have : t < s.pcs.length := by
              have := (List.getElem?_eq_some_iff.mp hpc).1; exact this
            simp [List.getElem?_set, this], by simp [PC.inQ, hle]⟩)
        simpa using this
      · rename_i hle
        have := inv_of_move s t (.aAdd size z) (.aChk size (s.used + size)) (s.used + size) s.max s.cover s.blocks s.coverBy hpc hI
          (by simp [PC.charge, PC.held])
          (Or.inl (by simp [PC.accepted, PC.held, hle]))
          (Or.inl rfl)
          (peak_preserved s t _ _ s.max hpc (by simp [PC.inQ]) (Nat.le_refl _) hI.peak)
        simpa using this
    · -- aChk
      rename_i size ns hpc
      split
      · rename_i hle
        have hpk : s.cover ≤ Nat.max s.max ns ∨ ∃ t' pc, s.coverBy = some t' ∧
            (s.pcs.set t (.aPar size))[t']? = some pc ∧ pc.inQ s.limit s.cover := by
          rcases hI.peak with h | ⟨t', pc, h1, h2, h3⟩
          · left; exact Nat.le_trans h (Nat.le_max_left _ _)
          · by_cases htt : t = t'
            · subst htt; rw [hpc] at h2; cases h2
              simp [PC.inQ] at h3; left; rw [← h3.1]; exact Nat.le_max_right _ _
            · right; exact ⟨t', pc, h1, by rw [getElem?_set_ne' _ _ _ _ htt]; exact h2, h3⟩
        have := inv_of_move s t (.aChk size ns) (.aPar size) s.used (Nat.max s.max ns) s.cover s.blocks s.coverBy hpc hI
          (by simp [PC.charge, PC.held])
          (Or.inl (by simp [PC.accepted, PC.held, hle]))
          (Or.inl rfl) hpk
        simpa using this
      · rename_i hle
        have := inv_of_move s t (.aChk size ns) (.aUndo size) s.used s.max s.cover s.blocks s.coverBy hpc hI
          (by simp [PC.charge, PC.held])
          (Or.inl (by simp [PC.accepted, PC.held]))
          (Or.inl rfl)
          (peak_preserved s t _ _ s.max hpc (by simp [PC.inQ]; omega) (Nat.le_refl _) hI.peak)
        simpa [setPc] using this
    · -- aPar
      rename_i size hpc
      split
      · have := inv_of_move s t (.aPar size) .idle s.used s.max s.cover (s.blocks ++ [size]) s.coverBy hpc hI
          (by simp [PC.charge, PC.held]; omega)
          (Or.inl (by simp [PC.accepted, PC.held]))
          (Or.inl rfl)
          (peak_preserved s t _ _ s.max hpc (by simp [PC.inQ]) (Nat.le_refl _) hI.peak)
        simpa using this
      · have := inv_of_move s t (.aPar size) (.aUndo size) s.used s.max s.cover s.blocks s.coverBy hpc hI
          (by simp [PC.charge, PC.held])
          (Or.inl (by simp [PC.accepted, PC.held]))
          (Or.inl rfl)
          (peak_preserved s t _ _ s.max hpc (by simp [PC.inQ]) (Nat.le_refl _) hI.peak)
        simpa [setPc] using this
    · -- aUndo
      rename_i size hpc
      have hch := le_sumBy PC.charge s.pcs t _ hpc
      have hcons := hI.cons
      simp only [State.charges, PC.charge] at hcons hch
      have := inv_of_move s t (.aUndo size) .idle (s.used - size) s.max s.cover s.blocks s.coverBy hpc hI
        (by simp [PC.charge, PC.held]; omega)
        (Or.inl (by simp [PC.accepted, PC.held]))
        (Or.inl rfl)
        (peak_preserved s t _ _ s.max hpc (by simp [PC.inQ]) (Nat.le_refl _) hI.peak)
      simpa using this
    · -- dPar
      rename_i size hpc
      have := inv_of_move s t (.dPar size) (.dSub size) s.used s.max s.cover s.blocks s.coverBy hpc hI
        (by simp [PC.charge, PC.held]; omega)
        (Or.inl (by simp [PC.accepted, PC.held]))
        (Or.inl rfl)
        (peak_preserved s t _ _ s.max hpc (by simp [PC.inQ]) (Nat.le_refl _) hI.peak)
      simpa [setPc] using this
    · -- dSub
      rename_i size hpc
      have hch := le_sumBy PC.charge s.pcs t _ hpc
      have hcons := hI.cons
      simp only [State.charges, PC.charge] at hcons hch
      have := inv_of_move s t (.dSub size) .idle (s.used - size) s.max s.cover s.blocks s.coverBy hpc hI
        (by simp [PC.charge, PC.held]; omega)
        (Or.inl (by simp [PC.accepted, PC.held]))
        (Or.inl rfl)
        (peak_preserved s t _ _ s.max hpc (by simp [PC.inQ]) (Nat.le_refl _) hI.peak)
      simpa using this
    · -- rAdd
      rename_i old new hpc
      split
      · rename_i hle
        have := inv_of_move s t (.rAdd old new) (.rChk old new (s.used + new)) (s.used + new) s.max (s.used + new) s.blocks (some t) hpc hI
          (by simp [PC.charge, PC.held])
          (Or.inr (by simp [PC.accepted, PC.held, hle]))
          (Or.inr (by simp [PC.accepted, PC.held, hle]))
          (Or.inr ⟨t, .rChk old new (s.used + new), rfl, by
            have : t < s.pcs.length := (List.getElem?_eq_some_iff.mp hpc).1
            simp [List.getElem?_set, this], by simp [PC.inQ, hle]⟩)
        simpa using this
      · rename_i hle
        have := inv_of_move s t (.rAdd old new) (.rChk old new (s.used + new)) (s.used + new) s.max s.cover s.blocks s.coverBy hpc hI
          (by simp [PC.charge, PC.held])
          (Or.inl (by simp [PC.accepted, PC.held, hle]))
          (Or.inl rfl)
          (peak_preserved s t _ _ s.max hpc (by simp [PC.inQ]) (Nat.le_refl _) hI.peak)
        simpa using this
    · -- rChk
      rename_i old new nu hpc
      split
      · rename_i hle
        have hpk : s.cover ≤ Nat.max s.max nu ∨ ∃ t' pc, s.coverBy = some t' ∧
            (s.pcs.set t (.rPar old new))[t']? = some pc ∧ pc.inQ s.limit s.cover := by
          rcases hI.peak with h | ⟨t', pc, h1, h2, h3⟩
          · left; exact Nat.le_trans h (Nat.le_max_left _ _)
          · by_cases htt : t = t'
            · subst htt; rw [hpc] at h2; cases h2
              simp [PC.inQ] at h3; left; rw [← h3.1]; exact Nat.le_max_right _ _
            · right; exact ⟨t', pc, h1, by rw [getElem?_set_ne' _ _ _ _ htt]; exact h2, h3⟩
        have := inv_of_move s t (.rChk old new nu) (.rPar old new) s.used (Nat.max s.max nu) s.cover s.blocks s.coverBy hpc hI
          (by simp [PC.charge, PC.held])
          (Or.inl (by simp [PC.accepted, PC.held, hle]))
          (Or.inl rfl) hpk
        simpa using this
      · rename_i hle
        have := inv_of_move s t (.rChk old new nu) (.rSubNew old new) s.used s.max s.cover s.blocks s.coverBy hpc hI
          (by simp [PC.charge, PC.held])
          (Or.inl (by simp [PC.accepted, PC.held]))
          (Or.inl rfl)
          (peak_preserved s t _ _ s.max hpc (by simp [PC.inQ]; omega) (Nat.le_refl _) hI.peak)
        simpa [setPc] using this
    · -- rPar
      rename_i old new hpc
      split
      · -- success: live changes from old to new, charge from new to old
        have hlim := hI.lim
        have := inv_of_move s t (.rPar old new) (.rSubOld old new) s.used s.max s.cover s.blocks s.coverBy hpc hI
          (by simp [PC.charge, PC.held]; omega)
          (Or.inl (by simp [PC.accepted, PC.held]))
          (Or.inl rfl)
          (peak_preserved s t _ _ s.max hpc (by simp [PC.inQ]) (Nat.le_refl _) hI.peak)
        simpa [setPc] using this
      · have := inv_of_move s t (.rPar old new) (.rSubNew old new) s.used s.max s.cover s.blocks s.coverBy hpc hI
          (by simp [PC.charge, PC.held])
          (Or.inl (by simp [PC.accepted, PC.held]))
          (Or.inl rfl)
          (peak_preserved s t _ _ s.max hpc (by simp [PC.inQ]) (Nat.le_refl _) hI.peak)
        simpa [setPc] using this
    · -- rSubNew
      rename_i old new hpc
      have hch := le_sumBy PC.charge s.pcs t _ hpc
      have hcons := hI.cons
      simp only [State.charges, PC.charge] at hcons hch
      have := inv_of_move s t (.rSubNew old new) .idle (s.used - new) s.max s.cover (s.blocks ++ [old]) s.coverBy hpc hI
        (by simp [PC.charge, PC.held]; omega)
        (Or.inl (by simp [PC.accepted, PC.held]))
        (Or.inl rfl)
        (peak_preserved s t _ _ s.max hpc (by simp [PC.inQ]) (Nat.le_refl _) hI.peak)
      simpa using this
    · -- rSubOld
      rename_i old new hpc
      have hch := le_sumBy PC.charge s.pcs t _ hpc
      have hcons := hI.cons
      simp only [State.charges, PC.charge] at hcons hch
      have := inv_of_move s t (.rSubOld old new) .idle (s.used - old) s.max s.cover (s.blocks ++ [new]) s.coverBy hpc hI
        (by simp [PC.charge, PC.held]; omega)
        (Or.inl (by simp [PC.accepted, PC.held]))
        (Or.inl rfl)
        (peak_preserved s t _ _ s.max hpc (by simp [PC.inQ]) (Nat.le_refl _) hI.peak)
      simpa using this
    · exact hI

end Rink.Alloc
