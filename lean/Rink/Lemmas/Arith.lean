import Rink.Spec.Arith
/-! Lemmas for C01 `eval_exact`. Core Lean only. -/
namespace Rink.Spec
open Rink Rink.Eval

def rn (q : Rat) : Number := ⟨.rational q, []⟩

theorem agrees_bind2 {l r : Outcome Number} {sl sr : Option Rat}
    (f : Number → Number → Outcome Number) (g : Rat → Rat → Option Rat)
    (hl : Agrees l sl) (hr : Agrees r sr)
    (hfg : ∀ a b, Agrees (f (rn a) (rn b)) (g a b)) :
    Agrees (do let x ← l; let y ← r; f x y) (do let a ← sl; let b ← sr; g a b) := by
  cases l with
  | unsupported w => simp [Agrees]
  | panic s => simp [Agrees] at hl
  | err c => simp [Agrees] at hl ⊢; simp [hl]
  | ok x =>
    obtain ⟨a, rfl, rfl⟩ := hl
    cases r with
    | unsupported w => simp [Agrees]
    | panic s => simp [Agrees] at hr
    | err c => simp [Agrees] at hr ⊢; simp [hr]
    | ok y =>
      obtain ⟨b, rfl, rfl⟩ := hr
      simpa [rn] using hfg a b

theorem agrees_bind1 {l : Outcome Number} {sl : Option Rat}
    (f : Number → Outcome Number) (g : Rat → Option Rat)
    (hl : Agrees l sl) (hfg : ∀ a, Agrees (f (rn a)) (g a)) :
    Agrees (do let x ← l; f x) (do let a ← sl; g a) := by
  cases l with
  | unsupported w => simp [Agrees]
  | panic s => simp [Agrees] at hl
  | err c => simp [Agrees] at hl ⊢; simp [hl]
  | ok x =>
    obtain ⟨a, rfl, rfl⟩ := hl
    simpa [rn] using hfg a

@[simp] theorem dim_mul_nil : Dim.mul [] [] = [] := by simp [Dim.mul, Dim.merge]

theorem agrees_ok (q : Rat) : Agrees (.ok (rn q)) (some q) := ⟨q, rfl, rfl⟩

end Rink.Spec

namespace Rink.Spec
open Rink Rink.Eval

theorem op_add (a b : Rat) : Agrees (applyBin .add (rn a) (rn b)) (some (a + b)) := by
  simp [applyBin, Number.add, rn, Numeric.add, Agrees]

theorem op_sub (a b : Rat) : Agrees (applyBin .sub (rn a) (rn b)) (some (a - b)) := by
  simp [applyBin, Number.sub, rn, Numeric.sub, Agrees]

theorem op_frac (a b : Rat) : Agrees (applyBin .frac (rn a) (rn b)) (if b = 0 then none else some (a / b)) := by
  by_cases h : b = 0
  · simp [applyBin, Number.div, rn, h, Agrees]
  · simp [applyBin, Number.div, rn, h, Agrees, Number.invert, Numeric.div, Numeric.one, Number.mul, Numeric.mul,
      Rat.div_def, Rat.one_mul]

theorem op_mod (a b : Rat) : Agrees (applyBin .mod (rn a) (rn b)) (if b = 0 then none else some (tmod a b)) := by
  by_cases h : b = 0
  · simp [applyBin, Number.rem, rn, h, Agrees]
  · simp [applyBin, Number.rem, rn, h, Agrees, Numeric.rem, Numeric.ratRem, tmod, trunc]

end Rink.Spec

namespace Rink.Spec
open Rink Rink.Eval

theorem rat_pow_ne_zero {a : Rat} (h : a ≠ 0) (n : Nat) : a ^ n ≠ 0 := by
  induction n with
  | zero => simp
  | succ n ih =>
    rw [Rat.pow_succ]
    intro hz
    rcases Rat.mul_eq_zero.mp hz with h1 | h1
    · exact ih h1
    · exact h h1

theorem op_pow (a : Rat) (k : Int) :
    Agrees (applyBin .pow (rn a) (rn (k : Rat)))
      (if (k : Rat).abs ≥ two31 then none else if k < 0 ∧ a = 0 then none else some (ipow a k)) := by
  simp only [applyBin, Number.pow, rn, Number.dimless, List.isEmpty_nil, Bool.not_true, Bool.false_eq_true,
    if_false, Number.two31, two31]
  by_cases hbig : (k : Rat).abs ≥ 2147483648
  · simp [hbig, Agrees]
  · simp only [hbig, if_false, Rat.den_intCast, if_true, Rat.num_intCast]
    by_cases hz : k < 0 ∧ a = 0
    · simp [hz, Agrees]
    · simp only [hz, if_false]
      simp only [Number.powi, List.any_nil, Bool.false_eq_true, if_false]
      split
      · simp [Agrees]
      · by_cases hk : k < 0
        · have ha : a ≠ 0 := fun h => hz ⟨hk, h⟩
          have hp := rat_pow_ne_zero ha k.natAbs
          simp [Numeric.pow, hk, Numeric.powNat, Numeric.div, Numeric.one, hp, Agrees, ipow, Dim.pow, Dim.scale]
        · simp [Numeric.pow, hk, Numeric.powNat, Agrees, ipow, Dim.pow, Dim.scale]

end Rink.Spec

namespace Rink.Spec
open Rink Rink.Eval

theorem two_pow_ne_zero (n : Nat) : ((2 ^ n : Nat) : Rat) ≠ 0 := by
  intro h
  have : (2 ^ n : Nat) = 0 := Rat.natCast_eq_zero_iff.mp h
  have : 0 < 2 ^ n := Nat.pow_pos (by decide)
  omega

theorem shiftBy_agrees (a : Rat) (k : Int) : Agrees (Number.shiftBy (rn a) k) (some (scale2 a k)) := by
  simp only [Number.shiftBy]
  split
  · simp [Agrees]
  · by_cases hk : k ≥ 0
    · simp [hk, rn, Numeric.mul, Agrees, scale2]
    · have h2 : (2 : Rat) ^ k.natAbs ≠ 0 := rat_pow_ne_zero (by decide) _
      simp [hk, rn, Numeric.div, Agrees, scale2, h2]

theorem shiftCount_eq (b : Rat) :
    Number.shiftCount (rn b) = match shiftArg b with | some k => .ok k | none => .err .generic := by
  simp only [Number.shiftCount, rn, Number.dimless, List.isEmpty_nil, Bool.not_true, Bool.false_eq_true, if_false,
    shiftArg, Number.two31, two31]
  by_cases h1 : b.abs ≥ 2147483648
  · simp [h1]
  · by_cases h2 : b.den ≠ 1
    · simp [h1, h2]
    · simp [h1, h2]

theorem op_shl (a b : Rat) :
    Agrees (applyBin .shl (rn a) (rn b)) (do let k ← shiftArg b; pure (scale2 a k)) := by
  simp only [applyBin, Number.shl, shiftCount_eq]
  cases h : shiftArg b with
  | none => simp [Agrees]
  | some k => simpa using shiftBy_agrees a k

theorem op_shr (a b : Rat) :
    Agrees (applyBin .shr (rn a) (rn b)) (do let k ← shiftArg b; pure (scale2 a (-k))) := by
  simp only [applyBin, Number.shr, shiftCount_eq]
  cases h : shiftArg b with
  | none => simp [Agrees]
  | some k => simpa using shiftBy_agrees a (-k)

theorem bitop_agrees (f : Int → Int → Int) (a b : Rat) :
    Agrees (Number.bitop f (rn a) (rn b)) (do let (x, y) ← bitArgs a b; pure ((f x y : Int) : Rat)) := by
  simp only [Number.bitop, rn, Number.dimless, List.isEmpty_nil, Bool.not_true, Bool.or_self, Bool.false_eq_true,
    if_false, Numeric.asInt?, bitArgs]
  by_cases ha : a.den = 1 <;> by_cases hb : b.den = 1 <;> simp [ha, hb, Agrees]

theorem op_and (a b : Rat) : Agrees (applyBin .and (rn a) (rn b))
    (do let (x, y) ← bitArgs a b; pure ((IntBits.land x y : Int) : Rat)) := bitop_agrees _ a b
theorem op_or (a b : Rat) : Agrees (applyBin .or (rn a) (rn b))
    (do let (x, y) ← bitArgs a b; pure ((IntBits.lor x y : Int) : Rat)) := bitop_agrees _ a b
theorem op_xor (a b : Rat) : Agrees (applyBin .xor (rn a) (rn b))
    (do let (x, y) ← bitArgs a b; pure ((IntBits.lxor x y : Int) : Rat)) := bitop_agrees _ a b

end Rink.Spec
