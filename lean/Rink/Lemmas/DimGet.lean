import Rink.Lemmas.DimCanon
/-! `Dim.get` (the exponent of a base unit, 0 when absent) is a homomorphism for the merge. -/
namespace Rink.Dim

theorem get_nil (k : String) : get [] k = 0 := by simp [get]

theorem get_cons (k' : String) (p : Int) (xs : Dim) (k : String) :
    get ((k', p) :: xs) k = if k' = k then p else get xs k := by
  unfold get
  by_cases h : k' = k
  · simp [h]
  · have : (k' == k) = false := by simpa using h
    simp [List.find?_cons, this, h]

theorem get_of_LB {k : String} {d : Dim} (h : LB k d) : get d k = 0 := by
  induction d with
  | nil => exact get_nil k
  | cons x xs ih =>
    obtain ⟨k', p⟩ := x
    rw [get_cons]
    have hlt : k < k' := h (k', p) (by simp)
    have hne : k' ≠ k := fun e => by subst e; exact lt_irrefl _ hlt
    simp [hne]
    exact ih (fun y hy => h y (by simp [hy]))

/-- **products add exponents** -/
theorem get_mul (a b : Dim) (ha : Sorted a) (hb : Sorted b) (k : String) :
    get (mul a b) k = get a k + get b k := by
  unfold mul
  fun_induction merge addDrop a b with
  | case1 r => simp [get_nil]
  | case2 l hl => simp [get_nil]
  | case3 ka va l kb vb r hlt ih =>
    rw [sorted_cons_iff] at ha
    rw [get_cons, get_cons ka va l k]
    by_cases hk : ka = k
    · subst hk
      have hbl : LB ka ((kb, vb) :: r) := by
        rw [sorted_cons_iff] at hb
        exact LB_cons.mpr ⟨hlt, LB_of_lt hlt hb.1⟩
      simp [get_of_LB hbl]
    · simp only [hk, if_false]; exact ih ha.2 hb
  | case4 ka va l kb vb r hnlt hgt ih =>
    rw [sorted_cons_iff] at hb
    rw [get_cons, get_cons kb vb r k]
    by_cases hk : kb = k
    · subst hk
      have hal : LB kb ((ka, va) :: l) := by
        rw [sorted_cons_iff] at ha
        exact LB_cons.mpr ⟨hgt, LB_of_lt hgt ha.1⟩
      simp [get_of_LB hal]
    · simp only [hk, if_false]; exact ih ha hb.2
  | case5 ka va l kb vb r hnlt hngt v hv ih =>
    have hkk : ka = kb := le_antisymm (not_lt.mp hngt) (not_lt.mp hnlt)
    subst hkk
    rw [sorted_cons_iff] at ha hb
    rw [get_cons, get_cons ka va l k, get_cons ka vb r k]
    have hvv : v = va + vb := by
      unfold addDrop at hv; split at hv <;> simp at hv; exact hv.symm
    by_cases hk : ka = k
    · simp [hk, hvv]
    · simp only [hk, if_false]; exact ih ha.2 hb.2
  | case6 ka va l kb vb r hnlt hngt hv ih =>
    have hkk : ka = kb := le_antisymm (not_lt.mp hngt) (not_lt.mp hnlt)
    subst hkk
    rw [sorted_cons_iff] at ha hb
    rw [get_cons ka va l k, get_cons ka vb r k]
    have hz : va + vb = 0 := by
      unfold addDrop at hv; split at hv
      · simp at hv
      · rename_i h; simpa using h
    by_cases hk : ka = k
    · subst hk
      rw [ih ha.2 hb.2, get_of_LB ha.1, get_of_LB hb.1]; simp [hz]
    · simp only [hk, if_false]; exact ih ha.2 hb.2

theorem get_map (g : Int → Int) (hg : g 0 = 0) (a : Dim) (k : String) :
    get (a.map fun (k, p) => (k, g p)) k = g (get a k) := by
  induction a with
  | nil => simp [get_nil, hg]
  | cons x xs ih =>
    obtain ⟨k', p⟩ := x
    simp only [List.map_cons]
    rw [get_cons, get_cons]
    by_cases hk : k' = k <;> simp [hk, ih]

/-- **quotients subtract, integer powers multiply** -/
theorem get_recip (a : Dim) (k : String) : get (a.map fun (k, p) => (k, -p)) k = -(get a k) :=
  get_map (fun p => -p) (by simp) a k

theorem get_pow (a : Dim) (e : Int) (k : String) : get (pow a e) k = get a k * e := by
  unfold pow
  split
  · rename_i he; simp [get_nil, he]
  · exact get_map (fun p => p * e) (by simp) a k

end Rink.Dim
