import Rink.Lemmas.DimCanon
/-! `Dim.get` (the exponent of a base unit, 0 when absent) is a homomorphism for the merge. -/
namespace Rink.Dim

theorem get_nil (k : String) : get [] k = 0 := by simp [get]

theorem get_cons (k' : String) (p : Int) (xs : Dim) (k : String) :
    get ((k', p) :: xs) k = if k' = k then p else get xs k := by
  unfold get
  by_cases h : k' = k
  · simp [h]
  · have : (k' == k) = false := by simpa using h
    simp [List.find?_cons, this, h]

theorem get_of_LB {k : String} {d : Dim} (h : LB k d) : get d k = 0 := by
  induction d with
  | nil => exact get_nil k
  | cons x xs ih =>
    obtain ⟨k', p⟩ := x
    rw [get_cons]
    have hlt : k < k' := h (k', p) (by simp)
    have hne : k' ≠ k := fun e => by subst e; exact lt_irrefl _ hlt
    simp [hne]
    exact ih (fun y hy => h y (by simp [hy]))

/-- **products add exponents** -/
theorem get_mul (a b : Dim) (ha : Sorted a) (hb : Sorted b) (k : String) :
    get (mul a b) k = get a k + get b k := by
  unfold mul
  fun_induction merge addDrop a b with
  | case1 r => simp [get_nil]
  | case2 l hl => simp [get_nil]
  | case3 ka va l kb vb r hlt ih =>
    rw [sorted_cons_iff] at ha
    rw [get_cons, get_cons ka va l k]
    by_cases hk : ka = k
    · subst hk
      have hbl : LB ka ((kb, vb) :: r) := by
        rw [sorted_cons_iff] at hb
        exact LB_cons.mpr ⟨hlt, LB_of_lt hlt hb.1⟩
      simp [get_of_LB hbl]
    · simp only [hk, if_false]; exact ih ha.2 hb
  | case4 ka va l kb vb r hnlt hgt ih =>
    rw [sorted_cons_iff] at hb
    rw [get_cons, get_cons kb vb r k]
    by_cases hk : kb = k
    · subst hk
      have hal : LB kb ((ka, va) :: l) := by
        rw [sorted_cons_iff] at ha
        exact LB_cons.mpr ⟨hgt, LB_of_lt hgt ha.1⟩
      simp [get_of_LB hal]
    · simp only [hk, if_false]; exact ih ha hb.2
  | case5 ka va l kb vb r hnlt hngt v hv ih =>
    have hkk : ka = kb := le_antisymm (not_lt.mp hngt) (not_lt.mp hnlt)
    subst hkk
    rw [sorted_cons_iff] at ha hb
    rw [get_cons, get_cons ka va l k, get_cons ka vb r k]
    have hvv : v = va + vb := by
      unfold addDrop at hv; split at hv <;> simp at hv; exact hv.symm
    by_cases hk : ka = k
    · simp [hk, hvv]
    · simp only [hk, if_false]; exact ih ha.2 hb.2
  | case6 ka va l kb vb r hnlt hngt hv ih =>
    have hkk : ka = kb := le_antisymm (not_lt.mp hngt) (not_lt.mp hnlt)
    subst hkk
    rw [sorted_cons_iff] at ha hb
    rw [get_cons ka va l k, get_cons ka vb r k]
    have hz : va + vb = 0 := by
      unfold addDrop at hv; split at hv
      · simp at hv
      · rename_i h; simpa using h
    by_cases hk : ka = k
    · subst hk
      rw [ih ha.2 hb.2, get_of_LB ha.1, get_of_LB hb.1]; simp [hz]
    · simp only [hk, if_false]; exact ih ha.2 hb.2

theorem get_map (g : Int → Int) (hg : g 0 = 0) (a : Dim) (k : String) :
    get (a.map fun (k, p) => (k, g p)) k = g (get a k) := by
  induction a with
  | nil => simp [get_nil, hg]
  | cons x xs ih =>
    obtain ⟨k', p⟩ := x
    simp only [List.map_cons]
    rw [get_cons, get_cons]
    by_cases hk : k' = k <;> simp [hk, ih]

/-- **quotients subtract, integer powers multiply** -/
theorem get_recip (a : Dim) (k : String) : get (a.map fun (k, p) => (k, -p)) k = -(get a k) :=
  get_map (fun p => -p) (by simp) a k

theorem get_pow (a : Dim) (e : Int) (k : String) : get (pow a e) k = get a k * e := by
  unfold pow
  split
  · rename_i he; simp [get_nil, he]
  · exact get_map (fun p => p * e) (by simp) a k

end Rink.Dim

namespace Rink.Dim

/-- canonical dimensionalities are determined by their exponent function -/
theorem canonical_ext (a b : Dim) (ha : Canonical a) (hb : Canonical b) (h : ∀ k, get a k = get b k) : a = b := by
  induction a generalizing b with
  | nil =>
    cases b with
    | nil => rfl
    | cons y ys =>
      obtain ⟨k2, p2⟩ := y
      have := h k2
      rw [get_nil, get_cons] at this
      simp at this
      exact absurd this.symm (hb.2 (k2, p2) (by simp))
  | cons x xs ih =>
    obtain ⟨k1, p1⟩ := x
    have hs1 := (sorted_cons_iff _ _).mp ha.1
    have hp1 : p1 ≠ 0 := ha.2 (k1, p1) (by simp)
    cases b with
    | nil =>
      have := h k1
      rw [get_nil, get_cons] at this
      simp at this
      exact absurd this hp1
    | cons y ys =>
      obtain ⟨k2, p2⟩ := y
      have hs2 := (sorted_cons_iff _ _).mp hb.1
      have hp2 : p2 ≠ 0 := hb.2 (k2, p2) (by simp)
      have hk : k1 = k2 := by
        rcases lt_trichotomy k1 k2 with hlt | heq | hgt
        · exfalso
          have := h k1
          rw [get_cons, get_cons] at this
          have hne : k2 ≠ k1 := fun e => by subst e; exact lt_irrefl _ hlt
          simp only [if_true, hne, if_false] at this
          rw [get_of_LB (LB_of_lt hlt hs2.1)] at this
          exact hp1 this
        · exact heq
        · exfalso
          have := h k2
          rw [get_cons, get_cons] at this
          have hne : k1 ≠ k2 := fun e => by subst e; exact lt_irrefl _ hgt
          simp only [if_true, hne, if_false] at this
          rw [get_of_LB (LB_of_lt hgt hs1.1)] at this
          exact hp2 this.symm
      subst hk
      have hp : p1 = p2 := by
        have := h k1
        rw [get_cons, get_cons] at this
        simpa using this
      subst hp
      congr 1
      apply ih ys ⟨hs1.2, fun z hz => ha.2 z (by simp [hz])⟩ ⟨hs2.2, fun z hz => hb.2 z (by simp [hz])⟩
      intro k
      by_cases hkk : k1 = k
      · subst hkk
        rw [get_of_LB hs1.1, get_of_LB hs2.1]
      · have := h k
        rw [get_cons, get_cons] at this
        simpa [hkk] using this

/-- a quotient of canonical dimensionalities is dimensionless only if they are equal -/
theorem div_eq_nil_iff (a b : Dim) (ha : Canonical a) (hb : Canonical b) :
    mul a (b.map fun (k, p) => (k, -p)) = [] ↔ a = b := by
  constructor
  · intro h
    apply canonical_ext a b ha hb
    intro k
    have hs : Sorted (b.map fun (k, p) => (k, -p)) := map_exp_sorted (fun p => -p) b hb.1
    have := get_mul a _ ha.1 hs k
    rw [h, get_nil, get_recip] at this
    omega
  · intro h; subst h; exact mul_recip_self a

end Rink.Dim
