import Rink.Model.Cache

/-!
Helper lemmas for C20 (core Lean only).

* names: a temp name is never the cache name;
* `Op.offCache`: operations that do not name the cache file leave its entry alone, for any
  list of them and any crash point;
* what `createTemp` and the write callback leave in the temp file;
* the shape of `download`: either every operation is off the cache file (failure), or the
  list is `pre ++ [rename temp cache]` with `pre` off the cache file and the temp file then
  holding exactly the complete body (success).
-/
namespace Rink.Cache

/-! ## Names -/

theorem temp_ne_cache (c : Cfg) (r : String) : c.temp r ≠ c.cache := by
  intro h
  have h2 := congrArg String.length h
  simp only [Cfg.temp, Cfg.cache, String.length_append] at h2
  have : (".".length) = 1 := by decide
  omega

/-! ## Operations that do not touch the cache file -/

/-- The operation does not name `cn` in a way that could change its directory entry. -/
def Op.offCache (cn : String) : Op → Prop
  | .openRead _ => True
  | .mkdir => True
  | .createExcl n => n ≠ cn
  | .append n _ => n ≠ cn
  | .fsync _ => True
  | .rename s d => s ≠ cn ∧ d ≠ cn
  | .unlink n => n ≠ cn

theorem set_file_ne (fs : FS) (n m : String) (v : Option File) (h : m ≠ n) :
    (fs.set n v).file m = fs.file m := by
  simp [FS.set, h]

theorem set_file_eq (fs : FS) (n : String) (v : Option File) : (fs.set n v).file n = v := by
  simp [FS.set]

theorem apply_offCache (now : Nat) (fs : FS) (op : Op) (cn : String) (h : op.offCache cn) :
    (apply now fs op).file cn = fs.file cn := by
  cases op with
  | openRead n => rfl
  | mkdir => rfl
  | createExcl n =>
    simp only [Op.offCache] at h
    simp only [apply]; split
    · exact set_file_ne _ _ _ _ (Ne.symm h)
    · rfl
  | append n ch =>
    simp only [Op.offCache] at h
    simp only [apply]; split
    · exact set_file_ne _ _ _ _ (Ne.symm h)
    · rfl
  | fsync n => rfl
  | rename s d =>
    simp only [Op.offCache] at h
    simp only [apply]; split
    · rw [set_file_ne _ _ _ _ (Ne.symm h.2), set_file_ne _ _ _ _ (Ne.symm h.1)]
    · rfl
  | unlink n =>
    simp only [Op.offCache] at h
    simp only [apply]
    exact set_file_ne _ _ _ _ (Ne.symm h)

theorem run_nil (now : Nat) (fs : FS) : run now fs [] = fs := rfl

theorem run_cons (now : Nat) (fs : FS) (op : Op) (ops : List Op) :
    run now fs (op :: ops) = run now (apply now fs op) ops := rfl

theorem run_append (now : Nat) (fs : FS) (a b : List Op) :
    run now fs (a ++ b) = run now (run now fs a) b := by
  simp [run, List.foldl_append]

theorem run_offCache (now : Nat) (cn : String) (ops : List Op) :
    ∀ (fs : FS), (∀ op ∈ ops, op.offCache cn) → (run now fs ops).file cn = fs.file cn := by
  induction ops with
  | nil => intro fs _; rfl
  | cons op ops ih =>
    intro fs h
    rw [run_cons, ih _ (fun o ho => h o (List.mem_cons_of_mem _ ho)),
      apply_offCache _ _ _ _ (h op (List.mem_cons_self))]

/-- Killing the process anywhere inside a list of off-cache operations leaves the entry. -/
theorem runCrash_offCache (now : Nat) (cn : String) (ops : List Op) (fs : FS)
    (h : ∀ op ∈ ops, op.offCache cn) (k : Nat) :
    (runCrash now fs ops k).file cn = fs.file cn :=
  run_offCache now cn _ fs (fun op hm => h op (List.mem_of_mem_take hm))

/-- A list whose only operation on the cache file is its last one: a crash either happens
before that operation (entry unchanged) or after the whole list ran. -/
theorem runCrash_commit (now : Nat) (cn : String) (pre : List Op) (last : Op) (fs : FS)
    (h : ∀ op ∈ pre, op.offCache cn) (k : Nat) :
    (runCrash now fs (pre ++ [last]) k).file cn = fs.file cn ∨
    runCrash now fs (pre ++ [last]) k = run now fs (pre ++ [last]) := by
  by_cases hk : k ≤ pre.length
  · left
    have : (pre ++ [last]).take k = pre.take k := List.take_append_of_le_length hk
    simp only [runCrash, this]
    exact run_offCache now cn _ fs (fun op hm => h op (List.mem_of_mem_take hm))
  · right
    have hlen : (pre ++ [last]).length ≤ k := by simp; omega
    simp only [runCrash, List.take_of_length_le hlen]

/-! ## The temp file -/

theorem createTemp_offCache (file : String → Option File) (c : Cfg) (rands : List String) :
    ∀ op ∈ (createTemp file c rands).1, op.offCache c.cache := by
  induction rands with
  | nil => intro op h; simp [createTemp] at h
  | cons r rs ih =>
    intro op h
    simp only [createTemp] at h
    split at h
    · simp only [List.mem_cons] at h
      rcases h with h | h
      · subst h; exact temp_ne_cache c r
      · exact ih op h
    · simp only [List.mem_cons, List.not_mem_nil, or_false] at h
      subst h; exact temp_ne_cache c r

theorem createTemp_some (file : String → Option File) (c : Cfg) (rands : List String) (t : String)
    (h : (createTemp file c rands).2 = some t) : file t = none ∧ ∃ r, t = c.temp r := by
  induction rands with
  | nil => simp [createTemp] at h
  | cons r rs ih =>
    simp only [createTemp] at h
    split at h
    · exact ih h
    · rename_i hn
      simp only [Option.some.injEq] at h
      subst h
      constructor
      · cases hf : file (c.temp r) with
        | none => rfl
        | some f => simp [hf] at hn
      · exact ⟨r, rfl⟩

/-- Failed `O_EXCL` attempts change nothing; the successful one creates an empty file. -/
theorem createTemp_run (now : Nat) (c : Cfg) (rands : List String) (fs : FS) :
    run now fs (createTemp fs.file c rands).1 =
      match (createTemp fs.file c rands).2 with
      | none => fs
      | some t => fs.set t (some ⟨[], now⟩) := by
  induction rands with
  | nil => rfl
  | cons r rs ih =>
    simp only [createTemp]
    split
    · rename_i hs
      rw [run_cons]
      have : apply now fs (.createExcl (c.temp r)) = fs := by
        simp only [apply]
        cases hf : fs.file (c.temp r) with
        | none => simp [hf] at hs
        | some f => rfl
      rw [this]; exact ih
    · rename_i hs
      have hn : fs.file (c.temp r) = none := by
        cases hf : fs.file (c.temp r) with
        | none => rfl
        | some f => simp [hf] at hs
      simp only [run_cons, run_nil, apply, hn]

/-- The write callback appends: after all delivered chunks the temp file holds their
concatenation; other names are untouched. -/
theorem run_appends (now : Nat) (t : String) (chunks : List Bytes) :
    ∀ (fs : FS) (d : Bytes), fs.file t = some ⟨d, now⟩ →
      ∀ m, (run now fs (chunks.map (Op.append t))).file m =
        if m = t then some ⟨d ++ chunks.flatten, now⟩ else fs.file m := by
  induction chunks with
  | nil =>
    intro fs d h m
    simp only [List.map_nil, run_nil, List.flatten_nil, List.append_nil]
    split
    · rename_i hm; subst hm; exact h
    · rfl
  | cons ch cs ih =>
    intro fs d h m
    simp only [List.map_cons, run_cons]
    have hap : apply now fs (.append t ch) = fs.set t (some ⟨d ++ ch, now⟩) := by
      simp only [apply, h]
    rw [hap, ih (fs.set t (some ⟨d ++ ch, now⟩)) (d ++ ch) (set_file_eq _ _ _) m]
    split
    · simp [List.append_assoc]
    · rename_i hm; exact set_file_ne _ _ _ _ hm

/-! ## Shape of `download_to_file` -/

theorem success_iff (s : Script) : s.success = true ↔ s.ending = .complete ∧ s.status = 200 := by
  cases s with
  | mk st ch en =>
    cases en <;> simp [Script.success, Script.performOk]

theorem delivered_of_complete (s : Script) (h : s.ending = .complete) : s.delivered = s.chunks := by
  simp [Script.delivered, h]

/-- The operations before the decisive step: `mkdir`, the `O_EXCL` attempts, the writes. -/
theorem download_pre_offCache (c : Cfg) (fs : FS) (e : Env) (t : String)
    (ht : (createTemp fs.file c e.rands).2 = some t) :
    ∀ op ∈ Op.mkdir :: (createTemp fs.file c e.rands).1 ++ e.script.delivered.map (Op.append t),
      op.offCache c.cache := by
  intro op h
  obtain ⟨_, r, hr⟩ := createTemp_some _ _ _ _ ht
  simp only [List.cons_append, List.mem_cons, List.mem_append, List.mem_map] at h
  rcases h with h | h | ⟨ch, _, h⟩
  · subst h; trivial
  · exact createTemp_offCache _ _ _ op h
  · subst h; subst hr; exact temp_ne_cache c r

/-- A failed download never names the cache file. -/
theorem download_fail_offCache (c : Cfg) (fs : FS) (e : Env) (h : (download c fs e).ok = false) :
    ∀ op ∈ (download c fs e).ops, op.offCache c.cache := by
  unfold download at h ⊢
  cases ht : (createTemp fs.file c e.rands).2 with
  | none =>
    simp only [ht]
    intro op hop
    simp only [List.mem_cons] at hop
    rcases hop with hop | hop
    · subst hop; trivial
    · exact createTemp_offCache _ _ _ op hop
  | some t =>
    simp only [ht] at h ⊢
    by_cases hs : e.script.success = true
    · simp [hs] at h
    · simp only [hs]
      intro op hop
      simp only [Bool.false_eq_true, ↓reduceIte] at hop
      rw [List.mem_append] at hop
      rcases hop with hop | hop
      · exact download_pre_offCache c fs e t ht op hop
      · simp only [List.mem_cons, List.not_mem_nil, or_false] at hop
        subst hop
        obtain ⟨_, r, hr⟩ := createTemp_some _ _ _ _ ht
        subst hr; exact temp_ne_cache c r

theorem download_ok_iff (c : Cfg) (fs : FS) (e : Env) :
    (download c fs e).ok = true ↔
      e.script.success = true ∧ ∃ t, (createTemp fs.file c e.rands).2 = some t := by
  unfold download
  cases ht : (createTemp fs.file c e.rands).2 with
  | none => simp [ht]
  | some t =>
    by_cases hs : e.script.success = true <;> simp [ht, hs]

/-- A successful download is `pre ++ [rename temp cache]`, `pre` off the cache file and ending
in `fsync temp`, and running it to the end leaves exactly the complete body in the cache file. -/
theorem download_ok_shape (c : Cfg) (fs : FS) (e : Env) (h : (download c fs e).ok = true) :
    ∃ pre t, (download c fs e).ops = pre ++ [Op.fsync t] ++ [Op.rename t c.cache] ∧
      (∀ op ∈ pre ++ [Op.fsync t], op.offCache c.cache) ∧
      (run e.now fs (download c fs e).ops).file c.cache = some ⟨e.script.body, e.now⟩ := by
  obtain ⟨hs, t, ht⟩ := (download_ok_iff c fs e).1 h
  have hpre := download_pre_offCache c fs e t ht
  obtain ⟨hcomp, _⟩ := (success_iff _).1 hs
  refine ⟨Op.mkdir :: (createTemp fs.file c e.rands).1 ++ e.script.delivered.map (Op.append t), t, ?_, ?_, ?_⟩
  · simp [download, ht, hs]
  · intro op hop
    rw [List.mem_append] at hop
    rcases hop with hop | hop
    · exact hpre op hop
    · simp only [List.mem_cons, List.not_mem_nil, or_false] at hop
      subst hop; trivial
  · have hops : (download c fs e).ops =
        Op.mkdir :: ((createTemp fs.file c e.rands).1 ++ (e.script.delivered.map (Op.append t) ++
          [Op.fsync t, Op.rename t c.cache])) := by
      simp [download, ht, hs]
    rw [hops, run_cons, run_append, run_append]
    -- after mkdir and the O_EXCL attempts: the temp file exists and is empty
    have h1 : (apply e.now fs Op.mkdir).file = fs.file := rfl
    generalize apply e.now fs Op.mkdir = fs1 at h1
    have h2 := createTemp_run e.now c e.rands fs1
    rw [h1] at h2
    rw [h2, ht]
    simp only []
    -- after the writes: the temp file holds all delivered chunks
    have h3 := run_appends e.now t e.script.delivered
      (fs1.set t (some ⟨[], e.now⟩)) [] (set_file_eq _ _ _) t
    simp only [↓reduceIte, List.nil_append] at h3
    simp only [run_cons, run_nil, apply, h3]
    rw [set_file_eq, delivered_of_complete _ hcomp]
    rfl

/-! ## Where renames can occur -/

def Op.isRename : Op → Bool
  | .rename _ _ => true
  | _ => false

theorem createTemp_noRename (file : String → Option File) (c : Cfg) (rands : List String) :
    ∀ op ∈ (createTemp file c rands).1, op.isRename = false := by
  induction rands with
  | nil => intro op h; simp [createTemp] at h
  | cons r rs ih =>
    intro op h
    simp only [createTemp] at h
    split at h
    · simp only [List.mem_cons] at h
      rcases h with h | h
      · subst h; rfl
      · exact ih op h
    · simp only [List.mem_cons, List.not_mem_nil, or_false] at h
      subst h; rfl

theorem download_pre_noRename (c : Cfg) (fs : FS) (e : Env) (t : String) :
    ∀ op ∈ Op.mkdir :: (createTemp fs.file c e.rands).1 ++ e.script.delivered.map (Op.append t),
      op.isRename = false := by
  intro op h
  simp only [List.cons_append, List.mem_cons, List.mem_append, List.mem_map] at h
  rcases h with h | h | ⟨ch, _, h⟩
  · subst h; rfl
  · exact createTemp_noRename _ _ _ op h
  · subst h; rfl

/-- A failed download issues no rename at all. -/
theorem download_fail_noRename (c : Cfg) (fs : FS) (e : Env) (h : (download c fs e).ok = false) :
    ∀ op ∈ (download c fs e).ops, op.isRename = false := by
  unfold download at h ⊢
  cases ht : (createTemp fs.file c e.rands).2 with
  | none =>
    simp only [ht]
    intro op hop
    simp only [List.mem_cons] at hop
    rcases hop with hop | hop
    · subst hop; rfl
    · exact createTemp_noRename _ _ _ op hop
  | some t =>
    simp only [ht] at h ⊢
    by_cases hs : e.script.success = true
    · simp [hs] at h
    · simp only [hs]
      intro op hop
      simp only [Bool.false_eq_true, ↓reduceIte] at hop
      rw [List.mem_append] at hop
      rcases hop with hop | hop
      · exact download_pre_noRename c fs e t op hop
      · simp only [List.mem_cons, List.not_mem_nil, or_false] at hop
        subst hop; rfl

/-- A successful download renames exactly once, as its last operation, right after `fsync`
of the same file, and only after every delivered chunk was written. -/
theorem download_ok_order (c : Cfg) (fs : FS) (e : Env) (h : (download c fs e).ok = true) :
    ∃ pre t, (download c fs e).ops = pre ++ [Op.fsync t, Op.rename t c.cache] ∧
      (∀ op ∈ pre, op.isRename = false) ∧
      (∀ ch ∈ e.script.chunks, Op.append t ch ∈ pre) := by
  obtain ⟨hs, t, ht⟩ := (download_ok_iff c fs e).1 h
  obtain ⟨hcomp, _⟩ := (success_iff _).1 hs
  refine ⟨Op.mkdir :: (createTemp fs.file c e.rands).1 ++ e.script.delivered.map (Op.append t), t, ?_,
    download_pre_noRename c fs e t, ?_⟩
  · simp [download, ht, hs]
  · intro ch hch
    rw [delivered_of_complete _ hcomp]
    simp only [List.cons_append, List.mem_cons, List.mem_append, List.mem_map]
    exact Or.inr (Or.inr ⟨ch, hch, rfl⟩)

end Rink.Cache
