import Rink.Spec.Arith
import Mathlib.Tactic.Ring
import Mathlib.Tactic.Linarith
import Mathlib.Tactic.FieldSimp
import Mathlib.Data.Rat.Defs
import Mathlib.Algebra.Order.Field.Rat
import Mathlib.Data.Rat.Cast.Order
/-! Truncation toward zero of a rational: the facts the `mod` and unit-list laws rest on. -/
namespace Rink.Spec

/-- the fractional part left by truncation -/
def fracPart (x : ℚ) : ℚ := x - (trunc x : ℚ)

theorem fracPart_eq (x : ℚ) : fracPart x = ((Int.tmod x.num x.den : ℤ) : ℚ) / (x.den : ℚ) := by
  have hd : (x.den : ℚ) ≠ 0 := by exact_mod_cast x.den_nz
  have hx : x = (x.num : ℚ) / (x.den : ℚ) := (Rat.num_div_den x).symm
  have hdm : (x.num : ℚ) = (x.den : ℚ) * ((Int.tdiv x.num x.den : ℤ) : ℚ) + ((Int.tmod x.num x.den : ℤ) : ℚ) := by
    have := Int.mul_tdiv_add_tmod x.num x.den
    exact_mod_cast this.symm
  unfold fracPart trunc
  rw [eq_div_iff hd]
  have hx' : x * (x.den : ℚ) = (x.num : ℚ) := by
    conv => lhs; lhs; rw [hx]
    field_simp
  calc (x - ((Int.tdiv x.num x.den : ℤ) : ℚ)) * (x.den : ℚ)
      = x * (x.den : ℚ) - (x.den : ℚ) * ((Int.tdiv x.num x.den : ℤ) : ℚ) := by ring
    _ = ((Int.tmod x.num x.den : ℤ) : ℚ) := by rw [hx', hdm]; ring

theorem fracPart_nonneg {x : ℚ} (h : 0 ≤ x) : 0 ≤ fracPart x ∧ fracPart x < 1 := by
  have hdpos : (0 : ℚ) < (x.den : ℚ) := by exact_mod_cast x.den_pos
  have hnum : 0 ≤ x.num := Rat.num_nonneg.mpr h
  have h1 : 0 ≤ Int.tmod x.num x.den := Int.tmod_nonneg _ hnum
  have h2 : Int.tmod x.num x.den < x.den := Int.tmod_lt_of_pos _ (by exact_mod_cast x.den_pos)
  rw [fracPart_eq]
  constructor
  · apply div_nonneg; exact_mod_cast h1; exact le_of_lt hdpos
  · rw [div_lt_iff₀ hdpos, one_mul]; exact_mod_cast h2

theorem trunc_neg (x : ℚ) : trunc (-x) = -trunc x := by
  unfold trunc; simp

theorem fracPart_neg (x : ℚ) : fracPart (-x) = -fracPart x := by
  unfold fracPart; rw [trunc_neg]; push_cast; ring

theorem fracPart_nonpos {x : ℚ} (h : x ≤ 0) : -1 < fracPart x ∧ fracPart x ≤ 0 := by
  have := fracPart_nonneg (x := -x) (by linarith)
  rw [fracPart_neg] at this
  constructor <;> linarith [this.1, this.2]

theorem abs_fracPart_lt_one (x : ℚ) : |fracPart x| < 1 := by
  rcases le_total 0 x with h | h
  · have := fracPart_nonneg h; rw [abs_of_nonneg this.1]; exact this.2
  · have := fracPart_nonpos h; rw [abs_of_nonpos this.2]; linarith [this.1]

/-- the integer part never overshoots: it has the sign of `x` (or is zero) -/
theorem trunc_sign_nonneg {x : ℚ} (h : 0 ≤ x) : 0 ≤ trunc x :=
  Int.tdiv_nonneg (Rat.num_nonneg.mpr h) (by exact_mod_cast Nat.zero_le _)

theorem trunc_sign_nonpos {x : ℚ} (h : x ≤ 0) : trunc x ≤ 0 := by
  have := trunc_sign_nonneg (x := -x) (by linarith)
  rw [trunc_neg] at this; linarith

end Rink.Spec
