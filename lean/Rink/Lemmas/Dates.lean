import Rink.Lemmas.Trunc
import Rink.Model.Dates
import Mathlib.Tactic.IntervalCases
import Mathlib.Algebra.Order.Ring.Abs
import Mathlib.Algebra.Order.Field.Basic
/-!
Helper lemmas for C14: truncation of rationals, the exact value of the `to_duration`
computation for an arbitrary sub-millisecond factor, `from_duration`, and the calendar.
-/
namespace Rink.Dates
open Rink Rink.Spec

/-! ### truncation toward zero -/

theorem rat_abs_eq (t : ℚ) : t.abs = |t| := by
  unfold Rat.abs
  split
  · rename_i h; exact (abs_of_nonneg h).symm
  · rename_i h; exact (abs_of_neg (not_le.mp h)).symm

theorem trunc_intCast (k : ℤ) : trunc (k : ℚ) = k := by
  unfold trunc; simp

/-- the fractional part has the sign of the number -/
theorem trunc_add_fracPart (x : ℚ) : x = (trunc x : ℚ) + fracPart x := by
  unfold fracPart; ring

theorem trunc_unique_nonneg (x : ℚ) (n : ℤ) (f : ℚ) (hx : 0 ≤ x) (h : x = n + f) (hf0 : 0 ≤ f)
    (hf1 : f < 1) : trunc x = n := by
  have hg := fracPart_nonneg hx
  have hx' := trunc_add_fracPart x
  have h1 : ((trunc x : ℤ) : ℚ) - (n : ℚ) < 1 := by linarith [hg.1, hg.2]
  have h2 : (-1 : ℚ) < ((trunc x : ℤ) : ℚ) - (n : ℚ) := by linarith [hg.1, hg.2]
  have h1' : trunc x - n < 1 := by exact_mod_cast h1
  have h2' : -1 < trunc x - n := by exact_mod_cast h2
  omega

theorem trunc_unique_nonpos (x : ℚ) (n : ℤ) (f : ℚ) (hx : x ≤ 0) (h : x = n + f) (hf0 : f ≤ 0)
    (hf1 : -1 < f) : trunc x = n := by
  have := trunc_unique_nonneg (-x) (-n) (-f) (by linarith) (by rw [h]; push_cast; ring)
    (by linarith) (by linarith)
  rw [trunc_neg] at this; omega

theorem abs_trunc_le (x : ℚ) : |((trunc x : ℤ) : ℚ)| ≤ |x| := by
  rcases le_total 0 x with h | h
  · have h1 := trunc_sign_nonneg h
    have h2 := fracPart_nonneg h
    have h3 := trunc_add_fracPart x
    rw [abs_of_nonneg h, abs_of_nonneg (by exact_mod_cast h1)]
    linarith [h2.1]
  · have h1 := trunc_sign_nonpos h
    have h2 := fracPart_nonpos h
    have h3 := trunc_add_fracPart x
    rw [abs_of_nonpos h, abs_of_nonpos (by exact_mod_cast h1)]
    linarith [h2.2]

/-- scaling by a positive integer: the integer part scales, the fractional part is truncated
on its own: `trunc (x·c) = trunc x · c + trunc (frac x · c)` -/
theorem trunc_mul_nat (x : ℚ) (c : ℤ) (hc : 0 ≤ c) :
    trunc (x * c) = trunc x * c + trunc (fracPart x * c) := by
  have hcq : (0 : ℚ) ≤ (c : ℚ) := by exact_mod_cast hc
  have hx := trunc_add_fracPart x
  have hy := trunc_add_fracPart (fracPart x * c)
  have key : x * c = ((trunc x * c + trunc (fracPart x * c) : ℤ) : ℚ) + fracPart (fracPart x * c) := by
    push_cast
    calc x * c = ((trunc x : ℚ) + fracPart x) * c := by rw [← hx]
      _ = (trunc x : ℚ) * c + fracPart x * c := by ring
      _ = (trunc x : ℚ) * c + ((trunc (fracPart x * c) : ℚ) + fracPart (fracPart x * c)) := by rw [← hy]
      _ = _ := by ring
  rcases le_total 0 x with h | h
  · have hf := fracPart_nonneg h
    have hfc : 0 ≤ fracPart x * c := mul_nonneg hf.1 hcq
    have hg := fracPart_nonneg hfc
    exact trunc_unique_nonneg _ _ _ (mul_nonneg h hcq) key hg.1 hg.2
  · have hf := fracPart_nonpos h
    have hfc : fracPart x * c ≤ 0 := mul_nonpos_of_nonpos_of_nonneg hf.2 hcq
    have hg := fracPart_nonpos hfc
    exact trunc_unique_nonpos _ _ _ (mul_nonpos_of_nonpos_of_nonneg h hcq) key hg.2 hg.1

/-! ### `to_duration` -/

theorem toInt_of_bound (q : ℚ) (h : |q| ≤ (i64Max : ℚ)) : toInt q = some (trunc q) := by
  have h1 := abs_trunc_le q
  have h2 : |((trunc q : ℤ) : ℚ)| ≤ (i64Max : ℚ) := le_trans h1 h
  have h3 : |trunc q| ≤ i64Max := by exact_mod_cast h2
  have h4 := abs_le.mp h3
  unfold toInt
  simp only [trunc] at h4 ⊢
  rw [if_pos]
  constructor <;> omega

/-- the value `to_duration` computes, for any factor `s` applied to the remainder: the
whole milliseconds of `t` plus the truncation of (fraction of a millisecond) · `s`
nanoseconds; a panic when that sum leaves chrono's `TimeDelta` range. -/
theorem toDurationWith_eq (s : ℤ) (hs0 : 0 ≤ s) (hs1 : s ≤ i64Max) (t : ℚ) (ht : |t| ≤ (maxSecs : ℚ)) :
    toDurationWith s t =
      match tdNew (trunc (t * 1000) * 1000000 + trunc (fracPart (t * 1000) * s)) with
      | some d => .ok d
      | none => .panic "`TimeDelta + TimeDelta` overflowed" := by
  have hmax : (maxSecs : ℚ) = 9223372036854775 := by norm_num [maxSecs]
  have hi64 : (i64Max : ℚ) = 9223372036854775807 := by norm_num [i64Max]
  have hnot : ¬ (t.abs > (maxSecs : ℚ)) := by rw [rat_abs_eq]; exact not_lt.mpr ht
  have hx : |t * 1000| ≤ (i64Max : ℚ) := by
    rw [abs_mul, abs_of_pos (by norm_num : (0 : ℚ) < 1000), hi64]
    rw [hmax] at ht; linarith
  have hms : toInt ((trunc (t * 1000) : ℤ) : ℚ) = some (trunc (t * 1000)) := by
    have := toInt_of_bound ((trunc (t * 1000) : ℤ) : ℚ) (le_trans (abs_trunc_le _) hx)
    rwa [trunc_intCast] at this
  have hf : |fracPart (t * 1000) * s| ≤ (i64Max : ℚ) := by
    have h1 := abs_fracPart_lt_one (t * 1000)
    have hsq : (0 : ℚ) ≤ (s : ℚ) := by exact_mod_cast hs0
    have hsq1 : (s : ℚ) ≤ (i64Max : ℚ) := by exact_mod_cast hs1
    rw [abs_mul, abs_of_nonneg hsq]
    calc |fracPart (t * 1000)| * (s : ℚ) ≤ 1 * (s : ℚ) := by
          apply mul_le_mul_of_nonneg_right (le_of_lt h1) hsq
      _ ≤ (i64Max : ℚ) := by linarith
  have hns := toInt_of_bound _ hf
  have hlow : ¬ (trunc (t * 1000) < -i64Max) := by
    have h1 := le_trans (abs_trunc_le (t * 1000)) hx
    have h2 : |trunc (t * 1000)| ≤ i64Max := by exact_mod_cast h1
    have := (abs_le.mp h2).1
    omega
  unfold toDurationWith
  rw [if_neg hnot]
  simp only [Numeric.divRem]
  have hone : ¬ ((1 : ℚ) = 0) := by norm_num
  rw [if_neg hone]
  have hq : t * 1000 / 1 = t * 1000 := by ring
  simp only [hq]
  have htr : Int.tdiv (t * 1000).num (t * 1000).den = trunc (t * 1000) := rfl
  have hrem : t * 1000 - 1 * ((trunc (t * 1000) : ℤ) : ℚ) = fracPart (t * 1000) := by
    unfold fracPart; ring
  simp only [htr, hrem, hms, hns, if_neg hlow]
  rfl

theorem trunc_ns_bound (t : ℚ) (ht : |t| ≤ (maxSecs : ℚ)) :
    -tdMaxNs ≤ trunc (t * 1000000000) ∧ trunc (t * 1000000000) ≤ tdMaxNs := by
  have hmax : (maxSecs : ℚ) = 9223372036854775 := by norm_num [maxSecs]
  have h1 := abs_trunc_le (t * 1000000000)
  have h2 : |t * 1000000000| ≤ (tdMaxNs : ℚ) := by
    rw [abs_mul, abs_of_pos (by norm_num : (0 : ℚ) < 1000000000)]
    rw [hmax] at ht
    have : (tdMaxNs : ℚ) = 9223372036854775807000000 := by norm_num [tdMaxNs]
    rw [this]; linarith
  have h3 : |trunc (t * 1000000000)| ≤ tdMaxNs := by exact_mod_cast le_trans h1 h2
  exact ⟨by have := (abs_le.mp h3).1; omega, (abs_le.mp h3).2⟩

/-- **the repaired computation is exact truncation to nanoseconds**, for every rational
number of seconds within the documented range -/
theorem toDurationFixed_eq_trunc (t : ℚ) (ht : |t| ≤ (maxSecs : ℚ)) :
    toDurationFixed t = .ok (trunc (t * 1000000000)) := by
  unfold toDurationFixed
  rw [toDurationWith_eq 1000000 (by norm_num) (by norm_num [i64Max]) t ht]
  have h := trunc_mul_nat (t * 1000) 1000000 (by norm_num)
  have h' : t * 1000 * ((1000000 : ℤ) : ℚ) = t * 1000000000 := by push_cast; ring
  rw [h'] at h
  rw [← h]
  have hb := trunc_ns_bound t ht
  simp [tdNew, hb.1, hb.2]

/-- the pinned computation, on a whole number `k` of nanoseconds: the sub-millisecond part
of `k` comes out a thousand times too large -/
theorem toDuration_ns (k : ℤ) (hk : |(k : ℚ) / 1000000000| ≤ (maxSecs : ℚ)) :
    toDuration ((k : ℚ) / 1000000000) =
      match tdNew (Int.tdiv k 1000000 * 1000000 + Int.tmod k 1000000 * 1000) with
      | some d => .ok d
      | none => .panic "`TimeDelta + TimeDelta` overflowed" := by
  unfold toDuration
  rw [toDurationWith_eq 1000000000 (by norm_num) (by norm_num [i64Max]) _ hk]
  -- (k/10⁹)·1000 = k/10⁶ = tdiv k 10⁶ + (tmod k 10⁶)/10⁶
  have hsplit : (k : ℚ) = (1000000 : ℚ) * ((Int.tdiv k 1000000 : ℤ) : ℚ) + ((Int.tmod k 1000000 : ℤ) : ℚ) := by
    have := Int.mul_tdiv_add_tmod k 1000000
    exact_mod_cast this.symm
  have hx : (k : ℚ) / 1000000000 * 1000 = ((Int.tdiv k 1000000 : ℤ) : ℚ) + ((Int.tmod k 1000000 : ℤ) : ℚ) / 1000000 := by
    rw [div_mul_eq_mul_div, div_eq_iff (by norm_num)]
    conv => lhs; rw [hsplit]
    ring
  have htr : trunc ((k : ℚ) / 1000000000 * 1000) = Int.tdiv k 1000000 := by
    rcases le_total 0 k with h | h
    · have h1 : 0 ≤ Int.tmod k 1000000 := Int.tmod_nonneg _ h
      have h2 : Int.tmod k 1000000 < 1000000 := Int.tmod_lt_of_pos _ (by norm_num)
      apply trunc_unique_nonneg _ _ _ _ hx
      · apply div_nonneg; exact_mod_cast h1; norm_num
      · rw [div_lt_one (by norm_num)]; exact_mod_cast h2
      · apply mul_nonneg; apply div_nonneg; exact_mod_cast h; norm_num; norm_num
    · have h1 : 0 ≤ Int.tmod (-k) 1000000 := Int.tmod_nonneg _ (by omega)
      have h2 : Int.tmod (-k) 1000000 < 1000000 := Int.tmod_lt_of_pos _ (by norm_num)
      rw [Int.neg_tmod] at h1 h2
      apply trunc_unique_nonpos _ _ _ _ hx
      · apply div_nonpos_of_nonpos_of_nonneg; exact_mod_cast (by omega : Int.tmod k 1000000 ≤ 0); norm_num
      · rw [lt_div_iff₀ (by norm_num)]; exact_mod_cast (by omega : (-1 : ℤ) * 1000000 < Int.tmod k 1000000)
      · apply mul_nonpos_of_nonpos_of_nonneg
        · apply div_nonpos_of_nonpos_of_nonneg; exact_mod_cast h; norm_num
        · norm_num
  have hfr : fracPart ((k : ℚ) / 1000000000 * 1000) * ((1000000000 : ℤ) : ℚ) = ((Int.tmod k 1000000 * 1000 : ℤ) : ℚ) := by
    unfold fracPart
    rw [htr]
    conv => lhs; lhs; lhs; rw [hx]
    push_cast; ring
  rw [htr, hfr, trunc_intCast]

/-! ### `from_duration` -/

theorem tmod_bounds (d : ℤ) : -1000000 < Int.tmod d 1000000 ∧ Int.tmod d 1000000 < 1000000 := by
  rcases le_total 0 d with h | h
  · have h1 : 0 ≤ Int.tmod d 1000000 := Int.tmod_nonneg _ h
    have h2 : Int.tmod d 1000000 < 1000000 := Int.tmod_lt_of_pos _ (by norm_num)
    constructor <;> omega
  · have h1 : 0 ≤ Int.tmod (-d) 1000000 := Int.tmod_nonneg _ (by omega)
    have h2 : Int.tmod (-d) 1000000 < 1000000 := Int.tmod_lt_of_pos _ (by norm_num)
    rw [Int.neg_tmod] at h1 h2
    constructor <;> omega

/-- `from_duration` is exact and never reaches its `unwrap`, for every `TimeDelta` -/
theorem fromDuration_eq (d : ℤ) : fromDuration d = .ok ((d : ℚ) / 1000000000) := by
  have hb := tmod_bounds d
  have hdef : d - Int.tdiv d 1000000 * 1000000 = Int.tmod d 1000000 := by
    rw [Int.tmod_def]; ring
  unfold fromDuration
  simp only [hdef]
  rw [if_pos (by constructor <;> (simp only [i64Max]; omega))]
  congr 1
  have hsplit : (d : ℚ) = (1000000 : ℚ) * ((Int.tdiv d 1000000 : ℤ) : ℚ) + ((Int.tmod d 1000000 : ℤ) : ℚ) := by
    have := Int.mul_tdiv_add_tmod d 1000000
    exact_mod_cast this.symm
  conv => rhs; rw [hsplit]
  ring

/-! ### range of instants -/

theorem inRange_iff (n : ℤ) : inRange n = true ↔ (minNs ≤ n ∧ n ≤ maxNs) := by
  simp [inRange]

theorem range_numerals : minNs = -8334601228800000000000 ∧ maxNs = 8210266876799999999999 := by
  decide

/-! ### calendar -/

theorem isLeap_iff (y : ℤ) : isLeap y = true ↔ (y % 4 = 0 ∧ (y % 100 ≠ 0 ∨ y % 400 = 0)) := by
  simp [isLeap]

theorem daysBeforeYear_succ (y : ℤ) : daysBeforeYear (y + 1) = daysBeforeYear y + yearLength y := by
  unfold daysBeforeYear yearLength
  by_cases h : isLeap y = true
  · rw [if_pos h]; rw [isLeap_iff] at h; omega
  · rw [if_neg h]; rw [isLeap_iff] at h; omega

theorem daysBeforeYear_era (y : ℤ) : daysBeforeYear (y + 400) = daysBeforeYear y + 146097 := by
  unfold daysBeforeYear; omega

theorem isLeap_era (y : ℤ) : isLeap (y + 400) = isLeap y := by
  have h1 : (y + 400) % 4 = y % 4 := by omega
  have h2 : (y + 400) % 100 = y % 100 := by omega
  have h3 : (y + 400) % 400 = y % 400 := by omega
  simp [isLeap, h1, h2, h3]

theorem cumDays_succ (m : ℤ) (h1 : 1 ≤ m) (h2 : m ≤ 11) :
    cumDays (m + 1) = cumDays m + (if m = 2 then 28 else if m = 4 ∨ m = 6 ∨ m = 9 ∨ m = 11 then 30 else 31) := by
  interval_cases m <;> simp [cumDays]

theorem daysBeforeMonth_succ (y m : ℤ) (h1 : 1 ≤ m) (h2 : m ≤ 11) :
    daysBeforeMonth y (m + 1) = daysBeforeMonth y m + monthLength y m := by
  unfold daysBeforeMonth monthLength
  rw [cumDays_succ m h1 h2]
  interval_cases m <;> cases isLeap y <;> simp <;> omega

theorem daysBeforeMonth_dec (y : ℤ) : daysBeforeMonth y 12 + 31 = yearLength y := by
  unfold daysBeforeMonth yearLength
  cases isLeap y <;> simp [cumDays]

theorem daysBeforeMonth_jan (y : ℤ) : daysBeforeMonth y 1 = 0 := by
  simp [daysBeforeMonth, cumDays]

theorem monthLength_pos (y m : ℤ) : 28 ≤ monthLength y m ∧ monthLength y m ≤ 31 := by
  unfold monthLength
  split
  · split <;> omega
  · split <;> omega

end Rink.Dates
