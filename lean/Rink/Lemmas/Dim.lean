import Rink.Model.Dim
/-! Lemmas about `Dim.merge` and the operations built on it. Core Lean only. -/
namespace Rink.Dim

theorem str_lt_irrefl (a : String) : ¬ a < a := by
  intro h
  exact absurd h (String.lt_irrefl a)

@[simp] theorem merge_nil_left (f) (r : Dim) : merge f [] r = r := by
  cases r <;> simp [merge]

@[simp] theorem merge_nil_right (f) (l : Dim) : merge f l [] = l := by
  cases l <;> simp [merge]

@[simp] theorem mul_nil_left (d : Dim) : mul [] d = d := by simp [mul]
@[simp] theorem mul_nil_right (d : Dim) : mul d [] = d := by simp [mul]

/-- a dimensionality times its reciprocal is dimensionless — for *any* list, sorted or not -/
theorem mul_recip_self (d : Dim) : mul d (d.map fun (k, p) => (k, -p)) = [] := by
  induction d with
  | nil => simp [mul]
  | cons x xs ih =>
    obtain ⟨k, p⟩ := x
    simp only [mul, List.map_cons]
    rw [merge]
    simp only [str_lt_irrefl, if_false]
    have : addDrop p (-p) = none := by simp [addDrop]; omega
    rw [this]
    exact ih

end Rink.Dim
