import Rink.Model.Alloc

/-! Helper lemmas for the allocator invariant (C19). Core Lean only. -/
namespace Rink.Alloc

theorem sumBy_set (f : PC → Nat) (l : List PC) (t : Nat) (old new : PC)
    (h : l[t]? = some old) :
    sumBy f (l.set t new) + f old = sumBy f l + f new := by
  induction l generalizing t with
  | nil => simp at h
  | cons x xs ih =>
    cases t with
    | zero =>
      simp at h; subst h
      simp [sumBy]; omega
    | succ t =>
      simp at h
      have := ih t h
      simp [sumBy] at this ⊢; omega

theorem accepted_le_charge (limit : Nat) (pc : PC) : pc.accepted limit ≤ pc.charge := by
  cases pc <;> simp [PC.accepted, PC.charge] <;> split <;> omega

theorem sumBy_le (f g : PC → Nat) (h : ∀ pc, f pc ≤ g pc) (l : List PC) :
    sumBy f l ≤ sumBy g l := by
  induction l with
  | nil => simp [sumBy]
  | cons x xs ih => simp [sumBy] at ih ⊢; have := h x; omega

theorem sumBy_idle (f : PC → Nat) (hf : f .idle = 0) (l : List PC)
    (h : ∀ pc ∈ l, pc = .idle) : sumBy f l = 0 := by
  induction l with
  | nil => simp [sumBy]
  | cons x xs ih =>
    have hx : x = .idle := h x (by simp)
    have := ih (fun pc hp => h pc (by simp [hp]))
    simp [sumBy] at this ⊢; subst hx; simp [hf, this]

theorem le_sumBy (f : PC → Nat) (l : List PC) (t : Nat) (pc : PC) (h : l[t]? = some pc) :
    f pc ≤ sumBy f l := by
  induction l generalizing t with
  | nil => simp at h
  | cons x xs ih =>
    cases t with
    | zero => simp at h; subst h; simp [sumBy]
    | succ t => simp at h; have := ih t h; simp [sumBy] at this ⊢; omega

/-- A thread that has been accepted by the limit check but has not yet published its
`new_size` into `max`. -/
def PC.inQ (limit cover : Nat) : PC → Prop
  | .aChk _ ns => ns = cover ∧ ns ≤ limit
  | .rChk _ _ nu => nu = cover ∧ nu ≤ limit
  | _ => False

/-- Any thread between an accepted `fetch_add` and its `fetch_max`. -/
def PC.pendingMax (limit : Nat) : PC → Prop
  | .aChk _ ns => ns ≤ limit
  | .rChk _ _ nu => nu ≤ limit
  | _ => False

structure Inv (s : State) : Prop where
  /-- conservation: every byte in `used` is a live block or an in-flight charge -/
  cons : s.used = s.live + s.charges
  /-- live blocks plus charges that passed the check never exceed the limit -/
  lim : s.live + s.acceptedTotal ≤ s.limit
  cov : s.live + s.acceptedTotal ≤ s.cover
  peak : s.cover ≤ s.max ∨
    ∃ t pc, s.coverBy = some t ∧ s.pcs[t]? = some pc ∧ pc.inQ s.limit s.cover

theorem inv_init (limit threads : Nat) : Inv (init limit threads) := by
  have hidle : ∀ pc ∈ List.replicate threads PC.idle, pc = PC.idle := by
    intro pc h; exact (List.mem_replicate.mp h).2
  have h1 := sumBy_idle PC.charge rfl _ hidle
  have h2 := sumBy_idle PC.held rfl _ hidle
  have h3 := sumBy_idle (PC.accepted limit) rfl _ hidle
  constructor <;> simp [init, State.live, State.charges, State.heldTotal, State.acceptedTotal, h1, h2, h3]

end Rink.Alloc

namespace Rink.Alloc

theorem sum_eraseIdx (l : List Nat) (i : Nat) (x : Nat) (h : l[i]? = some x) :
    (l.eraseIdx i).sum + x = l.sum := by
  induction l generalizing i with
  | nil => simp at h
  | cons y ys ih =>
    cases i with
    | zero => simp at h; subst h; simp; omega
    | succ i => simp at h; have := ih i h; simp; omega

theorem getElem?_set_ne' (l : List PC) (t t' : Nat) (x : PC) (h : t ≠ t') :
    (l.set t x)[t']? = l[t']? := by
  simp [List.getElem?_set, h]

/-- the peak disjunct survives a step of thread `t` that changes neither `cover`,
`coverBy`, `limit` nor lowers `max`, provided `t`'s old pc was not in `inQ`. -/
theorem peak_preserved (s : State) (t : Nat) (old new : PC) (mx : Nat)
    (hpc : s.pcs[t]? = some old) (hold : ¬ old.inQ s.limit s.cover) (hmx : s.max ≤ mx)
    (h : s.cover ≤ s.max ∨ ∃ t pc, s.coverBy = some t ∧ s.pcs[t]? = some pc ∧ pc.inQ s.limit s.cover) :
    s.cover ≤ mx ∨ ∃ t' pc, s.coverBy = some t' ∧ (s.pcs.set t new)[t']? = some pc ∧ pc.inQ s.limit s.cover := by
  rcases h with h | ⟨t', pc, h1, h2, h3⟩
  · left; omega
  · right
    by_cases htt : t = t'
    · subst htt; rw [hpc] at h2; cases h2; exact absurd h3 hold
    · exact ⟨t', pc, h1, by rw [getElem?_set_ne' _ _ _ _ htt]; exact h2, h3⟩

end Rink.Alloc
