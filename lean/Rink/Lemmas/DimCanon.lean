import Rink.Lemmas.Dim
import Mathlib.Data.String.Basic
import Mathlib.Order.Basic
/-! `Canonical` (strictly sorted keys, no zero exponent) is preserved by every operation on
dimensionalities that the evaluator performs. -/
namespace Rink.Dim

/-- `k` is a strict lower bound of all keys -/
def LB (k : String) (d : Dim) : Prop := ∀ x ∈ d, k < x.1

theorem sorted_cons_iff (x : String × Int) (xs : Dim) : Sorted (x :: xs) ↔ LB x.1 xs ∧ Sorted xs := by
  induction xs generalizing x with
  | nil => simp [Sorted, LB]
  | cons y ys ih =>
    obtain ⟨k1, p1⟩ := x; obtain ⟨k2, p2⟩ := y
    simp only [Sorted]
    rw [ih]
    constructor
    · rintro ⟨h12, hlb, hs⟩
      refine ⟨?_, hlb, hs⟩
      intro z hz
      rcases List.mem_cons.mp hz with rfl | hz
      · exact h12
      · exact lt_trans h12 (hlb z hz)
    · rintro ⟨hlb, hlb2, hs⟩
      exact ⟨hlb (k2, p2) (by simp), hlb2, hs⟩

theorem LB_cons {k : String} {x : String × Int} {xs : Dim} : LB k (x :: xs) ↔ k < x.1 ∧ LB k xs := by
  simp [LB]

theorem LB_of_lt {k k' : String} {d : Dim} (h : k < k') (hd : LB k' d) : LB k d :=
  fun x hx => lt_trans h (hd x hx)

theorem merge_sorted (f : Int → Int → Option Int) (a b : Dim) (ha : Sorted a) (hb : Sorted b) :
    Sorted (merge f a b) ∧ ∀ k, LB k a → LB k b → LB k (merge f a b) := by
  fun_induction merge f a b with
  | case1 r => exact ⟨hb, fun _ _ h => h⟩
  | case2 l hl => exact ⟨ha, fun _ h _ => h⟩
  | case3 ka va l kb vb r hlt ih =>
    rw [sorted_cons_iff] at ha
    have ih := ih ha.2 hb
    refine ⟨?_, ?_⟩
    · rw [sorted_cons_iff]
      refine ⟨ih.2 ka ha.1 ?_, ih.1⟩
      rw [sorted_cons_iff] at hb
      exact LB_cons.mpr ⟨hlt, LB_of_lt hlt hb.1⟩
    · intro k h1 h2
      exact LB_cons.mpr ⟨(LB_cons.mp h1).1, ih.2 k (LB_cons.mp h1).2 h2⟩
  | case4 ka va l kb vb r hnlt hgt ih =>
    rw [sorted_cons_iff] at hb
    have ih := ih ha hb.2
    refine ⟨?_, ?_⟩
    · rw [sorted_cons_iff]
      refine ⟨ih.2 kb ?_ hb.1, ih.1⟩
      rw [sorted_cons_iff] at ha
      exact LB_cons.mpr ⟨hgt, LB_of_lt hgt ha.1⟩
    · intro k h1 h2
      exact LB_cons.mpr ⟨(LB_cons.mp h2).1, ih.2 k h1 (LB_cons.mp h2).2⟩
  | case5 ka va l kb vb r hnlt hngt v hv ih =>
    have hk : ka = kb := le_antisymm (not_lt.mp hngt) (not_lt.mp hnlt)
    subst hk
    rw [sorted_cons_iff] at ha hb
    have ih := ih ha.2 hb.2
    refine ⟨?_, ?_⟩
    · rw [sorted_cons_iff]; exact ⟨ih.2 ka ha.1 hb.1, ih.1⟩
    · intro k h1 h2
      exact LB_cons.mpr ⟨(LB_cons.mp h1).1, ih.2 k (LB_cons.mp h1).2 (LB_cons.mp h2).2⟩
  | case6 ka va l kb vb r hnlt hngt hv ih =>
    rw [sorted_cons_iff] at ha hb
    have ih := ih ha.2 hb.2
    exact ⟨ih.1, fun k h1 h2 => ih.2 k (LB_cons.mp h1).2 (LB_cons.mp h2).2⟩

theorem merge_nozero (f : Int → Int → Option Int) (hf : ∀ a b v, f a b = some v → v ≠ 0)
    (a b : Dim) (ha : NoZero a) (hb : NoZero b) : NoZero (merge f a b) := by
  fun_induction merge f a b with
  | case1 r => exact hb
  | case2 l hl => exact ha
  | case3 ka va l kb vb r hlt ih =>
    intro x hx
    rcases List.mem_cons.mp hx with rfl | hx
    · exact ha _ (by simp)
    · exact ih (fun y hy => ha y (by simp [hy])) hb x hx
  | case4 ka va l kb vb r hnlt hgt ih =>
    intro x hx
    rcases List.mem_cons.mp hx with rfl | hx
    · exact hb _ (by simp)
    · exact ih ha (fun y hy => hb y (by simp [hy])) x hx
  | case5 ka va l kb vb r hnlt hngt v hv ih =>
    intro x hx
    rcases List.mem_cons.mp hx with rfl | hx
    · exact hf _ _ _ hv
    · exact ih (fun y hy => ha y (by simp [hy])) (fun y hy => hb y (by simp [hy])) x hx
  | case6 ka va l kb vb r hnlt hngt hv ih =>
    exact ih (fun y hy => ha y (by simp [hy])) (fun y hy => hb y (by simp [hy]))

theorem addDrop_ne_zero (a b v : Int) (h : addDrop a b = some v) : v ≠ 0 := by
  unfold addDrop at h
  split at h
  · cases h; assumption
  · cases h

/-- products of canonical dimensionalities are canonical -/
theorem mul_canonical (a b : Dim) (ha : Canonical a) (hb : Canonical b) : Canonical (mul a b) :=
  ⟨(merge_sorted _ a b ha.1 hb.1).1, merge_nozero _ addDrop_ne_zero a b ha.2 hb.2⟩

theorem map_exp_sorted (g : Int → Int) (a : Dim) (ha : Sorted a) : Sorted (a.map fun (k, p) => (k, g p)) := by
  induction a with
  | nil => simp [Sorted]
  | cons x xs ih =>
    rw [sorted_cons_iff] at ha
    simp only [List.map_cons]
    rw [sorted_cons_iff]
    refine ⟨?_, ih ha.2⟩
    intro y hy
    obtain ⟨z, hz, rfl⟩ := List.mem_map.mp hy
    exact ha.1 z hz

theorem map_exp_nozero (g : Int → Int) (hg : ∀ p, p ≠ 0 → g p ≠ 0) (a : Dim) (ha : NoZero a) :
    NoZero (a.map fun (k, p) => (k, g p)) := by
  intro y hy
  obtain ⟨z, hz, rfl⟩ := List.mem_map.mp hy
  exact hg _ (ha z hz)

theorem recip_canonical (a : Dim) (ha : Canonical a) : Canonical (a.map fun (k, p) => (k, -p)) :=
  ⟨map_exp_sorted _ a ha.1, map_exp_nozero _ (fun p hp => by omega) a ha.2⟩

theorem pow_canonical (a : Dim) (e : Int) (ha : Canonical a) : Canonical (pow a e) := by
  unfold pow
  split
  · exact ⟨by simp [Sorted], by simp [NoZero]⟩
  · rename_i he
    exact ⟨map_exp_sorted (fun p => p * e) a ha.1, map_exp_nozero (fun p => p * e) (fun p hp => Int.mul_ne_zero hp he) a ha.2⟩

theorem root_canonical (a : Dim) (e : Int) (ha : Canonical a)
    (hdiv : a.any (fun (_, p) => p % e != 0) = false) : Canonical (a.map fun (k, p) => (k, p / e)) := by
  refine ⟨map_exp_sorted (fun p => p / e) a ha.1, ?_⟩
  intro y hy
  obtain ⟨z, hz, rfl⟩ := List.mem_map.mp hy
  have hz0 := ha.2 z hz
  have hmod : z.2 % e = 0 := by
    have := List.any_eq_false.mp hdiv z hz
    simpa using this
  intro h0
  have : z.2 = e * (z.2 / e) + z.2 % e := (Int.mul_ediv_add_emod z.2 e).symm
  simp only at h0
  rw [h0, hmod] at this
  simp at this
  exact hz0 this

theorem nil_canonical : Canonical [] := ⟨by simp [Sorted], by simp [NoZero]⟩
theorem baseUnit_canonical (s : String) : Canonical (baseUnit s) := ⟨by simp [baseUnit, Sorted], by simp [baseUnit, NoZero]⟩

end Rink.Dim
