import Rink.Model.Substance
import Rink.Driver.Common
import Std.Data.HashMap
/-! Driver for C16: loads substances from the registry dump, answers `sget` and `formula`. -/
namespace Rink.Driver.Subst
open Rink Rink.Driver

structure Db where
  subst : Std.HashMap String Substance := {}
  symbols : Std.HashMap String String := {}

def addLine (d : Db) (line : String) : Db :=
  match line.trimAscii.toString.splitOn " " with
  | ["subst", n, v, dims] =>
    match parseNumeric v with
    | some v => { d with subst := d.subst.insert (unhex n) { amount := ⟨v, parseDim dims⟩, name := unhex n, props := [] } }
    | none => d
  | ["prop", n, pn, iv, idims, iname, ov, odims, oname] =>
    match parseNumeric iv, parseNumeric ov, d.subst[unhex n]? with
    | some iv, some ov, some s =>
      let p : Property := { input := ⟨iv, parseDim idims⟩, inputName := unhex iname, output := ⟨ov, parseDim odims⟩, outputName := unhex oname }
      { d with subst := d.subst.insert (unhex n) { s with props := s.props ++ [(unhex pn, p)] } }
    | _, _, _ => d
  | ["symbol", sym, n] => { d with symbols := d.symbols.insert (unhex sym) (unhex n) }
  | _ => d

def fmtOut : Outcome Number → String
  | .ok n => s!"ok {fmtNumber n}"
  | .err c => "err " ++ c.toString
  | .panic _ => "panic"
  | .unsupported w => "unsupported " ++ w

/-- molar mass (kg/mol) of an element symbol, through `symbols → substances → get("molar_mass")` -/
def molarMassOf (d : Db) (sym : String) : Option Rat :=
  match d.symbols[sym]? with
  | none => none
  | some n =>
    match d.subst[n]? with
    | none => none
    | some s =>
      match s.get "molar_mass" with
      | .ok ⟨.rational q, u⟩ => if u == Formula.molarMassUnit then some q else none
      | _ => none

partial def loop (h out : IO.FS.Stream) (d : Db) : IO Unit := do
  let line ← h.getLine
  if line.isEmpty then return ()
  match line.trimAscii.toString.splitOn " " with
  | ["sget", n, v, dims, name] =>
    match d.subst[unhex n]?, parseNumeric v with
    | some s, some v => out.putStrLn (fmtOut (Substance.get { s with amount := ⟨v, parseDim dims⟩ } (unhex name)))
    | _, _ => out.putStrLn "bad-op"
  | ["formula", f] =>
    match Formula.molarMass (molarMassOf d) (unhex f) with
    | some q => out.putStrLn s!"ok {fmtRat q} kg:1,mol:-1"
    | none => out.putStrLn "none"
  | _ => out.putStrLn "bad-op"
  loop h out d

def main (dumpPath : String) : IO Unit := do
  let text ← IO.FS.readFile dumpPath
  let d := (text.splitOn "\n").foldl addLine {}
  loop (← IO.getStdin) (← IO.getStdout) d

end Rink.Driver.Subst
