import Rink.Model.CtxCheck
import Rink.Driver.Common
import Rink.Model.Pretty
import Rink.Driver.Digits
import Std.Data.HashMap
import Std.Data.HashSet
/-! Driver: loads a dump of the real registry, then evaluates request lines on one session. -/
namespace Rink.Driver.Eval
open Rink Rink.Driver Rink.Eval

structure Dump where
  base : Std.HashSet String := {}
  units : Std.HashMap String Number := {}
  unitList : Array (String × Number) := #[]
  prefixes : Array (String × Numeric) := #[]
  defs : Std.HashMap String DefKind := {}
  long : Std.HashMap String String := {}
  quantities : Array (Dim × String) := #[]
  decomp : Array (Dim × String) := #[]
  substances : Std.HashSet String := {}
  category : Std.HashMap String String := {}
  catName : Std.HashMap String String := {}
  tz : Std.HashSet String := {}
  subst : Std.HashMap String Substance := {}
  symbols : Std.HashMap String String := {}

def Dump.addLine (d : Dump) (line : String) : Dump :=
  match line.trimAscii.toString.splitOn " " with
  | ["base", n] => { d with base := d.base.insert (unhex n) }
  | ["unit", n, v, dims] =>
    match parseNumeric v with
    | some v => let num : Number := ⟨v, parseDim dims⟩
                { d with units := d.units.insert (unhex n) num, unitList := d.unitList.push (unhex n, num) }
    | none => d
  | ["prefix", n, v] => match parseNumeric v with
    | some v => { d with prefixes := d.prefixes.push (unhex n, v) }
    | none => d
  | ["def", n, "alias", t] => { d with defs := d.defs.insert (unhex n) (.alias (unhex t)) }
  | ["def", n, "other"] => { d with defs := d.defs.insert (unhex n) .other }
  | ["long", s, l] => { d with long := d.long.insert (unhex s) (unhex l) }
  | ["quantity", dims, n] => { d with quantities := d.quantities.push (parseDim dims, unhex n) }
  | ["decomp", dims, n] => { d with decomp := d.decomp.push (parseDim dims, unhex n) }
  | ["substance", n] => { d with substances := d.substances.insert (unhex n) }
  | ["category", n, c] => { d with category := d.category.insert (unhex n) (unhex c) }
  | ["catname", c, n] => { d with catName := d.catName.insert (unhex c) (unhex n) }
  | ["tz", n] => { d with tz := d.tz.insert (unhex n) }
  | ["symbol", sym, n] => { d with symbols := d.symbols.insert (unhex sym) (unhex n) }
  | ["subst", n, v, dims] =>
    match parseNumeric v with
    | some v => { d with subst := d.subst.insert (unhex n) { amount := ⟨v, parseDim dims⟩, name := unhex n, props := [] } }
    | none => d
  | ["prop", n, pn, iv, idims, iname, ov, odims, oname] =>
    match parseNumeric iv, parseNumeric ov, d.subst[unhex n]? with
    | some iv, some ov, some s =>
      let p : Property := { input := ⟨iv, parseDim idims⟩, inputName := unhex iname, output := ⟨ov, parseDim odims⟩, outputName := unhex oname }
      { d with subst := d.subst.insert (unhex n) { s with props := s.props ++ [(unhex pn, p)] } }
    | _, _, _ => d
  | _ => d

def Dump.toRegistry (d : Dump) : Registry :=
  let qmap : Std.HashMap String String := d.quantities.foldl (fun m (dm, n) => m.insert (fmtDim dm) n) {}
  let qnames : Std.HashSet String := d.quantities.foldl (fun m (_, n) => m.insert n) {}
  { isBaseUnit := fun n => d.base.contains n
    unit := fun n => d.units[n]?
    prefixes := d.prefixes.toList
    definition := fun n => d.defs[n]?
    longName := fun n => d.long[n]?
    quantity := fun dm => qmap[fmtDim dm]?
    quantities := d.quantities.toList
    decomposition := d.decomp.toList
    isSubstanceLike := fun n => d.substances.contains n
    unitList := d.unitList.toList
    category := fun n => d.category[n]?
    categoryName := fun n => d.catName[n]?
    isQuantityName := fun n => qnames.contains n
    substance := fun n => d.subst[n]?
    isFormula := fun n =>
      (Formula.molarMass (fun sym => (d.symbols[sym]?).bind fun full => (d.subst[full]?).bind fun s =>
        match s.get "molar_mass" with | .ok v => (if v.unit == Formula.molarMassUnit then some 0 else none) | _ => none) n).isSome }

/-- dims as printed in answers: plain names raw, others `x<hex>` -/
def parseDimEnc (s : String) : Dim :=
  if s == "-" then [] else
  (s.splitOn ",").filterMap fun part =>
    match part.splitOn ":" with
    | [k, p] => match p.toInt? with
      | some p => some ((if k.startsWith "x" then unhex (k.drop 1).toString else k), p)
      | none => none
    | _ => none

def parseSet (s : String) : List Char :=
  if s == "-" then [] else (s.splitOn ",").filterMap fun h =>
    let v := h.toList.foldl (fun a c => a * 16 + hexVal c) 0
    some (Char.ofNat v)

def fmtEntries (l : List ListEntry) : String :=
  ";".intercalate (l.map fun e => s!"{encName e.name}={fmtNumeric e.value}")

def fmtNames (m : NameMap) : String :=
  if m.isEmpty then "-" else ",".intercalate (m.map fun (k, p) => s!"{encName k}:{p}")

def fmtReply : Reply → String
  | .number n => s!"number {fmtNumber n}"
  | .duration raw parts => s!"duration {fmtNumber raw} {fmtEntries parts}"
  | .defn _ c v => s!"def {encName c} " ++ (match v with | some v => fmtNumber v | none => "none")
  | .conversion raw b names const _ _ =>
    s!"conv {fmtNumber raw} {fmtDim b.unit} {fmtNumeric const} {fmtNames names}"
  | .convNone n _ _ _ => s!"convnone {fmtNumber n}"
  | .unitList _ parts => s!"list {fmtEntries parts}"
  | .unitsFor v groups =>
    let g := ";".intercalate (groups.map fun (c, ns) => (match c with | some c => hex c | none => "-") ++ ":" ++ ",".intercalate (ns.map encName))
    s!"unitsfor {fmtDim v.unit} {g}"
  | .factorize rs =>
    "factorize " ++ ";".intercalate (rs.map fun r => ",".intercalate (r.map fun (n, k) => s!"{encName n}:{k}"))

def hexOpt (o : Option String) : String := match o with | some s => hex s | none => "-"

def fmtParts (kind : String) (p : Pretty.Parts) : String :=
  let raw := match p.rawValue with | some n => fmtNumber n | none => "none"
  let ru := match p.rawUnit with | some d => fmtDim d | none => "none"
  let rd := match p.rawDimensions with | some d => fmtDim d | none => "none"
  s!"parts {kind} raw={raw} exact={hexOpt p.exact} approx={hexOpt p.approx} factor={hexOpt p.factor} div={hexOpt p.divfactor} unit={hexOpt p.unit} rawunit={ru} quantity={hexOpt p.quantity} dims={hexOpt p.dimensions} rawdims={rd}"

def partsOfReply (reg : Registry) : Reply → Option String
  | .number n => (Pretty.toParts Digits.sizeInBaseF reg n).map (fmtParts "number")
  | .conversion raw b names const base digits =>
    (Pretty.showConv Digits.sizeInBaseF reg raw b names const base digits).map (fmtParts "conv")
  | .convNone n base digits _ =>
    (Pretty.toPartsDigits Digits.sizeInBaseF reg n base digits).map (fmtParts "conv")
  | _ => none

/-- `str::trim` with the classifier's notion of whitespace -/
def trim (ws : Char → Bool) (cs : List Char) : List Char :=
  ((cs.dropWhile ws).reverse.dropWhile ws).reverse

structure Sess where
  ctx : Ctx
  tz : Std.HashSet String

def evalLineWith (parts : Bool) (s : Sess) (input alnum ws : String) : Sess × String :=
  let extraAl := parseSet alnum
  let extraWs := parseSet ws
  let cc : Lex.CharClass :=
    { isAlnum := fun c => if c.toNat < 128 then c.isAlphanum else extraAl.contains c
      isWs := fun c => if c.toNat < 128 then (c == ' ' || ('\t' ≤ c && c ≤ '\r')) else extraWs.contains c }
  let cs := trim cc.isWs (unhex input).toList
  let ts := Lex.lex cc cs
  let isTz := fun n => n != "GB" && s.tz.contains n
  let (r, ctx') := Eval.step s.ctx isTz ts
  -- the per-query hypotheses of `query_never_panics`, evaluated on what was parsed
  let q := Parse.parseQuery isTz ts
  let hypOk := (match Rink.Spec.C04.conversionTarget q with | some b => Rink.Spec.C04.noEmptyMulb b | none => true) &&
    (match q with | .expr (.unit name) => !(Eval.canShowDefinition s.ctx name) || Rink.Spec.C04.defShowOKb s.ctx name | _ => true)
  if !hypOk then ({ s with ctx := ctx' }, "model-hypothesis-violated") else
  if parts then
    match r with
    | .ok rep => ({ s with ctx := ctx' }, match partsOfReply s.ctx.reg rep with | some t => t | none => "unsupported parts")
    | _ => ({ s with ctx := ctx' }, fmtErr fmtReply r)
  else ({ s with ctx := ctx' }, fmtErr fmtReply r)

def evalLine := evalLineWith false

partial def loop (h out : IO.FS.Stream) (s : Sess) : IO Unit := do
  let line ← h.getLine
  if line.isEmpty then return ()
  match line.trimAscii.toString.splitOn " " with
  | ["eval", input, alnum, ws] =>
    let (s', o) := evalLine s input alnum ws
    out.putStrLn o
    loop h out s'
  | ["evalt", input, alnum, ws] =>
    let (s', o) := evalLine s input alnum ws
    out.putStrLn o
    loop h out s'
  | ["evalp", input, alnum, ws] =>
    let (s', o) := evalLineWith true s input alnum ws
    out.putStrLn o
    loop h out s'
  | ["name", n] =>
    let name := unhex n
    let v := s.ctx.lookup name
    let c := s.ctx.canonicalize name
    let vc := c.bind s.ctx.lookup
    let f := fun (x : Option Number) => match x with | some x => fmtNumber x | none => "none"
    out.putStrLn s!"{f v} ; {match c with | some c => hex c | none => "none"} ; {f vc}"
    loop h out s
  | ["reset"] =>
    out.putStrLn "ok"
    loop h out { s with ctx := { s.ctx with previous := none, saveAns := true } }
  | ["regdigest"] =>
    out.putStrLn "unsupported digest"
    loop h out s
  | ["preset", v, d] =>
    match parseNumeric v with
    | some v =>
      out.putStrLn "ok"
      loop h out { s with ctx := { s.ctx with previous := some ⟨v, parseDimEnc d⟩ } }
    | none =>
      out.putStrLn "bad-op"
      loop h out s
  | ["settime", _] =>
    -- the clock is outside the model
    out.putStrLn "ok"
    loop h out s
  | ["ans", flag] =>
    out.putStrLn "ok"
    loop h out { s with ctx := { s.ctx with saveAns := flag == "on" } }
  | _ =>
    out.putStrLn "bad-op"
    loop h out s

/-- `ctxok DUMP`: the database facts of C04 on the real registry -/
def ctxokMain (dumpPath : String) : IO Unit := do
  let text ← IO.FS.readFile dumpPath
  let d := (text.splitOn "\n").foldl Dump.addLine {}
  let ctx : Ctx := { reg := d.toRegistry }
  let subs := d.subst.toList
  let bad := subs.filter fun (_, s) => !Rink.Spec.C04.substOKb s
  IO.println s!"ctxok degrees={Rink.Spec.C04.degreesOKb ctx} substances={bad.isEmpty} checked={subs.length}"

def main (dumpPath : String) : IO Unit := do
  let text ← IO.FS.readFile dumpPath
  let d := (text.splitOn "\n").foldl Dump.addLine {}
  let s : Sess := { ctx := { reg := d.toRegistry }, tz := d.tz }
  loop (← IO.getStdin) (← IO.getStdout) s

end Rink.Driver.Eval
