import Rink.Model.Eval
/-! Shared text encoding for the line protocol. -/
namespace Rink.Driver

def hexVal (c : Char) : Nat :=
  if '0' ≤ c && c ≤ '9' then c.toNat - 48 else if 'a' ≤ c && c ≤ 'f' then c.toNat - 87 else 0

/-- decode a hex string of UTF-8 bytes; "-" is the empty string -/
def unhex (s : String) : String :=
  if s == "-" then "" else
  let rec go (cs : List Char) (acc : ByteArray) : ByteArray :=
    match cs with
    | a :: b :: r => go r (acc.push (UInt8.ofNat (hexVal a * 16 + hexVal b)))
    | _ => acc
  match String.fromUTF8? (go s.toList ByteArray.empty) with
  | some s => s
  | none => ""

def hexDigit (n : Nat) : Char := if n < 10 then Char.ofNat (48 + n) else Char.ofNat (87 + n)

def hex (s : String) : String :=
  if s.isEmpty then "-" else
  String.ofList (s.toUTF8.toList.flatMap fun b => [hexDigit (b.toNat / 16), hexDigit (b.toNat % 16)])

/-- names are printed raw when plain, hex-encoded otherwise (same rule in the harness) -/
def encName (s : String) : String :=
  if !s.isEmpty && !s.startsWith "x" && s.toList.all (fun c => c.isAlphanum || c == '_') then s else "x" ++ hex s

/-- decimal digits of a natural number by divide and conquer (`toString` is quadratic, which
takes minutes for numbers of a few hundred thousand digits) -/
partial def natDec (n : Nat) : String :=
  if n < 10 ^ 200 then toString n
  else
    -- about half of the decimal digits
    let k := (Nat.log2 n) * 30103 / 200000
    let p := 10 ^ k
    let lo := natDec (n % p)
    natDec (n / p) ++ String.ofList (List.replicate (k - lo.length) '0') ++ lo

def intDec (i : Int) : String := if i < 0 then "-" ++ natDec i.natAbs else natDec i.natAbs

def fmtRat (q : Rat) : String := s!"{intDec q.num}/{natDec q.den}"

def fmtNumeric : Numeric → String
  | .rational q => fmtRat q
  | .float => "float"

def fmtDim (d : Dim) : String :=
  if d.isEmpty then "-" else ",".intercalate (d.map fun (k, p) => s!"{encName k}:{p}")

def fmtNumber (n : Number) : String := s!"{fmtNumeric n.value} {fmtDim n.unit}"

def parseInt? (s : String) : Option Int := s.toInt?

def parseNumeric (s : String) : Option Numeric :=
  if s == "float" then some .float else
  match s.splitOn "/" with
  | [n, d] => match n.toInt?, d.toNat? with
    | some n, some d => if d = 0 then none else some (.rational (mkRat n d))
    | _, _ => none
  | _ => none

/-- dims in the dump: hex names -/
def parseDim (s : String) : Dim :=
  if s == "-" then [] else
  (s.splitOn ",").filterMap fun part =>
    match part.splitOn ":" with
    | [k, p] => match p.toInt? with
      | some p => some (unhex k, p)
      | none => none
    | _ => none

def fmtDigits : Digits → String
  | .default => "default" | .fullInt => "fullint" | .digits n => s!"digits{n}"
  | .fraction => "fraction" | .scientific => "sci" | .engineering => "eng"

def fmtErr {α} (f : α → String) : Outcome α → String
  | .ok a => f a
  | .err c => "err " ++ c.toString
  | .panic _ => "panic"
  | .unsupported w => "unsupported " ++ w

end Rink.Driver
