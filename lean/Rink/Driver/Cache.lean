import Rink.Model.Cache

/-!
Line-protocol driver for the cache-refresh model (C20).  One scenario per line, one answer
per line.

Request (fields separated by one space):

    scn <entry> <enabled> <fetchOnStartup> <prior> <status> <ending> <chunks> <parse>

* entry            `startup` | `fetch`
* enabled, fetchOnStartup   `0` | `1`          (`[currency]` keys of config.toml)
* prior            `absent` | `fresh:<hex>` | `stale:<hex>` | `future:<hex>`   (`-` = empty
                   contents; `future` = modification time later than the clock)
* status           HTTP status code
* ending           `complete` | `error:<k>` | `stall:<k>`     (k = chunks handed to the client)
* chunks           `-` | `<hex>,<hex>,…`       the pieces of the body in arrival order
* parse            which contents `load_currency` accepts: `none` | `old` | `new` | `both`

Answer:

    ops=<tok,…> states=<s0,…,sn> allowed=<s+s…> final=<s> started=<0|1|-> src=<…> loaded=<0|1|-> exit=<ok|err|->

* ops     operations on the cache directory with `C` for the cache file and `T` for the temp
          file; consecutive writes are merged: `openr:C mkdir creat:T write:T:<bytes> fsync:T
          rename:T:C unlink:T`
* states  state of the cache file after 0,1,…,n of these (merged) operations, i.e. at every
          crash point: `absent` | `old` | `new` | `other`
* allowed the set of states over all crash points
* final   state when the process is not killed
* started / src / loaded   for `startup`: did `load()` return a context, where the currency
          text came from (`fresh|downloaded|stale|none`), did it parse
* exit    for `fetch`: exit status of `--fetch-currency`
-/
namespace Rink.Driver.Cache
open Rink.Cache

def hexVal (c : Char) : Nat :=
  if '0' ≤ c && c ≤ '9' then c.toNat - 48
  else if 'a' ≤ c && c ≤ 'f' then c.toNat - 87
  else if 'A' ≤ c && c ≤ 'F' then c.toNat - 55 else 0

def unhexBytes (s : String) : Bytes :=
  if s == "-" then [] else
  let rec go : List Char → List UInt8
    | a :: b :: r => UInt8.ofNat (hexVal a * 16 + hexVal b) :: go r
    | _ => []
  go s.toList

def nowT : Nat := 100000
def freshT : Nat := nowT - 10
def staleT : Nat := nowT - 7200
def futureT : Nat := nowT + 86400

def cacheOf (c : Cfg) : String := c.cache
def tempOf (c : Cfg) : String := c.temp "RAND"

def parsePrior (s : String) : Option (Option File) :=
  if s == "absent" then some none else
  match s.splitOn ":" with
  | ["fresh", h] => some (some ⟨unhexBytes h, freshT⟩)
  | ["stale", h] => some (some ⟨unhexBytes h, staleT⟩)
  | ["future", h] => some (some ⟨unhexBytes h, futureT⟩)
  | _ => none

def parseEnding (s : String) : Option Ending :=
  if s == "complete" then some .complete else
  match s.splitOn ":" with
  | ["error", k] => k.toNat?.map .transportError
  | ["stall", k] => k.toNat?.map .stall
  | _ => none

def parseChunks (s : String) : List Bytes :=
  if s == "-" then [] else (s.splitOn ",").map unhexBytes

def nm (c : Cfg) (n : String) : String :=
  if n == c.cache then "C" else if n == tempOf c then "T" else n

/-- merged tokens, each with the number of model operations it stands for -/
def tokens (c : Cfg) : List Op → List (String × Nat)
  | [] => []
  | .append n ch :: rest =>
    -- merge the run of appends to the same file
    let run := rest.takeWhile (fun o => match o with | .append m _ => m == n | _ => false)
    let bytes := run.foldl (fun acc o => match o with | .append _ d => acc + d.length | _ => acc) ch.length
    have : (rest.drop run.length).length < (Op.append n ch :: rest).length := by
      simp [List.length_drop]; omega
    (s!"write:{nm c n}:{bytes}", run.length + 1) :: tokens c (rest.drop run.length)
  | .openRead n :: rest => (s!"openr:{nm c n}", 1) :: tokens c rest
  | .mkdir :: rest => ("mkdir", 1) :: tokens c rest
  | .createExcl n :: rest => (s!"creat:{nm c n}", 1) :: tokens c rest
  | .fsync n :: rest => (s!"fsync:{nm c n}", 1) :: tokens c rest
  | .rename s d :: rest => (s!"rename:{nm c s}:{nm c d}", 1) :: tokens c rest
  | .unlink n :: rest => (s!"unlink:{nm c n}", 1) :: tokens c rest
termination_by ops => ops.length

def stateName (prior : Option File) (body : Bytes) (cur : Option File) : String :=
  match cur with
  | none => "absent"
  | some f =>
    if some f == prior then "old"
    else if f.data == body && f.mtime == nowT then "new"
    else "other"

def dedup (l : List String) : List String :=
  l.foldl (fun acc s => if acc.contains s then acc else acc ++ [s]) []

def b01 (b : Bool) : String := if b then "1" else "0"

def srcName : Option Source → String
  | some .fresh => "fresh" | some .downloaded => "downloaded" | some .stale => "stale" | none => "none"

def answer (line : String) : String :=
  match line.trimAscii.toString.splitOn " " with
  | ["scn", entry, en, fos, prior, status, ending, chunks, parse] =>
    match parsePrior prior, status.toNat?, parseEnding ending with
    | some pf, some st, some endg =>
      let c : Cfg := { enabled := en == "1", fetchOnStartup := fos == "1" }
      let fs : FS := { dir := pf.isSome, file := fun n => if n = c.cache then pf else none }
      let script : Script := ⟨st, parseChunks chunks, endg⟩
      let e : Env := { now := nowT, rands := ["RAND"], script := script }
      let oldOk := parse == "old" || parse == "both"
      let newOk := parse == "new" || parse == "both"
      let parses : Bytes → Bool := fun b =>
        (oldOk && (match pf with | some f => f.data == b | none => false)) || (newOk && b == script.body)
      let isFetch := entry == "fetch"
      if entry != "startup" && !isFetch then "bad-scenario" else
      let ops := if isFetch then (forceRefresh c fs e).ops else (load c true parses fs e).ops
      let toks := tokens c ops
      -- crash points at the boundaries of the merged tokens
      let counts := toks.foldl (fun acc t => acc ++ [(acc.getLast?.getD 0) + t.2]) [0]
      let states := counts.map fun k => stateName pf script.body ((runCrash nowT fs ops k).file c.cache)
      let final := stateName pf script.body ((run nowT fs ops).file c.cache)
      let tail :=
        if isFetch then
          s!"started=- src=- loaded=- exit={if (forceRefresh c fs e).exitOk then "ok" else "err"}"
        else
          let s := load c true parses fs e
          s!"started={b01 s.started} src={srcName s.source} loaded={b01 s.currencyLoaded} exit=-"
      let opsStr := if toks.isEmpty then "-" else ",".intercalate (toks.map (·.1))
      s!"ops={opsStr} states={",".intercalate states} allowed={"+".intercalate (dedup states)} final={final} {tail}"
    | _, _, _ => "bad-scenario"
  | _ => "bad-scenario"

partial def loop (h : IO.FS.Stream) (out : IO.FS.Stream) : IO Unit := do
  let line ← h.getLine
  if line.isEmpty then return ()
  out.putStrLn (answer line)
  loop h out

def main : IO Unit := do
  loop (← IO.getStdin) (← IO.getStdout)

end Rink.Driver.Cache
