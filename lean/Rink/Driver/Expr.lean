import Rink.Model.Print
import Rink.Driver.Common
import Rink.Driver.Digits
/-!
Driver for C11: `expr <prefix-notation>` → display text (hex), whether `parse (lex text)` gives the
same tree back, and the re-parsed tree.
Prefix notation: `U hex | Q hex | C n/d | B op e e | N e | P e | D deg e | M k e.. | O hex e | F func k e..`
-/
namespace Rink.Driver.Expr
open Rink Rink.Driver

def opOf : String → Option BinOp
  | "add" => some .add | "sub" => some .sub | "frac" => some .frac | "pow" => some .pow | "equals" => some .equals
  | "shl" => some .shl | "shr" => some .shr | "mod" => some .mod | "and" => some .and | "or" => some .or | "xor" => some .xor
  | _ => none
def opName : BinOp → String
  | .add => "add" | .sub => "sub" | .frac => "frac" | .pow => "pow" | .equals => "equals"
  | .shl => "shl" | .shr => "shr" | .mod => "mod" | .and => "and" | .or => "or" | .xor => "xor"
def degOf : String → Option Degree
  | "celsius" => some .celsius | "fahrenheit" => some .fahrenheit | "reaumur" => some .reaumur
  | "romer" => some .romer | "delisle" => some .delisle | "newton" => some .newton | _ => none

mutual
partial def parseE : List String → Option (Expr × List String)
  | "U" :: h :: r => some (.unit (unhex h), r)
  | "Q" :: h :: r => some (.quote (unhex h), r)
  | "C" :: v :: r => (parseNumeric v).map fun n => (.const n, r)
  | "B" :: op :: r => do
    let o ← opOf op
    let (a, r1) ← parseE r
    let (b, r2) ← parseE r1
    pure (.binop o a b, r2)
  | "N" :: r => do let (a, r1) ← parseE r; pure (.unary .negative a, r1)
  | "P" :: r => do let (a, r1) ← parseE r; pure (.unary .positive a, r1)
  | "D" :: d :: r => do let dg ← degOf d; let (a, r1) ← parseE r; pure (.unary (.degree dg) a, r1)
  | "M" :: k :: r => do let n ← k.toNat?; let (es, r1) ← parseN n r; pure (.mul es, r1)
  | "O" :: h :: r => do let (a, r1) ← parseE r; pure (.ofProp (unhex h) a, r1)
  | "F" :: f :: k :: r => do
    let fn ← Func.fromName f
    let n ← k.toNat?
    let (es, r1) ← parseN n r
    pure (.call fn es, r1)
  | _ => none
partial def parseN : Nat → List String → Option (List Expr × List String)
  | 0, r => some ([], r)
  | n + 1, r => do
    let (e, r1) ← parseE r
    let (es, r2) ← parseN n r1
    pure (e :: es, r2)
end

partial def fmtE : Expr → String
  | .unit n => s!"U {hex n}"
  | .quote s => s!"Q {hex s}"
  | .const v => s!"C {fmtNumeric v}"
  | .date _ => "DATE"
  | .binop op l r => s!"B {opName op} {fmtE l} {fmtE r}"
  | .unary .negative e => s!"N {fmtE e}"
  | .unary .positive e => s!"P {fmtE e}"
  | .unary (.degree d) e => s!"D {d.key} {fmtE e}"
  | .mul es => s!"M {es.length}" ++ String.join (es.map fun e => " " ++ fmtE e)
  | .ofProp p e => s!"O {hex p} {fmtE e}"
  | .call f args => s!"F {f.name} {args.length}" ++ String.join (args.map fun e => " " ++ fmtE e)
  | .error _ => "ERR"

partial def loop (h out : IO.FS.Stream) : IO Unit := do
  let line ← h.getLine
  if line.isEmpty then return ()
  match line.trimAscii.toString.splitOn " " with
  | "expr" :: alnum :: toks =>
    match parseE toks with
    | some (e, []) =>
      let extra : List Char := if alnum == "-" then [] else (alnum.splitOn ",").map fun h => Char.ofNat (h.toList.foldl (fun a c => a * 16 + hexVal c) 0)
      let cc : Lex.CharClass := { Lex.asciiClass with isAlnum := fun c => if c.toNat < 128 then c.isAlphanum else extra.contains c }
      let text := Print.render Digits.sizeInBaseF cc e
      let ts := Lex.lex cc text.toList
      let (e', rest) := Parse.parseEq (Parse.parseFuel ts) ts
      let full := Parse.peek rest == .eof
      out.putStrLn s!"{hex text} {if full then "eof" else "trailing"} {fmtE e'}"
    | _ => out.putStrLn "bad-op"
  | "parse" :: h :: _ =>
    -- parse arbitrary text (ASCII classifier), print the tree
    let ts := Lex.lex Lex.asciiClass (unhex h).toList
    let (e', rest) := Parse.parseEq (Parse.parseFuel ts) ts
    out.putStrLn s!"{if Parse.peek rest == .eof then "eof" else "trailing"} {fmtE e'}"
  | _ => out.putStrLn "bad-op"
  loop h out

def main : IO Unit := do loop (← IO.getStdin) (← IO.getStdout)

end Rink.Driver.Expr
