import Rink.Model.Alloc

/-! Line-protocol driver for the allocator model (C19). One request per line, one answer per line. -/
namespace Rink.Driver.Alloc
open Rink.Alloc

def resStr : Option Res → String
  | some .ptr => "ptr" | some .null => "null" | some .unit => "unit" | none => "bad-op"

def fmt (s : State) (r : Option Res) : String :=
  match r with
  | none => "bad-op max=0"
  | _ => s!"{resStr r} max={s.max}"

def stepLine (s : State) (line : String) : State × String :=
  match line.trimAscii.toString.splitOn " " with
  | ["init", l] => match l.toNat? with
    | some l => (init l 1, "ok")
    | none => (s, "bad-op")
  | ["alloc", sz, z, ok] => match sz.toNat?, z.toNat?, ok.toNat? with
    | some sz, some z, some ok =>
      let (s', r) := runOp s (.alloc sz (z != 0)) (ok != 0)
      (s', fmt s' r)
    | _, _, _ => (s, "bad-op")
  | ["dealloc", i] => match i.toNat? with
    | some i => let (s', r) := runOp s (.dealloc i) true; (s', fmt s' r)
    | none => (s, "bad-op")
  | ["realloc", i, n, ok] => match i.toNat?, n.toNat?, ok.toNat? with
    | some i, some n, some ok =>
      let (s', r) := runOp s (.realloc i n) (ok != 0)
      (s', fmt s' r)
    | _, _, _ => (s, "bad-op")
  | ["reset"] => let s' := (step s .reset).1; (s', s!"unit used={s'.used} max={s'.max}")
  | _ => (s, "bad-op")

partial def loop (h : IO.FS.Stream) (out : IO.FS.Stream) (s : State) : IO Unit := do
  let line ← h.getLine
  if line.isEmpty then return ()
  let (s', o) := stepLine s line
  out.putStrLn o
  loop h out s'

def main : IO Unit := do
  loop (← IO.getStdin) (← IO.getStdout) (init 0 1)

end Rink.Driver.Alloc
