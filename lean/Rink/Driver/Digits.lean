import Rink.Model.Digits
import Rink.Driver.Common
/-! Driver for C05: `dg <num> <den> <base> <mode> <n>` → `<1|0> <text>` and the string_repr pair. -/
namespace Rink.Driver.Digits
open Rink Rink.Digits Rink.Driver

/-- `BigInt::size_in_base`: `1 + floor(bits · LN_2 / ln base)` in `f64` -/
def sizeInBaseF (x base : Nat) : Nat :=
  let bits : Nat := if x == 0 then 0 else Nat.log2 x + 1
  let f : Float := Float.floor (Float.ofNat bits * 0.6931471805599453 / Float.log (Float.ofNat base))
  1 + f.toUInt64.toNat

def parseMode (m : String) (n : Nat) : Option Rink.Digits :=
  match m with
  | "default" => some .default | "fullint" => some .fullInt | "digits" => some (.digits n)
  | "fraction" => some .fraction | "sci" => some .scientific | "eng" => some .engineering
  | _ => none

def opt (o : Option (List Char)) : String := match o with | some l => String.ofList l | none => "-"

partial def loop (h out : IO.FS.Stream) : IO Unit := do
  let line ← h.getLine
  if line.isEmpty then return ()
  match line.trimAscii.toString.splitOn " " with
  | ["dg", num, den, base, mode, n] =>
    match num.toInt?, den.toNat?, base.toNat?, n.toNat? with
    | some num, some den, some base, some n =>
      match parseMode mode n with
      | some d =>
        let q := mkRat num den
        let (ex, txt) := ratToString sizeInBaseF q base d
        let sr := stringRepr sizeInBaseF q base d
        out.putStrLn s!"{if ex then 1 else 0} {String.ofList txt} | {opt sr.1} | {opt sr.2} | {String.ofList (nPattern sr)}"
      | none => out.putStrLn "bad-op"
    | _, _, _, _ => out.putStrLn "bad-op"
  | _ => out.putStrLn "bad-op"
  loop h out

def main : IO Unit := do loop (← IO.getStdin) (← IO.getStdout)

end Rink.Driver.Digits
