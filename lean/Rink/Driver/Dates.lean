import Rink.Model.Dates
/-!
Driver for C14 (`rinkmodel dates`): one request per line on stdin, one canonical answer per
line on stdout.  The model variant is `Rink.Dates.CodeVariant.impl`.

Requests (tokens separated by one space; a literal `L` is three tokens `<date> <time> <zone>`):

```
variant                          -> variant subms=… convoff=… secfrac=… litovf=… litrange=… fallback=… today=…
now <secs>                       -> ok                      (pins the clock used by time-only literals)
lit L                            -> instant
add L <n>/<d> <dim>              -> instant                 #L# + t
sub L <n>/<d> <dim>              -> instant                 #L# - t
addsub L <n>/<d> <dim>           -> duration                (#L# + t) - #L#
subadd L <n>/<d> <dim>           -> instant                 #L# - t + t
addsubdur L <n>/<d> <dim>        -> instant                 #L# + t - t
diff L L                         -> duration                #L1# - #L2#
conv L <+|-> <hh> <mm>           -> instant                 #L# -> +hh:mm
tz L <hex zone id>               -> instant                 #L# -> "Zone/Name"
todur <n>/<d> <dim>              -> ns <int>                to_duration (API)
fromdur <ns>                     -> dur <n>/<d>             from_duration (API)

date := nodate | unusable | ymd:Y:M:D | ymdw:Y:M:D:W | yo:Y:ORD
time := notime | hm:H:MI:- | hm:H:MI:SS | hm:H:MI:SS.FRAC
zone := z0 | zf:<+|->:<digits>:<MM|-> | zn:<hex id>:<offset now>:<s,OFF | a,OFF1,OFF2 | g>
```
Answers: `date <ns> <offset seconds | zone>`, `dur <n>/<d>`, `ns <int>`, `err`, `panic`,
`unsupported <why>`, `bad-request`.
-/
namespace Rink.Driver.Dates
open Rink Rink.Dates

def fmtRat (q : Rat) : String := s!"{q.num}/{q.den}"

def fmtOutcome {α} (f : α → String) : Outcome α → String
  | .ok a => f a
  | .err _ => "err"
  | .panic _ => "panic"
  | .unsupported w => "unsupported " ++ w.replace " " "_"

def fmtInstant (i : Instant) : String :=
  match i.zone with
  | .fixed off => s!"date {i.ns} {off}"
  | .named _ => s!"date {i.ns} zone"

def fmtDur (n : Number) : String :=
  match n.value with
  | .rational q => s!"dur {fmtRat q}"
  | .float => "dur float"

def parseRat (s : String) : Option Rat :=
  match s.splitOn "/" with
  | [n, d] =>
    match n.toInt?, d.toNat? with
    | some n, some d => if d = 0 then none else some (mkRat n d)
    | _, _ => none
  | _ => none

def parseDim (s : String) : Dim :=
  if s == "-" then [] else Dim.baseUnit s

def parseDate (s : String) : Option DateF :=
  match s.splitOn ":" with
  | ["nodate"] => some .absent
  | ["unusable"] => some .unusable
  | ["ymd", y, m, d] =>
    match y.toInt?, m.toInt?, d.toInt? with
    | some y, some m, some d => some (.ymd y m d none)
    | _, _, _ => none
  | ["ymdw", y, m, d, w] =>
    match y.toInt?, m.toInt?, d.toInt?, w.toInt? with
    | some y, some m, some d, some w => some (.ymd y m d (some w))
    | _, _, _, _ => none
  | ["yo", y, o] =>
    match y.toInt?, o.toInt? with
    | some y, some o => some (.yo y o)
    | _, _ => none
  | _ => none

def parseTime (s : String) : Option TimeF :=
  match s.splitOn ":" with
  | ["notime"] => some .absent
  | ["hm", h, mi, sec] =>
    match h.toInt?, mi.toInt? with
    | some h, some mi =>
      if sec == "-" then some (.hm h mi none)
      else match sec.splitOn "." with
        | [ss] => some (.hm h mi (some (ss, none)))
        | [ss, f] => some (.hm h mi (some (ss, some f)))
        | _ => none
    | _, _ => none
  | _ => none

def hexVal (c : Char) : Nat :=
  if '0' ≤ c && c ≤ '9' then c.toNat - 48 else if 'a' ≤ c && c ≤ 'f' then c.toNat - 87 else 0

def unhex (s : String) : String :=
  let rec go (cs : List Char) (acc : List Char) : List Char :=
    match cs with
    | a :: b :: r => go r (Char.ofNat (hexVal a * 16 + hexVal b) :: acc)
    | _ => acc.reverse
  String.ofList (go s.toList [])

def parseLocal (s : String) : Option LocalRes :=
  match s.splitOn "," with
  | ["g"] => some .gap
  | ["s", o] => o.toInt?.map .single
  | ["a", o1, o2] =>
    match o1.toInt?, o2.toInt? with
    | some a, some b => some (.ambiguous a b)
    | _, _ => none
  | _ => none

def parseZone (s : String) : Option ZoneF :=
  match s.splitOn ":" with
  | ["z0"] => some .absent
  | ["zf", sign, h, m] =>
    let sg : Option Int := if sign == "+" then some 1 else if sign == "-" then some (-1) else none
    sg.map fun sg => .fixed sg h (if m == "-" then none else some m)
  | ["zn", id, offNow, loc] =>
    match offNow.toInt?, parseLocal loc with
    | some o, some l => some (.named (unhex id) o l)
    | _, _ => none
  | _ => none

def parseLit (d t z : String) : Option Literal :=
  match parseDate d, parseTime t, parseZone z with
  | some d, some t, some z => some ⟨d, t, z⟩
  | _, _, _ => none

def parseNum (v dim : String) : Option Number :=
  (parseRat v).map fun q => ⟨.rational q, parseDim dim⟩

def variantLine (v : CodeVariant) : String :=
  let b (x : Bool) (t f : String) : String := if x then t else f
  s!"variant subms={v.subMsScale} convoff={b v.convOffsetChecked "err" "panic"} secfrac={b v.secFracChecked "err" "panic"} litovf={b v.litOffsetOverflowChecked "err" "panic"} litrange={b v.litOffsetRangeChecked "err" "utc"} fallback={b v.fallbackOnlyWhenAbsent "absent" "any"} today={b v.todayLocalChecked "err" "panic"}"

def answer (v : CodeVariant) (now : Int) (toks : List String) : String :=
  let lit := literalInstant v now
  match toks with
  | ["variant"] => variantLine v
  | ["lit", d, t, z] =>
    match parseLit d t z with
    | some l => fmtOutcome fmtInstant (lit l)
    | none => "bad-request"
  | [op, d, t, z, val, dim] =>
    match parseLit d t z, parseNum val dim with
    | some l, some n =>
      if op == "add" then fmtOutcome fmtInstant (lit l >>= fun i => addDur v i n)
      else if op == "sub" then fmtOutcome fmtInstant (lit l >>= fun i => subDur v i n)
      else if op == "addsub" then
        fmtOutcome fmtDur (lit l >>= fun i => addDur v i n >>= fun i' => lit l >>= fun i2 => diff i' i2)
      else if op == "subadd" then fmtOutcome fmtInstant (lit l >>= fun i => subDur v i n >>= fun i' => addDur v i' n)
      else if op == "addsubdur" then fmtOutcome fmtInstant (lit l >>= fun i => addDur v i n >>= fun i' => subDur v i' n)
      else "bad-request"
    | _, _ => "bad-request"
  | ["conv", d, t, z, sign, hh, mm] =>
    match parseLit d t z with
    | some l =>
      let sg : OffTok := if sign == "+" then .plus else if sign == "-" then .minus else .other
      match parseOffset [sg, .dec hh, .colon, .dec mm] with
      | some off => fmtOutcome fmtInstant (lit l >>= fun i => convertOffset v i off)
      | none => "unsupported conversion_is_not_an_offset"
    | none => "bad-request"
  | ["tz", d, t, z, id] =>
    match parseLit d t z with
    | some l => fmtOutcome fmtInstant (lit l >>= fun i => convertZone i (unhex id))
    | none => "bad-request"
  | ["diff", d1, t1, z1, d2, t2, z2] =>
    match parseLit d1 t1 z1, parseLit d2 t2 z2 with
    | some a, some b => fmtOutcome fmtDur (lit a >>= fun x => lit b >>= fun y => diff x y)
    | _, _ => "bad-request"
  | ["todur", val, dim] =>
    match parseNum val dim with
    | some n => fmtOutcome (fun (d : Int) => s!"ns {d}") (toDurationNum v n)
    | none => "bad-request"
  | ["fromdur", ns] =>
    match ns.toInt? with
    | some d => fmtOutcome (fun (q : Rat) => s!"dur {fmtRat q}") (fromDuration d)
    | none => "bad-request"
  | _ => "bad-request"

partial def loop (h out : IO.FS.Stream) (now : Int) : IO Unit := do
  let line ← h.getLine
  if line.isEmpty then return ()
  let toks := line.trimAscii.toString.splitOn " "
  match toks with
  | ["now", s] =>
    match s.toInt? with
    | some n => out.putStrLn "ok"; loop h out n
    | none => out.putStrLn "bad-request"; loop h out now
  | _ =>
    out.putStrLn (answer CodeVariant.impl now toks)
    loop h out now

def main : IO Unit := do
  loop (← IO.getStdin) (← IO.getStdout) 1700000000

end Rink.Driver.Dates
