import Rink.Model.Sandbox
/-! Driver: one request sequence per line (`add:1 panic sleep:2 oom exit big:3`), prints the
replies of the repaired loop, space separated. -/
namespace Rink.Driver.Sandbox
open Rink.Sandbox

def parseOp (s : String) : Option Req :=
  match s.splitOn ":" with
  | ["add", i] => i.toNat?.map .normal
  | ["big", i] => i.toNat?.map .large
  | ["sleep", i] => i.toNat?.map .overrun
  | ["panic"] => some .panic
  | ["oom"] => some .oom
  -- a request larger than the memory limit: the child aborts while reading it (no reply), like `oom`
  | ["huge", _] => some .oom
  | ["exit"] => some .exit
  | _ => none

def fmtRep : Rep → String
  | .ok id => s!"ok:{id}" | .panic => "panic" | .timeout => "timeout" | .crashed => "crashed" | .dead => "dead"

partial def loop (h out : IO.FS.Stream) : IO Unit := do
  let line ← h.getLine
  if line.isEmpty then return ()
  let ops := (line.trimAscii.toString.splitOn " ").filter (· ≠ "")
  let reqs := ops.filterMap parseOp
  if reqs.length ≠ ops.length then out.putStrLn "bad-op"
  else
    let (_, reps) := run true init (reqs.map fun r => (r, true))
    out.putStrLn (" ".intercalate (reps.map fmtRep))
  loop h out

def main : IO Unit := do loop (← IO.getStdin) (← IO.getStdout)

end Rink.Driver.Sandbox
