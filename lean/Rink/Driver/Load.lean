import Rink.Model.GnuUnits
import Rink.Driver.Expr
/-! Driver for the loader models: `defs FILE` prints the parsed definitions of a file, one per line. -/
namespace Rink.Driver.Load
open Rink Rink.Driver Rink.Gnu

def optHex (o : Option String) : String := match o with | some s => hex s | none => "-"

def fmtDef (d : DefEntry) : String :=
  let head := s!"{hex d.name} doc={optHex d.doc} cat={optHex d.category} "
  match d.defn with
  | .baseUnit l => head ++ s!"base {optHex l}"
  | .prefix_ e isLong => head ++ s!"prefix {if isLong then 1 else 0} {Expr.fmtE e}"
  | .unit e => head ++ s!"unit {Expr.fmtE e}"
  | .quantity e => head ++ s!"quantity {Expr.fmtE e}"
  | .substance sym props =>
    head ++ s!"substance {optHex sym} " ++ " ; ".intercalate (props.map fun p =>
      s!"{hex p.name} {hex p.inputName} {hex p.outputName} doc={optHex p.doc} IN {Expr.fmtE p.input} OUT {Expr.fmtE p.output}")
  | .category n => head ++ s!"category {hex n}"
  | .error m => head ++ s!"error {hex m}"

def defsMain (path : String) : IO Unit := do
  let text ← IO.FS.readFile path
  let out ← IO.getStdout
  for d in parseStr text do
    out.putStrLn (fmtDef d)

end Rink.Driver.Load
