import Rink.Model.GnuUnits
import Rink.Driver.Expr
import Rink.Model.Load
import Rink.Model.LoadCheck
/-! Driver for the loader models: `defs FILE` prints the parsed definitions of a file, one per line. -/
namespace Rink.Driver.Load
open Rink Rink.Driver Rink.Gnu

def optHex (o : Option String) : String := match o with | some s => hex s | none => "-"

def fmtDef (d : DefEntry) : String :=
  let head := s!"{hex d.name} doc={optHex d.doc} cat={optHex d.category} "
  match d.defn with
  | .baseUnit l => head ++ s!"base {optHex l}"
  | .prefix_ e isLong => head ++ s!"prefix {if isLong then 1 else 0} {Expr.fmtE e}"
  | .unit e => head ++ s!"unit {Expr.fmtE e}"
  | .quantity e => head ++ s!"quantity {Expr.fmtE e}"
  | .substance sym props =>
    head ++ s!"substance {optHex sym} " ++ " ; ".intercalate (props.map fun p =>
      s!"{hex p.name} {hex p.inputName} {hex p.outputName} doc={optHex p.doc} IN {Expr.fmtE p.input} OUT {Expr.fmtE p.output}")
  | .category n => head ++ s!"category {hex n}"
  | .error m => head ++ s!"error {hex m}"

def defsMain (path : String) : IO Unit := do
  let text ← IO.FS.readFile path
  let out ← IO.getStdout
  for d in parseStr text do
    out.putStrLn (fmtDef d)


/-! ### `load`: run the loader model over files and print the registry in the dump format -/
open Rink.Load

def dimHex (d : Dim) : String :=
  if d.isEmpty then "-" else ",".intercalate (d.map fun (k, p) => s!"{hex k}:{p}")

/-- derived `Ord` of `Dimensionality` (a `BTreeMap<BaseUnit, i64>`): lexicographic on entries -/
def dimLt : Dim → Dim → Bool
  | [], [] => false
  | [], _ :: _ => true
  | _ :: _, [] => false
  | (k1, p1) :: r1, (k2, p2) :: r2 =>
    if k1 < k2 then true else if k2 < k1 then false
    else if p1 < p2 then true else if p2 < p1 then false
    else dimLt r1 r2

def sortStr {α} (l : List (String × α)) : List (String × α) := (l.toArray.qsort fun a b => a.1 < b.1).toList

def parseText (text : String) : Expr :=
  let ts := Lex.lex Lex.asciiClass text.trimAscii.toString.toList
  (Parse.parseEq (Parse.parseFuel ts) ts).1

def optUnhex (s : String) : Option String := if s == "-" then none else some (unhex s)

/-- one line of `rkh jsondefs` → a definition (expression texts parsed with the query parser,
as `ExprString::try_from` does) -/
def parseJdef (line : String) : Option Gnu.DefEntry :=
  match line.trimAscii.toString.splitOn " " with
  | "jdef" :: name :: doc :: cat :: kind :: rest =>
    let doc := optUnhex (doc.drop 4).toString
    let cat := optUnhex (cat.drop 4).toString
    let mk := fun (d : Gnu.Def) => some ({ name := unhex name, defn := d, doc := doc, category := cat } : Gnu.DefEntry)
    match kind, rest with
    | "base", [l] => mk (.baseUnit (optUnhex l))
    | "prefix", [isLong, e] => mk (.prefix_ (parseText (unhex e)) (isLong == "1"))
    | "unit", [e] => mk (.unit (parseText (unhex e)))
    | "quantity", [e] => mk (.quantity (parseText (unhex e)))
    | "category", [n] => mk (.category (unhex n))
    | "error", [m] => mk (.error (unhex m))
    | "substance", sym :: props =>
      let groups := (" ".intercalate props).splitOn " ; "
      let ps := groups.filterMap fun g =>
        match g.trimAscii.toString.splitOn " " with
        | [n, iname, oname, pdoc, "IN", i, "OUT", o] =>
          some ({ name := unhex n, inputName := unhex iname, outputName := unhex oname, doc := optUnhex (pdoc.drop 4).toString,
                  input := parseText (unhex i), output := parseText (unhex o) } : Gnu.PropDef)
        | _ => none
      mk (.substance (optUnhex sym) ps)
    | _, _ => none
  | _ => none

def dumpLS (st : LS) (out : IO.FS.Stream) : IO Unit := do
  for b in (st.baseUnits.toList.toArray.qsort (· < ·)).toList do out.putStrLn s!"base {hex b}"
  for (n, v) in sortStr st.units.toList do out.putStrLn s!"unit {hex n} {fmtNumeric v.value} {dimHex v.unit}"
  for (n, v) in st.prefixes.toList do out.putStrLn s!"prefix {hex n} {fmtNumeric v}"
  for (n, e) in sortStr st.definitions.toList do out.putStrLn s!"defexpr {hex n} {Expr.fmtE e}"
  for (s, l) in sortStr st.longNames.toList do out.putStrLn s!"long {hex s} {hex l}"
  for (d, n) in ((st.quantities.toList.map (·.2)).toArray.qsort fun a b => dimLt a.1 b.1).toList do out.putStrLn s!"quantity {dimHex d} {hex n}"
  for (d, n) in ((st.decomposition.toList.map (·.2)).toArray.qsort fun a b => dimLt a.1 b.1).toList do out.putStrLn s!"decomp {dimHex d} {hex n}"
  for (n, s) in sortStr st.substances.toList do
    out.putStrLn s!"subst {hex n} {hex s.name} {fmtNumeric s.amount.value} {dimHex s.amount.unit}"
    for (pn, p) in s.props do
      out.putStrLn s!"prop {hex n} {hex pn} {fmtNumeric p.input.value} {dimHex p.input.unit} {hex p.inputName} {fmtNumeric p.output.value} {dimHex p.output.unit} {hex p.outputName}"
  for (sym, n) in sortStr st.symbols.toList do out.putStrLn s!"symbol {hex sym} {hex n}"
  for (n, c) in sortStr st.categories.toList do out.putStrLn s!"category {hex n} {hex c}"
  for (c, n) in sortStr st.categoryNames.toList do out.putStrLn s!"catname {hex c} {hex n}"
  for (n, d) in sortStr st.docs.toList do out.putStrLn s!"doc {hex n} {hex d}"
  for t in (st.errors.toArray.qsort (· < ·)).toList do out.putStrLn s!"error {hex t}"

/-- a definition in tree form (`tdef` + the line `rkh` prints for a `DefEntry`) -/
def parseTdef (line : String) : Option Gnu.DefEntry :=
  match line.trimAscii.toString.splitOn " " with
  | "tdef" :: name :: doc :: cat :: kind :: rest =>
    let doc := optUnhex (doc.drop 4).toString
    let cat := optUnhex (cat.drop 4).toString
    let mk := fun (d : Gnu.Def) => some ({ name := unhex name, defn := d, doc := doc, category := cat } : Gnu.DefEntry)
    let tree := fun (toks : List String) => match Expr.parseE toks with | some (e, []) => some e | _ => none
    match kind, rest with
    | "base", [l] => mk (.baseUnit (optUnhex l))
    | "prefix", isLong :: toks => (tree toks).bind fun e => mk (.prefix_ e (isLong == "1"))
    | "unit", toks => (tree toks).bind fun e => mk (.unit e)
    | "quantity", toks => (tree toks).bind fun e => mk (.quantity e)
    | "category", [n] => mk (.category (unhex n))
    | "error", [m] => mk (.error (unhex m))
    | "substance", sym :: props =>
      let groups := if props.isEmpty then [] else (" ".intercalate props).splitOn " ; "
      let ps := groups.filterMap fun g =>
        match g.trimAscii.toString.splitOn " " with
        | n :: iname :: oname :: pdoc :: "IN" :: more =>
          let i := more.takeWhile (· != "OUT")
          let o := (more.dropWhile (· != "OUT")).drop 1
          match tree i, tree o with
          | some ie, some oe => some ({ name := unhex n, inputName := unhex iname, outputName := unhex oname,
                                        doc := optUnhex (pdoc.drop 4).toString, input := ie, output := oe } : Gnu.PropDef)
          | _, _ => none
        | _ => none
      mk (.substance (optUnhex sym) ps)
    | _, _ => none
  | _ => none

/-- the C08 predicates of a loaded state, one `report` line per predicate -/
def dumpReport (st : LS) (out : IO.FS.Stream) : IO Unit := do
  let r := report st
  let line := fun (tag : String) (l : List String) => out.putStrLn s!"report {tag} {l.length} {" ".intercalate (l.map hex)}"
  line "fixedPointBad" r.fixedPointBad
  line "fixedPointUnsupported" (fixedPointUnsupported st)
  out.putStrLn s!"report fixedPointChecked {fixedPointChecked st}"
  line "foreignDims" r.foreignDims
  line "quantityMismatch" r.quantityMismatch
  line "danglingAliases" r.danglingAliases
  line "orphans" r.orphans
  line "fixedPointSubstBad" r.fixedPointSubstBad

/-- `loadt SCENARIO`: blocks of `tdef` lines between `begin` / `end`; each block is one `Context::load` -/
def loadtMain (path : String) : IO Unit := do
  let text ← IO.FS.readFile path
  let out ← IO.getStdout
  let mut st : LS := {}
  let mut cur : Array Gnu.DefEntry := #[]
  let mut bad := 0
  for line in text.splitOn "\n" do
    if line.startsWith "begin" then cur := #[]
    else if line.startsWith "end" then st := loadDefs st cur.toList
    else if line.startsWith "tdef " then
      match parseTdef line with
      | some d => cur := cur.push d
      | none => bad := bad + 1
    else if line.startsWith "text " then
      -- `Context::load_definitions` of a file
      let t ← IO.FS.readFile (unhex (line.drop 5).toString.trimAscii.toString)
      st := loadDefs st (Gnu.parseStr t)
    else if line.startsWith "multitext " then
      -- several files parsed separately, concatenated, one `Context::load` (what the CLI does)
      let mut defs : List Gnu.DefEntry := []
      for f in (line.drop 10).toString.trimAscii.toString.splitOn " " do
        let t ← IO.FS.readFile (unhex f)
        defs := defs ++ Gnu.parseStr t
      st := loadDefs st defs
    else if line.startsWith "currency " then
      -- `Context::load_currency(json, units)`; the JSON in the line form of `rkh jsondefs`
      match (line.drop 9).toString.trimAscii.toString.splitOn " " with
      | [j, u] =>
        let jtext ← IO.FS.readFile (unhex j ++ ".jdefs")
        let utext ← IO.FS.readFile (unhex u)
        if (jtext.splitOn "\n").any (· == "jsonerror") then st := { st with errors := st.errors ++ ["json"] }
        else st := loadDefs st (Gnu.parseStr utext ++ (jtext.splitOn "\n").filterMap parseJdef)
      | _ => bad := bad + 1
  if bad > 0 then out.putStrLn s!"bad-tdef-lines {bad}"
  dumpLS st out
  dumpReport st out

/-- `load FILE... [--currency JDEFS UNITS]` -/
def loadMain (args : List String) : IO Unit := do
  let out ← IO.getStdout
  let rec go (st : LS) : List String → IO LS
    | [] => pure st
    | "--currency" :: jdefs :: units :: rest => do
      let utext ← IO.FS.readFile units
      let jtext ← IO.FS.readFile jdefs
      if jtext.trimAscii.toString == "jsonerror" || (jtext.splitOn "\n").any (· == "jsonerror") then
        go { st with errors := st.errors ++ ["json"] } rest
      else
        let jd := (jtext.splitOn "\n").filterMap parseJdef
        go (loadDefs st (Gnu.parseStr utext ++ jd)) rest
    | f :: rest => do
      let text ← IO.FS.readFile f
      go (loadDefs st (Gnu.parseStr text)) rest
  let st ← go {} args
  dumpLS st out
  dumpReport st out

end Rink.Driver.Load
