import Rink.Props.C19
import Rink.Props.C01
