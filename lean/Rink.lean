import Rink.Props.C19
