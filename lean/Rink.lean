import Rink.Props.C19
import Rink.Props.C01
import Rink.Props.C02
import Rink.Props.C03
import Rink.Props.C09
import Rink.Props.C10
import Rink.Props.C15
import Rink.Props.C07
