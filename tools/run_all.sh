#!/bin/sh
# runs every registered quick (or $1) check and prints one line per property (plus anything alarming)
cd "$(dirname "$0")/.."
tier=${1:-quick}
for p in C01 C02 C03 C04 C05 C06 C07 C08 C09 C10 C11 C12 C13 C14 C15 C16 C17 C18 C19 C20; do
  out=$(./check $p --tier $tier 2>&1); rc=$?
  echo "$out" | grep -E "^VIOLATION|^KNOWN-FINDING|^  #|tier=" | cut -c1-260
  # a check that dies (exception, missing tool) prints no summary line: say so
  if ! echo "$out" | grep -q "tier=$tier"; then echo "$p BROKEN rc=$rc: $(echo "$out" | tail -2 | tr '\n' ' ' | cut -c1-300)"; fi
done
