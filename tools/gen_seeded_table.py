#!/usr/bin/env python3
"""Rewrites the table of seeded changes in DESIGN.md §10.5 from seeded/*/meta.json."""
import json, os, re, glob
V = os.path.dirname(os.path.dirname(os.path.abspath(__file__)))
rows = ["| Id | Needs / failing input | Caught by |", "|---|---|---|"]
for d in sorted(glob.glob(os.path.join(V, "seeded", "*"))):
    mp = os.path.join(d, "meta.json")
    if not os.path.exists(mp):
        continue
    m = json.load(open(mp))
    inp = str(m.get("failing_input", "")).replace("|", "\\|").replace("\n", " ")[:90]
    det = str(m.get("detected_by", "not run yet")).replace("|", "\\|")[:160]
    rows.append("| %s | `%s` | %s |" % (os.path.basename(d), inp, det))
table = "<!-- seeded-table:begin -->\n" + "\n".join(rows) + "\n<!-- seeded-table:end -->"
p = os.path.join(V, "DESIGN.md")
s = open(p).read()
if "SEEDED_TABLE" in s:
    s = s.replace("SEEDED_TABLE", table)
else:
    s = re.sub(r"<!-- seeded-table:begin -->.*?<!-- seeded-table:end -->", lambda _: table, s, flags=re.S)
open(p, "w").write(s)
print(len(rows) - 2, "rows")
