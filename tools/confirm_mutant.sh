#!/bin/bash
# usage: confirm_mutant.sh <worktree> <prop>   — re-confirms every out/<k> of a scratch worktree:
# patch applies, the existing tests pass with it, demo fails with it and passes without it.
wt="$1"; prop="$2"
export CARGO_NET_OFFLINE=true
cd "$wt" || exit 2
for d in out/*/; do
  k=$(basename "$d")
  git checkout -q -- . ; git clean -fdq -e out
  res="$wt/out/$k/confirm.txt"; : > "$res"
  if ! git apply "out/$k/patch.diff" 2>>"$res"; then echo "apply=FAIL" >> "$res"; continue; fi
  echo "apply=ok" >> "$res"
  if [ "$prop" = "C19" ] || [ "$prop" = "C18" ]; then
    t=$(timeout 1200 cargo test --offline -p rink-sandbox --lib 2>&1 | grep -E "^test result|FAILED|error(\[|:)" | sort | uniq -c | tr '\n' ';')
  elif [ "$prop" = "C20" ]; then
    t=$(timeout 1200 cargo test --offline -p rink 2>&1 | grep -E "^test result|FAILED|error(\[|:)" | sort | uniq -c | tr '\n' ';')
  else
    t=$(timeout 1200 cargo test --offline -p rink-core --all-features 2>&1 | grep -E "^test result|FAILED|error(\[|:)" | sort | uniq -c | tr '\n' ';')
  fi
  echo "tests_with_patch=$t" >> "$res"
  (cd "out/$k" && bash ./demo.sh > demo_with.log 2>&1); echo "demo_with_patch_rc=$?" >> "$res"
  git checkout -q -- . ; git clean -fdq -e out
  (cd "out/$k" && bash ./demo.sh > demo_without.log 2>&1); echo "demo_without_patch_rc=$?" >> "$res"
done
git checkout -q -- . ; git clean -fdq -e out
