#!/bin/sh
# usage: tools/try_mutant.sh <patch.diff> <PROP> [<PROP>...]  — applies a seeded change to /repo, runs the checks, undoes it
patch="$1"; shift
cd /verif
git -C /repo apply "$patch" || { echo "APPLY FAILED"; exit 2; }
for p in "$@"; do
  ./check "$p" --tier quick > /tmp/mutant_$p.log 2>&1; rc=$?
  echo "== $p rc=$rc"; grep -E "^VIOLATION|^  #" /tmp/mutant_$p.log | head -4; tail -1 /tmp/mutant_$p.log
done
git -C /repo checkout -- .
