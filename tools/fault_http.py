#!/usr/bin/env python3
"""Fault-injecting HTTP server for the C20 correspondence check (python3 standard library only).

The server answers every GET according to the *plan* that is current at that moment.  A plan
is a dict:

  {"kind": "full",   "status": 200, "body": b"...", "pieces": [k1, k2, ...], "gap": 0.03}
        complete response, Content-Length = len(body); the body is sent in pieces that end
        at the byte offsets k1 < k2 < ... with `gap` seconds between them (so that the client
        sees several reads); any status code; a 3xx carries a Location header that points at
        /redirected on the same server (which serves the 200 body and is logged, so a client
        that follows redirects is visible)
  {"kind": "cut",    "status": 200, "body": b"...", "cut": k, "rst": False}
        Content-Length declares the whole body, only the first k bytes are sent, then the
        connection is closed (FIN, or RST when rst is true)
  {"kind": "stall",  "status": 200, "body": b"...", "cut": k, "hold": 5.0}
        headers (unless k is None: then not even headers) and the first k body bytes are sent,
        then the server goes quiet, keeping the connection open for `hold` seconds or until
        the client disconnects
  {"kind": "chunked-cut", "body": b"...", "cut": k}
        Transfer-Encoding: chunked, the first k bytes as one chunk, then close without the
        terminating chunk
  {"kind": "close-delimited", "body": b"...", "cut": k}
        HTTP/1.0 style response with no Content-Length, body ended by closing the connection
        after k bytes.  A client cannot tell this from a complete response: exploration only.

"refused connection" needs no server: `closed_port()` returns a port nothing listens on.

Every request is appended to `server.log` as a dict (path, user agent, plan kind, bytes of
body sent, whether the client hung up first).
"""
import json, socket, socketserver, struct, sys, threading, time
from http.server import BaseHTTPRequestHandler

REASONS = {200: "OK", 204: "No Content", 301: "Moved Permanently", 302: "Found", 304: "Not Modified",
           307: "Temporary Redirect", 400: "Bad Request", 403: "Forbidden", 404: "Not Found",
           429: "Too Many Requests", 500: "Internal Server Error", 502: "Bad Gateway", 503: "Service Unavailable"}


class _Handler(BaseHTTPRequestHandler):
    protocol_version = "HTTP/1.1"

    def log_message(self, *a):       # silence
        pass

    def _raw(self, data):
        self.connection.sendall(data)

    def _head(self, status, headers, version="HTTP/1.1"):
        lines = ["%s %d %s" % (version, status, REASONS.get(status, "Status"))]
        lines += ["%s: %s" % kv for kv in headers]
        return ("\r\n".join(lines) + "\r\n\r\n").encode("ascii")

    def do_GET(self):
        srv = self.server
        plan = dict(srv.plan)
        entry = {"path": self.path, "agent": self.headers.get("User-Agent", ""), "kind": plan.get("kind"),
                 "status": plan.get("status", 200), "sent": 0, "client_hung_up": False, "t": time.time()}
        srv.log.append(entry)
        release, stalled = srv.release, srv.stalled     # the events of *this* plan
        self.close_connection = True
        body = plan.get("body", b"")
        try:
            if self.path == "/redirected":
                entry["kind"] = "redirect-target"
                self._raw(self._head(200, [("Content-Type", "application/json"), ("Content-Length", str(len(body))),
                                           ("Connection", "close")]) + body)
                entry["sent"] = len(body)
                return
            kind = plan.get("kind", "full")
            status = plan.get("status", 200)
            if kind == "full":
                hdr = [("Content-Type", "application/json"), ("Content-Length", str(len(body))), ("Connection", "close")]
                if 300 <= status < 400:
                    hdr.append(("Location", "http://127.0.0.1:%d/redirected" % srv.server_address[1]))
                self._raw(self._head(status, hdr))
                prev = 0
                for k in list(plan.get("pieces") or []) + [len(body)]:
                    k = max(prev, min(k, len(body)))
                    if k > prev:
                        self._raw(body[prev:k])
                        entry["sent"] = k
                        if k < len(body):
                            time.sleep(plan.get("gap", 0.03))
                    prev = k
            elif kind == "cut":
                k = max(0, min(plan.get("cut", 0), len(body)))
                self._raw(self._head(status, [("Content-Type", "application/json"), ("Content-Length", str(len(body))),
                                              ("Connection", "close")]))
                if k:
                    self._raw(body[:k])
                entry["sent"] = k
                time.sleep(plan.get("gap", 0.05))     # let the client consume what was sent
                if plan.get("rst"):
                    self.connection.setsockopt(socket.SOL_SOCKET, socket.SO_LINGER, struct.pack("ii", 1, 0))
                else:
                    try:
                        self.connection.shutdown(socket.SHUT_WR)
                    except OSError:
                        pass
            elif kind == "stall":
                k = plan.get("cut", 0)
                if k is not None:
                    k = max(0, min(k, len(body)))
                    self._raw(self._head(status, [("Content-Type", "application/json"),
                                                  ("Content-Length", str(len(body))), ("Connection", "close")]))
                    if k:
                        self._raw(body[:k])
                    entry["sent"] = k
                stalled.set()
                deadline = time.time() + plan.get("hold", 5.0)
                self.connection.settimeout(0.05)
                while time.time() < deadline and not release.is_set():
                    try:
                        if self.connection.recv(1) == b"":
                            entry["client_hung_up"] = True
                            break
                    except socket.timeout:
                        continue
                    except OSError:
                        entry["client_hung_up"] = True
                        break
            elif kind == "chunked-cut":
                k = max(0, min(plan.get("cut", 0), len(body)))
                self._raw(self._head(200, [("Content-Type", "application/json"), ("Transfer-Encoding", "chunked"),
                                           ("Connection", "close")]))
                if k:
                    self._raw(b"%x\r\n" % k + body[:k] + b"\r\n")
                entry["sent"] = k
                time.sleep(plan.get("gap", 0.05))
            elif kind == "close-delimited":
                k = max(0, min(plan.get("cut", len(body)), len(body)))
                self._raw(self._head(200, [("Content-Type", "application/json"), ("Connection", "close")], "HTTP/1.0"))
                self._raw(body[:k])
                entry["sent"] = k
            else:
                self._raw(self._head(500, [("Content-Length", "0"), ("Connection", "close")]))
        except (BrokenPipeError, ConnectionResetError, OSError):
            entry["client_hung_up"] = True


class FaultServer(socketserver.ThreadingMixIn, socketserver.TCPServer):
    allow_reuse_address = True
    daemon_threads = True
    request_queue_size = 64

    def __init__(self, host="127.0.0.1", port=0):
        self.plan = {"kind": "full", "status": 404, "body": b"no plan"}
        self.log = []
        self.stalled = threading.Event()
        self.release = threading.Event()
        super().__init__((host, port), _Handler)
        self._thread = None

    def handle_error(self, request, client_address):   # client resets are expected
        pass

    @property
    def port(self):
        return self.server_address[1]

    def url(self, path="/data/currency.json"):
        return "http://127.0.0.1:%d%s" % (self.port, path)

    def set_plan(self, plan):
        self.release.set()            # let a previous stalled handler go
        time.sleep(0)
        self.release = threading.Event()
        self.stalled = threading.Event()
        self.plan = plan
        self.log = []

    def start(self):
        self._thread = threading.Thread(target=self.serve_forever, kwargs={"poll_interval": 0.05}, daemon=True)
        self._thread.start()
        wait_ready(self.port)
        return self

    def stop(self):
        self.release.set()
        self.shutdown()
        self.server_close()


def wait_ready(port, timeout=10.0):
    """Blocks until something accepts connections on the port."""
    end = time.time() + timeout
    while time.time() < end:
        try:
            s = socket.create_connection(("127.0.0.1", port), timeout=0.5)
            s.close()
            return True
        except OSError:
            time.sleep(0.02)
    raise RuntimeError("fault server did not come up on port %d" % port)


def closed_port():
    """A port on which nothing listens (bound once to reserve the number, then closed)."""
    s = socket.socket()
    s.bind(("127.0.0.1", 0))
    p = s.getsockname()[1]
    s.close()
    return p


def main(argv):
    """fault_http.py PLAN.json BODYFILE [PORT]  — serve one plan until interrupted (manual use)."""
    if len(argv) < 3:
        print(__doc__)
        return 2
    plan = json.load(open(argv[1]))
    plan["body"] = open(argv[2], "rb").read()
    srv = FaultServer(port=int(argv[3]) if len(argv) > 3 else 0)
    srv.plan = plan
    srv.start()
    print(srv.url(), flush=True)
    try:
        while True:
            time.sleep(1)
    except KeyboardInterrupt:
        srv.stop()
    return 0


if __name__ == "__main__":
    sys.exit(main(sys.argv))
