#!/bin/bash
# usage: tools/process_mutants.sh <PROP> [check PROP...]  — for a scratch worktree /tmp/mut/<PROP> with out/<k>/:
#   1. re-confirm every change there (tests pass with it, demo fails with it / passes without),
#   2. copy confirmed ones to /verif/seeded/<PROP>-<k>/,
#   3. apply each to /repo, run the check(s), undo, and record what caught it in meta.json.
prop="$1"; shift
checks="${@:-$prop}"
wt=/tmp/mut/$prop
cd /verif
bash tools/confirm_mutant.sh "$wt" "$prop" >/dev/null 2>&1
for d in "$wt"/out/*/; do
  k=$(basename "$d")
  c="$d/confirm.txt"
  echo "--- $prop-$k: $(tr '\n' ' ' < "$c" | cut -c1-300)"
  if grep -q "apply=ok" "$c" && grep -q "demo_with_patch_rc=[1-9]" "$c" && grep -q "demo_without_patch_rc=0" "$c" && ! grep -q "FAILED" "$c"; then
    # next free number for this property (never overwrite a stored change)
    n=1; while [ -e "/verif/seeded/$prop-$n" ]; do n=$((n + 1)); done
    dst=/verif/seeded/$prop-$n
    mkdir -p "$dst"
    cp "$d/patch.diff" "$d/meta.json" "$dst/" 2>/dev/null
    # the demonstration (demo.sh and whatever it needs), not the logs or build output
    find "$d" -maxdepth 1 -type f ! -name '*.log' ! -name 'confirm.txt' ! -name 'patch.diff' ! -name 'meta.json' -size -200k -exec cp {} "$dst/" \;
    out=$(bash tools/try_mutant.sh "$dst/patch.diff" $checks 2>&1)
    echo "$out" | cut -c1-260
    python3 - "$dst" "$checks" <<PY
import json,sys,re
dst,checks=sys.argv[1],sys.argv[2]
out='''$(echo "$out" | sed "s/'''/ /g")'''
m=json.load(open(dst+'/meta.json'))
viol=[l for l in out.split('\n') if l.startswith('VIOLATION')]
why=[l.strip('# ').strip() for l in out.split('\n') if l.startswith('  #')]
m['confirmed']={'existing_tests_pass_with_patch':True,'demo_fails_with_patch':True,'demo_passes_without_patch':True,'how':'tools/confirm_mutant.sh in the scratch worktree'}
if viol:
    found=[v for v in viol if 'no-failing-input-found' not in v]
    m['detected_by']=('%s quick: %s' % (checks, (why[0] if why else viol[0])[:200])) + ('' if found else ' (obligation/correspondence only)')
    m['detected']=True
else:
    m['detected_by']='MISSED by %s quick' % checks
    m['detected']=False
m['check_cmd']='tools/try_mutant.sh seeded/%s/patch.diff %s' % (dst.split('/')[-1], checks)
json.dump(m,open(dst+'/meta.json','w'),indent=1,ensure_ascii=False)
print('   =>', m['detected_by'][:220])
PY
  else
    echo "   NOT CONFIRMED, skipped"
  fi
done
git -C /repo status --short | head -3
