"""Shared machinery for the /verif checks: builds, Lean audit, correspondence diff,
known-findings handling, evidence writing.  python3 standard library only."""
import hashlib, json, os, re, subprocess, sys, time

VERIF = os.path.dirname(os.path.dirname(os.path.abspath(__file__)))
LEAN = os.path.join(VERIF, "lean")
HARNESS = os.path.join(VERIF, "harness")
CACHE = os.path.join(VERIF, ".cache")
RKH = os.path.join(HARNESS, "target", "release", "rkh")
MODEL = os.path.join(LEAN, ".lake", "build", "bin", "rinkmodel")
ALLOWED_AXIOMS = {"propext", "Classical.choice", "Quot.sound"}
ENV = dict(os.environ, CARGO_NET_OFFLINE="true", RUST_BACKTRACE="0")

TRUSTED_BASE_COMMON = [
    "Lean 4.33.0 kernel (leanchecker re-check in the thorough tier)",
    "axioms allowed in property theorems: propext, Classical.choice, Quot.sound (audited by #print axioms on every run)",
    "the hand-written Lean model is tied to /repo by the differential correspondence run of this check (bounded by generator quality)",
    "harness/src (Rust) printing what the implementation returned; tools/vlib.py diffing the two streams",
]


def sh(cmd, cwd=None, timeout=None, input=None, env=None):
    p = subprocess.run(cmd, cwd=cwd, shell=isinstance(cmd, str), stdout=subprocess.PIPE,
                       stderr=subprocess.STDOUT, timeout=timeout, input=input, env=env or ENV)
    return p.returncode, p.stdout.decode("utf-8", "replace")


def strip_lean(src):
    """Removes comments (nested block comments, line comments), string literals and character
    literals from Lean source, scanning left to right, so that the token audit only sees code."""
    out = []
    i, n = 0, len(src)
    while i < n:
        c = src[i]
        if src.startswith("--", i):
            j = src.find("\n", i)
            i = n if j < 0 else j
        elif src.startswith("/-", i):
            depth, i = 1, i + 2
            while i < n and depth:
                if src.startswith("/-", i):
                    depth, i = depth + 1, i + 2
                elif src.startswith("-/", i):
                    depth, i = depth - 1, i + 2
                else:
                    i += 1
            out.append(" ")
        elif c == '"':
            i += 1
            while i < n and src[i] != '"':
                i += 2 if src[i] == "\\" else 1
            i += 1
            out.append('""')
        elif c == "'" and i + 2 < n and (src[i + 2] == "'" or (src[i + 1] == "\\" and "'" in src[i + 2:i + 12])):
            j = src.find("'", i + 2 if src[i + 1] != "\\" else i + 3)
            i = j + 1
            out.append("' '")
        else:
            out.append(c)
            i += 1
    return "".join(out)

# the only files allowed to decide a theorem by evaluation (finite tables regenerated from the source)
NATIVE_DECIDE_FILES = {"Rink/Props/C08.lean"}

class Check:
    """State of one check run; collects obligations, violations, coverage."""

    def __init__(self, prop, tier, seed):
        self.prop, self.tier, self.seed = prop, tier, seed
        self.t0 = time.time()
        self.thorough = tier == "thorough"
        self.violations = []      # dicts: key, what, replay(dict), found(bool)
        self.known_hits = []
        self.obligations = []     # (name, ok, detail)
        self.coverage = {}
        self.assumptions = []
        self.trusted = list(TRUSTED_BASE_COMMON)
        self.work = os.path.join(CACHE, "run", prop)
        os.makedirs(self.work, exist_ok=True)
        self.log = []

    # ---------------------------------------------------------------- builds
    def build_harness(self, bins=("rkh", "sbx_service")):
        cmd = ["cargo", "build", "--release", "--offline"]
        for b in bins:
            cmd += ["--bin", b]
        rc, out = sh(cmd, cwd=HARNESS)
        ok = rc == 0
        self.obligations.append(("build:harness-links-current-/repo", ok, "" if ok else out[-1500:]))
        if not ok:
            self.violation("build:harness", "the harness no longer builds against /repo's working tree",
                           {"kind": "obligation", "obligation": "cargo build of /verif/harness against /repo",
                            "output": out[-3000:]}, found=False)
        return ok

    def regen_tables(self):
        """Translator step: regenerate lean/Rink/Gen/*.lean from the compiled source (rkh tables)."""
        gen = os.path.join(self.work, "gen")
        os.makedirs(gen, exist_ok=True)
        rc, out = sh([RKH, "tables", "--out", gen])
        ok = rc == 0
        changed = []
        if ok:
            for fn in sorted(os.listdir(gen)):
                if not fn.endswith(".lean"):
                    continue
                new = open(os.path.join(gen, fn), encoding="utf-8").read()
                dst = os.path.join(LEAN, "Rink", "Gen", fn)
                old = open(dst, encoding="utf-8").read() if os.path.exists(dst) else None
                if old != new:
                    open(dst, "w", encoding="utf-8").write(new)
                    changed.append(fn)
        self.obligations.append(("gen:tables regenerated from the compiled source", ok, "changed: %s" % changed if changed else ""))
        self.coverage["generated_tables_changed"] = changed
        if not ok:
            self.violation("gen:tables", "rkh tables failed", {"kind": "obligation", "obligation": "rkh tables", "output": out[-2000:]}, found=False)
        return ok

    def build_lean(self, targets):
        """Builds the model driver first, then the proof modules.  Returns True when the
        driver is usable (so the search for a concrete failing input can still run when a
        proof obligation broke); a failed proof module is recorded as a violation."""
        if os.path.exists(RKH):
            self.regen_tables()
        exe = [t for t in targets if t == "rinkmodel"]
        mods = [t for t in targets if t != "rinkmodel"]
        exe_ok = True
        if exe:
            rc, out = sh(["lake", "build"] + exe, cwd=LEAN)
            exe_ok = rc == 0
            self.obligations.append(("build:lake rinkmodel (model driver)", exe_ok, "" if exe_ok else out[-1500:]))
            if not exe_ok:
                self.violation("build:lean-driver", "lake build of the model driver failed",
                               {"kind": "obligation", "obligation": "lake build rinkmodel", "output": out[-4000:]}, found=False)
        self.proofs_ok = True
        if mods:
            rc, out = sh(["lake", "build"] + mods, cwd=LEAN)
            ok = rc == 0
            self.proofs_ok = ok
            self.obligations.append(("build:lake " + " ".join(mods), ok, "" if ok else out[-1500:]))
            if not ok:
                errs = [l for l in out.split("\n") if l.startswith("error:")][:5]
                self.violation("build:lean", "lake build failed: a proof obligation no longer checks: %s" % "; ".join(errs)[:400],
                               {"kind": "obligation", "obligation": "lake build " + " ".join(mods), "errors": errs,
                                "output": out[-4000:]}, found=False)
        return exe_ok

    # ---------------------------------------------------------------- audit
    def audit(self, module, theorems, source_dirs=("Model", "Lemmas", "Props", "Spec", "Gen"), extra_axioms=()):
        """#print axioms for every property theorem + forbidden-token scan.  `extra_axioms` are
        accepted in addition to the three standard ones (used by C08, whose theorems are decided by
        evaluation: native_decide adds Lean.ofReduceBool / Lean.trustCompiler)."""
        if not getattr(self, "proofs_ok", True):
            self.obligations.append(("audit:skipped because the proof modules do not build", False, ""))
            return []
        path = os.path.join(self.work, "audit.lean")
        with open(path, "w") as f:
            f.write("import %s\n" % module)
            for t in theorems:
                f.write("#print axioms %s\n" % t)
        rc, out = sh(["lake", "env", "lean", path], cwd=LEAN)
        found = {}
        for m in re.finditer(r"'([^']+)' (depends on axioms: \[([^\]]*)\]|does not depend on any axioms)", out, re.S):
            ax = [a.strip() for a in (m.group(3) or "").replace("\n", " ").split(",") if a.strip()]
            found[m.group(1)] = ax
        thm_report = []
        for t in theorems:
            if t not in found:
                self.obligations.append(("theorem:" + t, False, "not found by #print axioms: " + out[-500:]))
                self.violation("theorem:" + t, "property theorem %s is missing or does not check" % t,
                               {"kind": "obligation", "theorem": t, "output": out[-2000:]}, found=False)
                continue
            bad = [a for a in found[t] if a not in ALLOWED_AXIOMS and not any(re.fullmatch(x, a) for x in extra_axioms)]
            ok = not bad
            self.obligations.append(("theorem:" + t, ok, ",".join(found[t])))
            thm_report.append({"theorem": t, "axioms": found[t]})
            if not ok:
                self.violation("axioms:" + t, "theorem %s depends on disallowed axioms %s" % (t, bad),
                               {"kind": "obligation", "theorem": t, "axioms": found[t]}, found=False)
        # forbidden tokens (comments stripped)
        hits = []
        native = []
        for d in source_dirs:
            base = os.path.join(LEAN, "Rink", d)
            for root, _, files in os.walk(base):
                for fn in files:
                    if not fn.endswith(".lean"):
                        continue
                    src = open(os.path.join(root, fn), encoding="utf-8").read()
                    src = strip_lean(src)
                    for m in re.finditer(r"\b(sorry|admit|native_decide|bv_decide|implemented_by|unsafe|partial)\b|^\s*axiom\s|maxHeartbeats\s+0\b", src, re.M):
                        rel = os.path.relpath(os.path.join(root, fn), LEAN)
                        if m.group(0).strip() == "native_decide" and rel in NATIVE_DECIDE_FILES:
                            native.append(rel)
                            continue
                        hits.append("%s: %s" % (os.path.relpath(os.path.join(root, fn), LEAN), m.group(0).strip()))
        ok = not hits
        self.obligations.append(("audit:no sorry/admit/axiom/native_decide/bv_decide/implemented_by/unsafe/partial in Model,Lemmas,Props,Spec,Gen", ok, "; ".join(hits[:10])))
        if not ok:
            self.violation("audit:tokens", "forbidden construct in Lean sources: %s" % hits[:5],
                           {"kind": "obligation", "hits": hits}, found=False)
        self.coverage["theorems"] = thm_report
        self.coverage["native_decide_uses"] = {f: native.count(f) for f in sorted(set(native))}
        return thm_report

    def leanchecker(self, modules):
        for m in modules:
            rc, out = sh(["lake", "env", "leanchecker", m], cwd=LEAN, timeout=1800)
            ok = rc == 0
            self.obligations.append(("leanchecker:" + m, ok, out[-300:]))
            if not ok:
                self.violation("leanchecker:" + m, "leanchecker rejects " + m,
                               {"kind": "obligation", "module": m, "output": out[-2000:]}, found=False)

    # ---------------------------------------------------------------- correspondence
    def run_harness(self, sub, extra=(), timeout=None):
        cmd = [RKH, sub, "--out", self.work, "--seed", str(self.seed), "--tier", self.tier] + list(extra)
        timeout = timeout or (5400 if self.thorough else 1200)
        try:
            rc, out = sh(cmd, timeout=timeout)
        except subprocess.TimeoutExpired:
            # the harness runs the implementation in-process: not finishing is a hang or a deadlock there
            self.violation("harness:" + sub + ":timeout", "harness sub-command %s did not finish within %d s (a hang or deadlock while driving the implementation)" % (sub, timeout),
                           {"kind": "obligation", "obligation": "rkh " + sub}, found=False)
            return False
        if rc != 0:
            self.violation("harness:" + sub, "harness sub-command %s failed (rc=%d)" % (sub, rc),
                           {"kind": "obligation", "obligation": "rkh " + sub, "output": out[-3000:]}, found=False)
            return False
        return True

    def run_model(self, mode, req="req.txt", outname="model.txt", extra=(), timeout=3600):
        with open(os.path.join(self.work, req), "rb") as fin, open(os.path.join(self.work, outname), "wb") as fout:
            try:
                p = subprocess.run([MODEL, mode] + list(extra), stdin=fin, stdout=fout, stderr=subprocess.PIPE, timeout=timeout)
            except subprocess.TimeoutExpired:
                self.violation("model:" + mode + ":timeout", "the model driver did not finish within %d s" % timeout,
                               {"kind": "obligation", "obligation": "rinkmodel " + mode}, found=False)
                return False
        if p.returncode != 0:
            self.violation("model:" + mode, "model driver failed",
                           {"kind": "obligation", "obligation": "rinkmodel " + mode, "output": p.stderr.decode()[-2000:]}, found=False)
            return False
        return True

    def run_model_chunked(self, mode, req="req.txt", outname="model.txt", extra=(), group_start=None, chunk_lines=400,
                          chunk_timeout=180, session_timeout=40):
        """Runs the model driver over the request stream in parallel chunks that respect session
        boundaries, each with a time limit.  A chunk that exceeds it is re-run session by session;
        a session that still exceeds its limit is answered `unsupported model-timeout` line by line
        (the model is an unbounded-precision evaluator and has no budget of its own)."""
        from concurrent.futures import ThreadPoolExecutor
        R = open(os.path.join(self.work, req), encoding="utf-8", errors="replace").read().split("\n")
        if R and R[-1] == "":
            R.pop()
        starts = [i for i, l in enumerate(R) if (l.startswith(group_start) if group_start else True)]
        if not starts or starts[0] != 0:
            starts = [0] + starts
        sessions = [(a, b) for a, b in zip(starts, starts[1:] + [len(R)]) if b > a]
        chunks, cur = [], []
        for se in sessions:
            cur.append(se)
            if cur[-1][1] - cur[0][0] >= chunk_lines:
                chunks.append(cur)
                cur = []
        if cur:
            chunks.append(cur)
        timeouts = [0]

        def run_lines(a, b, limit):
            data = ("\n".join(R[a:b]) + "\n").encode()
            try:
                p = subprocess.run([MODEL, mode] + list(extra), input=data, stdout=subprocess.PIPE, stderr=subprocess.PIPE, timeout=limit)
            except subprocess.TimeoutExpired:
                return None
            out = p.stdout.decode("utf-8", "replace").split("\n")
            if out and out[-1] == "":
                out.pop()
            if p.returncode != 0 or len(out) != b - a:
                return None
            return out

        def run_chunk(ch):
            a, b = ch[0][0], ch[-1][1]
            out = run_lines(a, b, chunk_timeout)
            if out is not None:
                return out
            res = []
            for (x, y) in ch:
                o = run_lines(x, y, session_timeout)
                if o is None:
                    timeouts[0] += 1
                    o = ["unsupported model-timeout"] * (y - x)
                res += o
            return res

        with ThreadPoolExecutor(max_workers=12) as ex:
            parts = list(ex.map(run_chunk, chunks))
        with open(os.path.join(self.work, outname), "w", encoding="utf-8") as f:
            for pch in parts:
                for l in pch:
                    f.write(l + "\n")
        self.coverage["model_sessions_timed_out"] = timeouts[0]
        return True

    def diff_streams(self, group_start=None, req="req.txt", impl="impl.txt", model="model.txt", max_report=5):
        """Line-by-line comparison.  Returns list of disagreements, each with the request
        group (history) it belongs to: lines from the last line matching group_start."""
        R = open(os.path.join(self.work, req), encoding="utf-8", errors="replace").read().split("\n")
        I = open(os.path.join(self.work, impl), encoding="utf-8", errors="replace").read().split("\n")
        M = open(os.path.join(self.work, model), encoding="utf-8", errors="replace").read().split("\n")
        n = len(R)
        out = []
        if not (len(I) == len(M) == n):
            out.append({"index": -1, "history": [], "impl": "lines=%d" % len(I), "model": "lines=%d" % len(M),
                        "request": "stream lengths differ (requests=%d)" % n})
        start = 0
        seen_groups = set()
        ndis = 0
        for i in range(min(n, len(I), len(M))):
            if group_start and R[i].startswith(group_start):
                start = i
            if I[i] != M[i]:
                ndis += 1
                g = start if group_start else i
                if g in seen_groups:
                    continue
                seen_groups.add(g)
                if len(out) < max_report:
                    out.append({"index": i, "history": R[g:i + 1], "request": R[i], "impl": I[i], "model": M[i]})
        self.coverage["traces_validated_against_impl"] = self.coverage.get("traces_validated_against_impl", 0) + max(0, n - 1)
        self.coverage["disagreeing_lines"] = self.coverage.get("disagreeing_lines", 0) + ndis
        return out

    # ---------------------------------------------------------------- violations / findings
    def violation(self, key, what, replay, found=True):
        self.violations.append({"key": key, "what": what, "replay": replay, "found": found})

    def finish(self):
        kf_path = os.path.join(VERIF, "known_findings.json")
        kf = json.load(open(kf_path)) if os.path.exists(kf_path) else {"findings": [], "fixed": []}
        known = {(f["property"], f["key"]): f for f in kf.get("findings", [])}
        lines = []
        nviol = 0
        reported_known = set()
        # concrete failing inputs (oracle violations) are reported before broken correspondences
        for v in sorted(self.violations, key=lambda v: 0 if v["found"] else 1):
            k = (self.prop, v["key"])
            if k in known:
                if k not in reported_known:
                    reported_known.add(k)
                    lines.append("KNOWN-FINDING: property=%s %s" % (self.prop, known[k]["what"]))
                continue
            nviol += 1
            if nviol > 8:
                continue
            h = hashlib.sha1((v["key"] + json.dumps(v["replay"], sort_keys=True)).encode()).hexdigest()[:10]
            rp = os.path.join(VERIF, "replays", "%s-%s.json" % (self.prop, h))
            os.makedirs(os.path.dirname(rp), exist_ok=True)
            body = dict(v["replay"])
            body.update({"property": self.prop, "key": v["key"], "what": v["what"]})
            json.dump(body, open(rp, "w"), indent=1, ensure_ascii=False)
            tail = "" if v["found"] else " no-failing-input-found"
            lines.append("VIOLATION property=%s replay=%s%s" % (self.prop, os.path.relpath(rp, VERIF), tail))
            lines.append("  # " + v["what"][:300])
        nob = len(self.obligations)
        ndis = sum(1 for o in self.obligations if o[1])
        cov = dict(self.coverage)
        cov.update({
            "obligations": nob, "discharged": ndis,
            "obligation_list": [{"name": o[0], "ok": o[1], "detail": o[2][:200]} for o in self.obligations],
            "checker_cmd": "cd /verif/lean && lake build Rink.Props.%s && lake env lean <#print axioms file>%s" % (
                self.prop, " && lake env leanchecker Rink.Props.%s" % self.prop if self.thorough else ""),
            "trusted_base": self.trusted,
        })
        cov.setdefault("samples", [])
        ev = {
            "property_id": self.prop, "tier": self.tier, "seed": self.seed, "level": "proof",
            "coverage": cov, "assumptions": self.assumptions,
            "wall_s": round(time.time() - self.t0, 2), "violations": nviol,
            "known_findings_hit": sorted(k[1] for k in reported_known),
        }
        os.makedirs(os.path.join(VERIF, "evidence"), exist_ok=True)
        json.dump(ev, open(os.path.join(VERIF, "evidence", self.prop + ".json"), "w"), indent=1, ensure_ascii=False)
        for l in lines:
            print(l)
        print("%s tier=%s seed=%d obligations=%d/%d validated=%s violations=%d wall=%.1fs" % (
            self.prop, self.tier, self.seed, ndis, nob, cov.get("traces_validated_against_impl"), nviol, time.time() - self.t0))
        return 1 if nviol else 0


# ---------------------------------------------------------------------------- eval streams
def unhex(h):
    return "" if h == "-" else bytes.fromhex(h).decode("utf-8", "replace")


def decode_req(line):
    p = line.split(" ")
    if p and p[0] in ("eval", "evalp", "evalt") and len(p) >= 2:
        return unhex(p[1])
    return line


def eval_stream(c, gen_sub, independent=True, budget_ms=3000, gen_extra=(), judge=None, group_start=None, corpus=None, ans_taint=False, retry_pred=None):
    """dump registry, generate requests, run implementation and model, compare.
    expect.txt (optional, aligned with req.txt) is the model-independent property oracle:
    `err` means any error class; `-` means no expectation; anything else must match exactly.
    `judge(request_text, impl_line)` may return a string describing a property violation."""
    if not c.run_harness("dump"):
        return None
    if corpus:
        extra = ["--corpus", corpus]
    else:
        extra = []
    if not c.run_harness(gen_sub, extra=list(gen_extra) + extra):
        return None
    args = ["--budget-ms=%d" % budget_ms] + (["--independent"] if independent else [])
    if not c.run_harness("eval-run", extra=args, timeout=7200):
        return None
    if group_start:
        if not c.run_model_chunked("eval", extra=[os.path.join(c.work, "registry.dump")], group_start=group_start):
            return None
    elif not c.run_model("eval", extra=[os.path.join(c.work, "registry.dump")], timeout=1500):
        return None
    rd = lambda n: open(os.path.join(c.work, n), encoding="utf-8", errors="replace").read().split("\n")
    R, I, M = rd("req.txt"), rd("impl.txt"), rd("model.txt")
    # side.txt (line-aligned with impl.txt): what the harness reports besides the compared line, for the judge
    SIDE = [l or None for l in rd("side.txt")] if os.path.exists(os.path.join(c.work, "side.txt")) else []
    SIDE += [None] * (len(I) - len(SIDE))
    # a `timeout` under a loaded machine is not evidence: re-run those requests alone, one
    # worker, with a generous budget, and keep the second answer
    slow = [i for i, a in enumerate(I) if a == "timeout"]
    c.coverage["timeouts_first_pass"] = len(slow)
    if slow and independent and len(slow) <= 200:
        retry = os.path.join(c.work, "retry")
        os.makedirs(retry, exist_ok=True)
        open(os.path.join(retry, "req.txt"), "w").write("\n".join(R[i] for i in slow) + "\n")
        sh([RKH, "eval-run", "--out", retry, "--budget-ms=60000", "--jobs=2", "--independent"], timeout=7200)
        RI = open(os.path.join(retry, "impl.txt")).read().split("\n")
        for k, i in enumerate(slow):
            if k < len(RI) and RI[k]:
                I[i] = RI[k]
    if slow and not independent and group_start:
        # sessions: re-run every session that contains a time-out that would count (retry_pred on the
        # line's aux record; all of them by default) alone, one worker, generous budget
        starts = [i for i, l in enumerate(R) if l.startswith(group_start)] + [len(R)]
        done = set()
        auxl = rd("aux.txt") if os.path.exists(os.path.join(c.work, "aux.txt")) else []
        def counts(i):
            if retry_pred is None:
                return True
            try:
                return bool(retry_pred(json.loads(auxl[i])))
            except (ValueError, IndexError):
                return True
        for i in [x for x in slow if counts(x)][:40]:
            a = max(x for x in starts if x <= i) if any(x <= i for x in starts) else 0
            b = min(x for x in starts if x > i)
            if a in done:
                continue
            done.add(a)
            retry = os.path.join(c.work, "retry")
            os.makedirs(retry, exist_ok=True)
            lines = [l for l in R[a:b] if l]
            open(os.path.join(retry, "req.txt"), "w").write("\n".join(lines) + "\n")
            sh([RKH, "eval-run", "--out", retry, "--budget-ms=60000", "--jobs=1"], timeout=7200)
            RI = [l for l in open(os.path.join(retry, "impl.txt")).read().split("\n")]
            if len(RI) >= len(lines):
                for k in range(len(lines)):
                    I[a + k] = RI[k]
        c.coverage["sessions_rerun_alone"] = len(done)
    E = rd("expect.txt") if os.path.exists(os.path.join(c.work, "expect.txt")) and gen_sub == "gen-c01" else None
    AUX = rd("aux.txt") if os.path.exists(os.path.join(c.work, "aux.txt")) and gen_sub != "gen-c01" else None
    n = len(R) - 1 if R and R[-1] == "" else len(R)
    if not (len(I) >= n and len(M) >= n):
        c.violation("streams", "answer streams are shorter than the request stream (req=%d impl=%d model=%d)" % (n, len(I), len(M)),
                    {"kind": "obligation", "obligation": "correspondence stream " + gen_sub}, found=False)
        return None
    skipped = validated = oracle_checked = 0
    start = 0
    flagged = set()
    kinds = {}
    tainted = False
    for i in range(n):
        if group_start and R[i].startswith(group_start):
            start = i
            tainted = False
        text = decode_req(R[i])
        hist = [decode_req(x) for x in R[start:i + 1]] if group_start else [text]
        key = " ;; ".join(hist)
        kinds[I[i].split(" ")[0]] = kinds.get(I[i].split(" ")[0], 0) + 1
        bad = None
        if E is not None and E[i] != "-":
            oracle_checked += 1
            if E[i] == "err":
                if not I[i].startswith("err"):
                    bad = "expected an error (the result is undefined), implementation answered %r" % I[i][:120]
            elif I[i] != E[i]:
                bad = "expected %r, implementation answered %r" % (E[i][:160], I[i][:160])
        if bad is None and judge:
            aux = None
            if AUX is not None and i < len(AUX) and AUX[i]:
                try:
                    aux = json.loads(AUX[i])
                except ValueError:
                    aux = None
            if SIDE[i] is not None:
                aux = dict(aux or {}, _side=SIDE[i])
            if aux is not None:
                aux = dict(aux, _model=M[i] if i < len(M) else "")
            bad = judge(text, I[i], aux)
            if bad:
                oracle_checked += 0
            if aux is not None:
                oracle_checked += 1
        if bad == "ignore":
            # the judge accepts this outcome and takes the line out of the comparison (C04: a
            # time-out on an input whose exact result is astronomically large)
            skipped += 1
            tainted = True
            continue
        if bad is None and I[i].split(" ")[0] in ("panic", "abort", "timeout"):
            bad = "implementation answered %r" % I[i]
        if bad:
            flagged.add(i)
            c.violation(key, "input %r: %s" % (text[:200], bad),
                        {"kind": "input" if not group_start else "history", "input": text, "history": hist,
                         "impl": I[i], "model": M[i], "expected": E[i] if E else None}, found=True)
        if M[i].startswith("unsupported") or I[i].split(" ")[0] in ("panic", "abort", "timeout"):
            # only a Number reply is stored as `ans`: when the model could not follow a line that the
            # implementation answered with a number (or that killed the worker), the model's `ans` may
            # differ from the implementation's from here on
            if I[i].split(" ")[0] in ("number", "panic", "abort", "timeout"):
                tainted = True
            skipped += 1
            continue
        if tainted and group_start and re.search(r"ans|_", text, re.I):
            skipped += 1
            continue
        validated += 1
        if I[i] != M[i] and i not in flagged:
            c.violation(key, "model/implementation disagreement on %r: impl=%r model=%r" % (text[:200], I[i][:160], M[i][:160]),
                        {"kind": "input" if not group_start else "history", "input": text, "history": hist, "impl": I[i], "model": M[i],
                         "correspondence": "rkh %s | rkh eval-run | rinkmodel eval" % gen_sub}, found=False)
    c.coverage["traces_validated_against_impl"] = c.coverage.get("traces_validated_against_impl", 0) + validated
    c.coverage["model_unsupported_skipped"] = c.coverage.get("model_unsupported_skipped", 0) + skipped
    c.coverage["oracle_checked"] = c.coverage.get("oracle_checked", 0) + oracle_checked
    c.coverage["impl_answer_kinds"] = kinds
    c.coverage["evaluations"] = c.coverage.get("evaluations", 0) + n
    c.coverage["distinct_nontrivial"] = len(set(R[:n]))
    st = os.path.join(c.work, "stats.json")
    return json.load(open(st)) if os.path.exists(st) else {}


def eval_replay(prop, path):
    """Re-runs the input/history of a replay file on implementation and model."""
    r = json.load(open(path))
    hist = r.get("history") or ([r["input"]] if "input" in r else [])
    work = os.path.join(CACHE, "replay", prop)
    os.makedirs(work, exist_ok=True)
    sh(["cargo", "build", "--release", "--offline"], cwd=HARNESS)
    sh(["lake", "build", "rinkmodel"], cwd=LEAN)
    rc, enc = sh([RKH, "encode"], input=("\n".join(hist) + "\n").encode())
    open(os.path.join(work, "req.txt"), "w").write("reset\n" + enc)
    sh([RKH, "dump", "--out", work])
    sh([RKH, "eval-run", "--out", work, "--budget-ms=5000"])
    with open(os.path.join(work, "req.txt"), "rb") as fin:
        p = subprocess.run([MODEL, "eval", os.path.join(work, "registry.dump")], stdin=fin, stdout=subprocess.PIPE)
    I = open(os.path.join(work, "impl.txt")).read().split("\n")[1:]
    M = p.stdout.decode().split("\n")[1:]
    bad = False
    print("input | implementation | model")
    for h, a, b in zip(hist, I, M):
        differs = a != b and not b.startswith("unsupported")
        bad = bad or differs or a in ("panic", "abort", "timeout")
        print("%s | %s | %s%s" % (h, a, b, "   <-- differs" if differs else ""))
    exp = r.get("expected")
    if exp and exp != "-" and I:
        last = I[len(hist) - 1] if len(I) >= len(hist) else ""
        if (exp == "err" and not last.startswith("err")) or (exp != "err" and last != exp):
            print("expected: %s" % exp)
            bad = True
    if bad:
        print("VIOLATION property=%s replay=%s" % (prop, path))
    return 1 if bad else 0
