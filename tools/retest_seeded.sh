#!/bin/bash
# usage: tools/retest_seeded.sh <SEEDED-ID> [check PROP...] — re-run the check(s) against a stored change and update its meta.json
id="$1"; shift
prop="${id%%-*}"
checks="${@:-$prop}"
cd /verif
dst=/verif/seeded/$id
out=$(bash tools/try_mutant.sh "$dst/patch.diff" $checks 2>&1)
echo "$out" | cut -c1-260 | head -6
printf '%s' "$out" > /tmp/retest_out.$$
python3 - "$dst" "$checks" /tmp/retest_out.$$ <<'PY'
import json,sys
dst,checks,outp=sys.argv[1],sys.argv[2],sys.argv[3]
out=open(outp,errors='replace').read()
m=json.load(open(dst+'/meta.json'))
viol=[l for l in out.split('\n') if l.startswith('VIOLATION')]
why=[l.strip('# ').strip() for l in out.split('\n') if l.startswith('  #')]
if viol:
    found=[v for v in viol if 'no-failing-input-found' not in v]
    m['detected_by']=('%s quick: %s' % (checks, (why[0] if why else viol[0])[:200])) + ('' if found else ' (obligation/correspondence only)')
    m['detected']=True
else:
    m['detected_by']='MISSED by %s quick' % checks
    m['detected']=False
m['check_cmd']='tools/try_mutant.sh seeded/%s/patch.diff %s' % (dst.split('/')[-1], checks)
json.dump(m,open(dst+'/meta.json','w'),indent=1,ensure_ascii=False)
print('   =>', m['detected_by'][:220])
PY
rm -f /tmp/retest_out.$$
git -C /repo status --short | head -3
