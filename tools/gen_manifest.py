#!/usr/bin/env python3
"""Writes /verif/MANIFEST.json from the table below (kept in one place so it stays valid)."""
import json, os
VERIF = os.path.dirname(os.path.dirname(os.path.abspath(__file__)))

CLAIMED = {
 "C19": {
  "technique": "Lean 4 proof: inductive invariant over all interleavings of the allocator's atomic steps (conservation, limit, peak) + differential correspondence of the model with the real Alloc",
  "text": "Theorems in lean/Rink/Props/C19.lean hold for any number of threads, any schedule and any sizes: used = live + in-flight charges (quiescent: used = live), live + accepted charges <= limit, fetch_sub never wraps, a null result leaves used and the block set unchanged, and max >= live whenever no accepted fetch_add is still waiting for its fetch_max. The model (one PC constructor per atomic statement) is tied to sandbox/src/alloc.rs by running every operation sequence up to length 4/5 over the boundary alphabet, long random sequences and the parent-failure path on the real Alloc and diffing result and peak after every op and used at every reset; concurrent runs of the real allocator are judged at quiescent points.",
  "note": "Trusted: Lean kernel; axioms propext/Quot.sound/Classical.choice only; sequentially consistent single-location atomics; no usize wrap; constant limit; reset_max atomic in the model; the correspondence is differential (bounded-exhaustive + random), real thread interleavings are not controlled.",
  "design_ref": "DESIGN.md §7 C19",
 },

 "C01": {
  "technique": "Lean 4 proof by structural induction over arithmetic trees (eval_exact) + differential correspondence of lexer/parser/evaluator model with rink_core::eval and an independent exact oracle",
  "text": "Rink.Spec.eval_exact (lean/Rink/Props/C01.lean): for every arithmetic tree over + - * / | juxtaposition, integer ^, mod, << >>, and/or/xor and unary signs, of any depth and operand size, the model evaluator returns exactly the rational of unbounded-precision arithmetic, dimensionless, an error exactly when the result is undefined, never a float, never a panic. The model of lexer, parser and evaluator is tied to the code by evaluating generated query strings (all notations, separators, spacing, redundant parentheses; bounded-exhaustive over a boundary alphabet plus random trees with operands of hundreds of digits) through rink_core's own parse_query/eval_query and comparing the exact numerator/denominator with the Lean model and with an independent evaluation of the generating tree.",
  "note": "Trusted: Lean kernel; num-bigint/num-rational exactness; the lexing of literals and the precedence ladder are covered by the correspondence run and not yet by theorems (lex_literal / parse_renders are future work); results beyond 2^24 bits are classed huge and skipped.",
  "design_ref": "DESIGN.md §7 C01",
 },
}

NOT_YET = {
}

def main():
    props = [json.loads(l) for l in open(os.path.join(VERIF, "properties.jsonl"))]
    checks = []
    na = []
    for p in props:
        pid = p["id"]
        if pid in CLAIMED:
            c = CLAIMED[pid]
            checks.append({
                "property_id": pid,
                "quick_cmd": "./check %s --tier quick" % pid,
                "thorough_cmd": "./check %s --tier thorough" % pid,
                "evidence_file": "evidence/%s.json" % pid,
                "replay_cmd_template": "./check %s --replay {path}" % pid,
                "engine": "lean4-proof+correspondence",
                "level_claimed": {"category": "proof", "text": c["text"], "design_ref": c["design_ref"]},
                "level_note": c["note"],
                "technique": c["technique"],
            })
        else:
            na.append({"property_id": pid, "reason": NOT_YET.get(pid, "not claimed yet: the Lean model and correspondence stream for this property are still being built (see DESIGN.md §9 build order); nothing is asserted about it by this commit")})
    m = {
        "version": 1,
        "setup_cmd": "./setup.sh",
        "hooks": {"guard": "rink_verif", "enable": "no hooks are needed: every observation goes through public API (RUSTFLAGS='--cfg rink_verif' is reserved)",
                  "baseline_off_cmd": "cd /repo && cargo test --workspace --no-fail-fast --offline", "source_commits": [], "add_only": True},
        "engines": [{"name": "lean4-proof+correspondence", "path": "lean/ harness/ check tools/vlib.py",
                     "serves_properties": sorted(CLAIMED), "kind_free_text": "Lean 4 theorems about an executable model; model tied to /repo by a differential correspondence harness (Rust) and regenerated tables"}],
        "checks": checks,
        "not_applicable": na,
        "notes": "See DESIGN.md. known_findings.json lists recorded findings and fixed defects.",
    }
    json.dump(m, open(os.path.join(VERIF, "MANIFEST.json"), "w"), indent=1)

main()
