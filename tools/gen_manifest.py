#!/usr/bin/env python3
"""Writes /verif/MANIFEST.json from the table below (kept in one place so it stays valid)."""
import json, os
VERIF = os.path.dirname(os.path.dirname(os.path.abspath(__file__)))

CLAIMED = {
 "C19": {
  "technique": "Lean 4 proof: inductive invariant over all interleavings of the allocator's atomic steps (conservation, limit, peak) + differential correspondence of the model with the real Alloc",
  "text": "Theorems in lean/Rink/Props/C19.lean hold for any number of threads, any schedule and any sizes: used = live + in-flight charges (quiescent: used = live), live + accepted charges <= limit, fetch_sub never wraps, a null result leaves used and the block set unchanged, and max >= live whenever no accepted fetch_add is still waiting for its fetch_max. The model (one PC constructor per atomic statement) is tied to sandbox/src/alloc.rs by running every operation sequence up to length 4/5 over the boundary alphabet, long random sequences and the parent-failure path on the real Alloc and diffing result and peak after every op and used at every reset; concurrent runs of the real allocator are judged at quiescent points.",
  "note": "Trusted: Lean kernel; axioms propext/Quot.sound/Classical.choice only; sequentially consistent single-location atomics; no usize wrap; constant limit; reset_max atomic in the model; the correspondence is differential (bounded-exhaustive + random), real thread interleavings are not controlled.",
  "design_ref": "DESIGN.md §7 C19",
 },

 "C01": {
  "technique": "Lean 4 proof by structural induction over arithmetic trees (eval_exact) + differential correspondence of lexer/parser/evaluator model with rink_core::eval and an independent exact oracle",
  "text": "Rink.Spec.eval_exact (lean/Rink/Props/C01.lean): for every arithmetic tree over + - * / | juxtaposition, integer ^, mod, << >>, and/or/xor and unary signs, of any depth and operand size, the model evaluator returns exactly the rational of unbounded-precision arithmetic, dimensionless, an error exactly when the result is undefined, never a float, never a panic. The model of lexer, parser and evaluator is tied to the code by evaluating generated query strings (all notations, separators, spacing, redundant parentheses; bounded-exhaustive over a boundary alphabet plus random trees with operands of hundreds of digits) through rink_core's own parse_query/eval_query and comparing the exact numerator/denominator with the Lean model and with an independent evaluation of the generating tree.",
  "note": "Trusted: Lean kernel; num-bigint/num-rational exactness; the lexing of literals and the precedence ladder are covered by the correspondence run and not yet by theorems (lex_literal / parse_renders are future work); results beyond 2^24 bits are classed huge and skipped.",
  "design_ref": "DESIGN.md §7 C01",
 },
 "C02": {
  "technique": "Lean 4 proof by mutual structural induction over the whole expression language (eval_canonical) + algebra/gate lemmas + differential correspondence with an exponent-vector oracle",
  "text": "Rink.Spec.eval_canonical: for every expression (all operators, all 20 functions, any nesting) evaluated in a context with canonical database entries, the result's dimensionality is strictly sorted and carries no zero exponent; mul_unit/div_unit/pow_unit/root_unit state the algebra (add, subtract, multiply exponents; roots divide and are refused unless exact); gate lemmas state every refusal (sum, difference, mod, hypot, atan2 between different dimensionalities; trig only on dimensionless/radian; inverse trig returns radian). Dim.merge (btree_merge) lemmas are proved for all sorted inputs. The evaluator model is tied to eval_expr by random trees over every lexable database unit with prefixes/plurals, quoted base units and rational coefficients; the dimensional algebra of the generating tree, computed independently over exponent vectors, is the oracle and every reply is scanned for zero exponents.",
  "note": "Trusted: Lean kernel (+ Mathlib's LinearOrder String); operand dimensionalities come from Context::lookup; float values are opaque (only dimensionality compared); exponents are unbounded Int in the model (i64 overflow not modelled).",
  "design_ref": "DESIGN.md §7 C02",
 },
 "C03": {
  "technique": "Lean 4 proof about the conversion arm (convert_ok_iff, convert_exact, convert_back, convert_mismatch) + differential correspondence over conformable unit pairs with an exact x*t=v oracle",
  "text": "For every pair of exact numbers v, t: the conversion succeeds iff the dimensionalities are equal (and t is not zero), the reported x satisfies x*t = v exactly and is dimensionless, x t is v again (so converting back returns v), a mismatch is a conformance error and a zero target a generic error; evalQuery_convert shows the model's Convert arm is exactly this decision. Tied to the code by ordered pairs of conformable database units (sampled in quick, exhaustive in thorough) and random compound sources/targets including inline definitions, with x*t = v checked over exact fractions.",
  "note": "Trusted: Lean kernel; values of source/target expressions come from Context::eval; sums/differences as targets are outside the quantifier of C03 and are not generated; the reciprocal/missing-factor hint texts are not modelled (only the error class).",
  "design_ref": "DESIGN.md §7 C03",
 },
 "C09": {
  "technique": "Lean 4 proof over all rationals and all unit lists (decomp_sum, decomp_integral, remainders_lt, decomp_sign_*) + differential correspondence with the four laws as oracle",
  "text": "For every rational v and every non-empty list of non-zero units the model's loop (proved equal to Eval.listLoop, never panicking) satisfies sum(part_i*u_i) = v, all parts but the last are integers, every remainder is smaller in magnitude than the unit just used, and with positive units all parts share v's sign; non-conformable members or values are refused. Tied to to_list and the automatic duration breakdown by lists of 2-6 units from every dimensionality with at least two units (any order, repeats, non-conformable members) and time values in every time unit; the laws are re-evaluated on the implementation's parts with exact fractions.",
  "note": "Trusted: Lean kernel, Mathlib order/field lemmas on Rat; truncation = BigInt division toward zero; unit values from Context::lookup.",
  "design_ref": "DESIGN.md §7 C09",
 },
 "C10": {
  "technique": "Lean 4 proof (affine round trip for all rationals; kernel-checked equality of the regenerated constant table with the textbook constants) + differential correspondence over all 36 pairs and spellings",
  "text": "degree_roundtrip holds for every rational x and any non-zero scale; resolved_textbook re-checks in the kernel, on every run, that the table regenerated from Degree::name_base_scale and the loaded database equals the textbook (scale, base) pairs, and textbook_* put them in the property's form; eval_degree/convert_degree show the evaluator computes x*scale+base and (T-base)/scale; refusals on dimensioned operands and in compound targets and the full spelling table are theorems. Tied to the code by rational x (below absolute zero, huge, many-digit) over all 36 ordered pairs and every spelling, compared with the textbook formulas over exact fractions and with the model.",
  "note": "Trusted: Lean kernel; rkh tables (prints what name_base_scale and Context::lookup return); Mathlib ring/norm_num.",
  "design_ref": "DESIGN.md §7 C10",
 },
 "C15": {
  "technique": "Lean 4 proof by induction over histories (replies_are_fresh, run_untouched, flag_off_never_sets) + differential correspondence of whole sessions, a fresh-context oracle and a registry digest",
  "text": "For histories of any length: the registry and settings after the history are those before it; the reply to every query equals the reply of a fresh copy of the initial context that differs only in the previous answer, where the previous answer is threaded by nextAns (set only by a successful number reply while the feature is on; unchanged by errors, conversions, definitions, lists, durations, commands; never set with the feature off). Tied to rink_core's eval by random sessions (plain expressions, ans/ANS/_, conversions, definition lookups, units for/factorize/search, failing queries, flag toggles) compared reply by reply with the Lean session model, re-evaluated on fresh contexts with previous_result preset, and a digest of Debug(registry), clock and settings taken before and after every session.",
  "note": "Trusted: Lean kernel; purity of eval_query rests in the code on &Context without interior mutability (observed through the digest); the clock is pinned; `ans` is stored for QueryReply::Number only, as the property's mechanism states (a time value rendered as a duration breakdown does not update it).",
  "design_ref": "DESIGN.md §7 C15",
 },
 "C07": {
  "technique": "Lean 4 proof of the resolution order for every registry (exact_wins, prefix_reading = first prefix in list order, plural_last, determinism) + exhaustive side-by-side computation of lookup/canonicalize over all prefix+unit[+s] names",
  "text": "For every registry: an exactly defined name denotes its definition; otherwise the prefix loop returns prefix value x unit value for the first prefix in list order whose remainder is exact (prefixLoop_eq characterises the loop by List.find?); the plural s is tried only when exact and prefix readings both fail; ans/ANS/_ are the only names shadowing the database; lookup is a function of the registry. The model is tied to Context::lookup and Context::canonicalize by computing, for every string prefix+unit[+s] over the bundled database (about 543 000 names, 1/10 sample of prefixed forms in quick, all in thorough), the value, the canonical name and the value of the canonical name on both sides; the ordering laws are re-derived in the harness without rink's lookup code and canonicalisation is checked to preserve the value for every name.",
  "note": "Trusted: Lean kernel; Rust's ordered containers. Value preservation of canonicalize is decided by exhaustive computation over the shipped database (complete for it), not by a theorem for arbitrary databases; random databases with colliding names are not generated yet.",
  "design_ref": "DESIGN.md §7 C07",
 },
 "C18": {
  "technique": "Lean 4 proof by induction over request sequences of a message-level model of parent loop, child loop and pipes (sandbox_refines, no_stale_reply) + differential correspondence driving the real Sandbox with a fault-injecting test service",
  "text": "For request sequences of any length, every fault kind in every position and every resolution of the write-to-dead-child race: each request gets exactly one reply, which is its own outcome (result, panic, timeout, crashed), in order, and the loop is back in the idle invariant (child alive, fresh pipes, nothing unread) before the next request, so no stale reply can be delivered and later requests are served normally (sandbox_refines, no_stale_reply, one_reply_per_request); the pre-fix loop is shown to sacrifice the next request or to wedge (unfixed_*). Tied to sandbox/src/parent.rs and child.rs by driving the real Sandbox, one fresh parent process per sequence, with a test service whose requests answer, panic, overrun the time limit, allocate beyond the memory limit, exit, or carry a 1 MiB payload: all sequences up to length 3 (quick) / 4 (thorough) plus random sequences of length 5, varied gaps; replies compared with each request's own outcome and with the model.",
  "note": "Trusted: Lean kernel; the message-level abstraction of OS pipes, process exit and kill; async-std channels and timers; bincode framing. Real timing, scheduling, ctrl-c delivery and pipe capacity are runtime behaviour the model cannot exhibit (named partial in DESIGN.md).",
  "design_ref": "DESIGN.md §7 C18",
 },
 "C05": {
  "technique": "Lean 4 proof of the long-division core for every base and rational (invariant, exact termination, truncation bound, recurring block = geometric series, is_recurring shortcut) + exact text correspondence with Numeric::to_string and an independent reader of the printed numerals",
  "text": "For every base b >= 2 and every cursor in [0,1): each emitted digit is < b, the cursor stays in [0,1), and after n steps c = sum d_i b^-(i+1) + cursor_n b^-n (long_division_invariant); a zero cursor means the digits denote c exactly (exact_denotes); otherwise the printed prefix is the truncation toward zero with error below one unit of the last place (approx_truncates); a repeated remainder repeats all later digits and the bracketed block denotes block/(b^p-1) exactly (seen_remainder_periodic, recurring_block_denotes); the is_recurring shortcut is sound (isRecurring_sound). The full text-producing functions (to_digits_impl, to_scientific, to_string, string_repr, the n pattern) are modelled and compared character by character with the implementation over boundary families, short/long/huge periods, notation switches, operands to 4096 bits, all 35 bases and all digits modes; an independent reader re-reads every printed numeral and checks exact = value, approximate = truncation within one ulp, stated period = block length, approx. marker iff not exact.",
  "note": "Trusted: Lean kernel + Mathlib field/order lemmas; the f64 digit-count estimate (recomputed with the same expression); text assembly is covered by correspondence and the reader, not by a theorem (read_render is future work); in bases >= 15 the marker e is a digit and the reader is told the mode.",
  "design_ref": "DESIGN.md §7 C05",
 },
 "C06": {
  "technique": "Lean 4 proof of the display path's arithmetic identities (derived-unit regrouping, SI prefix selection, gram/tonne and bit/byte rescaling, parenthesised dimensionality/quantity) + field-by-field correspondence of NumberParts and an independent value x factor x unit oracle",
  "text": "For every sorted dimensionality and every derived unit, (v / u^i)[k] + i*u[k] = v[k] (divPow_get) and fast_decompose returns either its input or input / u^i with u's name inserted for a registered u and i in {-1,1,2} (fastDecompose_spec); the selected SI prefix satisfies shown * prefix^power = value with the printed unit prefix++unit or tonne (prefixSearch_sound); the kilogram->gram and bit->byte rescalings are exact; to_parts_digits always reports the result's own dimensionality and quantity; a conversion reply carries exactly the raw ratio, the target's names and the constant's numerator/denominator. The model of prettify, fast_decompose, pretty_unit, to_parts_digits, unit_to_string and Context::show is compared with the implementation on every field of NumberParts; independently, every numeral is re-read and numeral x factor / divfactor x product of the printed unit names (resolved by Context::lookup) is compared with the computed quantity (exact numerals: equal; approximate: within one last-digit unit).",
  "note": "Trusted: Lean kernel + Mathlib; that prefix++unit names denote prefix x unit when read back rests on C07 (theorem for the order, exhaustive computation for the database); substance property rendering and unit-list entries are covered by the oracle in the C16/C09 streams, not by these theorems.",
  "design_ref": "DESIGN.md §7 C06",
 },
 "C11": {
  "technique": "Lean 4 model of Display, lexer and parser validated text-for-text and tree-for-tree against the implementation on every tree (exhaustive to depth 2/3 + random) with the round trip itself as oracle; kernel-checked well-formedness of the precedence tables for every operator (the unbounded parse_print theorem is future work)",
  "text": "The printer model (Print.display, parameterised by the Precedence::from/next tables), the lexer and the recursive-descent parser are executable Lean definitions; for every generated expression tree the implementation's Display text, the tree obtained by parsing that text back, and the ExprString JSON round trip are compared with the model's text and re-parsed tree, and the oracle checks that the re-parsed tree equals the original with no trailing input. Coverage is exhaustive over every constructor in every operand position to depth 2 (quick) / 3 (thorough) over a small leaf alphabet plus 20 000 / 200 000 random trees to depth 5. prec_tables_wf is a complete check of the finite operator table (left operand always one level tighter; right operand one level tighter except for the right-associative ^). The general theorem parse (lex (display e)) = e by induction over Expr is not yet proved: for this property the check is correspondence plus partial proof.",
  "note": "Trusted: Lean kernel; the tree alphabet excludes names that only a double-quoted identifier can produce and literals whose default printing is not exact (the property's own exclusion); ExprReply parts are not rendered by the core crate and are not compared.",
  "design_ref": "DESIGN.md §7 C11, Appendix A.1",
 },
 "C16": {
  "technique": "Lean 4 proof about Substance::get for every substance, amount and dimensionality (linear, inverse, wrong-dimension, scaling) and about the formula sum for every symbol list + API-level correspondence on every substance/property and formula with the laws as oracle",
  "text": "For every substance and every property reached by a name that no earlier property answers to (Skips): an amount a in the input dimensionality gives output*(a/input) exactly in the output's dimensionality (get_linear); an amount in the output dimensionality gives back input*(a/output), so the round trip returns a (get_inverse, roundtrip_value); an amount of another canonical dimensionality is a conformance error (get_wrong_dim, via extensionality of canonical exponent vectors); multiplying a substance by c multiplies what get returns by c (get_scales); the molar mass of a formula is the exact count-weighted sum (formula_sum) and unknown symbols, stray counts, error tokens and the empty string are rejected. The model of Substance::get and substance_from_formula is compared with the implementation on every substance and property of the database with rational amounts in four dimensionalities and four kinds of names, and on thousands of formulas with counts up to 2^32-1 and near misses; the laws are re-evaluated on the implementation's answers, also through `<name> of <amount> <substance>` queries.",
  "note": "Trusted: Lean kernel + Mathlib; database properties come from the registry dump; whole-substance reply rendering (to_reply / get_in_unit) and substance addition are not modelled; the formula tokenizer's string level is modelled and compared, the theorem is at token level.",
  "design_ref": "DESIGN.md §7 C16",
 },
 "C17": {
  "technique": "Lean 4 proof for every registry and dimensionality (units-for display = permutation of the selected entries; factorize soundness by induction on the score; strict ordering of kept candidates) + reply-exact correspondence and an independent membership/product oracle",
  "text": "unitsfor_exact: what `units for X` displays, flattened with each group's category, is a permutation of the entries selected by the filter (unitsFor_selects: exactly the non-alias units of dimensionality X with their own category) — stable sort and adjacent grouping lose and add nothing; factorize_sound: for every quantity table with sorted dimensionalities, every X and any fuel, each returned name list has one table entry per name whose exponents add up to X's for every base unit (whatever candidates pruning keeps); keepTen_nodup: the kept candidates are strictly ordered, hence without duplicates, and at most ten; name_or_expr: a quantity name and any expression of its dimensionality give the same operand. The replies of `units for` and `factorize` are compared literally with the Lean model for every named quantity (by name and by expression), every dimensionality of the database and random base-unit products, and re-judged by an oracle that recomputes the member set from the registry and multiplies every factorization out.",
  "note": "Trusted: Lean kernel + Mathlib (list permutations, lexicographic order on List String); factorize is exponential in the implementation and is asked only for dimensionalities of low complexity; after the fix Factors' PartialOrd agrees with Ord, which is what makes the sorted-list model of the BinaryHeap exact.",
  "design_ref": "DESIGN.md §7 C17",
 },
 "C20": {
  "technique": "Lean 4 proof: invariant over every prefix (crash point) of the file-operation sequence of download_to_file/cached/load for all prior directories and all server scripts + correspondence of the operation sequence, cache bytes and loader outcome with the real rink binary under strace against a fault-injecting HTTP server, with SIGKILL injected at every step",
  "text": "Theorems in lean/Rink/Props/C20.lean hold for every prior cache directory (file absent/fresh/stale, any bytes, orphan temp files), every server script (any status, any chunking, complete / transport error after k chunks / stall after k chunks), every temp-name draw, both entry points and every crash point k: after the first k operations the cache entry is exactly the prior one or exactly the complete new body, the latter only after a transfer that completed with status 200 (cache_atomic, cache_never_partial, cache_changes_only_on_complete_200, failed_transfer_leaves_cache); the rename is the last operation, directly after fsync of the same temp file and after every chunk was written, and a failed download renames nothing (commit_is_last_and_synced); the temp name never equals the cache name (temp_name_differs); load() continues for every directory and server (startup_always_continues), hands the stale contents to the loader when the refresh fails (failed_refresh_falls_back), starts without currency when there is no file (no_cache_still_starts), uses a fresh file without any other operation (fresh_cache_used); a failed --fetch-currency leaves the entry (failed_fetch_leaves_cache); after a successful refresh the file holds the whole body and the next start reads it while it is current or whenever the later refresh fails (fetch_installs_body, startup_installs_body, next_start_reads, success_visible). The model (one Op per system call on the cache directory) is tied to cli/src/config.rs by running the real binary for prior {absent, fresh, stale, unreadable stale/fresh, mtime in the future} x server {200 in 1/3/8 pieces, Content-Length cut at k bytes, 301/404/500(+302/403/429/503), stall before headers / after k bytes, refused, chunked without terminator, RST} x entry {expression arguments, -f -, --fetch-currency} (+ fetch_on_startup=false, enabled=false) under strace -f -y and comparing the canonical syscall sequence on the cache directory, the final cache state, exit status and which rates answered `1 EUR -> USD` with the model's prediction; independently of the model a property oracle checks old-or-complete-new bytes, no replacement without a clean 200, that `1 meter -> feet` is answered, the stale fallback, and what the next start (server unreachable) reads; SIGKILL is injected at the entry of every system call on the cache directory, of the call after it and of every write(2) up to the first one after the commit, and in the middle of a stalled transfer, and the cache file must equal the model's state at that crash point.",
  "note": "Trusted: Lean kernel; axioms propext/Quot.sound/Classical.choice only. Assumed, not proved: rename(2) is atomic; data passed to write(2) survives SIGKILL (power loss / fsync durability not modelled, only the fsync-before-rename order); libcurl turns short Content-Length bodies, unterminated chunked bodies, resets, refusals and timeouts into an error from perform(); tempfile uses O_CREAT|O_EXCL; a single process refreshes at a time. A close-delimited body cut by the peer is indistinguishable from a complete one (explored and reported in the evidence, outside the statement). Crash points exercised on the binary are syscall entries and a mid-transfer kill; strace and tools/fault_http.py are trusted to report/serve what they say.",
  "design_ref": "DESIGN.md §7 C20",
 },
}

NOT_YET = {
}

def main():
    props = [json.loads(l) for l in open(os.path.join(VERIF, "properties.jsonl"))]
    checks = []
    na = []
    for p in props:
        pid = p["id"]
        if pid in CLAIMED:
            c = CLAIMED[pid]
            checks.append({
                "property_id": pid,
                "quick_cmd": "./check %s --tier quick" % pid,
                "thorough_cmd": "./check %s --tier thorough" % pid,
                "evidence_file": "evidence/%s.json" % pid,
                "replay_cmd_template": "./check %s --replay {path}" % pid,
                "engine": "lean4-proof+correspondence",
                "level_claimed": {"category": "proof", "text": c["text"], "design_ref": c["design_ref"]},
                "level_note": c["note"],
                "technique": c["technique"],
            })
        else:
            na.append({"property_id": pid, "reason": NOT_YET.get(pid, "not claimed yet: the Lean model and correspondence stream for this property are still being built (see DESIGN.md §9 build order); nothing is asserted about it by this commit")})
    m = {
        "version": 1,
        "setup_cmd": "./setup.sh",
        "hooks": {"guard": "rink_verif", "enable": "no hooks are needed: every observation goes through public API (RUSTFLAGS='--cfg rink_verif' is reserved)",
                  "baseline_off_cmd": "cd /repo && cargo test --workspace --no-fail-fast --offline", "source_commits": [], "add_only": True},
        "engines": [{"name": "lean4-proof+correspondence", "path": "lean/ harness/ check tools/vlib.py",
                     "serves_properties": sorted(CLAIMED), "kind_free_text": "Lean 4 theorems about an executable model; model tied to /repo by a differential correspondence harness (Rust) and regenerated tables"}],
        "checks": checks,
        "not_applicable": na,
        "notes": "See DESIGN.md. known_findings.json lists recorded findings and fixed defects.",
    }
    json.dump(m, open(os.path.join(VERIF, "MANIFEST.json"), "w"), indent=1)

main()
