#!/usr/bin/env python3
"""usage: tools/gen_mutant_tasks.py G1=C01,C02 G2=C03,C04 ...
Creates a scratch worktree /tmp/mut/<ID> of /repo (HEAD) and /tmp/mut/<ID>.property.txt per property, and one task
file /tmp/mut/<group>.task.txt per group for a fresh sub-agent, listing the changes earlier rounds already tried
(from seeded/*/meta.json summaries only; nothing else of /verif is shown to the agent)."""
import json, os, subprocess, sys, glob
V = "/verif"
props = {json.loads(l)["id"]: json.loads(l) for l in open(V + "/properties.jsonl")}
TESTCMD = {
    "C18": "cd /tmp/mut/<ID> && CARGO_NET_OFFLINE=true timeout 900 cargo test --offline -p rink-sandbox --lib",
    "C19": "cd /tmp/mut/<ID> && CARGO_NET_OFFLINE=true timeout 900 cargo test --offline -p rink-sandbox --lib",
    "C20": "cd /tmp/mut/<ID> && CARGO_NET_OFFLINE=true timeout 900 cargo test --offline -p rink",
}
CORE = 'cd /tmp/mut/<ID> && CARGO_NET_OFFLINE=true timeout 900 cargo test --offline -p rink-core --all-features 2>&1 | grep -E "test result|FAILED|panicked"'
os.makedirs("/tmp/mut", exist_ok=True)
for arg in sys.argv[1:]:
    g, ids = arg.split("=")
    ids = ids.split(",")
    lines = []
    for i in ids:
        wt = "/tmp/mut/" + i
        if not os.path.exists(wt):
            subprocess.check_call(["git", "-C", "/repo", "worktree", "add", "--detach", wt, "HEAD"], stdout=subprocess.DEVNULL, stderr=subprocess.DEVNULL)
        json.dump(props[i], open("/tmp/mut/%s.property.txt" % i, "w"), indent=1)
    t = "You are helping evaluate a verification framework by seeding realistic bugs into a Rust project (tiffany352/rink-rs, a unit-aware calculator: crates core/, cli/, sandbox/, ...). Work ONLY inside the git worktrees named below. Do not touch /repo or /verif, and do not read anything under /verif.\n\n"
    t += "You have %d semantic properties to break, each in its own worktree:\n" % len(ids)
    for i in ids:
        t += " - %s: property text in /tmp/mut/%s.property.txt (JSON; read the statement, quantifier, why_tests_cant and anchors fields); work in /tmp/mut/%s\n" % (i, i, i)
    t += "\nTask, for EACH property: produce TWO different, independent changes (each a separate patch against the clean worktree) that BREAK that property while (a) the project still compiles and (b) the existing test suite still passes unedited. Test commands (always under `timeout`, a hanging test counts as failing): core properties `%s`" % CORE
    for i in ids:
        if i in TESTCMD:
            t += "; %s: `%s`" % (i, TESTCMD[i].replace("<ID>", i))
    t += ". The sandbox has no network; everything needed is cached.\n\n"
    t += "Earlier rounds already tried the following changes. Find DIFFERENT slips, as rare and as plausible (the kind of mistake a maintainer makes in a refactor) as you can; a change that only manifests for an unusual input, operand size, ordering, timing or a pair of cooperating sites is ideal, a change that ordinary use exposes at once is not:\n"
    for i in ids:
        t += " %s:\n" % i
        for m in sorted(glob.glob(V + "/seeded/%s-*/meta.json" % i)):
            try:
                t += "   - %s\n" % json.load(open(m)).get("summary", "")[:330].replace("\n", " ")
            except Exception:
                pass
    t += "\nFor each change deliver, in /tmp/mut/<ID>/out/<k>/ (k = 1, 2; remove any out/ left over from before you started first):\n"
    t += " - patch.diff : `git diff` of the change against the clean worktree (apply-able with `git apply` from the repo root);\n"
    t += " - demo.sh (bash) + helper files : for core properties a tiny Rust integration test file demo.rs that demo.sh copies to core/tests/<name>.rs, runs with `CARGO_NET_OFFLINE=true timeout 600 cargo test --offline -p rink-core --all-features --test <name>` and removes again, using only the public API (rink_core::simple_context(), rink_core::one_line, rink_core::eval, Context::new/load/load_definitions/load_currency, the parser and Display of Expr, ctx.registry ...); for the sandbox crate (C18, C19) an example under sandbox/examples/ or a test using its public API; for the CLI (C20) a script driving the built `rink` binary against a local HTTP server you write in python3. demo.sh must FAIL (non-zero exit) with the change applied and PASS (exit 0) on the clean tree, and must finish within 10 minutes. Keep demo files OUT of patch.diff;\n"
    t += ' - meta.json : {"property": "<ID>", "summary": "what was changed", "needs": "what specific input/condition is needed for it to manifest", "failing_input": "a concrete input that shows it", "expected": "...", "observed": "..."}.\n'
    t += "After producing each patch restore the worktree to clean (`git checkout -- . && git clean -fd -e out`) before the next one; at the very end leave every worktree clean except for its out/ directory, and leave no background processes running. Verify each patch yourself: apply it, run the existing tests (must pass), run the demo (must fail); un-apply, run the demo (must pass). Keep build output inside the worktrees. Report at the end a short summary of your changes, and mention separately any panic / wrong answer / hang you notice on the CLEAN tree (with the exact input).\n"
    open("/tmp/mut/%s.task.txt" % g, "w").write(t)
    print(g, ids, len(t))
