"""C17 — `units for` and `factorize` are dimensionally sound and complete."""
import json, os
from tools import vlib

THEOREMS = ["Rink.Spec.groupAdjacent_flatten", "Rink.Spec.stableSort_perm", "Rink.Spec.unitsfor_exact", "Rink.Spec.unitsFor_selects", "Rink.Spec.factorize_sound", "Rink.Spec.keepTen_subset", "Rink.Spec.keepTen_nodup", "Rink.Spec.name_or_expr"]

def parse_dims(s):
    out = {}
    if s in (None, "-", "none", "?"):
        return out
    for part in s.split(","):
        k, _, p = part.rpartition(":")
        out[k] = int(p)
    return out

def enc(n):
    return n if n and not n.startswith("x") and all(ch.isascii() and (ch.isalnum() or ch == "_") for ch in n) else "x" + (n.encode().hex() if n else "-")

def run(c):
    c.assumptions += ["the expected member set of `units for` is recomputed in the harness from the registry (units, definitions, categories) without the UnitsFor arm",
                      "`factorize` is exponential in the implementation: it is asked only for dimensionalities of complexity score <= 6 (quick) / 8 (thorough)"]
    if not c.build_harness():
        return
    if not c.build_lean(["Rink.Props.C17", "rinkmodel"]):
        return
    c.audit("Rink.Props.C17", THEOREMS)
    if c.thorough:
        c.leanchecker(["Rink.Model.Commands", "Rink.Props.C17"])
    state = {"lines": {}}
    st_holder = {}
    def judge(text, impl, aux):
        if not aux:
            return None
        i = len(state["lines"])
        state["lines"][i] = impl
        if aux.get("pair") is not None:
            other = state["lines"].get(aux["pair"])
            if other is not None and other != impl:
                return "answer differs from the same query written with the quantity's name: %r vs %r" % (impl[:120], other[:120])
        x = parse_dims(aux["x"])
        if aux["kind"] == "unitsfor":
            if not impl.startswith("unitsfor "):
                return "expected a units-for reply, got %r" % impl[:100]
            f = impl.split(" ")
            if parse_dims(f[1]) != x:
                return "reply is about dimensionality %s, asked for %s" % (f[1], aux["x"])
            got = []
            for g in (f[2].split(";") if len(f) > 2 and f[2] else []):
                cat, _, names = g.partition(":")
                catname = None if cat == "-" else bytes.fromhex(cat).decode("utf-8", "replace")
                for n in names.split(","):
                    got.append((n, catname))
            want = [(enc(n), cname) for n, cname in aux["expected"]]
            if sorted(got, key=str) != sorted(want, key=str):
                extra = [g for g in got if g not in want][:4]; missing = [w for w in want if w not in got][:4]
                dup = [g for g in got if got.count(g) > 1][:2]
                return "listed units differ from the non-alias units of that dimensionality: extra %s missing %s duplicated %s" % (extra, missing, dup)
        elif aux["kind"] == "factorize":
            if not impl.startswith("factorize"):
                return "expected a factorize reply, got %r" % impl[:100]
            body = impl[len("factorize "):]
            items = [b for b in body.split(";")] if body else []
            if len(items) != len(set(items)):
                return "duplicate factorization: %s" % [b for b in items if items.count(b) > 1][:2]
            qd = st_holder["qd"]
            for it in items:
                tot = {}
                for part in (it.split(",") if it else []):
                    n, _, k = part.rpartition(":")
                    if n not in qd:
                        return "factor %r is not a quantity" % n
                    for b, p in parse_dims(qd[n]).items():
                        tot[b] = tot.get(b, 0) + p * int(k)
                tot = {k: v for k, v in tot.items() if v != 0}
                if tot != x:
                    return "factorization %r multiplies out to %s, not to %s" % (it, tot, x)
        return None
    # quantity dims are needed by the judge: generate first to read stats
    if not c.run_harness("dump") or not c.run_harness("gen-c17"):
        return
    st_holder["qd"] = json.load(open(os.path.join(c.work, "stats.json")))["quantity_dims"]
    # a second, small database asked in the same process after the bundled one
    two = json.load(open(os.path.join(c.work, "twodb.json")))
    for a in two["answers"]:
        bad = None
        if a["kind"] == "factorize":
            foreign = sorted({n for f in a["names"] for n in f if n not in two["quantities"]})
            if foreign:
                bad = "names quantities the database asked does not have: %s" % foreign
            elif not a["names"]:
                bad = "lists no factorization although the database has matching quantities"
        elif a["kind"] == "unitsfor" and a["q"] == "units for m":
            listed = [u for g in a["groups"] for u in g["units"]]
            if sorted(listed) != sorted(two["units"]):
                bad = "lists %s, the units of that dimensionality are %s" % (sorted(listed), sorted(two["units"]))
            for g in a["groups"]:
                for u in g["units"]:
                    if two["units"].get(u) != g["category"]:
                        bad = "lists %s under %r, its category is %r" % (u, g["category"], two["units"].get(u))
            for name, ids in two["category_ids"].items():
                k = sum(1 for g in a["groups"] if g["category"] == name)
                if k > ids:
                    bad = "the %d categories called %r are spread over %d groups" % (ids, name, k)
        elif a["kind"] in ("error", "other") and a["q"] != "units for m / s":
            bad = "answered %s" % a
        if bad:
            c.violation("twodb:" + a["q"], "C17: a small second database, asked `%s` after the bundled one in the same process, %s" % (a["q"], bad),
                        {"kind": "history", "definitions": "see harness/src/gen_units.rs (run_c17, second database)", "answer": a}, found=True)
    c.coverage["second_database_queries"] = len(two["answers"])
    st = vlib.eval_stream(c, "gen-c17", independent=True, judge=judge, budget_ms=60000)
    if st is None:
        return
    st.pop("quantity_dims", None)
    c.coverage.update({
        "rule": "every named quantity, by name and by an expression of its dimensionality (answers must be identical); every dimensionality occurring in the database (1/3 sample in quick); random products of base units with exponents -3..3; oracle: `units for` lists exactly the non-alias units of that dimensionality (plus the base unit's own name), each once, under its own category; every factorization multiplies out to X; no duplicates; replies are also compared with the Lean model",
        "samples": st.get("samples", [])[:8], "input_distribution": st, "exhaustive": c.thorough,
    })

def replay(path):
    return vlib.eval_replay("C17", path)
