"""C01 — exact arithmetic."""
import json, os
from tools import vlib

THEOREMS = [
    "Rink.Spec.eval_exact", "Rink.Spec.eval_never_panics", "Rink.Spec.eval_never_float",
    "Rink.Spec.undefined_is_error", "Rink.Spec.op_pow", "Rink.Spec.op_mod", "Rink.Spec.op_frac",
    "Rink.Spec.op_shl", "Rink.Spec.op_shr", "Rink.Spec.bitop_agrees",
]

def run(c):
    c.assumptions += [
        "num-bigint / num-rational implement exact integer and rational arithmetic (modelled by Lean's Int and Rat)",
        "literal exponents beyond 1e5 and results beyond 2^24 bits are classed 'huge' and not evaluated",
    ]
    if not c.build_harness():
        return
    if not c.build_lean(["Rink.Props.C01", "rinkmodel"]):
        return
    c.audit("Rink.Props.C01", THEOREMS)
    if c.thorough:
        c.leanchecker(["Rink.Props.C01"])
    st = vlib.eval_stream(c, "gen-c01", independent=True, budget_ms=3000)
    if st is None:
        return
    c.coverage.update({
        "rule": "arithmetic trees over literals (decimal with fraction/exponent/separators, hex, octal, binary) and + - * / | juxtaposition ^ mod << >> and or xor, unary signs, parentheses: every 1-operator tree over an 11-value boundary alphabet, 2-operator trees (sampled in quick, exhaustive in thorough), random trees to depth 5, random trees with operands up to ~460 decimal digits; each compared with an independent exact evaluation of the generating tree (expect.txt) and with the Lean model",
        "samples": st.get("samples", [])[:8], "input_distribution": st,
    })

def replay(path):
    return vlib.eval_replay("C01", path)
