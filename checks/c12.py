"""C12 — definition order does not matter."""
import json, os
from tools import vlib
from checks import loadcommon as lc

THEOREMS = ["Rink.Spec.C12.smInsert_comm", "Rink.Spec.C12.addEntry_comm", "Rink.Spec.C12.buildInput_perm",
            "Rink.Spec.C12.buildInput_no_warnings", "Rink.Spec.C12.loadDefs_perm", "Rink.Spec.C12.loadDefs_split"]


def groups(scens):
    """scenarios that are orderings / splittings of the same definition set"""
    g = {}
    for s in scens:
        key = "generated" if s.id.startswith("gen-") else "bundled"
        g.setdefault(key, []).append(s)
    return g


def run(c):
    c.assumptions += [
        "`uniquely named`: no two definitions share a (namespace, name) key, counting the long name of a base unit; the bundled file declares the category id `japanese` twice (with two display names, the later one wins) — the scenarios give both declarations the same display name",
        "splitting across files is what cli/src/config.rs does: every file is parsed on its own and the lists are concatenated into one Context::load; files are cut where no category is open",
        "the theorem is about stage 1 of load_defs (the keyed maps): everything after it is a function of those maps alone in the model, and the correspondence check ties the model's whole loader to the implementation on every ordering generated here",
    ]
    if not c.build_harness():
        return
    driver_ok = c.build_lean(["Rink.Props.C12", "rinkmodel"])
    c.audit("Rink.Props.C12", THEOREMS)
    if c.thorough:
        c.leanchecker(["Rink.Model.Load", "Rink.Props.C12"])
    if not driver_ok:
        return
    scens = lc.run_scenarios(c, "c12")
    if scens is None:
        return
    stats = {}
    for s in scens:
        lc.check_crash(c, "C12", s)
        lc.check_correspondence(c, s, stats)
    ngroups = 0
    for key, ss in groups(scens).items():
        ok = [s for s in ss if s.status == "ok"]
        if not ok:
            continue
        ref = ok[0]
        ngroups += 1
        for s in ok[1:]:
            stats["orderings_compared"] = stats.get("orderings_compared", 0) + 1
            if s.impl != ref.impl:
                a, b = set(ref.impl), set(s.impl)
                d = {"only_in_" + ref.id: [lc.describe(l) for l in ref.impl if l not in b][:6], "only_in_" + s.id: [lc.describe(l) for l in s.impl if l not in a][:6]}
                body = lc.replay_body(s, {"reference": ref.id, "differences": d})
                body["files"].update(ref.files())
                body["reference_scenario"] = ref.path
                c.violation("order:%s:%s" % (key, s.id), "C12: the implementation's database for %s (%s) differs from the one for %s: %s" % (s.id, s.desc[:120], ref.id, json.dumps(d)[:300]),
                            body, found=True)
        # forward references resolve: the generated database is uniquely named and every reference in it
        # leads to a definition, so no ordering of it may report anything
        if key == "generated":
            for s in ok:
                # ... and every stored value is what its definition denotes in the finished database (a dependency
                # the sort did not see would have been read differently while loading)
                if s.oracle.get("fixedPointBad"):
                    c.violation("generated-fixedpoint:%s" % s.id, "C12: in %s (%s) the stored values of %s differ from what their definitions denote in the loaded database (a reference was resolved before what it refers to was loaded)" % (s.id, s.desc[:80], s.oracle["fixedPointBad"][:4]),
                                lc.replay_body(s, {"names": s.oracle["fixedPointBad"][:50]}), found=True)
                # (the unit/quantity twin with two docs is reported as a doc conflict by design of the scenario)
                if [e for e in s.impl_errors() if not e.startswith("doc-conflict")]:
                    c.violation("generated-errors:%s" % s.id, "C12: forward references do not resolve: loading %s (%s) reports %s" % (s.id, s.desc[:100], s.impl_errors()[:3]),
                                lc.replay_body(s, {"errors": s.impl_errors()[:50]}), found=True)
        # no ordering may report an error the reference ordering does not
        for s in ok:
            if s.impl_errors() and not ref.impl_errors():
                c.violation("errors:%s" % s.id, "C12: ordering %s reports errors %s" % (s.id, s.impl_errors()[:4]), lc.replay_body(s), found=True)
    c.coverage["traces_validated_against_impl"] = stats.get("dump_lines_compared", 0)
    c.coverage.update({
        "evaluations": len(scens), "exhaustive": False,
        "rule": "orderings of the bundled definition list (identity, reversal, two rotations, random permutations), the bundled text cut into 2-3 files at category boundaries and loaded in every/shuffled file order, and a generated database (chain of depth 300, a 400-long chain whose alphabetically first name depends on all the others, 200 fan-in units, prefix / plural / ambiguous readings) in identity / reversed / random order; for each: implementation dump == model dump, and all dumps of a group are identical (%d comparisons in %d groups)" % (stats.get("orderings_compared", 0), ngroups),
        "samples": [{"scenario": s.id, "desc": s.desc[:160], "dump_lines": len(s.impl), "errors": len(s.impl_errors())} for s in scens[:40]],
        "input_distribution": {"scenarios": len(scens), **stats},
    })


def replay(path):
    r = json.load(open(path))
    print(json.dumps({k: v for k, v in r.items() if k != "files"}, indent=1)[:3000])
    if r.get("kind") != "scenario":
        return 1
    s = lc.replay_scenario(r)
    c = vlib.Check("C12", "quick", 1)
    lc.check_crash(c, "C12", s)
    lc.check_correspondence(c, s, {})
    if r.get("reference_scenario"):
        r2 = dict(r)
        r2["files"] = {k: v for k, v in r["files"].items() if not k.endswith(".tdefs") or k == r["reference_scenario"]}
        ref = lc.replay_scenario(r2)
        if ref.impl != s.impl:
            c.violation("order", "the two orderings still give different databases", {}, found=True)
    bad = bool(c.violations)
    for v in c.violations[:5]:
        print("  still failing:", v["what"][:300])
    if bad:
        print("VIOLATION property=C12 replay=%s" % path)
    return 1 if bad else 0
