"""C14 — date arithmetic is consistent.

Proof: lean/Rink/Props/C14.lean (model lean/Rink/Model/Dates.lean).  Correspondence and
property oracle: harness/src/bin/c14_dates.rs.  Oracle violations (found=True) carry the
failing query as replay; model/implementation disagreements are reported separately
(found=False)."""
import json, os, subprocess
from tools import vlib

NS = "Rink.C14."
THEOREMS = [NS + t for t in [
    # (a) durations
    "duration_roundtrip", "duration_truncates", "toDurationFixed_exact", "toDurationFixed_total",
    "duration_roundtrip_counterexample", "duration_roundtrip_counterexample_ns", "duration_roundtrip_fails_pinned",
    "toDuration_panic_counterexample", "duration_roundtrip_partial",
    # (b) instant +- duration
    "addDur_eq", "subDur_eq", "add_sub", "sub_add", "add_sub_dur", "addDur_never_panics", "addDur_wrong_unit",
    "add_sub_counterexample", "add_counterexample", "addDur_panic_counterexample",
    # (c) (d) re-zoning
    "rezone_preserves_instant", "rezone_named_preserves_instant", "rezone_twice",
    "offset_refused", "offset_accepted", "convertOffset_never_panics", "parseOffset_examples", "offset_refused_counterexample",
    # (e) calendar
    "epoch_is_day_zero", "day_of_2000_03_01", "calendar_anchors", "range_bounds", "weekday_anchors",
    "daysFromCivil_succ_day", "daysFromCivil_month_rollover", "daysFromCivil_year_rollover", "year_length", "era_length",
    "month_lengths", "ordinal_agrees", "nextDay_valid", "days_nextDay", "days_iterate", "diff_gregorian",
    # (f) literals
    "secField_never_panics", "litOffset_never_panics", "literal_panic_counterexample", "secField_examples", "litOffset_examples",
    "literal_counterexample", "literal_repaired_examples", "literal_impossible_date_refused", "literal_impossible_time_refused",
    "literal_offset_refused", "literal_never_panics", "literal_denotes", "today_counterexample",
]] + ["Rink.Dates.toDurationWith_eq", "Rink.Dates.toDurationFixed_eq_trunc", "Rink.Dates.toDuration_ns", "Rink.Dates.fromDuration_eq"]

# developer switches (optional): C14_HARNESS = a copy of /verif/harness whose Cargo.toml points at a
# changed copy of /repo; C14_MODEL_BIN = another rinkmodel binary (e.g. built with another CodeVariant.impl)
ALT_HARNESS = os.environ.get("C14_HARNESS")
ALT_MODEL = os.environ.get("C14_MODEL_BIN")
BIN = os.path.join(ALT_HARNESS or vlib.HARNESS, "target", "release", "c14_dates")

# root causes, in reporting order: (law, first token of the implementation's answer) -> defect
DEFECTS = [
    ("D1 to_duration scales the sub-millisecond part by 10^9 instead of 10^6",
     [("add-sub-roundtrip", None), ("add-exact", "date"), ("sub-exact", "date"), ("to-duration-exact", "ns"), ("sub-add-roundtrip", None),
      ("to-duration-exact", "panic"), ("out-of-range-refused", "panic"), ("add-exact", "panic"), ("sub-exact", "panic")]),
    ("D2 conversion to an offset of 24 h or more panics instead of being refused", [("offset-refused", None)]),
    ("D3 more than nine fraction digits in a date literal panic", [("fraction-digits-refused", None)]),
    ("D4 an offset of 24 h or more in a date literal panics (i32 overflow) or is silently read as UTC", [("literal-offset-refused", None)]),
    ("D5 a literal spelling an impossible or unusable date (time) is silently read as today (midnight)",
     [("impossible-date-refused", None), ("impossible-time-refused", None), ("unusable-date-fields-refused", None)]),
    ("D6 a time-only literal with a zone name panics when today's local time is skipped or repeated in that zone",
     [("nonexistent-local-time-refused", "panic"), ("pattern-denotes", "panic")]),
]


def classify(law, got):
    """(defect index, rank of the law within the defect, defect name); -1 = not one of the known root causes"""
    g = got.split(" ")[0]
    for i, (name, pats) in enumerate(DEFECTS):
        for j, (l, gg) in enumerate(pats):
            if l == law and (gg is None or gg == g):
                return i, j, name
    return -1, 0, "unclassified"


def run_bin(args, timeout=3600):
    p = subprocess.run([BIN] + args, stdout=subprocess.PIPE, stderr=subprocess.PIPE, timeout=timeout, env=vlib.ENV)
    return p.returncode, p.stdout.decode("utf-8", "replace"), p.stderr.decode("utf-8", "replace")


def run(c):
    c.assumptions += [
        "calendar and zone arithmetic inside chrono / chrono-tz is trusted; what is compared with the Lean calendar: the instant of every generated literal (reply fields year..nanosecond and RFC 3339 text, converted to integer nanoseconds with an independent days-from-civil in the harness) and every difference d1 - d2",
        "named zones: the offset chrono-tz reports for a local time / an instant is an input of the model (LocalRes), not modelled; only the instant of a zone-displayed result is compared with the model, its displayed fields are checked by the oracle against chrono-tz",
        "leap seconds (second = 60, chrono's frac >= 10^9) are outside the integer-nanosecond model: exercised for no-panic only",
        "the token-level pattern matcher of parse_date is not modelled: literals are generated from fields in every documented pattern and the model receives the fields; free-form junk between # # is checked for no-panic only",
        "durations that are not a whole number of nanoseconds: the model (truncation toward zero) is compared, the oracle only judges the round trip to within one nanosecond",
        "the clock is pinned with Context::set_time (1700000000 and eight other instants); local time zone of the machine is irrelevant because time-only literals without a zone are read as UTC",
    ]
    c.trusted += ["chrono 0.4.38 / chrono-tz 0.5.3: NaiveDate <-> day number, checked_add_signed range, with_timezone keeps the instant, FixedOffset::east_opt accepts exactly |s| < 86400, zone rules (observed through the correspondence, not proved)"]
    if ALT_HARNESS:
        rc, out = vlib.sh(["cargo", "build", "--release", "--offline", "--bin", "c14_dates"], cwd=ALT_HARNESS)
        c.obligations.append(("build:C14_HARNESS=%s" % ALT_HARNESS, rc == 0, "" if rc == 0 else out[-1500:]))
        if rc != 0:
            c.violation("build:harness", "the alternative harness does not build", {"kind": "obligation", "output": out[-3000:]}, found=False)
            return
    elif not c.build_harness(bins=("rkh", "c14_dates")):
        return
    if not c.build_lean(["Rink.Props.C14", "rinkmodel"]):
        return
    c.audit("Rink.Props.C14", THEOREMS)
    if c.thorough:
        c.leanchecker(["Rink.Model.Dates", "Rink.Props.C14"])
    for fn in ("req.txt", "impl.txt", "oracle.jsonl", "stats.json", "model.txt"):
        try:
            os.remove(os.path.join(c.work, fn))
        except OSError:
            pass
    rc, out, err = run_bin(["--out", c.work, "--seed", str(c.seed), "--tier", c.tier])
    if rc != 0 or not os.path.exists(os.path.join(c.work, "stats.json")):
        c.violation("harness:c14_dates", "c14_dates failed (rc=%d)" % rc, {"kind": "obligation", "obligation": "c14_dates", "output": (out + err)[-3000:]}, found=False)
        return
    st = json.load(open(os.path.join(c.work, "stats.json")))

    # ---- property oracle (independent of the model)
    groups = {}
    order = []
    for line in open(os.path.join(c.work, "oracle.jsonl"), encoding="utf-8"):
        v = json.loads(line)
        k = (v["law"], v["got"].split(" ")[0])
        if k not in groups:
            groups[k] = []
            order.append(k)
        groups[k].append(v)
    ranked = sorted(order, key=lambda k: (classify(k[0], k[1])[0], classify(k[0], k[1])[1], order.index(k)))
    # first witness of every root cause first, then the other (law, answer) groups
    seen_defect, first, rest = set(), [], []
    for k in ranked:
        d = classify(k[0], k[1])[0]
        if d == -1 or d not in seen_defect:
            seen_defect.add(d)
            first.append(k)
        else:
            rest.append(k)
    for k in first + rest:
        v = groups[k][0]
        dname = classify(k[0], k[1])[2]
        key = "%s:%s" % (v["law"], v["query"])
        c.violation(key, "C14 law `%s` fails on `%s`: expected %s, implementation answered %s  [%s; %d witnesses of this kind in the stream]" % (
            v["law"], v["query"], v["want"][:80], v["got"][:80], dname, st["laws_violated"].get(v["law"], len(groups[k]))),
            {"kind": "input", "input": v["query"], "law": v["law"], "expected": v["want"], "impl": v["got"], "request": v.get("req"), "tz": v.get("tz"), "now": v.get("now"),
             "defect": dname}, found=True)

    # ---- correspondence with the Lean model
    validated = skipped = 0
    if ALT_MODEL:
        with open(os.path.join(c.work, "req.txt"), "rb") as fin, open(os.path.join(c.work, "model.txt"), "wb") as fout:
            model_ok = subprocess.run([ALT_MODEL, "dates"], stdin=fin, stdout=fout).returncode == 0
    else:
        model_ok = c.run_model("dates")
    if model_ok:
        rd = lambda n: open(os.path.join(c.work, n), encoding="utf-8", errors="replace").read().split("\n")
        R, I, M = rd("req.txt"), rd("impl.txt"), rd("model.txt")
        n = len(R) - 1 if R and R[-1] == "" else len(R)
        if len(I) < n or len(M) < n:
            c.violation("streams", "answer streams are shorter than the request stream (req=%d impl=%d model=%d)" % (n, len(I), len(M)),
                        {"kind": "obligation", "obligation": "correspondence stream c14_dates | rinkmodel dates"}, found=False)
        else:
            ndis = 0
            now = None
            for i in range(n):
                if R[i].startswith("now "):
                    now = R[i].split(" ")[1]
                if M[i].startswith("unsupported"):
                    skipped += 1
                    continue
                validated += 1
                if I[i] != M[i]:
                    ndis += 1
                    if ndis <= 5:
                        hint = " (edit Rink.Dates.CodeVariant.impl in lean/Rink/Model/Dates.lean so that the model follows the code)" if R[i] == "variant" else ""
                        c.violation("disagree:" + R[i], "model/implementation disagreement on %r: impl=%r model=%r%s" % (R[i][:200], I[i][:160], M[i][:160], hint),
                                    {"kind": "input", "input": R[i], "request": R[i], "impl": I[i], "model": M[i], "now": now,
                                     "correspondence": "c14_dates | rinkmodel dates"}, found=False)
            c.coverage["disagreeing_lines"] = ndis
            c.coverage["model_variant"] = M[0] if M else None
            c.coverage["impl_variant"] = I[0] if I else None
    c.coverage.update({
        "evaluations": st["total"], "distinct_nontrivial": st["distinct"], "traces_validated_against_impl": validated,
        "model_unsupported_skipped": skipped, "oracle_checked": st["oracle_checked"], "oracle_violations": st["violations"],
        "rule": "date literals generated from civil fields in every pattern of datepatterns.txt (ISO with T / space, ordinal, month-name first and year first with 12 h and 24 h clocks, ctime with weekday, time-only; years 0001-9999 plus BC and extended years in the corpus; 0-9 fraction digits; +HH:MM, +H:MM, +HHMM offsets; %d named zones incl. DST gaps and overlaps) x durations of 1 ns ... i64::MAX/1000 s (sub-millisecond, whole milliseconds, powers of ten, near the maximum, beyond chrono's date range), both signs, written in %d time units as decimals or p|q fractions; query forms d + t, d + (-t), t + d, d - t, d - (-t), (d + t) - d, d - t + t, d + t - t, d1 - d2, d -> +HH:MM (all of 00:00 ... 99:99), d -> zone (all %d chrono-tz zones); invalid literals (impossible day / ordinal / weekday, minute 60, second > 60, month 0/13, hour 24, offsets >= 24 h, > 9 fraction digits, huge offsets, ISO week and --MM-DD forms), other pinned clocks (date line, DST transition days) and random junk between # #; to_duration / from_duration also driven at API level.  Oracle (model-independent): exact expected instant / duration computed with Hinnant's days-from-civil and exact rationals; refusals must be errors; nothing may panic; reply fields, RFC 3339 text and zone must agree" % (
            st["zones_in_literals"], len(st["time_units"]), st["zones_as_targets"]),
        "samples": st["samples"][:12], "input_distribution": {k: st[k] for k in ("kinds", "answers", "laws_violated", "time_units", "variant", "model_lines")},
    })


def replay(path):
    r = json.load(open(path))
    vlib.sh(["cargo", "build", "--release", "--offline", "--bin", "c14_dates"], cwd=vlib.HARNESS)
    vlib.sh(["lake", "build", "rinkmodel"], cwd=vlib.LEAN)
    bad = False
    q = r.get("input", "")
    if r.get("law"):
        if q.startswith("to_duration(") or q.startswith("from_duration("):
            # API-level case: re-run through the request line
            q = None
        if q is not None:
            args = ["--query", q]
            if r.get("tz"):
                args += ["--tz", r["tz"]]
            if r.get("now"):
                args += ["--now", str(r["now"])]
            rc, out, err = run_bin(args)
            got = out.strip()
            print("query:    %s" % q)
            print("law:      %s" % r["law"])
            print("expected: %s" % r.get("expected"))
            print("impl:     %s" % got)
            exp = r.get("expected", "")
            ok = (got == "err") if exp == "err" else (got == exp if not exp.startswith("within1ns ") else got == exp[len("within1ns "):])
            bad = not ok
    req = r.get("request")
    if req and (not r.get("law") or q is None):
        # model / implementation correspondence on one request line: regenerate the (deterministic)
        # quick stream and look the request up
        work = os.path.join(vlib.CACHE, "replay", "C14")
        os.makedirs(work, exist_ok=True)
        run_bin(["--out", work, "--seed", str(r.get("seed", 1)), "--tier", "quick"])
        R = open(os.path.join(work, "req.txt"), encoding="utf-8").read().split("\n")
        I = open(os.path.join(work, "impl.txt"), encoding="utf-8").read().split("\n")
        with open(os.path.join(work, "req.txt"), "rb") as fin:
            p = subprocess.run([vlib.MODEL, "dates"], stdin=fin, stdout=subprocess.PIPE)
        M = p.stdout.decode("utf-8", "replace").split("\n")
        hit = [i for i, x in enumerate(R) if x == req]
        if not hit:
            print("request %r is not part of the quick stream for this seed; model alone:" % req)
            p = subprocess.run([vlib.MODEL, "dates"], input=((("now %s\n" % r["now"]) if r.get("now") else "") + req + "\n").encode(), stdout=subprocess.PIPE)
            print("model:    %s" % p.stdout.decode().strip().split("\n")[-1])
            print("recorded: impl=%s" % r.get("impl"))
        for i in hit[:1]:
            print("request:  %s" % req)
            print("impl:     %s" % I[i])
            print("model:    %s" % (M[i] if i < len(M) else "<missing>"))
            exp = r.get("expected")
            if r.get("law") and exp:
                print("expected: %s" % exp)
                bad = bad or (I[i] != exp)
            elif i >= len(M) or (I[i] != M[i] and not M[i].startswith("unsupported")):
                bad = True
    if bad:
        print("VIOLATION property=C14 replay=%s" % path)
    return 1 if bad else 0
