"""C09 — unit lists and duration breakdowns decompose without loss."""
from fractions import Fraction
from tools import vlib
from checks.common import frac, parse_entries

THEOREMS = [
    "Rink.Spec.listLoop_eq",
    "Rink.Spec.decomp_sum",
    "Rink.Spec.decomp_integral",
    "Rink.Spec.remainders_lt",
    "Rink.Spec.decomp_sign_nonneg",
    "Rink.Spec.decomp_sign_nonpos",
    "Rink.Spec.toList_refuses_member",
    "Rink.Spec.toList_refuses_value",
    "Rink.Spec.step_remainder_lt",
    "Rink.Spec.abs_fracPart_lt_one",
]

def laws(v, units, parts):
    if len(parts) != len(units):
        return "reply has %d parts for %d units" % (len(parts), len(units))
    if any(p is None for p in parts):
        return "a part is a float although all operands are exact"
    if sum(p * u for p, u in zip(parts, units)) != v:
        return "sum(part_i * u_i) = %s differs from v = %s" % (sum(p * u for p, u in zip(parts, units)), v)
    rem = v
    for i, (p, u) in enumerate(zip(parts, units)):
        last = i == len(parts) - 1
        if not last and p.denominator != 1:
            return "part %d = %s is not an integer" % (i, p)
        if p != 0 and v != 0 and u > 0 and (p > 0) != (v > 0):
            return "part %d = %s does not share the sign of v = %s" % (i, p, v)
        rem = rem - p * u
        if not last and abs(rem) >= abs(u):
            return "remainder %s after unit %d is not smaller than the unit %s" % (rem, i, u)
    if rem != 0:
        return "non-zero remainder %s after the last unit" % rem
    return None

def judge(text, impl, aux):
    if not aux or aux.get("kind") == "skip":
        return None
    if any(x == "float" for x in [aux["v"]] + aux["units"]):
        return None
    v = frac(aux["v"]); units = [frac(u) for u in aux["units"]]
    if aux["kind"] == "list":
        if not aux["conform"]:
            return None if impl.startswith("err") else "non-conformable unit list must be refused, implementation answered %r" % impl[:120]
        if any(u == 0 for u in units):
            return None if impl.startswith("err") else "zero-valued list member must be refused"
        if not impl.startswith("list "):
            return "expected a unit list reply, implementation answered %r" % impl[:120]
        ents = parse_entries(impl.split(" ", 1)[1])
        if ents is None:
            return "malformed list reply %r" % impl[:120]
        return laws(v, units, [e[1] for e in ents])
    if aux["kind"] == "duration":
        if not impl.startswith("duration "):
            return "expected a duration breakdown, implementation answered %r" % impl[:120]
        p = impl.split(" ")
        if frac(p[1]) != v:
            return "raw value %s differs from v = %s" % (p[1], v)
        ents = parse_entries(p[3])
        if ents is None:
            return "malformed duration reply"
        return laws(v, units, [e[1] for e in ents])
    return None

def run(c):
    c.assumptions += ["unit values come from Context::lookup; every database unit used in a list is exact"]
    if not c.build_harness():
        return
    if not c.build_lean(["Rink.Props.C09", "rinkmodel"]):
        return
    c.audit("Rink.Props.C09", THEOREMS)
    if c.thorough:
        c.leanchecker(["Rink.Props.C09"])
    st = vlib.eval_stream(c, "gen-c09", independent=True, judge=judge)
    if st is None:
        return
    c.coverage.update({
        "rule": "values (zero, +-, tiny, huge, many-digit) x ordered lists of 2-6 units drawn from every dimensionality having >= 2 units (any order, repeats, occasional non-conformable member or value), plus time values in every time unit for the automatic breakdown; oracle: the four laws evaluated with exact fractions on the implementation's parts",
        "samples": st.get("samples", [])[:8], "input_distribution": st,
    })

def replay(path):
    return vlib.eval_replay("C09", path)
