"""Shared part of the loader checks (C08, C12, C13): runs `rkh loadscen` (the implementation, one
child process per scenario) and `rinkmodel loadt` (the Lean model) on the same scenario files
and compares the registry dumps."""
import json, os, re, subprocess
from concurrent.futures import ThreadPoolExecutor
from tools import vlib

NON_DUMP = ("usable", "oracle", "deterministic")


def unhex(h):
    return "" if h == "-" else bytes.fromhex(h).decode("utf-8", "replace")


def run_model_one(path, out):
    try:
        p = subprocess.run([vlib.MODEL, "loadt", path], stdout=subprocess.PIPE, stderr=subprocess.PIPE, timeout=900)
        text = p.stdout.decode("utf-8", "replace")
        if p.returncode != 0:
            text = "model-failed rc=%d %s\n" % (p.returncode, p.stderr.decode("utf-8", "replace")[-300:].replace("\n", " "))
    except subprocess.TimeoutExpired:
        text = "model-timeout\n"
    open(out, "w").write(text)


class Scen:
    def __init__(self, d, sid, desc):
        self.dir, self.id, self.desc = d, sid, desc
        self.path = os.path.join(d, sid + ".tdefs")
        raw = open(os.path.join(d, sid + ".impl.dump"), encoding="utf-8", errors="replace").read().split("\n")
        raw = [l for l in raw if l]
        self.status = "ok"
        self.status_line = ""
        if raw and raw[0].split(" ")[0] in ("panic", "abort", "timeout"):
            self.status, self.status_line = raw[0].split(" ")[0], raw[0]
        self.impl = [l for l in raw if l.split(" ")[0] not in NON_DUMP]
        self.oracle = {}
        self.usable = None
        self.deterministic = None
        for l in raw:
            p = l.split(" ")
            if p[0] == "oracle":
                self.oracle[p[1]] = [unhex(x) for x in p[3:] if x] if len(p) > 3 else (int(p[2]) if len(p) == 3 else [])
            elif p[0] == "usable":
                self.usable = p[1] == "true"
            elif p[0] == "deterministic":
                self.deterministic = p[1] == "true"
        sp = os.path.join(d, sid + ".impl.stdout")
        # the parser's diagnostics of the load itself (what follows the marker is the harness re-reading the text for its oracle)
        self.diagnostics = len([l for l in open(sp, errors="replace").read().split("@@oracle-reparse")[0].split("\n") if l]) if os.path.exists(sp) else 0
        self.model = None
        self.report = {}

    def load_model(self):
        mp = os.path.join(self.dir, self.id + ".model.dump")
        raw = [l for l in open(mp, encoding="utf-8", errors="replace").read().split("\n") if l]
        self.model = [l for l in raw if not l.startswith("report ")]
        for l in raw:
            if l.startswith("report "):
                p = l.split(" ")
                self.report[p[1]] = [unhex(x) for x in p[3:] if x] if len(p) > 3 else (int(p[2]) if len(p) == 3 else [])

    def impl_errors(self):
        return [unhex(l.split(" ")[1]) for l in self.impl if l.startswith("error ")]

    def model_errors(self):
        return [unhex(l.split(" ")[1]) for l in (self.model or []) if l.startswith("error ")]

    def model_unsupported(self):
        return [e for e in self.model_errors() if e.startswith("unsupported:") or e == "model-out-of-fuel"] or \
               [l for l in (self.model or []) if l.startswith("model-") or l.startswith("bad-tdef-lines")]

    def first_diffs(self, n=6):
        a, b = self.impl, self.model or []
        sa, sb = set(a), set(b)
        only_impl = [l for l in a if l not in sb][:n]
        only_model = [l for l in b if l not in sa][:n]
        return {"only_in_implementation": [describe(l) for l in only_impl], "only_in_model": [describe(l) for l in only_model]}

    def files(self):
        """every file the scenario needs, for a self-contained replay"""
        out = {self.path: open(self.path, errors="replace").read()}
        for l in out[self.path].split("\n"):
            p = l.split(" ")
            if p[0] in ("text", "multitext", "currency"):
                for h in p[1:]:
                    f = unhex(h)
                    for g in (f, f + ".jdefs"):
                        if os.path.exists(g):
                            out[g] = open(g, errors="replace").read()
        return out


def describe(line):
    p = line.split(" ")
    try:
        if p[0] in ("unit", "defexpr", "prefix", "doc", "category", "subst", "prop", "symbol", "long", "catname", "error", "base"):
            return "%s %s %s" % (p[0], unhex(p[1]), " ".join(p[2:])[:160])
    except Exception:
        pass
    return line[:200]


def run_scenarios(c, kind):
    """returns the list of Scen (implementation and model both run), or None when the harness failed"""
    if not c.run_harness("loadscen", ["--kind=" + kind]):
        return None
    d = os.path.join(c.work, "scen")
    names = json.load(open(os.path.join(c.work, "scenarios.json")))
    scens = [Scen(d, s["id"], s["desc"]) for s in names]
    with ThreadPoolExecutor(max_workers=14) as ex:
        list(ex.map(lambda s: run_model_one(s.path, os.path.join(d, s.id + ".model.dump")), scens))
    for s in scens:
        s.load_model()
    return scens


def replay_body(s, extra=None):
    b = {"kind": "scenario", "scenario": s.id, "description": s.desc, "files": s.files(),
         "run": "rkh loadone --input <scenario> (RKH_DUMP=<out>)  |  rinkmodel loadt <scenario>"}
    if extra:
        b.update(extra)
    return b


def check_crash(c, prop, s):
    """implementation-side oracle: no panic / abort / hang"""
    if s.status != "ok":
        c.violation("crash:%s:%s" % (s.id, s.status_line[:120]),
                    "%s: loading %s (%s) ends in %s" % (prop, s.id, s.desc[:120], s.status_line[:200]),
                    replay_body(s, {"outcome": s.status_line}), found=True)
        return True
    return False


def check_correspondence(c, s, stats):
    """model dump == implementation dump (skipped, and counted, when the model declares a
    definition outside its evaluator: opaque machine floats)"""
    if s.status != "ok":
        return
    un = s.model_unsupported()
    if un:
        stats["model_unsupported"] = stats.get("model_unsupported", 0) + 1
        return
    stats["compared"] = stats.get("compared", 0) + 1
    stats["dump_lines_compared"] = stats.get("dump_lines_compared", 0) + len(s.impl)
    if s.impl != s.model:
        d = s.first_diffs()
        c.violation("disagree:" + s.id, "model/implementation disagreement on the database loaded from %s (%s): %s" % (s.id, s.desc[:100], json.dumps(d)[:300]),
                    replay_body(s, {"differences": d, "correspondence": "rkh loadone | rinkmodel loadt"}), found=False)


def replay_scenario(r):
    """re-create the files of a replay and run both sides again; returns a Scen"""
    for path, text in r["files"].items():
        os.makedirs(os.path.dirname(path), exist_ok=True)
        open(path, "w").write(text)
    sc = [p for p in r["files"] if p.endswith(".tdefs")][0]
    d, sid = os.path.dirname(sc), os.path.basename(sc)[:-6]
    dump = os.path.join(d, sid + ".impl.dump")
    if os.path.exists(dump):
        os.remove(dump)
    env = dict(vlib.ENV, RKH_DUMP=dump)
    try:
        with open(os.path.join(d, sid + ".impl.stdout"), "wb") as so:
            p = subprocess.run([vlib.RKH, "loadone", "--input", sc], stdout=so, stderr=subprocess.DEVNULL, env=env, timeout=300)
        if p.returncode != 0 or not os.path.exists(dump):
            open(dump, "w").write("abort rc=%s\n" % p.returncode)
    except subprocess.TimeoutExpired:
        open(dump, "w").write("timeout\n")
    run_model_one(sc, os.path.join(d, sid + ".model.dump"))
    s = Scen(d, sid, r.get("description", ""))
    s.load_model()
    return s
