"""C08 — the loaded database is a fixed point of its own definitions."""
import json, os
from tools import vlib
from checks import loadcommon as lc

THEOREMS = ["Rink.Spec.C08.bundled_clean", "Rink.Spec.C08.bundled_currency_clean", "Rink.Spec.C08.snapshot_read",
            "Rink.Spec.C08.bundled_nonempty", "Rink.Spec.C08.load_deterministic"]
# native_decide (Lean 4.33) records one axiom per use, named after the theorem; #print axioms shows it
NATIVE = (r"Lean\.ofReduceBool", r"Lean\.trustCompiler", r"Rink\.Spec\.C08\.[A-Za-z_]+\._native\.native_decide\.ax_\d+(_\d+)*")
PREDICATES = ["fixedPointBad", "foreignDims", "quantityMismatch", "danglingAliases", "orphans", "fixedPointSubstBad"]


def judge(c, s):
    """implementation-side oracle on one loaded database (independent of the model)"""
    if lc.check_crash(c, "C08", s):
        return
    errs = s.impl_errors()
    if errs:
        c.violation("errors:%s:%s" % (s.id, errs[0]), "C08: loading %s reports %d error(s)/warning(s): %s" % (s.desc, len(errs), errs[:5]),
                    lc.replay_body(s, {"errors": errs[:50]}), found=True)
    if s.diagnostics:
        c.violation("diagnostics:%s" % s.id, "C08: the definitions parser printed %d syntax diagnostics while loading %s" % (s.diagnostics, s.desc),
                    lc.replay_body(s, {"stdout": open(os.path.join(s.dir, s.id + ".impl.stdout"), errors="replace").read()[:2000]}), found=True)
    for p in PREDICATES:
        bad = s.oracle.get(p)
        if bad:
            c.violation("%s:%s:%s" % (p, s.id, bad[0]), "C08 %s fails in the implementation's database for %s: %s" % (p, s.desc, bad[:8]),
                        lc.replay_body(s, {"predicate": p, "names": bad[:200]}), found=True)
    if s.deterministic is False:
        c.violation("nondeterministic:" + s.id, "C08: two loads of %s in one process give different databases" % s.desc, lc.replay_body(s), found=True)
    if s.usable is False:
        c.violation("unusable:" + s.id, "C08: the context loaded from %s does not answer `1 + 1`" % s.desc, lc.replay_body(s), found=True)


def run(c):
    c.trusted += [
        "native_decide in lean/Rink/Props/C08.lean only: the four table theorems are decided by running the compiled loader model on the embedded texts (each shows up in #print axioms as <theorem>._native.native_decide.ax_*: the Lean compiler and interpreter are trusted for them, not only the kernel)",
        "`rkh tables` embedding DEFAULT_FILE / CURRENCY_FILE (as compiled into rink-core) and the currency snapshot into lean/Rink/Gen/Bundled.lean on every run (translator)",
    ]
    c.assumptions += [
        "the fixed-point predicate re-evaluates every stored definition with the Number evaluator; definitions it cannot re-evaluate (machine floats, substances) are counted as unsupported — none on the bundled files",
        "the JSON reader (serde) is not modelled: the snapshot reaches the model in the line form written by the harness (`rkh jsondefs`), and the expression texts in it are parsed by the model's own query parser",
    ]
    if not c.build_harness():
        return
    driver_ok = c.build_lean(["Rink.Props.C08", "rinkmodel"])
    c.audit("Rink.Props.C08", THEOREMS, extra_axioms=NATIVE)
    if c.thorough:
        c.leanchecker(["Rink.Model.Load", "Rink.Model.LoadCheck"])
    if not driver_ok:
        return
    scens = lc.run_scenarios(c, "c08")
    if scens is None:
        return
    stats = {}
    by = {s.id: s for s in scens}
    for s in scens:
        judge(c, s)
        lc.check_correspondence(c, s, stats)
        # the model's own predicates name the failing entries when a table theorem no longer checks
        for p in PREDICATES:
            bad = s.report.get(p)
            if bad:
                c.violation("model-%s:%s:%s" % (p, s.id, bad[0]), "C08 %s fails in the model's database for %s: %s" % (p, s.desc, bad[:8]),
                            lc.replay_body(s, {"predicate": p, "names": bad[:200]}), found=True)
    a, b = by.get("bundled"), by.get("bundled-again")
    if a and b and a.status == b.status == "ok" and a.impl != b.impl:
        c.violation("nondeterministic:processes", "C08: two processes loading the same text give different databases", lc.replay_body(a), found=True)
    t = by.get("bundled-tree")
    if a and t and a.status == t.status == "ok" and a.impl != t.impl:
        c.violation("tree-vs-text", "the database loaded from the parsed definitions differs from the one loaded from the text (harness tree format)", lc.replay_body(t), found=False)
    cur = by.get("bundled+currency")
    c.coverage["traces_validated_against_impl"] = stats.get("dump_lines_compared", 0)
    c.coverage.update({
        "evaluations": sum(len(s.impl) for s in scens), "exhaustive": True,
        "rule": "every entry of definitions.units, currency.units and the currency snapshot: the Lean loader model is evaluated on the embedded texts (theorems), the implementation loads the same texts (child processes) and the two registry dumps are compared line by line (%d lines); the implementation's database is checked independently: no error/warning/diagnostic, every stored definition re-evaluates to its stored value (%s definitions without / %s with currency), dimensionalities over declared base units, quantity bijection, alias chains, doc/category ownership, two loads identical (in-process and across processes)" % (
            stats.get("dump_lines_compared", 0), a.oracle.get("fixedPointChecked") if a else "?", cur.oracle.get("fixedPointChecked") if cur else "?"),
        "samples": [{"scenario": s.id, "desc": s.desc, "dump_lines": len(s.impl), "errors": len(s.impl_errors()), "fixed_point_checked_impl": s.oracle.get("fixedPointChecked"),
                     "fixed_point_checked_model": s.report.get("fixedPointChecked"), "model_unsupported": len(s.report.get("fixedPointUnsupported") or [])} for s in scens],
        "input_distribution": {"scenarios": len(scens), **stats},
    })


def replay(path):
    r = json.load(open(path))
    print(json.dumps({k: v for k, v in r.items() if k != "files"}, indent=1)[:3000])
    if r.get("kind") != "scenario":
        return 1
    s = lc.replay_scenario(r)
    c = vlib.Check("C08", "quick", 1)
    judge(c, s)
    lc.check_correspondence(c, s, {})
    bad = bool(c.violations)
    for v in c.violations[:5]:
        print("  still failing:", v["what"][:300])
    if bad:
        print("VIOLATION property=C08 replay=%s" % path)
    return 1 if bad else 0
