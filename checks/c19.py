"""C19 — sandbox allocator: conservation, limit, neutral refusal, peak."""
import json, os, subprocess
from tools import vlib

THEOREMS = [
    "Rink.Alloc.inv_step", "Rink.Alloc.conservation", "Rink.Alloc.conservation_quiescent",
    "Rink.Alloc.no_underflow", "Rink.Alloc.within_limit", "Rink.Alloc.live_within_limit",
    "Rink.Alloc.peak_dominates", "Rink.Alloc.peak_dominates_quiescent", "Rink.Alloc.max_monotone",
    "Rink.Alloc.refusal_neutral_alloc", "Rink.Alloc.refusal_neutral_realloc",
    "Rink.Alloc.peak_counterexample_unfixed",
]

def run(c):
    c.assumptions += [
        "atomics are sequentially consistent per location (the Rust uses Acquire/Release/Relaxed on single locations)",
        "used + size does not wrap usize (sizes are bounded by isize::MAX and the limit)",
        "set_limit is not called concurrently with operations (limit is constant in the model)",
        "reset_max is one atomic step in the model; the real load-then-store can lose a concurrent peak (outside the property's operation set)",
        "concurrent runs of the implementation are judged by the quiescent-point oracle only; the interleaving itself is not observable",
    ]
    c.trusted += ["System allocator (parent) returns null for isize::MAX-sized requests; used to reach the parent-failure branch"]
    if not c.build_harness():
        return
    if not c.build_lean(["Rink.Props.C19", "rinkmodel"]):
        return
    c.audit("Rink.Props.C19", THEOREMS)
    if c.thorough:
        c.leanchecker(["Rink.Model.Alloc", "Rink.Lemmas.Alloc", "Rink.Lemmas.AllocStep", "Rink.Props.C19"])
    if not c.run_harness("c19"):
        return
    stats = json.load(open(os.path.join(c.work, "stats.json")))
    # 1. implementation vs property oracle (independent of the model)
    seen = set()
    for line in open(os.path.join(c.work, "oracle.jsonl")):
        v = json.loads(line)
        hist = v.get("history")
        key = classify(v["what"], hist)
        if key in seen:
            continue
        seen.add(key)
        c.violation(key, "implementation violates C19: " + v["what"],
                    {"kind": "history", "ops": hist, "oracle": v["what"]}, found=True)
    # 2. implementation vs model (correspondence)
    if c.run_model("alloc"):
        for d in c.diff_streams(group_start="init "):
            key = classify_disagreement(d)
            if key in seen:
                continue
            seen.add(key)
            c.violation(key, "model/implementation disagreement on %r: impl=%r model=%r" % (d["request"], d["impl"], d["model"]),
                        {"kind": "history", "ops": d["history"], "impl": d["impl"], "model": d["model"],
                         "correspondence": "rkh c19 | rinkmodel alloc", "theorem": "Rink.Alloc.inv_step"}, found=False)
    c.coverage.update({
        "evaluations": stats["sequences"], "distinct_nontrivial": stats["sequences"],
        "rule": "every valid sequence of length <= %d over {alloc,alloc_zeroed,realloc#0,dealloc#0} x sizes {1,16,L/2,L,L+1} x limits {64,4096} (exhaustive, each a distinct sequence); %d random sequences of 20-220 ops with resets; %d concurrent runs (2-16 threads, %d ops) judged at quiescent points" % (
            stats["exhaustive_max_len"], stats["random_sequences"], stats["concurrent_runs"], stats["concurrent_ops"]),
        "samples": stats["samples"][:6], "exhaustive": True, "input_distribution": {"by_length": stats["by_length"], "ops": stats["ops"]},
        "oracle_violations_total": stats["oracle_violations"],
    })

def classify(what, hist):
    """Key of a finding: the kind of failure plus the operation that exposes it."""
    if "peak" in what and hist and any(h.startswith("realloc") for h in hist[-2:]):
        return "peak-not-updated-by-realloc"
    if "peak" in what:
        return "peak:" + " ; ".join(hist or [what])
    return what.split(" (")[0][:60] + (":" + " ; ".join(hist) if hist else "")

def classify_disagreement(d):
    if d["request"].startswith("realloc") and "max=" in d["impl"] and d["impl"].split(" ")[0] == d["model"].split(" ")[0]:
        return "peak-not-updated-by-realloc"
    return "disagree:" + " ; ".join(d["history"])

def replay(path):
    r = json.load(open(path))
    ops = r.get("ops") or []
    tmp = os.path.join(vlib.CACHE, "replay_c19.txt")
    os.makedirs(vlib.CACHE, exist_ok=True)
    open(tmp, "w").write("\n".join(ops) + "\n")
    vlib.sh(["cargo", "build", "--release", "--offline"], cwd=vlib.HARNESS)
    vlib.sh(["lake", "build", "rinkmodel"], cwd=vlib.LEAN)
    rc, impl = vlib.sh([vlib.RKH, "c19-replay", "--input", tmp])
    p = subprocess.run([vlib.MODEL, "alloc"], stdin=open(tmp), stdout=subprocess.PIPE)
    model = p.stdout.decode()
    print("request | implementation | model")
    il = [l for l in impl.split("\n") if not l.startswith("ORACLE")]
    for a, b, m in zip(ops, il, model.split("\n")):
        print("%s | %s | %s%s" % (a, b, m, "" if b == m else "   <-- differs"))
    bad = rc != 0 or [l for l in il if l] != [l for l in model.split("\n") if l]
    for l in impl.split("\n"):
        if l.startswith("ORACLE"):
            print(l)
    if bad:
        print("VIOLATION property=C19 replay=%s" % path)
    return 1 if bad else 0
