"""C20 — the currency cache is replaced atomically or not at all.

Proof side: lean/Rink/Props/C20.lean over the model lean/Rink/Model/Cache.lean.
Correspondence side (this file): the real `rink` binary, built from /repo's working tree, is run
against tools/fault_http.py with XDG_CACHE_HOME / XDG_CONFIG_HOME / HOME in a scratch directory,
under `strace -f -y`; for every scenario

  * the property oracle (independent of the model) judges the bytes of the cache file after the
    run ("old or complete new, never partial; new only after a clean 200"), the exit status, the
    answer to a non-currency query, the stale fallback, and what the *next* start reads;
  * the canonical sequence of system calls on the cache directory, the final cache state and the
    loader's outcome are compared with the prediction of the Lean model (`rinkmodel cache`);
  * the client is killed (SIGKILL injected by strace at the entry of the k-th write / mkdir /
    fsync / rename / unlink, or by a watcher once the temp file holds the bytes sent so far) and
    the cache file must still be old-or-new, exactly as the model's state at that crash point.
"""
import json, os, random, re, shutil, signal, subprocess, threading, time
from concurrent.futures import ThreadPoolExecutor
from tools import vlib, fault_http

THEOREMS = [
    "Rink.Cache.cache_atomic", "Rink.Cache.cache_never_partial",
    "Rink.Cache.cache_changes_only_on_complete_200", "Rink.Cache.failed_transfer_leaves_cache",
    "Rink.Cache.startup_atomic", "Rink.Cache.fetch_atomic",
    "Rink.Cache.commit_is_last_and_synced", "Rink.Cache.temp_name_differs",
    "Rink.Cache.refresh_fails_of_script", "Rink.Cache.startup_always_continues",
    "Rink.Cache.failed_refresh_falls_back", "Rink.Cache.no_cache_still_starts",
    "Rink.Cache.fresh_cache_used", "Rink.Cache.failed_fetch_leaves_cache",
    "Rink.Cache.fetch_installs_body", "Rink.Cache.startup_installs_body",
    "Rink.Cache.next_start_reads", "Rink.Cache.success_visible",
    "Rink.Cache.current_within_duration",
]
LEAN_MODULES = ["Rink.Model.Cache", "Rink.Lemmas.Cache", "Rink.Props.C20"]

# C20_REPO / C20_CLI_TARGET: development overrides (e.g. trying a changed copy of the repository)
REPO = os.environ.get("C20_REPO") or "/repo"
CLI_TARGET = os.environ.get("C20_CLI_TARGET") or os.path.join(vlib.CACHE, "cli-target")
RINK = os.path.join(CLI_TARGET, "debug", "rink")
SNAPSHOT = os.path.join(REPO, "core", "tests", "currency.snapshot.json")
TRACE_SET = "trace=openat,open,creat,mkdir,mkdirat,rename,renameat,renameat2,unlink,unlinkat,write,pwrite64,writev,fsync,fdatasync,truncate,ftruncate,link,linkat,copy_file_range,sendfile"
QUERY_PLAIN = "1 meter -> feet"
QUERY_MONEY = "1 EUR -> USD"
PLAIN_ANSWER = "3.280839 foot"
PROC_TIMEOUT = 120


def model_bin():
    return os.environ.get("C20_MODEL_BIN") or vlib.MODEL


# ------------------------------------------------------------------------------ contents
HTML_BODY = b"<!DOCTYPE html><html><head><title>Sign in to the network</title></head><body>" + b"<p>captive portal</p>" * 40 + b"</body></html>\n"


class Contents:
    def __init__(self):
        self.new = open(SNAPSHOT, "rb").read()
        assert b"1.0852" in self.new
        self.old = self.new.replace(b"1.0852", b"2.0000")     # 1 EUR = 2 USD
        self.new2 = self.new.replace(b"1.0852", b"4.0000")    # 1 EUR = 4 USD
        self.bad = b'[\n\t{\n\t\t"name": "USD",\n\t\t"doc": "cut he'   # unreadable JSON


def money_class(out):
    """Which rates answered `1 EUR -> USD`."""
    if "1.0852 USD" in out:
        return "new"
    if "2 USD" in out:
        return "old"
    if "4 USD" in out:
        return "new2"
    if "No such unit EUR" in out:
        return "none"
    return "other"


# ------------------------------------------------------------------------------ scenarios
def server_variants(tier_thorough, n, seed=1):
    """Server behaviours: (name, plan-without-body).  VERIF_SEED adds cut offsets of its own."""
    rng = random.Random(seed)
    extra = sorted(set(rng.randrange(2, n - 1) for _ in range(24 if tier_thorough else 3)))
    cuts_quick = [0, 1, 1448, n - 1]
    cuts_thorough = sorted(set([0, 1, 2, 511, 512, 999, 1000, 1001, 1447, 1448, 1449, 2896, 2999, 3000, 3001, 4096, n // 2, n - 2, n - 1] +
                               list(range(256, n, 256))))
    cuts = sorted(set((cuts_thorough if tier_thorough else cuts_quick) + extra))
    # a complete 200 whose body is not currency data (a captive portal page): it is the new contents all the same
    v = [("200-complete-html", {"kind": "full", "status": 200, "pieces": [], "_body": HTML_BODY}),
         ("200-complete", {"kind": "full", "status": 200, "pieces": []}),
         ("200-complete-3pieces", {"kind": "full", "status": 200, "pieces": [1000, 3000]})]
    if tier_thorough:
        v.append(("200-complete-8pieces", {"kind": "full", "status": 200, "pieces": [1, 700, 1448, 2896, 4000, 5000, n - 1]}))
    v += [("200-cut@%d" % k, {"kind": "cut", "status": 200, "cut": k}) for k in cuts]
    v += [("%d" % s, {"kind": "full", "status": s, "error_body": True}) for s in ([301, 404, 500] + ([302, 403, 429, 503] if tier_thorough else []))]
    v += [("stall-before-headers", {"kind": "stall", "status": 200, "cut": None}),
          ("stall@1000", {"kind": "stall", "status": 200, "cut": 1000}),
          ("refused", {"kind": "refused"}),
          ("chunked-cut@1000", {"kind": "chunked-cut", "cut": 1000}),
          ("200-rst@1448", {"kind": "cut", "status": 200, "cut": 1448, "rst": True})]
    if tier_thorough:
        v += [("stall@%d" % k, {"kind": "stall", "status": 200, "cut": k}) for k in (0, 1, n - 1)]
        v += [("chunked-cut@%d" % k, {"kind": "chunked-cut", "cut": k}) for k in (0, n - 1)]
        v += [("200-rst@0", {"kind": "cut", "status": 200, "cut": 0, "rst": True})]
    return v


STALE_AGES = [7200, 3 * 86400, 400 * 86400, 90000]
PRIORS = ["absent", "fresh", "stale", "stale-bad", "fresh-bad"]


def build_matrix(thorough, n, seed=1):
    scns = []
    servers = server_variants(thorough, n, seed)
    i = 0
    for prior in PRIORS:
        for sname, plan in servers:
            entries = ["startup-expr", "startup-file", "fetch"] if thorough else [("startup-expr", "startup-file")[i % 2], "fetch"]
            i += 1
            for entry in entries:
                scns.append({"prior": prior, "server": dict(plan, name=sname), "entry": entry,
                             "cfg": {"enabled": True, "fetch_on_startup": True}, "kill": None})
                # "previous contents" however old: a stale file of two hours, three days, over a year
                if prior.startswith("stale"):
                    scns[-1]["age"] = STALE_AGES[len(scns) % len(STALE_AGES)]
    # configuration corners and a modification time in the future (model correspondence)
    full = {"kind": "full", "status": 200, "pieces": [], "name": "200-complete"}
    r404 = {"kind": "full", "status": 404, "error_body": True, "name": "404"}
    for prior, cfg, plan in [("stale", {"enabled": True, "fetch_on_startup": False}, full),
                             ("absent", {"enabled": True, "fetch_on_startup": False}, full),
                             ("absent", {"enabled": True, "fetch_on_startup": False}, r404),
                             ("stale", {"enabled": False, "fetch_on_startup": True}, full),
                             ("absent", {"enabled": False, "fetch_on_startup": True}, full),
                             ("future", {"enabled": True, "fetch_on_startup": True}, full),
                             ("future", {"enabled": True, "fetch_on_startup": True}, r404)]:
        scns.append({"prior": prior, "server": plan, "entry": "startup-expr", "cfg": cfg, "kill": None})
    scns.append({"prior": "stale", "server": full, "entry": "fetch", "cfg": {"enabled": False, "fetch_on_startup": True}, "kill": None})
    # outside the statement (explored, not judged by the oracle): body delimited by connection close and cut
    for prior in ("absent", "stale"):
        for k in (1000, n):
            scns.append({"prior": prior, "server": {"kind": "close-delimited", "cut": k, "name": "close-delimited@%d" % k},
                         "entry": "fetch", "cfg": {"enabled": True, "fetch_on_startup": True}, "kill": None, "explore": True})
    return scns


def kill_bases(thorough, n):
    """Scenarios whose every write/rename step gets a SIGKILL."""
    full3 = {"kind": "full", "status": 200, "pieces": [1000, 3000], "name": "200-complete-3pieces"}
    full8 = {"kind": "full", "status": 200, "pieces": [1, 700, 1448, 2896, 4000, 5000, n - 1], "name": "200-complete-8pieces"}
    cut = {"kind": "cut", "status": 200, "cut": 1448, "name": "200-cut@1448"}
    r404 = {"kind": "full", "status": 404, "error_body": True, "name": "404"}
    base = []
    cfg = {"enabled": True, "fetch_on_startup": True}
    if thorough:
        for prior in ("absent", "stale", "stale-bad", "fresh"):
            for entry in ("startup-expr", "startup-file", "fetch"):
                for plan in (full3, full8, cut, r404):
                    if prior == "fresh" and entry != "fetch":
                        continue
                    base.append({"prior": prior, "server": plan, "entry": entry, "cfg": cfg, "kill": None})
    else:
        for prior, entry, plan in [("stale", "startup-expr", full3), ("stale", "fetch", full3), ("absent", "fetch", full3),
                                   ("absent", "startup-file", full3), ("stale", "fetch", cut), ("stale", "startup-expr", r404)]:
            base.append({"prior": prior, "server": plan, "entry": entry, "cfg": cfg, "kill": None})
    return base


def scn_key(s):
    k = "%s|%s|%s" % (s["prior"], s["server"]["name"], s["entry"])
    if not (s["cfg"]["enabled"] and s["cfg"]["fetch_on_startup"]):
        k += "|enabled=%d,fetch_on_startup=%d" % (s["cfg"]["enabled"], s["cfg"]["fetch_on_startup"])
    if s.get("age", 7200) != 7200:
        k += "|age=%ds" % s["age"]
    if s.get("kill"):
        kl = s["kill"]
        k += "|kill:" + ("%s#%d" % (kl["syscall"], kl["when"]) if "syscall" in kl else "watch@%d" % kl["watch"])
    return k


# ------------------------------------------------------------------------------ running one scenario
class Runner:
    def __init__(self, work, contents, use_strace):
        self.work, self.ct, self.use_strace = work, contents, use_strace
        self.local = threading.local()
        self.counter = 0
        self.lock = threading.Lock()
        self.servers = []

    def server(self):
        s = getattr(self.local, "srv", None)
        if s is None:
            s = fault_http.FaultServer().start()
            self.local.srv = s
            with self.lock:
                self.servers.append(s)
        return s

    def close(self):
        for s in self.servers:
            try:
                s.stop()
            except Exception:
                pass

    def prior_bytes(self, prior):
        return {"absent": None, "fresh": self.ct.old, "stale": self.ct.old, "future": self.ct.old,
                "stale-bad": self.ct.bad, "fresh-bad": self.ct.bad}[prior]

    def body_for(self, plan):
        if plan.get("error_body"):
            return b"<html>error %d from the fault server</html>\n" % plan.get("status", 0)
        return plan.get("_body") or (HTML_BODY if plan.get("html") else self.ct.new)

    def setup(self, root, prior, cfg, url, timeout, age=7200):
        shutil.rmtree(root, ignore_errors=True)
        for d in ("config/rink", "cache", "home", "cwd"):
            os.makedirs(os.path.join(root, d))
        self.write_config(root, cfg, url, timeout)
        pb = self.prior_bytes(prior)
        if pb is not None:
            d = os.path.join(root, "cache", "rink")
            os.makedirs(d)
            p = os.path.join(d, "currency.json")
            with open(p, "wb") as f:
                f.write(pb)
            now = time.time()
            if prior.startswith("stale"):
                os.utime(p, (now - age, now - age))
            elif prior == "future":
                os.utime(p, (now + 86400, now + 86400))

    def write_config(self, root, cfg, url, timeout):
        with open(os.path.join(root, "config", "rink", "config.toml"), "w") as f:
            f.write("[currency]\nenabled = %s\nfetch_on_startup = %s\nendpoint = \"%s\"\ncache_duration = \"1h\"\ntimeout = \"%s\"\n" % (
                str(cfg["enabled"]).lower(), str(cfg["fetch_on_startup"]).lower(), url, timeout))

    def env(self, root):
        e = {k: v for k, v in os.environ.items() if not k.startswith("XDG_") and k not in ("RINK_PATH",)}
        e.update(XDG_CACHE_HOME=os.path.join(root, "cache"), XDG_CONFIG_HOME=os.path.join(root, "config"),
                 XDG_DATA_HOME=os.path.join(root, "home", "data"), HOME=os.path.join(root, "home"),
                 NO_COLOR="1", RUST_BACKTRACE="0", http_proxy="", HTTP_PROXY="", no_proxy="*", NO_PROXY="*")
        return e

    def cmd(self, entry):
        if entry == "fetch":
            return [RINK, "--fetch-currency"], None
        if entry == "startup-file":
            return [RINK, "-f", "-"], (QUERY_PLAIN + "\n" + QUERY_MONEY + "\n").encode()
        return [RINK, QUERY_PLAIN, QUERY_MONEY], None

    def snapshot_dir(self, root):
        d = os.path.join(root, "cache", "rink")
        if not os.path.isdir(d):
            return None
        out = {}
        for fn in sorted(os.listdir(d)):
            try:
                out[fn] = open(os.path.join(d, fn), "rb").read()
            except OSError:
                out[fn] = None
        return out

    def classify(self, data, prior, body):
        if data is None:
            return "absent"
        pb = self.prior_bytes(prior)
        if pb is not None and data == pb:
            return "old"
        if data == body:
            return "new"
        return "other"

    def run(self, scn):
        """Runs the scenario and the follow-up start; returns the observation."""
        with self.lock:
            self.counter += 1
            idx = self.counter
        root = os.path.join(self.work, "s%05d" % idx)
        srv = self.server()
        plan = dict(scn["server"])
        body = self.body_for(plan)
        kind = plan["kind"]
        if kind == "close-delimited":          # what arrives *is* the body, for any client
            body = body[:max(0, min(plan.get("cut", len(body)), len(body)))]
        kill = scn.get("kill")
        timeout = "800ms" if kind == "stall" and not (kill and "watch" in kill) else "20s"
        url = "http://127.0.0.1:%d/data/currency.json" % (fault_http.closed_port() if kind == "refused" else srv.port)
        self.setup(root, scn["prior"], scn["cfg"], url, timeout, scn.get("age", 7200))
        p = dict(plan, body=body)
        if kill and "watch" in kill:
            p["hold"] = 60.0
        srv.set_plan(p)
        argv, stdin = self.cmd(scn["entry"])
        trace = os.path.join(root, "trace.txt")
        obs = {"id": idx, "key": scn_key(scn), "root": root}
        full = list(argv)
        if self.use_strace and not (kill and "watch" in kill):
            full = ["strace", "-f", "-y", "-s", "0", "-e", TRACE_SET]
            if kill:
                full += ["-e", "inject=%s:signal=SIGKILL:when=%d" % (kill["syscall"], kill["when"])]
            full += ["-o", trace] + argv
        t0 = time.time()
        if kill and "watch" in kill:
            obs.update(self.run_watch_kill(full, stdin, root, srv, kill["watch"], body))
        else:
            try:
                pr = subprocess.run(full, input=stdin, stdout=subprocess.PIPE, stderr=subprocess.STDOUT,
                                    env=self.env(root), cwd=os.path.join(root, "cwd"), timeout=PROC_TIMEOUT)
                obs["rc"], obs["out"] = pr.returncode, pr.stdout.decode("utf-8", "replace")
            except subprocess.TimeoutExpired as ex:
                obs["rc"], obs["out"] = "timeout", (ex.stdout or b"").decode("utf-8", "replace")
        obs["wall"] = round(time.time() - t0, 2)
        obs["requests"] = [{"path": e["path"], "sent": e["sent"], "kind": e["kind"]} for e in srv.log]
        snap = self.snapshot_dir(root)
        obs["dir"] = None if snap is None else {k: (len(v) if v is not None else None) for k, v in snap.items()}
        data = (snap or {}).get("currency.json")
        obs["after"] = self.classify(data, scn["prior"], body)
        if obs["after"] == "other":
            obs["after_detail"] = {"len": len(data), "prefix_of_new_body": body.startswith(data), "prefix_of_old": (self.prior_bytes(scn["prior"]) or b"").startswith(data),
                                   "head": data[:40].decode("latin-1")}
        obs["orphans"] = {k: v for k, v in (snap or {}).items() if k != "currency.json"}
        obs["orphan_ok"] = all(v is not None and body.startswith(v) for v in obs["orphans"].values())
        obs["orphans"] = {k: len(v) if v is not None else None for k, v in obs["orphans"].items()}
        if os.path.exists(trace):
            obs["ops"], obs["killed_in"], obs["trace_raw"] = parse_trace(trace, os.path.join(root, "cache", "rink"))
        else:
            obs["ops"], obs["killed_in"], obs["trace_raw"] = None, None, []
        obs["plain_ok"] = PLAIN_ANSWER in obs["out"]
        obs["money"] = money_class(obs["out"])
        # ---- the next start: the server is gone (refused); must start, answer, and read what the cache holds
        self.write_config(root, {"enabled": True, "fetch_on_startup": True},
                          "http://127.0.0.1:%d/data/currency.json" % fault_http.closed_port(), "5s")
        before = self.snapshot_dir(root)
        try:
            pr = subprocess.run([RINK, QUERY_PLAIN, QUERY_MONEY], stdout=subprocess.PIPE, stderr=subprocess.STDOUT,
                                env=self.env(root), cwd=os.path.join(root, "cwd"), timeout=PROC_TIMEOUT)
            nrc, nout = pr.returncode, pr.stdout.decode("utf-8", "replace")
        except subprocess.TimeoutExpired:
            nrc, nout = "timeout", ""
        after2 = self.snapshot_dir(root)
        obs["next"] = {"rc": nrc, "plain_ok": PLAIN_ANSWER in nout, "money": money_class(nout),
                       "cache_unchanged": (before or {}).get("currency.json") == (after2 or {}).get("currency.json"),
                       "out": nout[-600:]}
        return obs

    def run_watch_kill(self, argv, stdin, root, srv, k, body):
        """Starts rink against a server that sends k body bytes and goes quiet; kills the client
        once the temp file holds those k bytes."""
        d = os.path.join(root, "cache", "rink")
        pr = subprocess.Popen(argv, stdin=subprocess.PIPE if stdin is not None else subprocess.DEVNULL,
                              stdout=subprocess.PIPE, stderr=subprocess.STDOUT, env=self.env(root), cwd=os.path.join(root, "cwd"))
        if stdin is not None:
            try:
                pr.stdin.write(stdin)
                pr.stdin.close()
            except OSError:
                pass
        ok = srv.stalled.wait(60)
        seen = None
        end = time.time() + 30
        while ok and time.time() < end and pr.poll() is None:
            temps = [f for f in (os.listdir(d) if os.path.isdir(d) else []) if f != "currency.json"]
            if temps:
                try:
                    sz = os.path.getsize(os.path.join(d, temps[0]))
                except OSError:
                    sz = -1
                if sz >= k:
                    seen = (temps[0], sz)
                    break
            time.sleep(0.01)
        killed = False
        if pr.poll() is None:
            pr.send_signal(signal.SIGKILL)
            killed = True
        try:
            out = pr.communicate(timeout=PROC_TIMEOUT)[0]
        except Exception:
            out = b""
        return {"rc": pr.returncode, "out": (out or b"").decode("utf-8", "replace"), "watch": {"stalled": ok, "temp_seen": seen, "killed": killed}}


# ------------------------------------------------------------------------------ strace → canonical operations
CALL = re.compile(r"^(\d+)\s+(\w+)\((.*)$")


def parse_trace(path, cdir):
    """Canonical operations on the cache directory from an `strace -f -y` log.
    Returns (ops, killed_in, raw): ops = completed operations as tokens (writes to the same file
    merged), killed_in = token of the call that was entered but did not return (SIGKILL at entry)."""
    lines = open(path, encoding="utf-8", errors="replace").read().split("\n")
    pending = {}
    calls = []
    for ln in lines:
        m = re.match(r"^(\d+)\s+(.*)$", ln)
        if not m:
            continue
        pid, rest = m.group(1), m.group(2)
        if rest.endswith("<unfinished ...>"):
            pending[pid] = rest[:-len("<unfinished ...>")]
            continue
        r = re.match(r"^<\.\.\. (\w+) resumed>(.*)$", rest)
        if r:
            rest = pending.pop(pid, r.group(1) + "(") + r.group(2)
        calls.append(rest)
    for pid, rest in pending.items():       # entered, never returned
        calls.append(rest + " = ?")
    ops, raw = [], []
    killed_in = None
    cdir = cdir.rstrip("/")

    def name(p):
        b = os.path.basename(p.replace(" (deleted)", ""))
        if b == "currency.json":
            return "C"
        if re.match(r"^currency\..+\.json$", b):
            return "T"
        return b

    for c in calls:
        if cdir not in c:
            continue
        m = re.match(r"^(\w+)\((.*)\)\s*=\s*(\S+)(.*)$", c)
        if not m:
            continue
        sysc, args, ret = m.group(1), m.group(2), m.group(3)
        tok = None
        paths = re.findall(r'"([^"]*)"', args)
        fdpaths = re.findall(r"\d+<([^>]*)>", args)
        if sysc in ("openat", "open", "creat"):
            ps = [p for p in paths if p.startswith(cdir + "/")]
            if not ps:
                continue
            if "O_DIRECTORY" in args:
                continue
            if sysc == "creat" or "O_CREAT" in args:
                tok = "creat:%s" % name(ps[0]) if ("O_EXCL" in args) else "openw-creat:%s" % name(ps[0])
            elif "O_WRONLY" in args or "O_RDWR" in args or "O_TRUNC" in args:
                tok = "openw:%s" % name(ps[0])
            else:
                tok = "openr:%s" % name(ps[0])
        elif sysc in ("mkdir", "mkdirat"):
            if any(p.rstrip("/") == cdir for p in paths):
                tok = "mkdir"
        elif sysc in ("write", "pwrite64", "writev"):
            fp = [p for p in fdpaths if p.startswith(cdir + "/")]
            if fp:
                n = int(ret) if ret.isdigit() else 0
                tok = "write:%s:%d" % (name(fp[0]), n)
        elif sysc in ("fsync", "fdatasync"):
            fp = [p for p in fdpaths if p.startswith(cdir + "/")]
            if fp:
                tok = "fsync:%s" % name(fp[0])
        elif sysc in ("rename", "renameat", "renameat2", "link", "linkat"):
            ps = [p for p in paths if p.startswith(cdir + "/")]
            if len(ps) >= 2:
                tok = "%s:%s:%s" % ("rename" if sysc.startswith("rename") else "link", name(ps[0]), name(ps[1]))
        elif sysc in ("unlink", "unlinkat"):
            ps = [p for p in paths if p.startswith(cdir + "/")]
            if ps:
                tok = "unlink:%s" % name(ps[0])
        elif sysc in ("copy_file_range", "sendfile"):
            fp = [p for p in fdpaths if p.startswith(cdir + "/")]
            if fp:
                tok = "copy:%s" % ":".join(name(p) for p in fp)
        elif sysc in ("truncate", "ftruncate"):
            fp = [p for p in fdpaths + paths if p.startswith(cdir + "/")]
            if fp:
                tok = "truncate:%s" % name(fp[0])
        if tok is None:
            continue
        raw.append(c[:200].replace(cdir, "$CACHE"))
        if ret == "?":
            killed_in = tok.rsplit(":", 1)[0] if tok.startswith("write:") else tok
            continue
        if tok.startswith("write:") and ops and ops[-1].startswith("write:") and ops[-1].split(":")[1] == tok.split(":")[1]:
            a = ops[-1].split(":")
            ops[-1] = "write:%s:%d" % (a[1], int(a[2]) + int(tok.split(":")[2]))
        else:
            ops.append(tok)
    ops = [o for o in ops if not re.match(r"^write:\w+:0$", o)]
    return ops, killed_in, raw


def kill_points(trace_path, cdir):
    """From the trace of the un-killed run: the crash points to exercise, as (syscall, when) for
    `strace -e inject=<syscall>:signal=SIGKILL:when=<when>` (the signal arrives at the entry of
    that call, which is then not executed).  Points: every system call on the cache directory,
    the traced call that follows each of them (crash right after the step), and every write(2)
    of that thread up to the first one after the rename/unlink of the temp file."""
    txt = open(trace_path, encoding="utf-8", errors="replace").read().split("\n")
    main = None
    for ln in txt:
        if cdir in ln:
            m = re.match(r"^(\d+)\s", ln)
            if m:
                main = m.group(1)
                break
    counts, pts, want_next = {}, [], False
    nwrite, last, seen_commit = 0, 0, False
    for ln in txt:
        m = re.match(r"^(\d+)\s+(\w+)\(", ln)
        if not m or (main and m.group(1) != main):
            continue
        sysc = m.group(2)
        counts[sysc] = counts.get(sysc, 0) + 1
        here = (sysc, counts[sysc])
        on_dir = cdir in ln
        if (on_dir or want_next) and sysc != "write" and here not in pts:
            pts.append(here)
        want_next = on_dir
        if sysc == "write":
            nwrite += 1
            if seen_commit and not last:
                last = nwrite
        if sysc in ("rename", "renameat", "renameat2", "unlink", "unlinkat", "link", "linkat", "copy_file_range", "sendfile") and on_dir:
            seen_commit = True
    return [("write", i) for i in range(1, (last or nwrite) + 1)] + pts


# ------------------------------------------------------------------------------ model lines
def hexs(b):
    return b.hex() if b else "-"


def model_line(scn, runner):
    """The scenario as a request line for `rinkmodel cache`."""
    plan = scn["server"]
    body = runner.body_for(plan)
    kind = plan["kind"]
    prior = scn["prior"]
    pb = runner.prior_bytes(prior)
    pk = {"absent": "absent", "fresh": "fresh", "fresh-bad": "fresh", "stale": "stale", "stale-bad": "stale", "future": "future"}[prior]
    ptxt = "absent" if pb is None else "%s:%s" % (pk, hexs(pb))
    status, ending, chunks = plan.get("status", 200), "complete", [body]
    if kind == "full":
        cuts = [0] + [k for k in plan.get("pieces", []) if 0 < k < len(body)] + [len(body)]
        chunks = [body[a:b] for a, b in zip(cuts, cuts[1:]) if b > a]
    elif kind in ("cut", "stall", "chunked-cut"):
        k = plan.get("cut")
        word = "stall" if kind == "stall" else "error"
        if kind == "chunked-cut":
            status = 200
        if k is None or k <= 0:
            ending, chunks = word + ":0", [body]
        else:
            k = min(k, len(body))
            chunks = [body[:k]] + ([body[k:]] if k < len(body) else [])
            ending = word + ":1"
    elif kind == "refused":
        status, ending, chunks = 0, "error:0", []
    elif kind == "close-delimited":
        k = min(plan.get("cut", len(body)), len(body))
        status, ending, chunks = 200, "complete", ([body[:k]] if k else [])
    new_body = b"".join(chunks)
    old_ok = prior in ("fresh", "stale", "future")
    new_ok = new_body == runner.ct.new or new_body == runner.ct.new2
    parse = "both" if old_ok and new_ok else "old" if old_ok else "new" if new_ok else "none"
    entry = "fetch" if scn["entry"] == "fetch" else "startup"
    return "scn %s %d %d %s %d %s %s %s" % (entry, scn["cfg"]["enabled"], scn["cfg"]["fetch_on_startup"], ptxt, status, ending,
                                             ",".join(hexs(c) for c in chunks) if chunks else "-", parse)


def run_model(lines):
    p = subprocess.run([model_bin(), "cache"], input=("\n".join(lines) + "\n").encode(), stdout=subprocess.PIPE,
                       stderr=subprocess.PIPE, timeout=600)
    if p.returncode != 0:
        return None, p.stderr.decode("utf-8", "replace")[-2000:]
    out = []
    for ln in p.stdout.decode().split("\n"):
        if not ln:
            continue
        d = dict(f.split("=", 1) for f in ln.split(" ") if "=" in f)
        d["raw"] = ln
        d["ops_l"] = [] if d.get("ops", "-") == "-" else d["ops"].split(",")
        d["states_l"] = d.get("states", "").split(",")
        out.append(d)
    return out, ""


# ------------------------------------------------------------------------------ judging
def complete_200(scn):
    p = scn["server"]
    return p["kind"] == "full" and p.get("status") == 200


def loose_sizes(scn):
    """Transfers in which the number of bytes that reach the client before the fault depends on
    timing (reset, stall against a short timeout): write sizes are compared with <=."""
    p = scn["server"]
    return p["kind"] == "stall" or bool(p.get("rst"))


def oracle(scn, obs, runner):
    """Property C20 judged on the observation alone.  Returns list of (key-suffix, text)."""
    bad = []
    if scn.get("explore"):
        return bad
    killed = bool(scn.get("kill"))
    prior = scn["prior"]
    old_state = "absent" if prior == "absent" else "old"
    after = obs["after"]
    if after not in (old_state, "new"):
        bad.append(("partial-or-mixed", "cache file after the run is neither the previous contents nor the complete new body: state=%s %s dir=%s" % (
            after, obs.get("after_detail", ""), obs["dir"])))
    elif after == "new" and not complete_200(scn):
        bad.append(("replaced-on-failed-transfer", "cache file was replaced although the transfer did not end with a clean 200 (server: %s)" % scn["server"]["name"]))
    if obs["rc"] == "timeout":
        bad.append(("hang", "rink did not terminate within %d s" % PROC_TIMEOUT))
    startup = scn["entry"] != "fetch"
    if not killed and startup:
        if obs["rc"] != 0 or not obs["plain_ok"]:
            bad.append(("startup-fatal", "start did not continue: rc=%s, non-currency query answered=%s, output tail=%r" % (obs["rc"], obs["plain_ok"], obs["out"][-300:])))
        elif prior == "stale" and scn["cfg"]["enabled"] and scn["cfg"]["fetch_on_startup"] and not complete_200(scn) and obs["money"] != "old":
            bad.append(("no-stale-fallback", "refresh failed with a readable stale cache present, but `%s` was answered with %s rates" % (QUERY_MONEY, obs["money"])))
    if not killed and not startup and complete_200(scn) and obs["rc"] == 0 and after != "new":
        bad.append(("success-not-visible", "--fetch-currency reported success but the cache file is %s" % after))
    nx = obs["next"]
    if nx["rc"] != 0 or not nx["plain_ok"]:
        bad.append(("next-start-fatal", "the next start (server unreachable) did not continue: rc=%s plain=%s tail=%r" % (nx["rc"], nx["plain_ok"], nx["out"][-300:])))
    else:
        new_readable = scn["server"].get("_body") in (None, runner.ct.new, runner.ct.new2) and not scn["server"].get("html")
        want = {"new": "new" if new_readable else "none", "old": "old" if prior in ("fresh", "stale", "future") else "none", "absent": "none"}.get(after)
        if want and nx["money"] != want:
            key = "success-not-visible" if after == "new" else "next-start-no-fallback"
            bad.append((key, "cache holds the %s contents but the next start answered `%s` with %s rates" % (after, QUERY_MONEY, nx["money"])))
        if not nx["cache_unchanged"]:
            bad.append(("next-start-changed-cache", "the next start, with the server unreachable, changed the cache file"))
    if not obs.get("orphan_ok", True):
        bad.append(("temp-not-prefix", "a leftover temp file is not a prefix of the body"))
    return bad


def ops_match(obs_ops, model_ops, loose, prefix_only):
    """Observed canonical operations against the model's.  With prefix_only the observed list must
    be a prefix (the last write may be shorter)."""
    if obs_ops is None:
        return True, ""
    o, m = list(obs_ops), list(model_ops)
    if loose:
        # a timing-dependent amount may be zero: drop write tokens and compare them separately
        ow = [x for x in o if x.startswith("write:")]
        mw = [x for x in m if x.startswith("write:")]
        o2, m2 = [x for x in o if not x.startswith("write:")], [x for x in m if not x.startswith("write:")]
        ok = (o2 == m2[:len(o2)]) if prefix_only else (o2 == m2)
        for a in ow:
            tgt = [b for b in mw if b.split(":")[1] == a.split(":")[1]]
            if not tgt or int(a.split(":")[2]) > int(tgt[0].split(":")[2]):
                ok = False
        return ok, "" if ok else "observed %s, model %s (write sizes compared with <=)" % (o, m)
    if not prefix_only:
        return o == m, "" if o == m else "observed %s, model %s" % (o, m)
    if len(o) > len(m):
        return False, "observed %s is longer than the model's %s" % (o, m)
    for i, (a, b) in enumerate(zip(o, m)):
        if a == b:
            continue
        if a.startswith("write:") and b.startswith("write:") and a.split(":")[1] == b.split(":")[1] and int(a.split(":")[2]) <= int(b.split(":")[2]) and i == len(o) - 1:
            continue
        return False, "observed %s is not a prefix of the model's %s" % (o, m)
    return True, ""


def compare_model(scn, obs, md):
    """Model/implementation disagreements.  Returns list of texts."""
    dis = []
    killed = bool(scn.get("kill"))
    ok, why = ops_match(obs["ops"], md["ops_l"], loose_sizes(scn), killed)
    if not ok:
        dis.append("operation sequence: " + why)
    if not killed:
        if obs["after"] != md["final"]:
            dis.append("final cache state: observed %s, model %s" % (obs["after"], md["final"]))
        if scn["entry"] == "fetch":
            want = "ok" if obs["rc"] == 0 else "err"
            if md["exit"] != want:
                dis.append("exit status of --fetch-currency: observed %s (rc=%s), model %s" % (want, obs["rc"], md["exit"]))
        else:
            if md["started"] != ("1" if obs["rc"] == 0 and obs["plain_ok"] else "0"):
                dis.append("start continues: observed rc=%s plain=%s, model started=%s" % (obs["rc"], obs["plain_ok"], md["started"]))
            exp_money = "none"
            if md["loaded"] == "1":
                exp_money = {"fresh": "old", "stale": "old", "downloaded": "new"}.get(md["src"], "none")
            if obs["money"] != exp_money and obs["rc"] == 0:
                dis.append("currency text used: observed %s rates, model src=%s loaded=%s" % (obs["money"], md["src"], md["loaded"]))
    else:
        if obs["ops"] is not None and ok:
            n = len(obs["ops"])
            st = md["states_l"][min(n, len(md["states_l"]) - 1)]
            allowed = {st}
            if obs.get("killed_in", "") and str(obs["killed_in"]).startswith("rename"):
                allowed |= {md["states_l"][min(n + 1, len(md["states_l"]) - 1)]}
            if obs["after"] not in allowed:
                dis.append("cache state at crash point %d (%s): observed %s, model %s" % (n, obs.get("killed_in"), obs["after"], sorted(allowed)))
        elif obs["after"] not in md["allowed"].split("+"):
            dis.append("cache state after kill: observed %s, model allows %s" % (obs["after"], md["allowed"]))
    return dis


def strip_obs(obs):
    o = {k: v for k, v in obs.items() if k not in ("out", "root", "trace_raw")}
    o["out_tail"] = obs.get("out", "")[-500:]
    o["trace"] = obs.get("trace_raw", [])[:40]
    return o


def public_scn(scn):
    s = {k: v for k, v in scn.items() if not k.startswith("_")}
    s["server"] = {k: v for k, v in scn["server"].items() if not k.startswith("_")}
    if scn["server"].get("_body") == HTML_BODY:
        s["server"]["html"] = True
    return s


# ------------------------------------------------------------------------------ the check
def build_cli(c):
    env = dict(vlib.ENV, CARGO_TARGET_DIR=CLI_TARGET)
    rc, out = vlib.sh(["cargo", "build", "--offline", "-p", "rink"], cwd=REPO, env=env, timeout=3600)
    ok = rc == 0 and os.path.exists(RINK)
    c.obligations.append(("build:rink CLI from /repo's working tree", ok, "" if ok else out[-1500:]))
    if not ok:
        c.violation("build:cli", "the rink CLI no longer builds from /repo's working tree",
                    {"kind": "obligation", "obligation": "cargo build --offline -p rink", "output": out[-3000:]}, found=False)
    return ok


def have_strace(work):
    try:
        t = os.path.join(work, "strace-probe.txt")
        p = subprocess.run(["strace", "-f", "-y", "-e", "trace=write", "-e", "inject=fsync:signal=SIGKILL:when=1", "-o", t, "/bin/true"],
                           stdout=subprocess.PIPE, stderr=subprocess.PIPE, timeout=30)
        return p.returncode == 0
    except Exception:
        return False


def execute(c, runner, scns, jobs):
    with ThreadPoolExecutor(max_workers=jobs) as ex:
        return list(ex.map(runner.run, scns))


def judge_all(c, runner, scns, observations, seen, stats):
    lines = [model_line(s, runner) for s in scns]
    models, err = run_model(lines)
    if models is None or len(models) != len(scns) or any("final" not in m for m in models):
        if not stats.get("model_failed"):
            stats["model_failed"] = True
            c.violation("model:cache", "model driver failed (`rinkmodel cache`)",
                        {"kind": "obligation", "obligation": "rinkmodel cache", "output": err or "answers=%s requests=%d" % (None if models is None else len(models), len(scns)),
                         "first_bad": next((m["raw"] for m in (models or []) if "final" not in m), None)}, found=False)
        models = [None] * len(scns)
    for scn, obs, md in zip(scns, observations, models):
        stats["runs"] += 2          # the scenario and its next start
        key = obs["key"]
        stats["keys"].add(key)
        if obs.get("requests") or (obs.get("ops") and len(obs["ops"]) > 1) or scn.get("kill"):
            stats["nontrivial"].add(key)
        verdicts = oracle(scn, obs, runner)
        for suffix, text in verdicts:
            k = "%s:%s" % (suffix, key)
            gk = suffix + "|" + scn["server"]["name"].split("@")[0] + "|" + scn["entry"].split("-")[0]
            stats["oracle_violations"] += 1
            if gk in seen or sum(1 for x in seen if x.startswith(suffix + "|")) >= 3:
                continue
            seen.add(gk)
            c.violation(k, "implementation violates C20 in scenario [%s]: %s" % (key, text),
                        {"kind": "history", "scenario": public_scn(scn), "oracle": text, "observed": strip_obs(obs),
                         "model": md["raw"] if md else None}, found=True)
        if md is None:
            continue
        if obs["ops"] is not None:
            stats["traces"] += 1
        dis = compare_model(scn, obs, md)
        if dis and not verdicts:
            stats["disagreements"] += 1
            gk = "dis|" + dis[0].split(":")[0] + "|" + scn["server"]["name"].split("@")[0] + "|" + scn["entry"].split("-")[0] + "|" + scn["prior"]
            if gk in seen or sum(1 for x in seen if x.startswith("dis|" + dis[0].split(":")[0] + "|")) >= 3:
                continue
            seen.add(gk)
            c.violation("disagree:" + key, "model/implementation disagreement in scenario [%s]: %s" % (key, "; ".join(dis)[:600]),
                        {"kind": "history", "scenario": public_scn(scn), "disagreement": dis, "observed": strip_obs(obs), "model": md["raw"],
                         "correspondence": "rink under strace vs rinkmodel cache", "theorem": "Rink.Cache.cache_atomic"}, found=False)
        if scn.get("explore"):
            stats["explored"].append({"scenario": key, "after": obs["after"], "rc": obs["rc"], "dir": obs["dir"], "model_final": md["final"],
                                      "note": "body delimited by connection close: a cut is indistinguishable from a complete response; outside the statement"})
        if len(stats["samples"]) < 10 and (len(stats["samples"]) < 4 or scn.get("kill")):
            stats["samples"].append({"scenario": key, "observed_ops": obs["ops"], "killed_in": obs.get("killed_in"), "cache_after": obs["after"],
                                     "rc": obs["rc"], "money": obs["money"], "next_start": {k: obs["next"][k] for k in ("rc", "plain_ok", "money")},
                                     "model": md["raw"]})


def run(c):
    c.assumptions += [
        "rename(2) replaces the directory entry atomically (Op.rename is one step of the model)",
        "a process killed by SIGKILL loses nothing already passed to write(2); durability across power loss (fsync ordering) is not modelled, only that fsync precedes the rename",
        "libcurl reports a body shorter than Content-Length / a chunked body without terminator / reset / refusal / timeout as an error from perform(); a close-delimited body cut by the peer is indistinguishable from a complete one (explored, outside the statement)",
        "tempfile creates its file with O_CREAT|O_EXCL in the cache directory; no second process writes there during a run",
        "the crash points exercised on the real binary are the entries of the traced system calls (write, mkdir, fsync, rename, unlink) and a kill in the middle of a stalled transfer; the theorem covers every prefix of the operation sequence",
    ]
    c.trusted += ["strace 6.x printing the system calls the process made (-f -y) and delivering SIGKILL at syscall entry (inject=)",
                  "tools/fault_http.py sending what the plan says; checks/c20.py canonicalising the trace"]
    os.makedirs(CLI_TARGET, exist_ok=True)
    cli_ok = build_cli(c)
    model_ok = c.build_lean(["Rink.Props.C20", "rinkmodel"])
    c.audit("Rink.Props.C20", THEOREMS)
    if c.thorough:
        c.leanchecker(LEAN_MODULES)
    if not cli_ok:
        return
    ct = Contents()
    use_strace = have_strace(c.work) and not os.environ.get("C20_NO_STRACE")
    c.obligations.append(("tool:strace available (syscall shape and kill injection)", use_strace, "" if use_strace else "strace missing or ptrace not permitted: only bytes and outputs are compared, kills by watcher only"))
    for d in os.listdir(c.work):
        if re.match(r"^s\d+$", d):
            shutil.rmtree(os.path.join(c.work, d), ignore_errors=True)
    runner = Runner(c.work, ct, use_strace)
    jobs = max(2, min(8, (os.cpu_count() or 4) // 2))
    stats = {"runs": 0, "keys": set(), "nontrivial": set(), "oracle_violations": 0, "disagreements": 0, "traces": 0, "samples": [], "explored": []}
    seen = set()
    n = len(ct.new)
    try:
        # 1. the matrix
        scns = build_matrix(c.thorough, n, c.seed)
        obs = execute(c, runner, scns, jobs)
        if model_ok:
            judge_all(c, runner, scns, obs, seen, stats)
        else:
            for s, o in zip(scns, obs):
                for suffix, text in oracle(s, o, runner):
                    c.violation("%s:%s" % (suffix, o["key"]), "implementation violates C20 in scenario [%s]: %s" % (o["key"], text),
                                {"kind": "history", "scenario": public_scn(s), "oracle": text, "observed": strip_obs(o)}, found=True)
        nmatrix = len(scns)
        # 2. kill at every observed write / mkdir / fsync / rename / unlink step
        kills = []
        if use_strace:
            bases = kill_bases(c.thorough, n)
            bobs = execute(c, runner, bases, jobs)
            stats["runs"] += 2 * len(bases)
            for b, o in zip(bases, bobs):
                tp = os.path.join(o["root"], "trace.txt")
                if not os.path.exists(tp):
                    continue
                for sysc, when in kill_points(tp, os.path.join(o["root"], "cache", "rink")):
                    kills.append(dict(b, kill={"syscall": sysc, "when": when}))
        # 3. kill in the middle of a stalled transfer (temp file holds k bytes)
        wk = [1000] if not c.thorough else [1, 1000, 1448, n - 1]
        for prior in (("absent", "stale") if not c.thorough else ("absent", "stale", "stale-bad")):
            for entry in ("startup-expr", "fetch"):
                for k in wk:
                    kills.append({"prior": prior, "server": {"kind": "stall", "status": 200, "cut": k, "name": "stall@%d" % k}, "entry": entry,
                                  "cfg": {"enabled": True, "fetch_on_startup": True}, "kill": {"watch": k}})
        kobs = execute(c, runner, kills, jobs)
        if model_ok:
            judge_all(c, runner, kills, kobs, seen, stats)
        # a killed run must actually have been killed where intended (otherwise the crash point was not exercised)
        landed = sum(1 for s, o in zip(kills, kobs) if o["rc"] in (-9, 137) or (o.get("watch") or {}).get("killed"))
        crash_states = {}
        for s, o in zip(kills, kobs):
            kk = (o.get("killed_in") or ("mid-transfer" if (o.get("watch") or {}).get("killed") else
                                         "at-a-call-outside-the-cache-dir" if o["rc"] in (-9, 137) else "not-reached"))
            crash_states.setdefault(kk.split(":")[0], {}).setdefault(o["after"], 0)
            crash_states[kk.split(":")[0]][o["after"]] += 1
        # 4. an orphan temp file from a killed run does not disturb a later refresh
        orphan_ok = 0
        for s, o in zip(kills, kobs):
            if not (o.get("watch") or {}).get("killed") or not o["orphans"]:
                continue
            follow = {"prior": s["prior"], "server": {"kind": "full", "status": 200, "pieces": [], "name": "200-complete-after-orphan", "_body": ct.new2},
                      "entry": "fetch", "cfg": s["cfg"], "kill": None}
            res = refresh_in_place(runner, o["root"], follow)
            stats["runs"] += 1
            if res["after_is_new2"] and res["rc"] == 0:
                # ... and neither does it leak into a later, shorter download
                short = dict(follow, server=dict(follow["server"], name="200-short-after-orphan", _body=b"[]\n"))
                res = refresh_in_place(runner, o["root"], short)
                stats["runs"] += 1
            if res["after_is_new2"] and res["rc"] == 0:
                orphan_ok += 1
            else:
                c.violation("orphan-blocks-refresh:" + o["key"], "after a killed refresh left %s behind, a later --fetch-currency did not install the new body (rc=%s)" % (list(o["orphans"]), res["rc"]),
                            {"kind": "history", "scenario": public_scn(s), "followup": res}, found=True)
    finally:
        runner.close()
    # failing inputs (implementation against the property oracle) first, model disagreements after
    c.violations.sort(key=lambda v: 0 if v["found"] else 1)
    for d in os.listdir(c.work):          # scratch directories of unremarkable runs are not kept
        if re.match(r"^s\d+$", d) and not c.violations:
            shutil.rmtree(os.path.join(c.work, d), ignore_errors=True)
    c.coverage.update({
        "evaluations": stats["runs"],
        "distinct_nontrivial": len(stats["nontrivial"]),
        "rule": "one case = prior cache state {absent, fresh, stale, stale+unreadable JSON, fresh+unreadable JSON, mtime in the future} x server behaviour "
                "{200 complete in 1/3/8 pieces, 200 with Content-Length cut after k bytes (k in %s plus offsets drawn from VERIF_SEED), 301/404/500%s with a body, stall before headers / after k bytes past the client's timeout, "
                "refused, chunked body without terminator, RST} x entry point {expression arguments, -f -, --fetch-currency} [x kill point: SIGKILL at the entry of the k-th write(2), "
                "mkdir, fsync, rename, unlink (strace inject) or in the middle of a stalled transfer], each followed by a next start with the server unreachable; "
                "distinct = distinct (prior, server, entry, config, kill point); non-trivial = the run contacted the server, touched the cache directory beyond opening the cache file, or was killed"
                % ("every 256 bytes plus the piece boundaries +-1, 0, 1, 2, n-2, n-1" if c.thorough else "{0,1,1448,n-1}", "/302/403/429/503" if c.thorough else ""),
        "samples": stats["samples"],
        "traces_validated_against_impl": stats["traces"],
        "matrix_scenarios": nmatrix, "kill_scenarios": len(kills), "kills_landed": landed,
        "cache_state_by_crash_point": crash_states,
        "orphan_followups_ok": orphan_ok,
        "oracle_violations_total": stats["oracle_violations"], "model_disagreements_total": stats["disagreements"],
        "explored_outside_statement": stats["explored"],
        "strace": use_strace, "parallel_jobs": jobs,
        "exhaustive": False,
    })


def refresh_in_place(runner, root, scn):
    """A further --fetch-currency in an existing scratch directory (orphans included)."""
    srv = runner.server()
    body = scn["server"]["_body"]
    srv.set_plan({"kind": "full", "status": 200, "body": body, "pieces": []})
    runner.write_config(root, scn["cfg"], "http://127.0.0.1:%d/data/currency.json" % srv.port, "20s")
    try:
        pr = subprocess.run([RINK, "--fetch-currency"], stdout=subprocess.PIPE, stderr=subprocess.STDOUT, env=runner.env(root),
                            cwd=os.path.join(root, "cwd"), timeout=PROC_TIMEOUT)
        rc, out = pr.returncode, pr.stdout.decode("utf-8", "replace")
    except subprocess.TimeoutExpired:
        rc, out = "timeout", ""
    snap = runner.snapshot_dir(root) or {}
    return {"rc": rc, "after_is_new2": snap.get("currency.json") == body, "dir": {k: len(v or b"") for k, v in snap.items()}, "out": out[-300:]}


# ------------------------------------------------------------------------------ replay
def replay(path):
    r = json.load(open(path))
    scn = r.get("scenario")
    if not scn:
        print("replay file carries no scenario (obligation-type replay): %s" % r.get("what"))
        print(json.dumps({k: r[k] for k in r if k in ("obligation", "errors", "theorem")}, indent=1))
        rc, out = vlib.sh(["lake", "build", "Rink.Props.C20"], cwd=vlib.LEAN)
        print(out[-2000:])
        if rc != 0:
            print("VIOLATION property=C20 replay=%s" % path)
        return 1 if rc != 0 else 0
    env = dict(vlib.ENV, CARGO_TARGET_DIR=CLI_TARGET)
    vlib.sh(["cargo", "build", "--offline", "-p", "rink"], cwd=REPO, env=env, timeout=3600)
    vlib.sh(["lake", "build", "rinkmodel"], cwd=vlib.LEAN)
    work = os.path.join(vlib.CACHE, "replay", "C20")
    shutil.rmtree(work, ignore_errors=True)
    os.makedirs(work, exist_ok=True)
    ct = Contents()
    runner = Runner(work, ct, have_strace(work))
    try:
        obs = runner.run(scn)
    finally:
        runner.close()
    models, err = run_model([model_line(scn, runner)])
    md = models[0] if models and "final" in models[0] else None
    print("scenario      : %s" % obs["key"])
    print("server plan   : %s" % json.dumps(scn["server"]))
    print("implementation: rc=%s ops=%s killed_in=%s cache_after=%s dir=%s money=%s plain_ok=%s" % (
        obs["rc"], obs["ops"], obs.get("killed_in"), obs["after"], obs["dir"], obs["money"], obs["plain_ok"]))
    print("next start    : rc=%s plain_ok=%s money=%s cache_unchanged=%s" % (obs["next"]["rc"], obs["next"]["plain_ok"], obs["next"]["money"], obs["next"]["cache_unchanged"]))
    print("model         : %s" % (md["raw"] if md else "unavailable: " + err))
    verdicts = oracle(scn, obs, runner)
    dis = compare_model(scn, obs, md) if md else []
    for _, t in verdicts:
        print("ORACLE: " + t)
    for d in dis:
        print("DISAGREEMENT: " + d)
    if verdicts or dis:
        print("VIOLATION property=C20 replay=%s" % path)
        return 1
    return 0
