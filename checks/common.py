"""Helpers shared by the eval-stream checks: parsing of canonical answer lines."""
from fractions import Fraction

def frac(s):
    if s is None or s == "float":
        return None
    n, d = s.split("/")
    return Fraction(int(n), int(d))

def parse_number(line):
    """'number n/d dims' / 'duration n/d dims parts' -> (kind, value or None(float), dims)"""
    p = line.split(" ")
    if p[0] in ("number", "duration", "convnone") and len(p) >= 3:
        return p[0], frac(p[1]), p[2]
    return None

def parse_entries(s):
    out = []
    for e in s.split(";"):
        if "=" not in e:
            return None
        n, v = e.split("=", 1)
        out.append((n, frac(v)))
    return out

def has_zero_exponent(dims):
    if dims in ("-", "?", None):
        return False
    return any(part.endswith(":0") for part in dims.split(","))
