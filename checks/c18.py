"""C18 — sandbox: one reply per request, recovery after any failure."""
import itertools, json, os, random, subprocess
from concurrent.futures import ThreadPoolExecutor
from tools import vlib

THEOREMS = ["Rink.Sandbox.serve_good", "Rink.Sandbox.sandbox_refines", "Rink.Sandbox.no_stale_reply",
            "Rink.Sandbox.one_reply_per_request", "Rink.Sandbox.unfixed_next_request_crashes",
            "Rink.Sandbox.unfixed_sandbox_wedges"]
SVC = os.path.join(vlib.HARNESS, "target", "release", "sbx_service")
KINDS = ["add", "panic", "sleep", "oom", "exit", "big", "huge"]
# a reply of 17 MiB (no framing limit may stand between a request and its reply)
# the child dies in the middle of a reply (its output stops after 1 MiB of a 6 MiB frame): that request fails, the next ones are served
DIE_SEQS = [["add", "diemid", "add", "add"], ["diemid", "add"], ["diemid", "diemid", "add"]]
WIDE_SEQS = [["add", "wide", "add", "add"], ["wide", "wide", "add"], ["big", "wide", "panic", "add"]]
# a reply that is still being received when the time limit ends: the child's output is slowed down for these
# sequences only (a slowed child that panics or exits loses its last words, which would not be Rink's doing)
BLOB_SEQS = [["add", "blob", "add", "add"], ["blob", "add"], ["blob", "blob", "add"], ["add", "big", "blob", "add", "sleep", "add"], ["blob", "sleep", "add"]]
TIMEOUT_MS = 400
LIMIT = 64 << 20

def concretise(kinds):
    return ["%s:%d" % (k, i + 1) if k in ("add", "sleep", "big", "huge", "blob", "wide", "diemid") else k for i, k in enumerate(kinds)]

def own(op):
    k = op.split(":")[0]
    return {"add": "ok:" + op.split(":")[-1], "big": "ok:" + op.split(":")[-1], "sleep": "timeout", "panic": "panic", "oom": "crashed", "exit": "crashed", "huge": "crashed", "blob": "timeout", "wide": "ok:" + op.split(":")[-1], "diemid": "crashed"}[k]

def run_seq(args):
    ops, gap = args
    try:
        p = subprocess.run([SVC, "run", str(TIMEOUT_MS), str(LIMIT), str(gap)] + ops, stdout=subprocess.PIPE, stderr=subprocess.DEVNULL,
                           timeout=60 + len(ops) * 8, env=dict(os.environ, RUST_BACKTRACE="0", **({"SBX_SLOW_STDOUT": "16384"} if any(o.startswith("blob") for o in ops) else {}),
                                    **({"SBX_SLOW_STDOUT": "65536", "SBX_DIE_AFTER": "1048576"} if any(o.startswith("diemid") for o in ops) else {})))
        out = p.stdout.decode().strip().split("\n")
    except subprocess.TimeoutExpired:
        out = ["hang"]
    reps = []
    for l in out:
        f = l.split(" ")
        reps.append("ok:" + f[1] if f[0] == "ok" and len(f) > 1 else ("dead" if f[0] == "other" else f[0]))
    return ops, gap, reps, out

def run(c):
    c.assumptions += [
        "real time, async-std scheduling, ctrl-c delivery and pipe capacity are runtime behaviour outside the model",
        "time limit %d ms; an overrun request sleeps 4x the limit; memory limit %d bytes; one parent process per sequence" % (TIMEOUT_MS, LIMIT),
    ]
    if not c.build_harness():
        return
    if not c.build_lean(["Rink.Props.C18", "rinkmodel"]):
        return
    c.audit("Rink.Props.C18", THEOREMS)
    if c.thorough:
        c.leanchecker(["Rink.Model.Sandbox", "Rink.Props.C18"])
    rnd = random.Random(c.seed)
    maxlen = 4 if c.thorough else 3
    seqs = [["add", "panic", "add", "add"], ["panic", "panic", "add"], ["sleep", "add", "sleep", "add"], ["oom", "add"], ["exit", "exit", "add"]]
    for n in range(1, maxlen + 1):
        seqs += [list(t) for t in itertools.product(KINDS, repeat=n)]
    extra = 600 if c.thorough else 40
    for _ in range(extra):
        seqs.append([rnd.choice(KINDS) for _ in range(5)])
    # gaps between requests: none, short, and longer than the time limit (an idle parent must not count the
    # pause against the next request)
    jobs = [(concretise(s), rnd.choice([0, 0, 5, 30, 0, 5, 30, TIMEOUT_MS * 5 // 4, TIMEOUT_MS * 2])) for s in seqs]
    jobs += [(concretise(s), g) for s in (["add", "add", "add"], ["add", "sleep", "add", "add"], ["add", "panic", "add"]) for g in (TIMEOUT_MS * 3 // 4, TIMEOUT_MS * 5 // 4, TIMEOUT_MS * 2)]
    jobs += [(concretise(s), g) for s in BLOB_SEQS for g in (0, 30)]
    jobs += [(concretise(s), g) for s in WIDE_SEQS for g in (0, 30)]
    jobs += [(concretise(s), g) for s in DIE_SEQS for g in (0, 30)]
    with ThreadPoolExecutor(max_workers=16) as ex:
        results = list(ex.map(run_seq, jobs))
    # a reply that differs from the request's own outcome is re-checked with the machine to itself: the
    # sequence runs alone, twice more; a scheduling hiccup under load (a normal request overrunning the
    # time limit) does not repeat, a fault of the sandbox does
    want_of = lambda ops: [own(o) for o in ops]
    retried = 0
    for i, (ops, gap, reps, raw) in enumerate(results):
        if reps != want_of(ops):
            retried += 1
            for _ in range(2):
                again = run_seq((ops, gap))
                if again[2] == want_of(ops):
                    results[i] = again
                    break
    c.coverage["sequences_rerun_alone"] = retried
    # model
    req_path = os.path.join(c.work, "req.txt")
    # (for the model a reply that arrives too late is an overrun like any other: `blob` is `sleep`)
    open(req_path, "w").write("\n".join(" ".join(("exit" if o.startswith("diemid") else o.replace("blob:", "sleep:").replace("wide:", "big:")) for o in ops) for ops, _, _, _ in results) + "\n")
    if not c.run_model("sandbox"):
        return
    model = open(os.path.join(c.work, "model.txt")).read().split("\n")
    open(os.path.join(c.work, "impl.txt"), "w").write("\n".join(" ".join(r) for _, _, r, _ in results) + "\n")
    nreq = 0
    for i, (ops, gap, reps, raw) in enumerate(results):
        nreq += len(ops)
        want = [own(o) for o in ops]
        key = " ".join(ops)
        if reps != want:
            # first request whose reply is not its own outcome
            k = next((j for j in range(len(ops)) if j >= len(reps) or reps[j] != want[j]), 0)
            c.violation(key, "requests %s (gap %d ms): reply %d is %r, the request's own outcome is %r (replies: %s)" % (
                key, gap, k + 1, reps[k] if k < len(reps) else "missing", want[k], " ".join(reps)),
                {"kind": "history", "ops": ops, "gap_ms": gap, "impl": reps, "spec": want, "raw": raw}, found=True)
        elif i < len(model) and model[i] != " ".join(reps):
            c.violation(key, "model/implementation disagreement on %s: impl=%r model=%r" % (key, " ".join(reps), model[i]),
                        {"kind": "history", "ops": ops, "impl": reps, "model": model[i], "correspondence": "sbx_service | rinkmodel sandbox"}, found=False)
    c.coverage.update({
        "evaluations": len(results), "distinct_nontrivial": len(set(" ".join(o) for o, _, _, _ in results)),
        "traces_validated_against_impl": len(results), "requests": nreq,
        "rule": "every sequence of length <= %d over {normal, panic, overrun of the time limit, allocation beyond the memory limit, child exit, 1 MiB payload, a request larger than the memory limit}, plus sequences in which a 6 MiB reply is still being received when the time limit ends (child output slowed to 16 MB/s) (exhaustive: each fault in every position), %d random sequences of length 5, gaps of 0/5/30 ms and of 0.75x / 1.25x / 2x the time limit between requests, each on a fresh parent process driving the real Sandbox; replies compared with the request's own outcome and with the Lean model" % (maxlen, extra),
        "samples": [" ".join(o) for o, _, _, _ in results[5:11]], "exhaustive": True,
    })

def replay(path):
    r = json.load(open(path))
    vlib.sh(["cargo", "build", "--release", "--offline"], cwd=vlib.HARNESS)
    ops, gap, reps, raw = run_seq((r["ops"], r.get("gap_ms", 0)))
    want = [own(o) for o in ops]
    print("requests:", " ".join(ops)); print("replies: ", " ".join(reps)); print("own:     ", " ".join(want))
    if reps != want:
        print("VIOLATION property=C18 replay=%s" % path)
        return 1
    return 0
