"""C16 — substance properties scale linearly and invert; formulas."""
import json, os
from tools import vlib

THEOREMS = ["Rink.Spec.getLoop_skip", "Rink.Spec.get_linear", "Rink.Spec.get_inverse", "Rink.Spec.roundtrip_value",
            "Rink.Spec.get_wrong_dim", "Rink.Spec.get_scales", "Rink.Spec.div_scales_amount", "Rink.Spec.formula_sum", "Rink.Spec.formula_rejects_unknown",
            "Rink.Spec.formula_rejects_error", "Rink.Spec.empty_is_not_a_formula", "Rink.Dim.canonical_ext", "Rink.Dim.div_eq_nil_iff"]

def run(c):
    c.assumptions += [
        "Substance::get, the Mul/Div operators and substance_from_formula are driven at API level; the `of` glue of eval_expr is covered by evaluating `<name> of <amount> <substance>` queries against the same expectation (oracle only)",
        "the rendering of whole-substance replies (to_reply / get_in_unit) is not modelled",
    ]
    if not c.build_harness():
        return
    if not c.build_lean(["Rink.Props.C16", "rinkmodel"]):
        return
    c.audit("Rink.Props.C16", THEOREMS)
    if c.thorough:
        c.leanchecker(["Rink.Model.Substance", "Rink.Props.C16"])
    if not c.run_harness("dump") or not c.run_harness("c16"):
        return
    st = json.load(open(os.path.join(c.work, "stats.json")))
    seen = {}
    for line in open(os.path.join(c.work, "oracle.jsonl")):
        v = json.loads(line)
        seen.setdefault(v["law"], []).append(v)
    for law, vs in seen.items():
        for v in vs[:4]:
            key = "%s:%s" % (law, v.get("query") or v.get("formula") or ("%s.%s(%s)" % (v.get("substance"), v.get("property"), v.get("amount"))))
            c.violation(key, "C16 %s law fails: %s" % (law, {k: x for k, x in v.items() if k != "law"}),
                        {"kind": "input", "input": key, "detail": v}, found=True)
    if c.run_model("subst", extra=[os.path.join(c.work, "registry.dump")]):
        for d in c.diff_streams():
            c.violation("disagree:" + d["request"], "model/implementation disagreement on %r: impl=%r model=%r" % (d["request"][:200], d["impl"][:150], d["model"][:150]),
                        {"kind": "input", "input": d["request"], "impl": d["impl"], "model": d["model"], "correspondence": "rkh c16 | rinkmodel subst"}, found=False)
    c.coverage.update({
        "evaluations": st["total"], "distinct_nontrivial": st["total"],
        "rule": "every substance (%d) and every property of the database x rational amounts (1, integers, fractions, negative, tiny, huge, zero) in the input dimensionality, the output dimensionality, dimensionless and a foreign dimensionality x {output name, input name, property key, unknown name}; %d formulas over the %d element symbols with counts up to 2^32-1 and near-miss strings; Substance::get / formula results are compared with the Lean model; oracle: linear law, inverse law, conformance error for foreign dimensionalities (names that identify the property unambiguously), formula never panics, the same linear law through `<name> of <amount> <substance>` queries; the four reply paths of a property agree (`p of k s`, `k s`, `k s -> unit`, `p of k s -> unit`); `p of (k s / j)`, `p of (s k / j)`, `p of (s / j * k)` equal `p of ((k)/(j)) s`" % (st["substances"], st["formulas"], st["symbols"]),
        "samples": st["samples"], "exhaustive": True, "input_distribution": st,
    })

def replay(path):
    r = json.load(open(path))
    print(json.dumps(r.get("detail"), indent=1))
    # re-run the whole (fast) stream and look for the same key
    c = vlib.Check("C16", "quick", 1)
    run(c)
    bad = any(v["key"] == r.get("key") for v in c.violations)
    if bad:
        print("VIOLATION property=C16 replay=%s" % path)
    return 1 if bad else 0
