"""C07 — unit names resolve exact first, then prefix, then plural; canonicalisation keeps the value."""
import json, os
from tools import vlib

THEOREMS = ["Rink.Spec.exact_wins", "Rink.Spec.prefixLoop_eq", "Rink.Spec.prefix_reading", "Rink.Spec.plural_not_considered", "Rink.Spec.plural_last", "Rink.Spec.ctx_lookup_database", "Rink.Spec.lookup_deterministic"]

def run(c):
    c.assumptions += ["BTreeMap/BTreeSet/Vec iteration order is deterministic (lookup is a function of the registry value)"]
    if not c.build_harness():
        return
    if not c.build_lean(["Rink.Props.C07", "rinkmodel"]):
        return
    c.audit("Rink.Props.C07", THEOREMS)
    if c.thorough:
        c.leanchecker(["Rink.Props.C07"])
    if not c.run_harness("dump") or not c.run_harness("c07"):
        return
    st = json.load(open(os.path.join(c.work, "stats.json")))
    # 1. implementation vs the ordering laws / value preservation (model-independent oracle)
    seen = {}
    for line in open(os.path.join(c.work, "oracle.jsonl")):
        v = json.loads(line)
        seen.setdefault(v["law"], []).append(v)
    for law, vs in seen.items():
        for v in vs[:3]:
            c.violation("%s:%s" % (law, v["name"]),
                        "name %r: %s (%s)" % (v["name"], law, {k: x for k, x in v.items() if k not in ("law", "name")}),
                        {"kind": "input", "input": v["name"], "law": law, "detail": v}, found=True)
        c.coverage["oracle_" + law] = len(vs)
    # 2. implementation vs model
    if c.run_model("eval", extra=[os.path.join(c.work, "registry.dump")]):
        for d in c.diff_streams():
            name = vlib.unhex(d["request"].split(" ")[1]) if " " in d["request"] else d["request"]
            c.violation("disagree:" + name, "model/implementation disagreement on name %r: impl=%r model=%r" % (name, d["impl"][:150], d["model"][:150]),
                        {"kind": "input", "input": name, "impl": d["impl"], "model": d["model"], "correspondence": "rkh c07 | rinkmodel eval"}, found=False)
    c.coverage.update({
        "evaluations": st["names"], "distinct_nontrivial": st["resolved"],
        "rule": "every prefix+unit[+s] string over all %d prefixes x %d unit and base-unit names of the bundled database (%s), plus non-names; lookup value, canonical name and the value of the canonical name are compared with the Lean model; the resolution-order laws are recomputed without rink's lookup code" % (
            st["prefixes"], st["bases"], "exhaustive" if st["exhaustive"] else "1/10 sample of the prefixed forms in quick, exhaustive in thorough"),
        "samples": st["samples"], "exhaustive": st["exhaustive"], "input_distribution": st,
    })

def replay(path):
    r = json.load(open(path))
    name = r.get("input", "")
    work = os.path.join(vlib.CACHE, "replay", "C07")
    os.makedirs(work, exist_ok=True)
    vlib.sh(["cargo", "build", "--release", "--offline"], cwd=vlib.HARNESS)
    rc, out = vlib.sh([vlib.RKH, "c07-one", "--input", name])
    print(out)
    bad = "VIOLATES" in out
    if bad:
        print("VIOLATION property=C07 replay=%s" % path)
    return 1 if bad else 0
