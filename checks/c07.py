"""C07 — unit names resolve exact first, then prefix, then plural; canonicalisation keeps the value."""
import json, os
from tools import vlib

THEOREMS = ["Rink.Spec.exact_wins", "Rink.Spec.prefixLoop_eq", "Rink.Spec.prefix_reading", "Rink.Spec.plural_not_considered", "Rink.Spec.plural_last", "Rink.Spec.ctx_lookup_database", "Rink.Spec.lookup_deterministic"]

def run(c):
    c.assumptions += ["BTreeMap/BTreeSet/Vec iteration order is deterministic (lookup is a function of the registry value)"]
    if not c.build_harness():
        return
    if not c.build_lean(["Rink.Props.C07", "rinkmodel"]):
        return
    c.audit("Rink.Props.C07", THEOREMS)
    if c.thorough:
        c.leanchecker(["Rink.Props.C07"])
    if not c.run_harness("dump") or not c.run_harness("c07"):
        return
    st = json.load(open(os.path.join(c.work, "stats.json")))
    # 1. implementation vs the ordering laws / value preservation (model-independent oracle)
    seen = {}
    for line in open(os.path.join(c.work, "oracle.jsonl")):
        v = json.loads(line)
        seen.setdefault(v["law"], []).append(v)
    for law, vs in seen.items():
        for v in vs[:3]:
            c.violation("%s:%s" % (law, v["name"]),
                        "name %r: %s (%s)" % (v["name"], law, {k: x for k, x in v.items() if k not in ("law", "name")}),
                        {"kind": "input", "input": v["name"], "law": law, "detail": v}, found=True)
        c.coverage["oracle_" + law] = len(vs)
    # 2. implementation vs model
    if c.run_model("eval", extra=[os.path.join(c.work, "registry.dump")]):
        for d in c.diff_streams():
            name = vlib.unhex(d["request"].split(" ")[1]) if " " in d["request"] else d["request"]
            c.violation("disagree:" + name, "model/implementation disagreement on name %r: impl=%r model=%r" % (name, d["impl"][:150], d["model"][:150]),
                        {"kind": "input", "input": name, "impl": d["impl"], "model": d["model"], "correspondence": "rkh c07 | rinkmodel eval"}, found=False)
    # 3. names while a substance block is being loaded: the block's own names come first (temporaries)
    from checks import loadcommon as lc
    scens = lc.run_scenarios(c, "c07")
    lstats = {}
    for s in scens or []:
        lc.check_crash(c, "C07", s)
        lc.check_correspondence(c, s, lstats)
        if s.id in ("shadow-unit", "shadow-plural") and s.impl_errors():
            c.violation("shadow-errors:" + s.id, "C07: %s reports %s" % (s.desc, s.impl_errors()[:3]), lc.replay_body(s), found=True)
    # the expected values of the shadowing scenarios, stated independently of the model (inside a block the
    # property key names input/output, the output name names the output when the input is 1)
    want = {"shadow-unit": {("thing", "double"): "20/1", ("thing", "dens"): "3/1"}, "shadow-plural": {("planet", "spin"): "2/1", ("planet", "ratio"): "1/10"},
            "shadow-bundled": {("c07planet", "density"): "3/1", ("c07planet", "spin"): "1/10"}}
    for s in scens or []:
        for l in s.impl:
            p = l.split(" ")
            if p[0] == "prop":
                key = (lc.unhex(p[1]), lc.unhex(p[2]))
                w = want.get(s.id, {}).get(key)
                if w is not None and p[6] != w:
                    c.violation("shadow:%s:%s" % (s.id, key[1]), "C07: property %s of %s evaluates to %s, expected %s: a name of the substance block did not shadow the database" % (key[1], key[0], p[6], w),
                                lc.replay_body(s, {"property": key[1], "expected": w, "got": p[6]}), found=True)
    c.coverage["loader_scenarios"] = lstats
    c.coverage.update({
        "evaluations": st["names"], "distinct_nontrivial": st["resolved"],
        "rule": "every prefix+unit[+s] string over all %d prefixes x %d unit and base-unit names of the bundled database (%s), plus non-names; lookup value, canonical name and the value of the canonical name are compared with the Lean model; the resolution-order laws are recomputed without rink's lookup code" % (
            st["prefixes"], st["bases"], "exhaustive" if st["exhaustive"] else "1/10 sample of the prefixed forms in quick, exhaustive in thorough"),
        "samples": st["samples"], "exhaustive": st["exhaustive"], "input_distribution": st,
    })

def replay(path):
    r = json.load(open(path))
    name = r.get("input", "")
    work = os.path.join(vlib.CACHE, "replay", "C07")
    os.makedirs(work, exist_ok=True)
    vlib.sh(["cargo", "build", "--release", "--offline"], cwd=vlib.HARNESS)
    rc, out = vlib.sh([vlib.RKH, "c07-one", "--input", name])
    print(out)
    bad = "VIOLATES" in out
    if bad:
        print("VIOLATION property=C07 replay=%s" % path)
    return 1 if bad else 0
