"""C05 — printed numerals denote the computed value."""
import json, os, re
from fractions import Fraction
from tools import vlib

THEOREMS = ["Rink.Spec.step_core", "Rink.Spec.long_division_invariant", "Rink.Spec.exact_denotes", "Rink.Spec.approx_truncates",
            "Rink.Spec.seen_remainder_periodic", "Rink.Spec.recurring_block_denotes", "Rink.Spec.isRecurring_sound",
            "Rink.Spec.model_step_is_core"]

DIG = "0123456789abcdefghijklmnopqrstuvwxyz"

def digits_value(s, base):
    v = 0
    for ch in s:
        d = DIG.index(ch)
        if d >= base:
            raise ValueError("digit %r not valid in base %d" % (ch, base))
        v = v * base + d
    return v

def read_numeral(text, base, sci):
    """Independent reader of a printed numeral.  Returns (value, ulp, block_len, stated_period)."""
    t = text
    neg = t.startswith("-")
    if neg:
        t = t[1:]
    exp = 0
    if sci:
        m = re.match(r"^(.*)e(-?[0-9]+)$", t)
        if not m:
            raise ValueError("no exponent in scientific numeral")
        t, exp = m.group(1), int(m.group(2))
    stated = None
    block = None
    m = re.match(r"^([0-9a-z]*)(?:\.([0-9a-z]*))?(?:\[([0-9a-z]*)(?:, period ([0-9]+))?\]\.\.\.)?$", t)
    if not m:
        raise ValueError("unreadable numeral %r" % text)
    ip, fp, block, stated = m.group(1), m.group(2) or "", m.group(3), m.group(4)
    if ip == "" and fp == "" and block is None:
        raise ValueError("empty numeral")
    val = Fraction(digits_value(ip, base) if ip else 0)
    val += Fraction(digits_value(fp, base), base ** len(fp)) if fp else 0
    if block is not None:
        if len(block) == 0:
            raise ValueError("empty recurring block")
        val += Fraction(digits_value(block, base), (base ** len(block) - 1) * base ** len(fp))
    scale = Fraction(base) ** exp
    val *= scale
    ulp = scale / base ** len(fp)
    return (-val if neg else val), ulp, (len(block) if block is not None else None), (int(stated) if stated else None)

def uses_sci(q, base, mode):
    if q == 0 or mode == "fraction":
        return False
    computer_int = base in (2, 8, 16, 32) and q.denominator == 1
    can = mode in ("default", "eng") and not computer_int
    inrange = abs(q) >= 10 ** 9 or abs(q) <= Fraction(1, 10 ** 9)
    return mode == "sci" or (can and inrange)

def judge(req, impl):
    f = req.split(" ")
    q = Fraction(int(f[1]), int(f[2])); base = int(f[3]); mode = f[4]
    if impl == "panic":
        return "implementation panicked"
    main, exact_s, approx_s, npat = [x.strip() for x in impl.split(" | ")]
    flag, text = main.split(" ", 1)
    exact = flag == "1"
    if mode == "fraction" and q != 0:
        if not exact:
            return "fraction mode must be exact"
        n, _, d = text.partition("/")
        if Fraction(int(n), int(d or "1")) != q:
            return "fraction %s does not denote %s" % (text, q)
        return None
    try:
        val, ulp, blen, stated = read_numeral(text, base, uses_sci(q, base, mode))
    except ValueError as e:
        return "cannot read the printed numeral %r: %s" % (text, e)
    if stated is not None and stated != blen:
        return "stated period %d differs from the bracketed block's length %d" % (stated, blen)
    if exact:
        if val != q:
            return "numeral %r is marked exact but denotes %s, the value is %s" % (text, val, q)
    else:
        if blen is not None:
            return "approximate numeral with a recurring block"
        if not (abs(val) <= abs(q) < abs(val) + ulp) or (val != 0 and (val > 0) != (q > 0)):
            return "approximate numeral %r = %s is not the truncation of %s toward zero within one unit of its last digit (%s)" % (text, val, q, ulp)
    # approx. marker exactly when the numeral is not exact
    has_marker = "approx." in npat
    if has_marker == exact:
        return "`approx.` marker %s although the numeral is %s" % ("shown" if has_marker else "missing", "exact" if exact else "not exact")
    if exact_s != "-" and not exact:
        n, _, d = exact_s.partition("/")
        try:
            if Fraction(int(n), int(d or "1")) != q:
                return "exact fraction %s does not denote %s" % (exact_s, q)
        except ValueError:
            return "unreadable exact form %r" % exact_s
    return None

def run(c):
    c.assumptions += [
        "size_in_base (f64 estimate of the digit count) is recomputed by the driver with the same floating-point expression; the theorems only need it not to underestimate",
        "text assembly (sign, radix point, leading-zero suppression, brackets, `, period N`, exponent) is tied by exact text comparison and by the independent reader in this file, not by a theorem",
        "in bases >= 15 the exponent marker `e` is also a digit: the reader is told whether the scientific form applies (the rule is restated in uses_sci)",
    ]
    if not c.build_harness():
        return
    if not c.build_lean(["Rink.Props.C05", "rinkmodel"]):
        return
    c.audit("Rink.Props.C05", THEOREMS)
    if c.thorough:
        c.leanchecker(["Rink.Model.Digits", "Rink.Props.C05"])
    if not c.run_harness("c05"):
        return
    st = json.load(open(os.path.join(c.work, "stats.json")))
    R = open(os.path.join(c.work, "req.txt")).read().split("\n")
    I = open(os.path.join(c.work, "impl.txt")).read().split("\n")
    flagged = set()
    for i, (r, a) in enumerate(zip(R, I)):
        if not r:
            continue
        bad = judge(r, a)
        if bad:
            flagged.add(i)
            c.violation(r, "%s: %s" % (r, bad), {"kind": "input", "input": r, "impl": a, "oracle": bad}, found=True)
    if c.run_model("digits"):
        M = open(os.path.join(c.work, "model.txt")).read().split("\n")
        nd = 0
        for i, (r, a) in enumerate(zip(R, I)):
            if r and i < len(M) and M[i] != a:
                nd += 1
                if i not in flagged and nd <= 5:
                    c.violation(r, "model/implementation disagreement on %s: impl=%r model=%r" % (r, a[:150], M[i][:150]),
                                {"kind": "input", "input": r, "impl": a, "model": M[i], "correspondence": "rkh c05 | rinkmodel digits"}, found=False)
        c.coverage["traces_validated_against_impl"] = len([r for r in R if r])
        c.coverage["disagreeing_lines"] = nd
    c.coverage.update({
        "evaluations": st["total"], "distinct_nontrivial": len(set(R)) - 1,
        "rule": "rationals from the boundary families (b^k+-1)/(b^j+-1), denominators with short/long/huge recurring periods (3 ... 3937, 99991, 2^61-1) times powers of 2/5/10/16, magnitudes across the 1e-9/1e9 switches, random operands up to 4096 bits, a small exhaustive grid p/q; x bases 2..36 x {default, digits N (0..1000), full digits, fraction, scientific, engineering}; the exact text of Numeric::to_string / string_repr / the n pattern is compared with the Lean model, and the text is re-read independently and compared with the rational (exact: equal; approximate: truncation toward zero within one unit of the last digit; stated period = block length; approx. marker iff not exact)",
        "samples": st["samples"], "input_distribution": st,
    })

def replay(path):
    r = json.load(open(path))
    line = r["input"]
    work = os.path.join(vlib.CACHE, "replay", "C05"); os.makedirs(work, exist_ok=True)
    vlib.sh(["cargo", "build", "--release", "--offline"], cwd=vlib.HARNESS)
    rc, out = vlib.sh([vlib.RKH, "c05-one", "--input", line])
    print(line); print("implementation:", out.strip())
    bad = judge(line, out.strip())
    print("oracle:", bad or "ok")
    if bad:
        print("VIOLATION property=C05 replay=%s" % path)
    return 1 if bad else 0
