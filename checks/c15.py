"""C15 — queries are pure; only `ans` carries state."""
import json, os
from tools import vlib

THEOREMS = ["Rink.Spec.step_ctx", "Rink.Spec.run_untouched", "Rink.Spec.replies_are_fresh", "Rink.Spec.flag_off_never_sets", "Rink.Spec.ans_unchanged_unless_number", "Rink.Spec.ans_set_by_number", "Rink.Spec.lookup_ans"]

def run(c):
    c.assumptions += [
        "the clock is pinned (Context::set_time) so replies are reproducible; `now` is outside the model",
        "`ans` is stored for QueryReply::Number only (the mechanism named by the property); a time value shown as a duration breakdown does not update it",
    ]
    if not c.build_harness():
        return
    if not c.build_lean(["Rink.Props.C15", "rinkmodel"]):
        return
    c.audit("Rink.Props.C15", THEOREMS)
    if c.thorough:
        c.leanchecker(["Rink.Props.C15"])
    digests = set()
    import time, re
    t0 = time.time()
    clock = {"last": None}
    def judge(text, impl, aux):
        # every query reads the clock anew: the exact seconds since 2000 never stand still from one query to the next
        if aux and aux.get("k") == "reset":
            clock["last"] = None
        if aux and aux.get("k") == "q" and text.strip() == "(now - #2000-01-01 00:00:00 +00:00#)/s" and impl.startswith("number "):
            from fractions import Fraction
            try:
                v = Fraction(impl.split(" ")[1])
            except (ValueError, ZeroDivisionError):
                v = None
            if v is not None:
                if clock["last"] is not None and v <= clock["last"]:
                    return "the clock did not advance between two queries of one session: `now` is %s s after 2000 both times" % float(v)
                clock["last"] = v
        if aux and aux.get("k") == "digest":
            digests.add(impl)
            if len(digests) > 1:
                return "the digest of the whole Context (database, settings, anything else it holds; `ans` and the clock taken out) changed during a session: %s" % sorted(digests)
        # the clock is set from the system clock at every query, wherever `now` stands in the expression
        if aux and "now - #2000-01-01 00:00:00 +00:00#" in text and aux.get("_side", "").startswith("text="):
            shown = bytes.fromhex(aux["_side"][5:]).decode("utf-8", "replace")
            m = re.search(r"(-?[0-9]+(?:\.[0-9]+)?)(?:e([0-9]+))?", shown)
            if m:
                v = float(m.group(1)) * (10 ** int(m.group(2)) if m.group(2) else 1)
                want = time.time() - 946684800
                if abs(v - want) > 3600 + (time.time() - t0):
                    return "seconds since 2000-01-01 by the query's `now`: %s, by the system clock: %.0f (the reply is %r)" % (m.group(0), want, shown[:80])
        return None
    st = vlib.eval_stream(c, "gen-c15", independent=False, judge=judge, group_start="reset")
    if st is None:
        return
    # fresh-context oracle: every reply must equal the reply of a fresh context whose
    # previous_result is the most recent successful numeric reply (flag on) of the history
    rd = lambda n: open(os.path.join(c.work, n), encoding="utf-8", errors="replace").read().split("\n")
    R, I, A = rd("req.txt"), rd("impl.txt"), rd("aux.txt")
    fresh = os.path.join(c.work, "fresh")
    os.makedirs(fresh, exist_ok=True)
    # `ans` after a result that is a machine float (NaN and infinities included) denotes that result
    last_float, hist2 = False, []
    for i, a in enumerate(A):
        if not a:
            continue
        a = json.loads(a)
        if a["k"] == "reset":
            last_float, hist2 = False, []
        elif a["k"] == "q":
            p = I[i].split(" ")
            if a["text"].strip() == "ans" and a["flag"] and last_float and not I[i].startswith("number float"):
                c.violation(" ;; ".join(hist2 + ["ans"]), "history %r: the previous answer was a machine float, `ans` answered %r" % (hist2 + ["ans"], I[i][:100]),
                            {"kind": "history", "history": hist2 + ["ans"], "impl": I[i]}, found=True)
            if a["flag"] and p[0] == "number":
                last_float = len(p) > 1 and p[1] == "float"
            hist2.append(a["text"])
    lines, back = [], []
    ans = None
    hist = []
    dead = False
    for i, a in enumerate(A):
        if not a:
            continue
        a = json.loads(a)
        if a["k"] == "reset":
            ans = None; hist = []; dead = False
        elif a["k"] == "q" and dead:
            continue
        elif a["k"] == "q" and re.search(r"\bnow\b", a["text"]):
            # what `now` denotes differs between the session and the later fresh run: not comparable, and neither is
            # anything that follows in the session (`ans` may hold a clock reading)
            dead = True
            continue
        elif a["k"] == "q":
            lines.append("reset")
            if ans is not None:
                lines.append("preset %s %s" % ans)
            lines.append(R[i])
            back.append((len(lines) - 1, i, list(hist), ans))
            hist.append(a["text"])
            p = I[i].split(" ")
            if a["flag"] and p[0] == "number" and len(p) >= 3 and p[1] != "float":
                ans = (p[1], p[2])
            elif a["flag"] and p[0] == "number":
                ans = "float"
        if ans == "float":
            # a float answer cannot be preset exactly: the rest of this session is not used for the oracle
            ans = None
            dead = True
    open(os.path.join(fresh, "req.txt"), "w").write("\n".join(lines) + "\n")
    rc, out = vlib.sh([vlib.RKH, "eval-run", "--out", fresh, "--budget-ms=3000"])
    F = open(os.path.join(fresh, "impl.txt")).read().split("\n")
    nfresh = 0
    for (fi, i, h, a) in back:
        nfresh += 1
        if fi < len(F) and F[fi] != I[i] and not I[i].startswith("number float") :
            c.violation(" ;; ".join(h + [vlib.decode_req(R[i])]),
                        "history %r: reply %r differs from the fresh-context reply %r (previous answer %s)" % (h + [vlib.decode_req(R[i])], I[i][:120], F[fi][:120], a),
                        {"kind": "history", "history": h + [vlib.decode_req(R[i])], "impl": I[i], "fresh": F[fi], "previous_answer": a}, found=True)
    c.coverage["fresh_context_comparisons"] = nfresh
    c.coverage.update({
        "rule": "random histories of 3-22 queries (plain expressions incl. uses of ans/ANS/_, conversions, definition lookups, units for / factorize / search, failing queries) on one context with the ans feature switched on and off; each reply is compared with the Lean session model and with the reply of a fresh context whose previous_result is preset to the most recent successful numeric reply; a digest of Debug(registry), clock and settings is taken before and after every session",
        "samples": st.get("samples", [])[:6], "input_distribution": st,
    })

def replay(path):
    return vlib.eval_replay("C15", path)
