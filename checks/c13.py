"""C13 — loading arbitrary definition text is safe and reports its problems."""
import json, os
from tools import vlib
from checks import loadcommon as lc

THEOREMS = ["Rink.Spec.C13.next_progress", "Rink.Spec.C13.next_fuel_irrelevant", "Rink.Spec.C13.lexAll_fuel_irrelevant",
            "Rink.Spec.C13.lex_terminates_within_length", "Rink.Spec.C13.visit_on_cycle_reports",
            "Rink.Spec.C13.resolver_errors_mono", "Rink.Spec.C13.visit_errors_mono", "Rink.Spec.C13.drain_errors_mono", "Rink.Spec.C13.evalPrefix_total_zero_divisor", "Rink.Spec.C13.dimPowChecked_bounded",
            "Rink.Spec.C13.dimMulChecked_bounded"]


def judge(c, s):
    if lc.check_crash(c, "C13", s):
        return
    if s.usable is False:
        c.violation("unusable:" + s.id, "C13: after loading %s (%s) the context does not answer `1 + 1`" % (s.id, s.desc[:120]), lc.replay_body(s), found=True)
    if s.oracle.get("staleNames"):
        c.violation("stale:%s:%s" % (s.id, s.oracle["staleNames"][0]), "C13: after loading %s (%s) the names %s no longer denote what the database holds for them (something of a failed substance block was left behind)" % (s.id, s.desc[:100], s.oracle["staleNames"][:4]),
                    lc.replay_body(s), found=True)
    if s.deterministic is False:
        c.violation("nondeterministic:" + s.id, "C13: two loads of %s give different databases" % s.id, lc.replay_body(s), found=True)
    # cycles must be reported, not followed: a scenario that is a pure cycle must name it
    if s.id.startswith("cycle") or s.id in ("selfcycle", "prefix-cycle", "quantity-cycle"):
        if not any(e.startswith("cycle:") for e in s.impl_errors()):
            c.violation("cycle-unreported:" + s.id, "C13: the dependency cycle of %s is not reported (errors: %s)" % (s.id, s.impl_errors()[:3]), lc.replay_body(s), found=True)
    # a definition that failed must not be half-loaded: no value is stored under an erroring unit name
    failed = {e.split(":", 2)[2] for e in s.impl_errors() if e.startswith("malformed:unit:") or e.startswith("cycle:unit:")}
    if failed:
        stored = {lc.unhex(l.split(" ")[1]) for l in s.impl if l.startswith("unit ")}
        both = sorted(n for n in failed & stored if not any(e == "multiple:unit:" + n for e in s.impl_errors()))
        # (a name declared twice may legitimately have one good and one bad declaration)
        cyc = {e.split(":", 2)[2] for e in s.impl_errors() if e.startswith("cycle:unit:")}
        # a long prefix `kilo-` is stored as the unit `kilo` too, next to a unit definition of that name;
        # a base unit's long name is stored as a unit as well
        other = {lc.unhex(l.split(" ")[1]) for l in s.impl if l.startswith("prefix ")} | {lc.unhex(l.split(" ")[2]) for l in s.impl if l.startswith("long ")}
        both = [n for n in both if n not in cyc and n not in other]
        if both:
            c.violation("half-loaded:%s:%s" % (s.id, both[0]), "C13: %s is reported as malformed and stored anyway in %s" % (both[:4], s.id), lc.replay_body(s), found=True)


def run(c):
    c.assumptions += [
        "stack depth is a property of the compiled code, not of the model (the model's recursion is structural on a fuel argument): chains and cycles up to 3000 (quick) / 6000 (thorough) definitions are run against the implementation in an optimised build with overflow checks; the threshold measured by hand is above 10000 there and above 5000 in the debug CLI",
        "syntax problems of the definitions parser are printed on stdout by gnu_units::parse_str rather than returned; they are counted as reported",
        "type-confused JSON is judged by the implementation-side oracle only (Err, no panic, context usable); JSON the typed deserializer accepts is also compared with the model",
        "scenarios whose definitions leave the model's evaluator (opaque machine floats in arithmetic) are run for the oracle and skipped for the dump comparison (counted)",
    ]
    if not c.build_harness():
        return
    driver_ok = c.build_lean(["Rink.Props.C13", "rinkmodel"])
    c.audit("Rink.Props.C13", THEOREMS)
    if c.thorough:
        c.leanchecker(["Rink.Model.GnuUnits", "Rink.Model.Load", "Rink.Props.C13"])
    if not driver_ok:
        return
    scens = lc.run_scenarios(c, "c13")
    if scens is None:
        return
    stats = {}
    kinds = {}
    tags = {}
    for s in scens:
        judge(c, s)
        # unit exponents are unbounded integers in the model: a scenario built on exponents at the i64 limit is
        # judged for crash / hang / usability only
        if s.id not in ("unit-exp-limit",):
            lc.check_correspondence(c, s, stats)
        k = s.id.rstrip("0123456789")
        kinds[k] = kinds.get(k, 0) + 1
        for e in s.impl_errors():
            t = e.split(":")[0]
            tags[t] = tags.get(t, 0) + 1
    c.coverage["traces_validated_against_impl"] = stats.get("dump_lines_compared", 0)
    c.coverage.update({
        "evaluations": len(scens), "exhaustive": False,
        "rule": "hostile definition lists (cycles and alias chains up to thousands long through units, prefixes, quantities and substance properties; zero divisors; exponent overflow; duplicate, missing and conflicting names; random grammar-directed lists; the bundled list with entries deleted/duplicated/swapped), definition texts (bundled text under line/token/character mutation, grammar-directed random files with categories, docs, symbols and substance blocks, %d edge texts) and currency JSON (truncated at 8 points, type-confused, entries deleted/duplicated/edited): each is loaded by the implementation in its own process (panic, abort, stack overflow, hang > 120 s are violations; afterwards the context must answer queries about what loaded) and by the Lean model; the registry dumps and error sets are compared" % kinds.get("edge", 0),
        "samples": [{"scenario": s.id, "desc": s.desc[:100], "errors": s.impl_errors()[:3], "diagnostics": s.diagnostics} for s in scens if s.impl_errors()][:30],
        "input_distribution": {"scenarios": len(scens), "by_kind": kinds, "error_kinds_hit": tags, "parser_diagnostics": sum(s.diagnostics for s in scens), **stats},
    })


def replay(path):
    r = json.load(open(path))
    print(json.dumps({k: v for k, v in r.items() if k != "files"}, indent=1)[:3000])
    if r.get("kind") != "scenario":
        return 1
    s = lc.replay_scenario(r)
    c = vlib.Check("C13", "quick", 1)
    judge(c, s)
    lc.check_correspondence(c, s, {})
    bad = bool(c.violations)
    for v in c.violations[:5]:
        print("  still failing:", v["what"][:300])
    if bad:
        print("VIOLATION property=C13 replay=%s" % path)
    return 1 if bad else 0
