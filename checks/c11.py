"""C11 — printed expressions re-parse to the same expression."""
import json, os
from tools import vlib

THEOREMS = ["Rink.Spec.prec_tables_wf", "Rink.Spec.former_counterexamples_roundtrip", "Rink.Spec.sign_factor_parenthesised"]

def run(c):
    c.assumptions += [
        "expression trees use plain identifier names, single-quoted strings and non-negative literals whose default printing is exact (the image of the parser on ordinary input); names that only a double-quoted identifier can produce (spaces, keywords) are not generated",
        "string-level lexing of the printed text is modelled and compared, not proved (parse_print is stated at tree level; see DESIGN.md)",
    ]
    if not c.build_harness():
        return
    if not c.build_lean(["Rink.Props.C11", "rinkmodel"]):
        return
    c.audit("Rink.Props.C11", THEOREMS)
    if c.thorough:
        c.leanchecker(["Rink.Model.Print", "Rink.Props.C11"])
    if not c.run_harness("c11"):
        return
    st = json.load(open(os.path.join(c.work, "stats.json")))
    R = open(os.path.join(c.work, "req.txt")).read().split("\n")
    I = open(os.path.join(c.work, "impl.txt")).read().split("\n")
    flagged = set()
    nbad = 0
    for i, (r, a) in enumerate(zip(R, I)):
        if not r:
            continue
        want = r.split(" ", 2)[2]
        f = a.split(" ", 2)
        text = bytes.fromhex(f[0]).decode("utf-8", "replace") if f[0] != "-" else ""
        if len(f) < 3 or f[1] != "eof" or f[2] != want:
            nbad += 1
            flagged.add(i)
            if nbad <= 40:
                c.violation(want, "expression %s prints as %r, which parses back to %s%s" % (want[:200], text, f[2][:200] if len(f) > 2 else "?", "" if f[1] == "eof" else " with trailing input"),
                            {"kind": "input", "input": want, "printed": text, "reparsed": f[2] if len(f) > 2 else None}, found=True)
    for line in open(os.path.join(c.work, "oracle.jsonl")):
        v = json.loads(line)
        c.violation("json:" + v["expr"], "ExprString JSON round trip differs for %s (text %r)" % (v["expr"][:200], v["text"]),
                    {"kind": "input", "input": v["expr"], "printed": v["text"]}, found=True)
    if c.run_model("expr"):
        M = open(os.path.join(c.work, "model.txt")).read().split("\n")
        nd = 0
        for i, (r, a) in enumerate(zip(R, I)):
            if r and i < len(M) and M[i] != a:
                nd += 1
                if i not in flagged and nd <= 5:
                    c.violation("disagree:" + r, "model/implementation disagreement on %s: impl=%r model=%r" % (r[:200], a[:200], M[i][:200]),
                                {"kind": "input", "input": r, "impl": a, "model": M[i], "correspondence": "rkh c11 | rinkmodel expr"}, found=False)
        c.coverage["traces_validated_against_impl"] = len([r for r in R if r])
        c.coverage["disagreeing_lines"] = nd
    c.coverage.update({
        "evaluations": st["total"], "distinct_nontrivial": len(set(R)) - 1,
        "rule": "expression trees: every constructor (11 binary operators, unary -/+, temperature suffix, product, `of`, function call) over every child drawn from the leaf alphabet {a, meter, 'x y', 2, 2.5} (depth 1), over every depth-1 tree of a reduced alphabet (depth 2), in thorough also depth 3, plus random trees to depth 5 with 0-3 argument calls and 2-4 factor products; Display text, the re-parsed tree and the ExprString JSON round trip are computed by the implementation; text and re-parsed tree are compared with the Lean printer / lexer / parser; oracle: re-parsed tree = original and no trailing input",
        "samples": st["samples"], "exhaustive": True, "input_distribution": st,
    })

def replay(path):
    r = json.load(open(path))
    vlib.sh(["cargo", "build", "--release", "--offline"], cwd=vlib.HARNESS)
    rc, out = vlib.sh([vlib.RKH, "c11-one", "--input", r["input"]])
    print(out)
    bad = "DIFFERS" in out
    if bad:
        print("VIOLATION property=C11 replay=%s" % path)
    return 1 if bad else 0
