"""C10 — temperature scales are exact, mutually inverse affine maps."""
from fractions import Fraction as F
from tools import vlib
from checks.common import frac

THEOREMS = [
    "Rink.Spec.degree_roundtrip",
    "Rink.Spec.degree_roundtrip_inv",
    "Rink.Spec.resolved_textbook",
    "Rink.Spec.textbook_celsius",
    "Rink.Spec.textbook_fahrenheit",
    "Rink.Spec.textbook_reaumur",
    "Rink.Spec.textbook_romer",
    "Rink.Spec.textbook_delisle",
    "Rink.Spec.textbook_newton",
    "Rink.Spec.pair_roundtrip",
    "Rink.Spec.pair_compose",
    "Rink.Spec.eval_degree",
    "Rink.Spec.degree_refuses_dimensioned",
    "Rink.Spec.degree_refused_in_target",
    "Rink.Spec.convert_degree",
    "Rink.Spec.convert_degree_mismatch",
    "Rink.Spec.spelling_table",
]

# textbook affine maps to kelvin
TO_K = {
    "C": lambda x: x + F(27315, 100),
    "F": lambda x: (x + F(45967, 100)) * F(5, 9),
    "Re": lambda x: x * F(5, 4) + F(27315, 100),
    "Ro": lambda x: (x - F(15, 2)) * F(40, 21) + F(27315, 100),
    "De": lambda x: F(37315, 100) - x * F(2, 3),
    "N": lambda x: x * F(100, 33) + F(27315, 100),
}
FROM_K = {
    "C": lambda k: k - F(27315, 100),
    "F": lambda k: k * F(9, 5) - F(45967, 100),
    "Re": lambda k: (k - F(27315, 100)) * F(4, 5),
    "Ro": lambda k: (k - F(27315, 100)) * F(21, 40) + F(15, 2),
    "De": lambda k: (F(37315, 100) - k) * F(3, 2),
    "N": lambda k: (k - F(27315, 100)) * F(33, 100),
}

def judge(text, impl, aux):
    if not aux:
        return None
    k = aux["kind"]
    if k == "refuse":
        return None if impl.startswith("err") else "must be refused, implementation answered %r" % impl[:120]
    x = frac(aux["x"])
    if k == "pair":
        want = FROM_K[aux["to"]](TO_K[aux["from"]](x))
        p = impl.split(" ")
        if p[0] != "conv":
            return "expected a conversion reply, got %r" % impl[:120]
        if frac(p[1]) != want:
            return "textbook formula gives %s, implementation answered %s" % (want, p[1])
        if aux["to"] == aux["from"] and frac(p[1]) != x:
            return "round trip does not return x"
    elif k == "abs":
        want = TO_K[aux["from"]](x)
        p = impl.split(" ")
        if p[0] != "number" or frac(p[1]) != want or p[2] != "K:1":
            return "absolute temperature should be %s K, implementation answered %r" % (want, impl[:120])
    elif k == "tokelvin":
        want = TO_K[aux["from"]](x)
        p = impl.split(" ")
        if p[0] != "conv" or frac(p[1]) != want:
            return "absolute temperature should be %s K, implementation answered %r" % (want, impl[:120])
    return None

def run(c):
    if not c.build_harness():
        return
    if not c.build_lean(["Rink.Props.C10", "rinkmodel"]):
        return
    c.audit("Rink.Props.C10", THEOREMS)
    if c.thorough:
        c.leanchecker(["Rink.Props.C10"])
    st = vlib.eval_stream(c, "gen-c10", independent=True, judge=judge)
    if st is None:
        return
    c.coverage.update({
        "rule": "rational x (negative, below absolute zero, huge, many-digit) x all 36 ordered scale pairs x every spelling of both scales; absolute values; dimensioned operands and compound targets (must be refused); oracle: the textbook affine formulas over exact fractions",
        "samples": st.get("samples", [])[:8], "input_distribution": st,
    })

def replay(path):
    return vlib.eval_replay("C10", path)
