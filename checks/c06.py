"""C06 — displayed value times displayed unit equals the computed quantity."""
import json, os
from fractions import Fraction
from tools import vlib
from checks.common import frac
from checks.c05 import read_numeral

THEOREMS = ["Rink.Spec.divPow_get", "Rink.Spec.fastDecompose_spec", "Rink.Spec.prefixSearch_sound", "Rink.Spec.gram_rescale", "Rink.Spec.gram_rescale_neg", "Rink.Spec.byte_rescale", "Rink.Spec.toParts_dims", "Rink.Spec.quantityOf_registered", "Rink.Spec.showConv_fields", "Rink.Dim.get_mul", "Rink.Dim.get_recip", "Rink.Dim.get_pow"]

TARGET_THEOREMS = ["Rink.Spec.C06T.target_denotes", "Rink.Spec.C06T.conversion_displays_top", "Rink.Spec.C06T.namesVal_merge",
                   "Rink.Spec.C06T.namesVal_pow", "Rink.Spec.C06T.namesVal_recip"]
DIMS_THEOREMS = ["Rink.Spec.C06T.target_dims", "Rink.Spec.C06T.namesGet_merge", "Rink.Spec.C06T.namesGet_pow"]

def unhexs(h):
    return None if h == "-" else bytes.fromhex(h).decode("utf-8", "replace")

def fields(line):
    d = {}
    for f in line.split(" ")[2:]:
        k, _, v = f.partition("=")
        d[k] = v
    # raw has two tokens: value and dims
    toks = line.split(" ")
    for i, t in enumerate(toks):
        if t.startswith("raw="):
            d["raw"] = t[4:]
            d["rawd"] = toks[i + 1] if t[4:] != "none" else None
    return d

def parse_dims(s):
    out = {}
    if s in (None, "-", "none"):
        return out
    for part in s.split(","):
        k, _, p = part.rpartition(":")
        out[k] = int(p)
    return out

def base_and_mode(text):
    """which base / scientific form the query asked for (needed only to read the numeral)"""
    t = text.split("->", 1)[1] if "->" in text else ""
    words = t.split()
    base, sci = 10, None
    for i, w in enumerate(words):
        if w in ("hex", "hexadecimal", "base16"): base = 16
        elif w in ("oct", "octal", "base8"): base = 8
        elif w in ("bin", "binary", "base2"): base = 2
        elif w == "base" and i + 1 < len(words) and words[i + 1].isdigit(): base = int(words[i + 1])
    mode = "default"
    if words[:1] and words[0] in ("sci", "scientific"): mode = "sci"
    elif words[:1] and words[0] in ("eng", "engineering"): mode = "eng"
    elif words[:1] and words[0] in ("frac", "fraction", "ratio"): mode = "fraction"
    elif words[:1] and words[0] == "digits": mode = "digits"
    return base, mode

def _approx(q):
    """a float for a message, whatever the size of the fraction"""
    try:
        return float(q)
    except OverflowError:
        return float("inf") if q > 0 else float("-inf")


def judge_text(impl, shown):
    """the text the user sees (`n u w` rendering) must carry what the fields say: the numeral, the
    constant factor / divisor of the conversion target, and every unit name with its power"""
    f = fields(impl)
    fac, div = unhexs(f["factor"]), unhexs(f["div"])
    if fac and ("* " + fac) not in shown:
        return "the printed text %r does not show the factor %s of the conversion target" % (shown, fac)
    if div and not any(x in shown for x in ("/ " + div, "| " + div, "/" + div)):
        return "the printed text %r does not show the divisor %s of the conversion target" % (shown, div)
    for t in (unhexs(f["exact"]), unhexs(f["approx"])):
        if t and t not in shown:
            return "the printed text %r does not show the numeral %s" % (shown, t)
    return None

def judge_line(text, impl, aux, lk):
    if not impl.startswith("parts "):
        return None
    f = fields(impl)
    kind = impl.split(" ")[1]
    if f["raw"] == "float" and impl.split(" ")[1] == "conv" and aux and aux.get("top") not in (None, "float") and "->" in text:
        # a machine-float ratio (a fractional power in the target): numeral x factor x unit is the quantity to 1e-5
        names = parse_dims(f["rawunit"]) if f["rawunit"] != "none" else {}
        K = Fraction(1)
        for n, p in names.items():
            e = lk.get(n)
            if e is None or e["v"] == "float":
                return None
            uv = frac(e["v"])
            if uv == 0 and p < 0:
                return None
            K *= uv ** p
        if unhexs(f["factor"]): K *= int(unhexs(f["factor"]))
        if unhexs(f["div"]): K /= int(unhexs(f["div"]))
        t = unhexs(f["approx"]) or unhexs(f["exact"])
        import re
        m = re.match(r"^(-?[0-9]+)(?:\.([0-9]+))?(?:e(-?[0-9]+))?$", t or "")
        base, _ = base_and_mode(text)
        if not m or base != 10:
            return None
        v = Fraction(int(m.group(1) + (m.group(2) or "")), 10 ** len(m.group(2) or "")) * Fraction(10) ** int(m.group(3) or 0)
        want = frac(aux["top"])
        # (a machine float underflows below 1e-300 and overflows above 1e300: such ratios are not judged)
        if K == 0 or want == 0 or not (Fraction(1, 10 ** 300) < abs(want / K) < Fraction(10 ** 300)) or not (Fraction(1, 10 ** 300) < abs(K) < Fraction(10 ** 300)):
            return None
        if abs(v * K - want) > abs(want) / 10000:
            return "approximate numeral %r x factor x unit = %.6g, the quantity is %.6g" % (t, _approx(v * K), _approx(want))
        return None
    if f["raw"] in ("none", "float") or f["raw"] is None:
        return None
    raw = frac(f["raw"]); rawd = parse_dims(f["rawd"])
    base, mode = base_and_mode(text)
    exact_t, approx_t = unhexs(f["exact"]), unhexs(f["approx"])
    # what the reply claims: numeral * factor / divfactor * prod(unit names)
    names = parse_dims(f["rawunit"]) if f["rawunit"] != "none" else parse_dims(f["rawdims"])
    K = Fraction(1); dims = {}
    for n, p in names.items():
        e = lk.get(n)
        if e is None:
            return "printed unit name %r cannot be read back (lookup fails)" % n
        if e["v"] == "float":
            return None
        v = frac(e["v"])
        if p < 0 and v == 0:
            return None
        K *= v ** p
        for b, q in parse_dims(e["d"]).items():
            dims[b] = dims.get(b, 0) + q * p
    dims = {k: v for k, v in dims.items() if v != 0}
    if unhexs(f["factor"]): K *= int(unhexs(f["factor"]))
    if unhexs(f["div"]): K /= int(unhexs(f["div"]))
    # expected quantity
    if kind == "conv" and aux and aux.get("top") not in (None, "float") and "->" in text and f["rawunit"] != "none" and rawd == {}:
        want = frac(aux["top"]); wantd = parse_dims(aux["topdims"])
    else:
        want = raw; wantd = rawd
    if dims != wantd:
        return "printed unit has dimensionality %s, the quantity has %s" % (dims, wantd)
    shown_d = parse_dims(f["rawdims"])
    if kind == "number" and shown_d != rawd:
        return "dimensionality shown in parentheses %s is not the result's %s" % (shown_d, rawd)
    from checks.c05 import uses_sci
    def value_of(t, q_for_sci):
        import re
        if re.match(r"^-?[0-9]+/[0-9]+$", t):      # string_repr's exact fallback `num/den` (always base 10)
            n, _, d = t.partition("/")
            return Fraction(int(n), int(d)), Fraction(0)
        v, ulp, _, _ = read_numeral(t, base, uses_sci(q_for_sci, base, mode) if q_for_sci != 0 else False)
        return v, ulp
    shown_value = want / K if K != 0 else None
    if shown_value is None:
        return None
    try:
        if exact_t is not None:
            v, _ = value_of(exact_t, shown_value)
            if v * K != want:
                return "exact numeral %r x factor x unit = %s, the quantity is %s" % (exact_t, v * K, want)
        if approx_t is not None:
            v, ulp = value_of(approx_t, shown_value)
            lo, hi = abs(v * K), (abs(v) + ulp) * abs(K)
            if not (lo <= abs(want) < hi) or (v != 0 and ((v * K > 0) != (want > 0))):
                return "approximate numeral %r x factor x unit = %s is not within one last-digit unit of the quantity %s" % (approx_t, v * K, want)
        if exact_t is None and approx_t is None:
            return "reply shows no numeral"
    except ValueError as e:
        return "cannot read the numeral: %s" % e
    return None

def run(c):
    c.assumptions += ["printed unit names are read back with Context::lookup (name resolution is C07's subject)",
                      "numerals are read with the independent reader of checks/c05.py"]
    if not c.build_harness():
        return
    if not c.build_lean(["Rink.Props.C06", "Rink.Props.C06Target", "Rink.Props.C06Dims", "rinkmodel"]):
        return
    c.audit("Rink.Props.C06", THEOREMS)
    c.audit("Rink.Props.C06Target", TARGET_THEOREMS)
    c.audit("Rink.Props.C06Dims", DIMS_THEOREMS)
    if c.thorough:
        c.leanchecker(["Rink.Props.C06", "Rink.Props.C06Target", "Rink.Props.C06Dims"])
    st = vlib.eval_stream(c, "gen-c06", independent=True)
    if st is None:
        return
    if not c.run_harness("c06-lookups"):
        return
    rd = lambda n: open(os.path.join(c.work, n), encoding="utf-8", errors="replace").read().split("\n")
    R, I, A, L = rd("req.txt"), rd("impl.txt"), rd("aux.txt"), rd("lookups.txt")
    S = rd("side.txt") if os.path.exists(os.path.join(c.work, "side.txt")) else []
    checked = 0
    for i in range(len(R)):
        if not R[i] or i >= len(I) or i >= len(L) or not L[i]:
            continue
        text = vlib.decode_req(R[i])
        aux = json.loads(A[i]) if i < len(A) and A[i] else None
        bad = judge_line(text, I[i], aux, json.loads(L[i]))
        if not bad and i < len(S) and S[i].startswith("text="):
            bad = judge_text(I[i], bytes.fromhex(S[i][5:]).decode("utf-8", "replace"))
        checked += 1 if I[i].startswith("parts ") else 0
        if bad:
            c.violation(text, "input %r: %s" % (text, bad), {"kind": "input", "input": text, "impl": I[i], "oracle": bad}, found=True)
    c.coverage["oracle_checked"] = checked
    c.coverage.update({
        "rule": "database units (1/12 sample in quick, all in thorough) x magnitudes 1e-30..1e30 at SI prefix boundaries x {0.999,1,1000,...} x powers 1..3; products/quotients of up to four base units with exponents -3..3 (derived-unit regrouping); conversions with constants, prefixes, compound targets, digits / base / sci / eng modes; every field of NumberParts is compared with the Lean model; oracle: numeral (re-read independently) x factor / divfactor x product of the printed unit names (resolved by Context::lookup) = the computed quantity, exactly for exact numerals, within one last-digit unit otherwise; dimensionality shown = the result's; the text the user sees (`n u w`) shows the numeral and the factor / divisor the fields carry",
        "samples": st.get("samples", [])[:8], "input_distribution": st,
    })

def replay(path):
    return vlib.eval_replay("C06", path)
