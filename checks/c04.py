"""C04 — totality: no input can crash, abort or hang evaluation."""
import json, os
from tools import vlib

THEOREMS = ["Rink.Spec.C04.query_never_panics", "Rink.Spec.C04.evalQuery_noPanic", "Rink.Spec.C04.evalUnitName_noPanic",
            "Rink.Spec.C04.toList_noPanic", "Rink.Spec.C04.degreeConv_noPanic", "Rink.Spec.C04.noEmptyMul_of_b",
            "Rink.Spec.C04.defShowOK_of_b", "Rink.Spec.C04.eval_never_panics", "Rink.Spec.C04.evalExpr_noPanic", "Rink.Spec.C04.ctxOK_of_checks",
            "Rink.Spec.C04.applyBin_noPanic", "Rink.Spec.C04.applyFunc_noPanic", "Rink.Spec.C04.get_noPanic",
            "Rink.Spec.C04.pow_noPanic", "Rink.Spec.C04.div_noPanic", "Rink.Spec.C04.rem_noPanic",
            "Rink.Spec.C04.shl_noPanic", "Rink.Spec.C04.shr_noPanic",
            "Rink.Spec.C04Lex.next_progress", "Rink.Spec.C04Lex.next_fuel_irrelevant", "Rink.Spec.C04Lex.lexAll_fuel_irrelevant",
            "Rink.Spec.C04Lex.lex_terminates_within_length", "Rink.Spec.C04Lex.lexAll_length"]


def judge(text, impl, aux):
    if not aux or aux.get("k") != "q":
        # session bookkeeping lines (reset) are not inputs; a reset that got no answer (the worker was still
        # being replaced) is not a verdict on Rink
        return "ignore" if impl.split(" ")[0] in ("timeout", "abort", "panic") else None
    head = impl.split(" ")[0]
    if head == "panic":
        return "the implementation panics at %s" % (impl[6:] or "?")
    if head == "abort":
        return "the worker process died (abort / stack overflow)"
    if head == "timeout":
        if aux.get("class") == "expensive":
            # the lexical class is only a bound: when the exact evaluator of the model produced the answer and
            # it is small, the result is not astronomically large and the time-out counts
            m = aux.get("_model", "")
            import re as _re
            if _re.search(r"ans|_", text, _re.I):
                return "ignore"          # the previous answer may be huge; the model may have lost track of it
            # (an error reply is not evidence of a small result: its message renders the operands, which may be
            # astronomically large; neither is a request for thousands of digits)
            if _re.search(r"digits\s+[0-9]{4,}", text):
                return "ignore"
            if m and not m.startswith("unsupported") and "float" not in m and len(m) < 2000 and m.split(" ")[0] in ("number", "conv", "convnone", "def", "list", "duration"):
                return "no answer within the budget although the exact result is small (the model's answer: %s)" % m[:120]
            return "ignore"
        return "no answer within the budget for an input whose result is small"
    if aux.get("kind") == "exponent-edge":
        # unit exponents at the limits of i64: the implementation refuses a product or power whose exponent
        # leaves i64 ("exponent too large"), the model's exponents are unbounded integers - outside the model;
        # what is judged on these lines is that the implementation answers (no panic, abort or time-out)
        return "ignore"
    return None


SHAPES = {
    "parens": lambda n: "(" * n + "1" + ")" * n,
    "open-parens": lambda n: "(" * n,
    "minus": lambda n: "-" * n + "1",
    "plus": lambda n: "+" * n + "1",
    "neg-parens": lambda n: "-(" * n + "1" + ")" * n,
    "sqrt": lambda n: "sqrt(" * n + "2" + ")" * n,
    "pow": lambda n: "^".join(["2", "2"] + ["1"] * n),
    "of": lambda n: "mass of " * n + "water",
    "frac": lambda n: " / ".join(["2"] * n),
    "sum": lambda n: " + ".join(["1"] * n),
    "juxt": lambda n: " ".join(["m"] * n),
    "eq": lambda n: " = ".join(["a"] * n),
    "spaces": lambda n: " " * n + "1",
    "arrow": lambda n: "1 " + "-> m " * n,
    "quote": lambda n: "'" * n,
    # nesting that is not written with parentheses or a plain run of signs
    "minus-comment": lambda n: "-/**/" * n + "1",
    "minus-space": lambda n: "- " * n + "1",
    "ln": lambda n: "ln " * n + "2",
    "of-short": lambda n: "x of " * n + "water",
    "pow-neg": lambda n: "2" + "^-2" * n,
    "pow-paren-free-call": lambda n: "sqrt " * n + "2",
    "signs-mixed": lambda n: "-+" * (n // 2) + "1",
    "to-base": lambda n: "1 -> " + "base " * n + "2",
    "degree": lambda n: "1 " + "°C " * n,
}


def stack_probes(c):
    """Deep but short inputs on the smallest stack Rink is deployed on (1 MiB, a wasm instance) in the
    optimised build: every recursive production at nesting 100 .. 499 (as far as 500 characters allow)."""
    d = os.path.join(c.work, "stack")
    os.makedirs(d, exist_ok=True)
    probes = []
    for name, f in SHAPES.items():
        for n in (60, 99, 100, 127, 128, 129, 160, 200, 300, 400, 499):
            q = f(n)
            if len(q) <= 500:
                probes.append(("%s:%d" % (name, n), q))
    with open(os.path.join(d, "req.txt"), "w") as fh:
        for _, q in probes:
            fh.write("evalt %s - -\n" % q.encode().hex())
    env = dict(vlib.ENV, RKH_STACK_KB="1024")
    rc, out = vlib.sh([vlib.RKH, "eval-run", "--out", d, "--independent", "--budget-ms=5000"], env=env, timeout=900)
    ans = open(os.path.join(d, "impl.txt")).read().split("\n") if rc == 0 else []
    bad = 0
    for (key, q), a in zip(probes, ans):
        if a.split(" ")[0] in ("abort", "panic", "timeout"):
            bad += 1
            c.violation("stack-1MiB:" + key, "C04: %s on a 1 MiB stack: input %r (%d characters) -> %s" % (key, q[:40] + "...", len(q), a[:80]),
                        {"kind": "input", "input": q, "stack_kib": 1024, "outcome": a, "run": "RKH_STACK_KB=1024 rkh eval-worker"}, found=True)
    c.coverage["stack_probes"] = {"probes": len(probes), "failing": bad, "stack_kib": 1024}
    if rc != 0 or len(ans) < len(probes):
        c.violation("stack-probes", "the stack probe run failed", {"kind": "obligation", "obligation": "rkh eval-run (stack probes)", "output": out[-1000:]}, found=False)


def run(c):
    c.trusted += [
        "termination of lexer, parser and evaluator is Lean's own totality check on the model (structural or fuel recursion); running time and stack depth of the compiled Rust are exercised by the stream, not proved",
    ]
    c.assumptions += [
        "query_never_panics covers eval_query and eval_expr of the model (Number-valued evaluation, conversions, unit lists, temperature conversions, definition display, units for, factorize); its two per-query hypotheses (no empty product node in the conversion target; alias expansion of a displayed name ends) are evaluated by the model driver on every line of the stream (`model-hypothesis-violated` would be a disagreement), its two database hypotheses by `rinkmodel ctxok`; dates, substances as values, search and rendering are outside the model (`unsupported`) and covered by the stream only",
        "unit exponents are unbounded integers in the model: the lines of the `exponent-edge` family (every operator, suffix and command on operands whose unit exponents are +-(2^63-1) or +-2^62) are judged for panic / abort / time-out only, not compared with the model",
        "cheap / expensive is a lexical bound computed by the generator (harness/src/gen_totality.rs::classify): an input is expensive when it has two or more power-like operators (^, **, <<, >>, superscripts, exp, factorize), a number of four or more digits right after one of them or after an exponent marker or `digits` / `base`, or a power applied to the previous answer; only a time-out on a cheap input is a violation - or on an expensive one whose exact answer the Lean model computed, as an exact value (not an error, whose message renders the operands, and not a machine float, which the model does not compute), and found small (under 2000 characters), the request not being one for thousands of digits",
        "the budget is 3 s per input on a loaded machine; a time-out is re-run alone with 60 s before it counts",
        "the context is long-lived: sessions of 10-50 inputs share one Context (ans, the pinned clock), sessions are separated by `reset`",
    ]
    if not c.build_harness():
        return
    if not c.build_lean(["Rink.Props.C04", "Rink.Props.C04Lex", "rinkmodel"]):
        return
    c.audit("Rink.Props.C04", [t for t in THEOREMS if ".C04." in t])
    c.audit("Rink.Props.C04Lex", [t for t in THEOREMS if ".C04Lex." in t])
    if c.thorough:
        c.leanchecker(["Rink.Model.Eval", "Rink.Model.Number", "Rink.Props.C04"])
    st = vlib.eval_stream(c, "gen-c04", independent=False, budget_ms=3000, judge=judge, group_start="reset", ans_taint=True, retry_pred=lambda a: a.get("class") == "cheap")
    if st is None:
        return
    stack_probes(c)
    # the hypotheses of eval_never_panics, evaluated on the dump of the real registry
    rc, out = vlib.sh([vlib.MODEL, "ctxok", os.path.join(c.work, "registry.dump")])
    ok = rc == 0 and "degrees=true" in out and "substances=true" in out
    c.obligations.append(("hypotheses of eval_never_panics hold for the loaded registry (rinkmodel ctxok)", ok, out.strip()[:200]))
    if not ok:
        c.violation("ctxok", "the database facts that keep eval_expr away from its panic sites do not hold for the loaded registry: %s" % out.strip()[:200],
                    {"kind": "obligation", "obligation": "rinkmodel ctxok registry.dump", "output": out[-1000:]}, found=False)
    c.coverage.update({
        "exhaustive": False,
        "rule": "lines of at most 500 characters from five sources - the query strings of the test suite and the manual (seed corpus, %d), grammar-directed queries over the whole surface syntax (numbers in every notation, units, prefixes, plurals, dates, substances, functions, temperature scales, every conversion target and command), token soup, mutations of seeds and generated queries (character/token insert, delete, duplicate, swap, splice, repeat), raw Unicode, and long-but-cheap structural extremes - evaluated one after another on long-lived contexts; every reply is rendered as text, span tree and JSON; panic (with source location), process death and time-out on a cheap input are violations; answers are compared with the Lean model where the model applies" % st.get("seed_corpus", 0),
        "samples": st.get("samples", [])[:40], "input_distribution": st,
    })


def replay(path):
    return vlib.eval_replay("C04", path)
