"""C03 — conversions are exact and refuse non-conformable targets."""
from fractions import Fraction
import json, os
from tools import vlib
from checks.common import frac

THEOREMS = [
    "Rink.Spec.evalQuery_convert",
    "Rink.Spec.convert_ok_iff",
    "Rink.Spec.convert_exact",
    "Rink.Spec.convert_back",
    "Rink.Spec.convert_mismatch",
    "Rink.Spec.convert_zero_target",
]

def judge(text, impl, aux):
    if not aux or aux.get("v") is None or aux.get("t") is None:
        return None
    v, t = aux["v"], aux["t"]
    if aux.get("exact_inputs") and (v == "float" or t == "float" or (impl.startswith("conv ") and impl.split(" ")[1] == "float")):
        return "the query is built from exact literals, exact units and integer powers only, yet a float appears (source %s, target %s, reply %r)" % (v, t, impl[:100])
    if v == "float" or t == "float":
        return None
    v, t = frac(v), frac(t)
    if aux.get("same"):
        if t == 0:
            return None if impl.startswith("err") else "target value is zero but the implementation answered %r" % impl[:100]
        p = impl.split(" ")
        if p[0] != "conv":
            return "conformable conversion did not produce a conversion reply: %r" % impl[:120]
        x = frac(p[1])
        if x is None:
            return "conversion of exact operands produced a float"
        if x * t != v:
            return "x*t != v: x=%s t=%s v=%s" % (x, t, v)
        if p[2] != "-":
            return "converted number is not dimensionless: %s" % p[2]
        if p[3] != aux.get("tdim"):
            return "reported dimensionality %s differs from the target's %s" % (p[3], aux.get("tdim"))
    else:
        if impl != "err conformance":
            return "non-conformable conversion must be a conformance error, implementation answered %r" % impl[:120]
    return None

def run(c):
    c.assumptions += ["the values of source and target expressions are taken from Context::eval; the subject here is the conversion arm (v -> t)"]
    if not c.build_harness():
        return
    if not c.build_lean(["Rink.Props.C03", "rinkmodel"]):
        return
    c.audit("Rink.Props.C03", THEOREMS)
    if c.thorough:
        c.leanchecker(["Rink.Props.C03"])
    st = vlib.eval_stream(c, "gen-c03", independent=True, judge=judge)
    if st is None:
        return
    # what the conformance error says: the reciprocal case is flagged exactly when it is one, otherwise a
    # suggested factor really makes the two sides conformable (model-independent, computed by the harness)
    if c.run_harness("c03-suggest"):
        ss = json.load(open(os.path.join(c.work, "suggest_stats.json")))
        for line in open(os.path.join(c.work, "suggest_oracle.jsonl")):
            v = json.loads(line)
            c.violation("suggestion:" + v["query"], "input %r: conformance error %s (suggestions %s; left %s, right %s)" % (v["query"][:200], v["why"], v["suggestions"], v["left"], v["right"]),
                        {"kind": "input", "input": v["query"], "history": [v["query"]], "detail": v}, found=True)
            if len(c.violations) > 40:
                break
        st["conformance_error_texts"] = ss
    c.coverage.update({
        "rule": "ordered pairs of conformable database units (sampled in quick, exhaustive in thorough) with random coefficients; random compound sources/targets (products, quotients, powers, constants, prefixes, plurals, inline `name = expr`); oracle: x*t = v exactly over the rationals / conformance error when dimensionalities differ, which flags the reciprocal case exactly when the product of the two units is dimensionless and otherwise suggests a factor that makes the sides conformable (read back through the quantity table)",
        "samples": st.get("samples", [])[:8], "input_distribution": st, "exhaustive": c.thorough,
    })

def replay(path):
    return vlib.eval_replay("C03", path)
