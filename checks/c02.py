"""C02 — dimensional analysis is sound."""
from tools import vlib
from checks.common import parse_number, has_zero_exponent

THEOREMS = [
    "Rink.Spec.eval_canonical",
    "Rink.Spec.eval_no_zero_exponent",
    "Rink.Spec.mul_unit",
    "Rink.Spec.div_unit",
    "Rink.Spec.pow_unit",
    "Rink.Spec.root_unit",
    "Rink.Spec.root_refuses",
    "Rink.Spec.add_refuses_mismatch",
    "Rink.Spec.sub_refuses_mismatch",
    "Rink.Spec.rem_refuses_mismatch",
    "Rink.Spec.hypot_refuses_mismatch",
    "Rink.Spec.atan2_refuses_mismatch",
    "Rink.Spec.trig_accepts_only_angle",
    "Rink.Spec.trig_result_dimensionless",
    "Rink.Spec.inverse_trig_returns_angle",
    "Rink.Spec.atan2_returns_angle",
    "Rink.Spec.applyBin_canonical",
    "Rink.Spec.applyFunc_canonical",
    "Rink.Dim.mul_canonical", "Rink.Dim.merge_sorted", "Rink.Dim.merge_nozero", "Rink.Dim.pow_canonical", "Rink.Dim.root_canonical", "Rink.Dim.mul_recip_self",
]

def judge(text, impl, aux):
    pn = parse_number(impl)
    if impl.startswith("def "):     # a bare unit name shows its definition; value and dims are the last two fields
        f = impl.split(" ")
        pn = ("def", None, f[-1]) if f[-1] != "none" else None
        if pn is None:
            return None
    if pn and has_zero_exponent(pn[2]):
        return "result carries a base unit with exponent zero: %s" % pn[2]
    if not aux:
        return None
    alg = aux.get("alg")
    if alg == "refuse":
        if not impl.startswith("err"):
            return "dimensional algebra refuses this expression, implementation answered %r" % impl[:120]
    elif alg is not None:
        if impl.startswith("err"):
            return None          # value-dependent refusals (division by zero, root of a negative, ...)
        if not pn:
            return "expected a number of dimensionality %s, implementation answered %r" % (alg, impl[:120])
        if pn[2] != alg:
            return "dimensional algebra gives %s, implementation answered %s" % (alg, pn[2])
    return None

def run(c):
    c.assumptions += ["operand dimensionalities are taken from Context::lookup (name resolution is C07's subject)",
                      "machine-float values are opaque: only the dimensionality of float results is compared"]
    if not c.build_harness():
        return
    if not c.build_lean(["Rink.Props.C02", "rinkmodel"]):
        return
    c.audit("Rink.Props.C02", THEOREMS)
    if c.thorough:
        c.leanchecker(["Rink.Props.C02"])
    st = vlib.eval_stream(c, "gen-c02", independent=True, judge=judge)
    if st is None:
        return
    c.coverage.update({
        "rule": "random expression trees (depth <= 4) over every lexable database unit (optional prefix / plural), quoted ad-hoc base units and rational coefficients with * juxtaposition / | + - mod, integer powers -3..4, roots, and all 20 functions; the dimensional algebra of the generating tree (computed over exponent vectors in the harness) is the oracle; every result is scanned for zero exponents",
        "samples": st.get("samples", [])[:8], "input_distribution": st,
    })

def replay(path):
    return vlib.eval_replay("C02", path)
