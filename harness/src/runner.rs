//! Parent side of the evaluation worker: feeds DIR/req.txt to a child `rkh eval-worker`
//! process with a per-request wall-clock budget; a child that dies (abort, stack overflow) or
//! exceeds the budget is replaced and the request is answered `abort` / `timeout`.
use crate::util::Opts;
use std::io::{BufRead, BufReader, Write};
use std::process::{Child, Command, Stdio};
use std::sync::mpsc::{channel, Receiver};
use std::time::Duration;

struct Worker {
    child: Child,
    rx: Receiver<String>,
}

fn spawn() -> Worker {
    let exe = std::env::current_exe().unwrap();
    let mut child = Command::new(exe)
        .arg("eval-worker")
        .env("RUST_BACKTRACE", "0")
        .stdin(Stdio::piped())
        .stdout(Stdio::piped())
        .stderr(Stdio::null())
        .spawn()
        .expect("spawn worker");
    let out = child.stdout.take().unwrap();
    let (tx, rx) = channel();
    std::thread::spawn(move || {
        for l in BufReader::new(out).lines() {
            match l { Ok(l) => { if tx.send(l).is_err() { break; } } Err(_) => break }
        }
    });
    Worker { child, rx }
}

pub fn run(o: &Opts) -> i32 {
    let req = std::fs::read_to_string(format!("{}/req.txt", o.out)).expect("req.txt");
    let mut imp = o.writer("impl.txt");
    let budget = Duration::from_millis(o.extra.iter().find_map(|x| x.strip_prefix("--budget-ms=").and_then(|v| v.parse().ok())).unwrap_or(5000));
    let mut w = spawn();
    let mut restarts = 0u64;
    for line in req.lines() {
        let ok = writeln!(w.child.stdin.as_mut().unwrap(), "{}", line).and_then(|_| w.child.stdin.as_mut().unwrap().flush()).is_ok();
        let ans = if !ok { None } else { w.rx.recv_timeout(budget).ok() };
        match ans {
            Some(a) => writeln!(imp, "{}", a).unwrap(),
            None => {
                // dead or too slow
                let dead = matches!(w.child.try_wait(), Ok(Some(_)));
                let _ = w.child.kill();
                let _ = w.child.wait();
                writeln!(imp, "{}", if dead { "abort" } else { "timeout" }).unwrap();
                restarts += 1;
                w = spawn();
            }
        }
    }
    let _ = w.child.kill();
    let _ = w.child.wait();
    imp.flush().unwrap();
    eprintln!("worker restarts: {}", restarts);
    0
}
