//! Parent side of the evaluation worker: feeds DIR/req.txt to child `rkh eval-worker`
//! processes with a per-request wall-clock budget; a child that dies (abort, stack overflow) or
//! exceeds the budget is replaced and the request is answered `abort` / `timeout`.
//!
//! The request file is cut into chunks at `reset` lines (a session never spans two chunks);
//! chunks are processed in parallel, answers are written in request order.
use crate::util::Opts;
use std::io::{BufRead, BufReader, Write};
use std::process::{Child, Command, Stdio};
use std::sync::mpsc::{channel, Receiver};
use std::sync::{Arc, Mutex};
use std::time::Duration;

struct Worker {
    child: Child,
    rx: Receiver<String>,
}

fn spawn(sub: &str) -> Worker {
    let exe = std::env::current_exe().unwrap();
    let mut child = Command::new(exe)
        .arg(sub)
        .env("RUST_BACKTRACE", "0")
        .stdin(Stdio::piped())
        .stdout(Stdio::piped())
        .stderr(Stdio::null())
        .spawn()
        .expect("spawn worker");
    let out = child.stdout.take().unwrap();
    let (tx, rx) = channel();
    std::thread::spawn(move || {
        for l in BufReader::new(out).lines() {
            match l {
                Ok(l) => {
                    if tx.send(l).is_err() {
                        break;
                    }
                }
                Err(_) => break,
            }
        }
    });
    Worker { child, rx }
}

fn run_chunk(sub: &str, lines: &[String], budget: Duration, restarts: &Mutex<u64>) -> Vec<String> {
    let mut w = spawn(sub);
    let mut out = Vec::with_capacity(lines.len());
    // session prefix since the last `reset`, replayed (answers discarded) after a restart so
    // that `ans` is what it would have been — minus the request that killed the worker
    let mut session: Vec<&String> = vec![];
    for line in lines {
        if line.starts_with("reset") {
            session.clear();
        }
        let ok = writeln!(w.child.stdin.as_mut().unwrap(), "{}", line)
            .and_then(|_| w.child.stdin.as_mut().unwrap().flush())
            .is_ok();
        let ans = if !ok { None } else { w.rx.recv_timeout(budget).ok() };
        match ans {
            Some(a) => {
                out.push(a);
                session.push(line);
            }
            None => {
                let dead = matches!(w.child.try_wait(), Ok(Some(_)));
                let _ = w.child.kill();
                let _ = w.child.wait();
                out.push(if dead { "abort".to_string() } else { "timeout".to_string() });
                *restarts.lock().unwrap() += 1;
                w = spawn(sub);
                for l in &session {
                    let _ = writeln!(w.child.stdin.as_mut().unwrap(), "{}", l);
                    let _ = w.child.stdin.as_mut().unwrap().flush();
                    let _ = w.rx.recv_timeout(budget);
                }
            }
        }
    }
    let _ = w.child.kill();
    let _ = w.child.wait();
    out
}

pub fn run_with(o: &Opts, sub: &'static str) -> i32 {
    let req: Vec<String> = std::fs::read_to_string(format!("{}/req.txt", o.out))
        .expect("req.txt")
        .lines()
        .map(|s| s.to_string())
        .collect();
    let budget = Duration::from_millis(
        o.extra.iter().find_map(|x| x.strip_prefix("--budget-ms=").and_then(|v| v.parse().ok())).unwrap_or(3000),
    );
    let independent = o.extra.iter().any(|x| x == "--independent");
    let jobs: usize = o.extra.iter().find_map(|x| x.strip_prefix("--jobs=").and_then(|v| v.parse().ok())).unwrap_or(16);
    let target = (req.len() / (jobs * 4).max(1)).max(200);
    let mut chunks: Vec<(usize, usize)> = vec![];
    let mut start = 0;
    for i in 0..req.len() {
        let boundary = independent || req[i].starts_with("reset");
        if boundary && i - start >= target {
            chunks.push((start, i));
            start = i;
        }
    }
    chunks.push((start, req.len()));
    let req = Arc::new(req);
    let chunks = Arc::new(chunks);
    let next = Arc::new(Mutex::new(0usize));
    let results: Arc<Mutex<Vec<Option<Vec<String>>>>> = Arc::new(Mutex::new(vec![None; chunks.len()]));
    let restarts = Arc::new(Mutex::new(0u64));
    let mut hs = vec![];
    for _ in 0..jobs.min(chunks.len()).max(1) {
        let (req, chunks, next, results, restarts) = (req.clone(), chunks.clone(), next.clone(), results.clone(), restarts.clone());
        hs.push(std::thread::spawn(move || loop {
            let k = {
                let mut n = next.lock().unwrap();
                let k = *n;
                *n += 1;
                k
            };
            if k >= chunks.len() {
                break;
            }
            let (a, b) = chunks[k];
            let r = run_chunk(sub, &req[a..b], budget, &restarts);
            results.lock().unwrap()[k] = Some(r);
        }));
    }
    for h in hs {
        h.join().unwrap();
    }
    // anything after a tab in an answer is a side channel for the oracles (side.txt, line-aligned with
    // impl.txt); impl.txt holds what is compared with the model
    let mut imp = o.writer("impl.txt");
    let mut side = o.writer("side.txt");
    for r in results.lock().unwrap().iter() {
        for l in r.as_ref().unwrap() {
            match l.split_once('\t') {
                Some((a, b)) => { writeln!(imp, "{}", a).unwrap(); writeln!(side, "{}", b).unwrap(); }
                None => { writeln!(imp, "{}", l).unwrap(); writeln!(side).unwrap(); }
            }
        }
    }
    imp.flush().unwrap();
    side.flush().unwrap();
    eprintln!("worker restarts: {}", restarts.lock().unwrap());
    0
}

pub fn run(o: &Opts) -> i32 {
    run_with(o, "eval-worker")
}
