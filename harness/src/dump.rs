//! Dumps the registry of the real, loaded context in the text form the Lean driver reads.
use crate::evalsess::{fmt_numeric, new_context};
use crate::util::{hex, Opts};
use rink_core::ast::Expr;
use rink_core::types::Dimensionality;
use std::io::Write;

fn dim_hex(d: &Dimensionality) -> String {
    if d.is_dimensionless() { return "-".into(); }
    d.iter().map(|(k, p)| format!("{}:{}", hex(k.as_str()), p)).collect::<Vec<_>>().join(",")
}

pub fn run(o: &Opts) -> i32 {
    let ctx = new_context();
    let r = &ctx.registry;
    let mut w = o.writer("registry.dump");
    for b in &r.base_units { writeln!(w, "base {}", hex(b.as_str())).unwrap(); }
    for (n, v) in &r.units { writeln!(w, "unit {} {} {}", hex(n), fmt_numeric(&v.value), dim_hex(&v.unit)).unwrap(); }
    for (n, v) in &r.prefixes { writeln!(w, "prefix {} {}", hex(n), fmt_numeric(v)).unwrap(); }
    for (n, e) in &r.definitions {
        match e {
            Expr::Unit { name } => writeln!(w, "def {} alias {}", hex(n), hex(name)).unwrap(),
            _ => writeln!(w, "def {} other", hex(n)).unwrap(),
        }
    }
    for (s, l) in &r.base_unit_long_names { writeln!(w, "long {} {}", hex(s), hex(l)).unwrap(); }
    for (d, n) in &r.quantities { writeln!(w, "quantity {} {}", dim_hex(d), hex(n)).unwrap(); }
    for (d, n) in &r.decomposition_units { writeln!(w, "decomp {} {}", dim_hex(d), hex(n)).unwrap(); }
    for n in r.substances.keys() { writeln!(w, "substance {}", hex(n)).unwrap(); }
    for (n, s) in &r.substances {
        writeln!(w, "subst {} {} {}", hex(n), fmt_numeric(&s.amount.value), dim_hex(&s.amount.unit)).unwrap();
        for (pn, p) in &s.properties.properties {
            writeln!(w, "prop {} {} {} {} {} {} {} {}", hex(n), hex(pn), fmt_numeric(&p.input.value), dim_hex(&p.input.unit), hex(&p.input_name),
                fmt_numeric(&p.output.value), dim_hex(&p.output.unit), hex(&p.output_name)).unwrap();
        }
    }
    for (sym, n) in &r.substance_symbols { writeln!(w, "symbol {} {}", hex(sym), hex(n)).unwrap(); }
    for n in r.substance_symbols.keys() { writeln!(w, "substance {}", hex(n)).unwrap(); }
    for (n, c) in &r.categories { writeln!(w, "category {} {}", hex(n), hex(c)).unwrap(); }
    for (c, n) in &r.category_names { writeln!(w, "catname {} {}", hex(c), hex(n)).unwrap(); }
    for tz in chrono_tz::TZ_VARIANTS.iter() { writeln!(w, "tz {}", hex(tz.name())).unwrap(); }
    w.flush().unwrap();
    0
}
