//! Loader scenarios (C08 / C12 / C13): sequences of `Context::load` calls on lists of
//! definitions in tree form.  A scenario file holds blocks `begin` / `tdef …` / `end`; every
//! block is one `Context::load`.  `loadone` (a child process per scenario, so that a stack
//! overflow or abort is contained) prints the registry dump; `loadscen` generates scenarios and
//! runs the children in parallel.
use crate::c11_expr::parse_prefix_pub as parse_prefix;
use crate::loaddump::{dump_registry, fmt_def};
use crate::util::{Opts, Rng};
use rink_core::ast::{Def, DefEntry, Defs, ExprString, Property};
use rink_core::Context;
use std::io::Write;
use std::rc::Rc;

static PANIC_AT: std::sync::Mutex<String> = std::sync::Mutex::new(String::new());

fn opt_unhex(s: &str) -> Option<String> { if s == "-" { None } else { Some(crate::evalsess::unhex(s)) } }

pub fn parse_tdef(line: &str) -> Option<DefEntry> {
    let t: Vec<&str> = line.split(' ').collect();
    if t.len() < 5 || t[0] != "tdef" { return None; }
    let name = crate::evalsess::unhex(t[1]);
    let doc = opt_unhex(&t[2][4..]);
    let category = opt_unhex(&t[3][4..]);
    let tree = |toks: &[&str]| -> Option<rink_core::ast::Expr> { let mut pos = 0; let e = parse_prefix(toks, &mut pos)?; if pos == toks.len() { Some(e) } else { None } };
    let def = match t[4] {
        "base" => Def::BaseUnit { long_name: opt_unhex(t.get(5)?) },
        "prefix" => Def::Prefix { is_long: *t.get(5)? == "1", expr: ExprString(tree(&t[6..])?) },
        "unit" => Def::Unit { expr: ExprString(tree(&t[5..])?) },
        "quantity" => Def::Quantity { expr: ExprString(tree(&t[5..])?) },
        "category" => Def::Category { display_name: crate::evalsess::unhex(t.get(5)?) },
        "error" => Def::Error { message: crate::evalsess::unhex(t.get(5)?) },
        "substance" => {
            let symbol = opt_unhex(t.get(5)?);
            let rest = t[6..].join(" ");
            let mut props = vec![];
            if !rest.trim().is_empty() {
                for g in rest.split(" ; ") {
                    let p: Vec<&str> = g.trim().split(' ').collect();
                    if p.len() < 6 || p[4] != "IN" { return None; }
                    let out_pos = p.iter().position(|x| *x == "OUT")?;
                    props.push(Property { name: crate::evalsess::unhex(p[0]), input_name: crate::evalsess::unhex(p[1]), output_name: crate::evalsess::unhex(p[2]),
                        doc: opt_unhex(&p[3][4..]), input: ExprString(tree(&p[5..out_pos])?), output: ExprString(tree(&p[out_pos + 1..])?) });
                }
            }
            Def::Substance { symbol, properties: props }
        }
        _ => return None,
    };
    Some(DefEntry { name, def: Rc::new(def), doc, category })
}

/// child: load one scenario, print the dump (or `panic`)
pub fn loadone(o: &Opts) -> i32 {
    let text = std::fs::read_to_string(o.input.as_ref().expect("--input")).expect("read scenario");
    std::panic::set_hook(Box::new(|info| {
        let loc = info.location().map(|l| format!("{}:{}", l.file(), l.line())).unwrap_or_default();
        let msg = info.payload().downcast_ref::<&str>().map(|s| s.to_string()).or_else(|| info.payload().downcast_ref::<String>().cloned()).unwrap_or_default();
        *PANIC_AT.lock().unwrap() = format!("{} {}", loc, msg.replace('\n', " "));
    }));
    let res = std::panic::catch_unwind(|| {
        let mut ctx = Context::new();
        let mut errors: Vec<String> = vec![];
        let mut cur: Vec<DefEntry> = vec![];
        for line in text.lines() {
            if line.starts_with("begin") { cur = vec![]; }
            else if line.starts_with("end") {
                let defs = Defs { defs: std::mem::take(&mut cur) };
                if let Err(e) = ctx.load(defs) { errors.extend(e.lines().skip(1).map(|l| l.trim().to_string())); }
            } else if line.starts_with("tdef ") { if let Some(d) = parse_tdef(line) { cur.push(d); } }
        }
        // the context must still answer queries about whatever did load
        ctx.use_humanize = false;
        let usable = match rink_core::one_line(&mut ctx, "1 + 1") { Ok(s) => s.starts_with('2'), Err(_) => false };
        (ctx, errors, usable)
    });
    let out = std::io::stdout();
    let mut w = std::io::BufWriter::new(out.lock());
    match res {
        Ok((ctx, errors, usable)) => { dump_registry(&ctx, &errors, &mut w); writeln!(w, "usable {}", usable).unwrap(); }
        Err(_) => writeln!(w, "panic {}", PANIC_AT.lock().unwrap()).unwrap(),
    }
    w.flush().unwrap();
    0
}

fn write_scenario(path: &str, blocks: &[Vec<&DefEntry>]) {
    let mut f = std::io::BufWriter::new(std::fs::File::create(path).expect("create scenario"));
    for b in blocks {
        writeln!(f, "begin").unwrap();
        for d in b { writeln!(f, "tdef {}", fmt_def(d)).unwrap(); }
        writeln!(f, "end").unwrap();
    }
    f.flush().unwrap();
}

fn unit(name: &str, expr: &str) -> DefEntry {
    let mut it = rink_core::loader::gnu_units::TokenIterator::new(expr).peekable();
    let e = rink_core::loader::gnu_units::parse_expr(&mut it);
    DefEntry { name: name.to_string(), def: Rc::new(Def::Unit { expr: ExprString(e) }), doc: None, category: None }
}

fn text_defs(text: &str) -> Vec<DefEntry> { rink_core::loader::gnu_units::parse_str(text).defs }

pub fn run(o: &Opts) -> i32 {
    let kind = o.extra.iter().find_map(|x| x.strip_prefix("--kind=")).unwrap_or("c08").to_string();
    let dir = format!("{}/scen", o.out);
    let _ = std::fs::remove_dir_all(&dir);
    std::fs::create_dir_all(&dir).unwrap();
    let mut rng = Rng::new(o.seed);
    let base_text = rink_core::DEFAULT_FILE.unwrap();
    let cur_text = rink_core::CURRENCY_FILE.unwrap();
    let json = std::fs::read_to_string("/repo/core/tests/currency.snapshot.json").unwrap_or_default();
    let base: Vec<DefEntry> = text_defs(base_text);
    let mut names: Vec<(String, String)> = vec![]; // (scenario id, description)
    let mut add = |id: String, desc: String, blocks: Vec<Vec<&DefEntry>>, names: &mut Vec<(String, String)>| {
        write_scenario(&format!("{}/{}.tdefs", dir, id), &blocks);
        names.push((id, desc));
    };
    match kind.as_str() {
        "c08" => {
            add("bundled".into(), "definitions.units".into(), vec![base.iter().collect()], &mut names);
            let mut cur = text_defs(cur_text);
            let live: Vec<DefEntry> = serde_json::from_str(&json).expect("currency snapshot");
            cur.extend(live);
            add("bundled+currency".into(), "definitions.units, then currency.units + snapshot".into(), vec![base.iter().collect(), cur.iter().collect()], &mut names);
            add("bundled-again".into(), "definitions.units (second load, determinism)".into(), vec![base.iter().collect()], &mut names);
        }
        "c12" => {
            // unique names: keep the last declaration of a category id that is declared more than once
            let mut seen = std::collections::BTreeSet::new();
            let mut uniq: Vec<&DefEntry> = vec![];
            for d in base.iter().rev() {
                let ns = match *d.def { Def::Prefix { .. } => 1, Def::Quantity { .. } => 2, Def::Category { .. } => 3, _ => 0 };
                if seen.insert((ns, d.name.clone())) { uniq.push(d); }
            }
            uniq.reverse();
            let n = uniq.len();
            add("identity".into(), "original order".into(), vec![uniq.clone()], &mut names);
            let mut rev = uniq.clone(); rev.reverse();
            add("reversed".into(), "reversed".into(), vec![rev], &mut names);
            for (i, k) in [n / 3, 2 * n / 3].iter().enumerate() { let mut r = uniq.clone(); r.rotate_left(*k); add(format!("rot{}", i), format!("rotated by {}", k), vec![r], &mut names); }
            let nsh = if o.thorough { 40 } else { 3 };
            for i in 0..nsh {
                let mut r = uniq.clone();
                for j in (1..r.len()).rev() { let k = rng.below(j as u64 + 1) as usize; r.swap(j, k); }
                add(format!("shuffle{}", i), format!("random permutation #{}", i), vec![r], &mut names);
            }
            // generated databases: deep chains and wide fans, permuted
            let mut gen: Vec<DefEntry> = vec![DefEntry { name: "b0".into(), def: Rc::new(Def::BaseUnit { long_name: Some("base0".into()) }), doc: None, category: None }];
            for i in 1..300 { gen.push(unit(&format!("chain{}", i), &if i == 1 { "2 b0".to_string() } else { format!("3 chain{}", i - 1) })); }
            for i in 0..200 { gen.push(unit(&format!("fan{}", i), &format!("chain{} chain{} / chain{}", 1 + rng.below(299), 1 + rng.below(299), 1 + rng.below(299)))); }
            gen.push(DefEntry { name: "kilo".into(), def: Rc::new(Def::Prefix { expr: ExprString(rink_core::ast::Expr::new_const(rink_core::types::Numeric::from(1000))), is_long: true }), doc: None, category: None });
            gen.push(unit("usesprefix", "kilochain7 + 1 chain8"));
            let g0: Vec<&DefEntry> = gen.iter().collect();
            add("gen-identity".into(), "generated chain/fan database".into(), vec![g0.clone()], &mut names);
            let mut g1 = g0.clone(); g1.reverse();
            add("gen-reversed".into(), "generated database, reversed (every reference is a forward reference)".into(), vec![g1], &mut names);
            for i in 0..(if o.thorough { 20 } else { 3 }) {
                let mut r = g0.clone();
                for j in (1..r.len()).rev() { let k = rng.below(j as u64 + 1) as usize; r.swap(j, k); }
                add(format!("gen-shuffle{}", i), format!("generated database, random permutation #{}", i), vec![r], &mut names);
            }
        }
        _ => {
            // c13: hostile definition lists
            let mut scen: Vec<(String, String, Vec<DefEntry>)> = vec![];
            let bu = |n: &str| DefEntry { name: n.into(), def: Rc::new(Def::BaseUnit { long_name: None }), doc: None, category: None };
            let pre = |n: &str, e: &str, long: bool| { let mut it = rink_core::loader::gnu_units::TokenIterator::new(e).peekable(); DefEntry { name: n.into(), def: Rc::new(Def::Prefix { expr: ExprString(rink_core::loader::gnu_units::parse_expr(&mut it)), is_long: long }), doc: None, category: None } };
            let qty = |n: &str, e: &str| { let mut it = rink_core::loader::gnu_units::TokenIterator::new(e).peekable(); DefEntry { name: n.into(), def: Rc::new(Def::Quantity { expr: ExprString(rink_core::loader::gnu_units::parse_expr(&mut it)) }), doc: None, category: None } };
            scen.push(("cycle2".into(), "a = b, b = a".into(), vec![unit("a", "b"), unit("b", "a")]));
            scen.push(("selfcycle".into(), "a = a".into(), vec![unit("a", "2 a")]));
            for len in [3usize, 50, 1000, if o.thorough { 6000 } else { 3000 }] {
                let mut v = vec![]; for i in 0..len { v.push(unit(&format!("c{}", i), &format!("2 c{}", (i + 1) % len))); }
                scen.push((format!("cycle{}", len), format!("cycle of length {}", len), v));
                let mut v = vec![bu("m")]; for i in 0..len { v.push(unit(&format!("al{}", i), &if i == 0 { "m".to_string() } else { format!("al{}", i - 1) })); }
                scen.push((format!("alias{}", len), format!("alias chain of length {} (reversed: deepest recursion)", len), v.into_iter().rev().collect()));
            }
            scen.push(("prefix-cycle".into(), "prefix cycle".into(), vec![pre("foo", "bar", true), pre("bar", "foo", true)]));
            scen.push(("prefix-div0".into(), "prefix 1|0".into(), vec![pre("foo", "1|0", true), bu("m"), unit("x", "foom")]));
            scen.push(("prefix-pow".into(), "prefix 0^-1".into(), vec![pre("foo", "0^-1", true)]));
            scen.push(("prefix-hugepow".into(), "prefix 10^99999999999".into(), vec![pre("foo", "10^99999999999", true)]));
            scen.push(("quantity-cycle".into(), "quantity cycle".into(), vec![qty("qa", "qb"), qty("qb", "qa")]));
            scen.push(("quantity-overflow".into(), "quantity exponent overflow".into(), vec![bu("m"), qty("big", "m^9223372036854775807"), qty("bigger", "big^2")]));
            scen.push(("quantity-zero".into(), "quantity m^0".into(), vec![bu("m"), qty("nothing", "m^0"), qty("dimensionless", "1")]));
            scen.push(("quantity-conflict".into(), "two quantities of one dimensionality".into(), vec![bu("m"), qty("length", "m"), qty("distance", "m")]));
            scen.push(("dup-units".into(), "duplicate unit names".into(), vec![bu("m"), unit("x", "2 m"), unit("x", "3 m")]));
            scen.push(("missing".into(), "reference to a missing unit".into(), vec![unit("x", "2 nosuch"), unit("y", "3 x")]));
            scen.push(("error-def".into(), "Def::Error entry".into(), vec![DefEntry { name: "bad".into(), def: Rc::new(Def::Error { message: "boom".into() }), doc: None, category: None }]));
            let subst = |name: &str, props: Vec<(&str, &str, &str, &str, &str)>| DefEntry { name: name.into(), doc: None, category: None, def: Rc::new(Def::Substance { symbol: None,
                properties: props.into_iter().map(|(n, inn, i, outn, o)| { let mut a = rink_core::loader::gnu_units::TokenIterator::new(i).peekable(); let mut b = rink_core::loader::gnu_units::TokenIterator::new(o).peekable();
                    Property { name: n.into(), input_name: inn.into(), output_name: outn.into(), doc: None, input: ExprString(rink_core::loader::gnu_units::parse_expr(&mut a)), output: ExprString(rink_core::loader::gnu_units::parse_expr(&mut b)) } }).collect() }) };
            scen.push(("subst-zero-output".into(), "substance property with zero output".into(), vec![bu("kg"), bu("m"), subst("stuff", vec![("dens", "volume", "1 m^3", "mass", "0 kg")])]));
            scen.push(("subst-zero-input".into(), "substance property with zero input".into(), vec![bu("kg"), bu("m"), subst("stuff", vec![("dens", "volume", "0 m^3", "mass", "5 kg")])]));
            scen.push(("subst-negative".into(), "negative property".into(), vec![bu("kg"), bu("m"), subst("stuff", vec![("dens", "volume", "1 m^3", "mass", "-5 kg")])]));
            scen.push(("subst-cycle".into(), "substance property referring to itself".into(), vec![bu("kg"), subst("stuff", vec![("p", "a", "1 kg", "b", "p of stuff")])]));
            scen.push(("subst-missing".into(), "substance property with unknown unit".into(), vec![subst("stuff", vec![("p", "a", "1 nosuch", "b", "2 nosuch")])]));
            scen.push(("subst-conflict".into(), "conflicting property names".into(), vec![bu("kg"), bu("m"), subst("stuff", vec![("dens", "volume", "1 m^3", "mass", "5 kg"), ("dens2", "volume", "1 m^3", "mass", "6 kg")])]));
            scen.push(("degree-missing".into(), "temperature suffix without its constants".into(), vec![unit("t", "5")]));
            // random grammar-directed lists
            let nrand = if o.thorough { 400 } else { 40 };
            for i in 0..nrand {
                let mut v = vec![bu("m"), bu("s"), bu("kg")];
                let n = 3 + rng.below(25);
                for j in 0..n {
                    let r = |rng: &mut Rng| -> String { match rng.below(6) { 0 => "m".into(), 1 => "s".into(), 2 => "kg".into(), 3 => format!("u{}", rng.below(n)), 4 => format!("{}", rng.below(5)), _ => format!("pf{}u{}", rng.below(3), rng.below(n)) } };
                    let e = match rng.below(7) { 0 => format!("{} {}", r(&mut rng), r(&mut rng)), 1 => format!("{} / {}", r(&mut rng), r(&mut rng)), 2 => format!("{}^{}", r(&mut rng), rng.range(-3, 3)), 3 => format!("{} + {}", r(&mut rng), r(&mut rng)),
                        4 => format!("{}|{}", rng.below(4), rng.below(4)), 5 => format!("-{}", r(&mut rng)), _ => r(&mut rng) };
                    match rng.below(10) {
                        0 => v.push(pre(&format!("pf{}", rng.below(3)), &format!("{}^{}", rng.below(12), rng.range(-3, 4)), rng.chance(1, 2))),
                        1 => v.push(qty(&format!("q{}", j), &format!("{} {}^{}", *rng.pick(&["m", "s", "kg", "q0", "q1"]), *rng.pick(&["m", "s", "kg"]), rng.range(-2, 3)))),
                        2 => v.push(subst(&format!("sub{}", j), vec![("p", "a", "1 m^3", "b", Box::leak(e.clone().into_boxed_str()))])),
                        _ => v.push(unit(&format!("u{}", j), &e)),
                    }
                }
                for k in (1..v.len()).rev() { let q = rng.below(k as u64 + 1) as usize; v.swap(k, q); }
                scen.push((format!("rand{}", i), "random definition list".into(), v));
            }
            // mutated bundled database: entries deleted, duplicated, swapped
            let nmut = if o.thorough { 30 } else { 4 };
            for i in 0..nmut {
                let mut v: Vec<DefEntry> = text_defs(base_text);
                for _ in 0..(5 + rng.below(40)) {
                    let a = rng.below(v.len() as u64) as usize; let b = rng.below(v.len() as u64) as usize;
                    match rng.below(3) { 0 => { v.remove(a); } 1 => { let d = text_defs(base_text).into_iter().nth(a).unwrap(); v.insert(b.min(v.len()), d); } _ => v.swap(a, b) }
                }
                scen.push((format!("mut{}", i), "bundled database with entries deleted / duplicated / swapped".into(), v));
            }
            // keep the scenarios alive while writing
            for (id, desc, v) in &scen { add(id.clone(), desc.clone(), vec![v.iter().collect()], &mut names); }
        }
    }
    drop(add);
    // run the children in parallel
    let exe = std::env::current_exe().unwrap();
    let ids: Vec<String> = names.iter().map(|x| x.0.clone()).collect();
    let next = std::sync::Arc::new(std::sync::Mutex::new(0usize));
    let ids = std::sync::Arc::new(ids);
    let mut hs = vec![];
    for _ in 0..8 {
        let (next, ids, dir, exe) = (next.clone(), ids.clone(), dir.clone(), exe.clone());
        hs.push(std::thread::spawn(move || loop {
            let k = { let mut n = next.lock().unwrap(); let k = *n; *n += 1; k };
            if k >= ids.len() { break; }
            let scen = format!("{}/{}.tdefs", dir, ids[k]);
            let out = std::process::Command::new(&exe).arg("loadone").arg("--input").arg(&scen).env("RUST_BACKTRACE", "0").stderr(std::process::Stdio::null()).output();
            let text = match out {
                Ok(o) if o.status.success() => String::from_utf8_lossy(&o.stdout).into_owned(),
                Ok(o) => format!("abort {:?}\n", o.status.code()),
                Err(e) => format!("abort spawn {}\n", e),
            };
            std::fs::write(format!("{}/{}.impl.dump", dir, ids[k]), text).unwrap();
        }));
    }
    for h in hs { h.join().unwrap(); }
    crate::util::write_json(&format!("{}/scenarios.json", o.out), &serde_json::json!(names.iter().map(|(a, b)| serde_json::json!({"id": a, "desc": b})).collect::<Vec<_>>()));
    0
}
