//! Loader scenarios (C08 / C12 / C13): sequences of `Context::load` calls on lists of
//! definitions in tree form.  A scenario file holds blocks `begin` / `tdef …` / `end`; every
//! block is one `Context::load`.  `loadone` (a child process per scenario, so that a stack
//! overflow or abort is contained) prints the registry dump; `loadscen` generates scenarios and
//! runs the children in parallel.
use crate::c11_expr::parse_prefix_pub as parse_prefix;
use crate::loaddump::{dump_registry, fmt_def};
use crate::util::{hex, Opts, Rng};
use rink_core::ast::{Def, DefEntry, Defs, ExprString, Property};
use rink_core::Context;
use std::io::Write;
use std::rc::Rc;

static PANIC_AT: std::sync::Mutex<String> = std::sync::Mutex::new(String::new());

fn opt_unhex(s: &str) -> Option<String> { if s == "-" { None } else { Some(crate::evalsess::unhex(s)) } }

pub fn parse_tdef(line: &str) -> Option<DefEntry> {
    let t: Vec<&str> = line.split(' ').collect();
    if t.len() < 5 || t[0] != "tdef" { return None; }
    let name = crate::evalsess::unhex(t[1]);
    let doc = opt_unhex(&t[2][4..]);
    let category = opt_unhex(&t[3][4..]);
    let tree = |toks: &[&str]| -> Option<rink_core::ast::Expr> { let mut pos = 0; let e = parse_prefix(toks, &mut pos)?; if pos == toks.len() { Some(e) } else { None } };
    let def = match t[4] {
        "base" => Def::BaseUnit { long_name: opt_unhex(t.get(5)?) },
        "prefix" => Def::Prefix { is_long: *t.get(5)? == "1", expr: ExprString(tree(&t[6..])?) },
        "unit" => Def::Unit { expr: ExprString(tree(&t[5..])?) },
        "quantity" => Def::Quantity { expr: ExprString(tree(&t[5..])?) },
        "category" => Def::Category { display_name: crate::evalsess::unhex(t.get(5)?) },
        "error" => Def::Error { message: crate::evalsess::unhex(t.get(5)?) },
        "substance" => {
            let symbol = opt_unhex(t.get(5)?);
            let rest = t[6..].join(" ");
            let mut props = vec![];
            if !rest.trim().is_empty() {
                for g in rest.split(" ; ") {
                    let p: Vec<&str> = g.trim().split(' ').collect();
                    if p.len() < 6 || p[4] != "IN" { return None; }
                    let out_pos = p.iter().position(|x| *x == "OUT")?;
                    props.push(Property { name: crate::evalsess::unhex(p[0]), input_name: crate::evalsess::unhex(p[1]), output_name: crate::evalsess::unhex(p[2]),
                        doc: opt_unhex(&p[3][4..]), input: ExprString(tree(&p[5..out_pos])?), output: ExprString(tree(&p[out_pos + 1..])?) });
                }
            }
            Def::Substance { symbol, properties: props }
        }
        _ => return None,
    };
    Some(DefEntry { name, def: Rc::new(def), doc, category })
}

fn push_errors(errors: &mut Vec<String>, r: Result<(), String>) {
    if let Err(e) = r {
        if e.starts_with("Multiple errors") {
            // `Context::load` joins the messages with newlines; a message can itself span lines (a
            // quoted name may contain a line break), so a new message starts only at a known opening
            const STARTS: [&str; 11] = ["Unit ", "Prefix ", "Quantity ", "Substance ", "Def ", "warning: ", "Warning: ", "Doc conflict", "Category conflict", "unit ", "prefix "];
            let mut msgs: Vec<String> = vec![];
            for l in e.split('\n').skip(1) {
                let opens = l.strip_prefix("  ").map(|r| STARTS.iter().any(|p| r.starts_with(p)) || r.contains(" is not a number") || r.contains(" is malformed: ")).unwrap_or(false);
                if opens || msgs.is_empty() { msgs.push(l.strip_prefix("  ").unwrap_or(l).to_string()); } else { let last = msgs.last_mut().unwrap(); last.push('\n'); last.push_str(l); }
            }
            errors.extend(msgs);
        } else { errors.push("json".to_string()); }
    }
}

/// runs the blocks and directives of a scenario against a fresh context
fn load_scenario(text: &str) -> (Context, Vec<String>) {
    let mut ctx = Context::new();
    let mut errors: Vec<String> = vec![];
    let mut cur: Vec<DefEntry> = vec![];
    for line in text.lines() {
        if line.starts_with("begin") { cur = vec![]; }
        else if line.starts_with("end") {
            let defs = Defs { defs: std::mem::take(&mut cur) };
            push_errors(&mut errors, ctx.load(defs));
        } else if line.starts_with("tdef ") { if let Some(d) = parse_tdef(line) { cur.push(d); } }
        else if let Some(p) = line.strip_prefix("text ") {
            let t = std::fs::read_to_string(crate::evalsess::unhex(p.trim())).expect("read text file");
            push_errors(&mut errors, ctx.load_definitions(&t));
        } else if let Some(p) = line.strip_prefix("multitext ") {
            // what the CLI does with several definitions.units files: parse each, concatenate, one load
            let mut defs = vec![];
            for f in p.trim().split(' ') {
                let t = std::fs::read_to_string(crate::evalsess::unhex(f)).expect("read text file");
                defs.extend(rink_core::loader::gnu_units::parse_str(&t).defs);
            }
            push_errors(&mut errors, ctx.load(Defs { defs }));
        } else if let Some(p) = line.strip_prefix("currency ") {
            let (j, u) = p.trim().split_once(' ').expect("currency JSON UNITS");
            let jt = std::fs::read_to_string(crate::evalsess::unhex(j)).expect("read json");
            let ut = std::fs::read_to_string(crate::evalsess::unhex(u)).expect("read units");
            push_errors(&mut errors, ctx.load_currency(&jt, &ut));
        }
    }
    (ctx, errors)
}

/// every `name expr` unit definition of a scenario (tdef blocks and definitions texts)
fn scenario_unit_defs(text: &str) -> (Vec<(String, rink_core::ast::Expr)>, Vec<String>) {
    let mut out = vec![];
    let mut scratch = vec![];
    let mut take = |d: &DefEntry| match &*d.def {
        Def::Unit { expr } => out.push((d.name.clone(), expr.0.clone())),
        // the names a substance block binds while it is being read
        Def::Substance { properties, .. } => for p in properties { scratch.extend([p.name.clone(), p.input_name.clone(), p.output_name.clone()]); },
        _ => {}
    };
    for line in text.lines() {
        if line.starts_with("tdef ") { if let Some(d) = parse_tdef(line) { take(&d); } }
        else if let Some(p) = line.strip_prefix("text ").or_else(|| line.strip_prefix("multitext ")) {
            for f in p.trim().split(' ') {
                if let Ok(t) = std::fs::read_to_string(crate::evalsess::unhex(f)) { for d in rink_core::loader::gnu_units::parse_str(&t).defs.iter() { take(d); } }
            }
        }
    }
    scratch.sort(); scratch.dedup();
    (out, scratch)
}

/// The predicates of C08 computed on the real registry (independent of the model).
fn oracle(ctx: &mut Context, unit_defs: &[(String, rink_core::ast::Expr)], scratch: &[String], w: &mut impl Write) {
    // what the scratch names of the substance blocks denote now, and in a fresh context holding the same registry
    let seen: Vec<Option<rink_core::types::Number>> = scratch.iter().map(|n| ctx.lookup(n)).collect();
    let mut fresh = Context::new();
    std::mem::swap(&mut fresh.registry, &mut ctx.registry);
    let mut leaked: Vec<String> = scratch.iter().zip(seen.iter()).filter(|(n, v)| fresh.lookup(n) != **v).map(|(n, _)| n.clone()).collect();
    std::mem::swap(&mut fresh.registry, &mut ctx.registry);
    let ctx = &*ctx;
    use rink_core::ast::Expr;
    use rink_core::runtime::Value;
    let r = &ctx.registry;
    let mut line = |tag: &str, mut l: Vec<String>| { l.sort(); writeln!(w, "oracle {} {} {}", tag, l.len(), l.iter().map(|x| hex(x)).collect::<Vec<_>>().join(" ")).unwrap(); };
    let mut bad = vec![];
    let mut checked = 0usize;
    for (n, e) in &r.definitions {
        if let Some(v) = r.units.get(n) {
            checked += 1;
            match ctx.eval(e) { Ok(Value::Number(x)) if x == *v => {}, _ => bad.push(n.clone()) }
        }
    }
    line("fixedPointBad", bad);
    let mut foreign = vec![];
    for (n, v) in &r.units { if v.unit.iter().any(|(k, p)| !r.base_units.contains(k) || *p == 0) { foreign.push(n.clone()); } }
    line("foreignDims", foreign);
    let mut seen = std::collections::BTreeMap::new();
    let mut qbad = vec![];
    for (_, n) in &r.quantities { if seen.insert(n.clone(), ()).is_some() { qbad.push(n.clone()); } }
    line("quantityMismatch", qbad);
    let mut dangling = vec![];
    for (n, e) in &r.definitions {
        if !r.units.contains_key(n) { continue; }
        if let Expr::Unit { name } = e {
            let mut t = name.clone();
            let mut steps = 0usize;
            loop {
                if r.base_units.contains(&t[..]) { break; }
                match r.definitions.get(&t) { Some(Expr::Unit { name }) => { t = name.clone(); steps += 1; if steps > r.definitions.len() { break; } } _ => break }
            }
            if steps > r.definitions.len() || ctx.lookup(&t).is_none() { dangling.push(n.clone()); }
        }
    }
    line("danglingAliases", dangling);
    let exists = |n: &str| r.units.contains_key(n) || r.definitions.contains_key(n) || r.base_units.contains(n) || r.prefixes.iter().any(|(p, _)| p == n)
        || r.quantities.values().any(|q| q == n) || r.substances.contains_key(n) || r.category_names.contains_key(n);
    let mut orphans = vec![];
    for (n, _) in &r.docs { if !exists(n) { orphans.push(format!("doc:{}", n)); } }
    for (n, c) in &r.categories { if !exists(n) { orphans.push(format!("category:{}", n)); } else if !r.category_names.contains_key(c) { orphans.push(format!("undeclared-category:{}", c)); } }
    line("orphans", orphans);
    // unit definitions whose value is a substance (`air`, `Hg`, ...): the stored substance is what the
    // definition text denotes in the finished database
    let same = |a: &rink_core::runtime::Substance, b: &rink_core::runtime::Substance| {
        a.amount == b.amount && a.properties.name == b.properties.name && a.properties.properties.len() == b.properties.properties.len()
            && a.properties.properties.iter().zip(b.properties.properties.iter()).all(|((k1, p1), (k2, p2))|
                k1 == k2 && p1.input == p2.input && p1.output == p2.output && p1.input_name == p2.input_name && p1.output_name == p2.output_name)
    };
    let mut sbad = vec![];
    let mut schecked = 0usize;
    for (n, e) in unit_defs {
        if r.units.contains_key(n) { continue; }
        if let Some(stored) = r.substances.get(n) {
            schecked += 1;
            match ctx.eval(e) {
                Ok(Value::Substance(sub)) => {
                    let sub = if sub.properties.name.contains('+') { sub.rename(n.clone()) } else { sub };
                    if !same(&sub, stored) { sbad.push(n.clone()); }
                }
                _ => sbad.push(n.clone()),
            }
        }
    }
    line("fixedPointSubstBad", sbad);
    // after loading, a name denotes what the database holds for it: nothing of a substance block is left behind
    let mut stale = vec![];
    for (n, v) in r.units.iter() {
        if n == "ans" || n == "ANS" || n == "_" { continue; }
        if !r.base_units.contains(&n[..]) { if ctx.lookup(n).as_ref() != Some(v) { stale.push(n.clone()); } }
    }
    stale.append(&mut leaked);
    line("staleNames", stale);
    writeln!(w, "oracle fixedPointChecked {}", checked).unwrap();
    writeln!(w, "oracle fixedPointSubstChecked {}", schecked).unwrap();
}

/// child: load one scenario, print the dump (or `panic`)
pub fn loadone(o: &Opts) -> i32 {
    let text = std::fs::read_to_string(o.input.as_ref().expect("--input")).expect("read scenario");
    std::panic::set_hook(Box::new(|info| {
        let loc = info.location().map(|l| format!("{}:{}", l.file(), l.line())).unwrap_or_default();
        let msg = info.payload().downcast_ref::<&str>().map(|s| s.to_string()).or_else(|| info.payload().downcast_ref::<String>().cloned()).unwrap_or_default();
        *PANIC_AT.lock().unwrap() = format!("{} {}", loc, msg.replace('\n', " "));
    }));
    let res = std::panic::catch_unwind(|| {
        let (mut ctx, errors) = load_scenario(&text);
        // loading is a function of the input: a second load gives the same database
        let (ctx2, errors2) = load_scenario(&text);
        let mut d1 = vec![]; dump_registry(&ctx, &errors, &mut d1);
        let mut d2 = vec![]; dump_registry(&ctx2, &errors2, &mut d2);
        // the context must still answer queries about whatever did load
        ctx.use_humanize = false;
        let usable = match rink_core::one_line(&mut ctx, "1 + 1") { Ok(s) => s.starts_with('2'), Err(_) => false };
        let mut probes = vec![];
        let names: Vec<String> = ctx.registry.units.keys().take(2000).cloned().collect();
        for n in names.iter().step_by((names.len() / 20).max(1)) { let _ = rink_core::one_line(&mut ctx, n); probes.push(n.clone()); }
        let syms: Vec<String> = ctx.registry.substance_symbols.keys().take(12).cloned().collect();
        for sy in syms { let q = format!("{}2", sy); let _ = rink_core::one_line(&mut ctx, &q); probes.push(q); }
        let subs: Vec<String> = ctx.registry.substances.keys().take(12).cloned().collect();
        for sb in subs {
            let _ = rink_core::one_line(&mut ctx, &sb); let q = format!("2 {}", sb); let _ = rink_core::one_line(&mut ctx, &q); probes.push(q);
            // every property, by its own name and by its input / output names, of the bare and of a scaled substance
            let props: Vec<(String, String, String)> = ctx.registry.substances.get(&sb).map(|s| s.properties.properties.iter().take(6).map(|(k, p)| (k.clone(), p.input_name.clone(), p.output_name.clone())).collect()).unwrap_or_default();
            for (k, i, o) in props {
                for q in [format!("{} of {}", k, sb), format!("{} of {}", i, sb), format!("{} of {}", o, sb), format!("{} of 3 {}", k, sb), format!("{} -> {}", sb, k), format!("{} + {}", sb, sb)] {
                    let _ = rink_core::one_line(&mut ctx, &q); probes.push(q);
                }
            }
        }
        (ctx, errors, usable, d1 == d2, probes.len())
    });
    // the definitions parser prints its syntax diagnostics on stdout, so the dump goes to a file
    let mut w = std::io::BufWriter::new(std::fs::File::create(std::env::var("RKH_DUMP").expect("RKH_DUMP")).expect("create dump"));
    match res {
        Ok((ctx, errors, usable, same, probes)) => {
            dump_registry(&ctx, &errors, &mut w);
            // the unit definitions of the scenario, re-read for the substance part of the fixed point (only
            // when loading reported nothing; the parser's diagnostics of this second reading do not count)
            println!("@@oracle-reparse");
            let (unit_defs, scratch) = scenario_unit_defs(&text);
            let unit_defs = if errors.is_empty() { unit_defs } else { vec![] };
            let mut ctx = ctx;
            oracle(&mut ctx, &unit_defs, &scratch, &mut w);
            writeln!(w, "usable {} probes {}", usable, probes).unwrap();
            writeln!(w, "deterministic {}", same).unwrap();
        }
        Err(_) => writeln!(w, "panic {}", PANIC_AT.lock().unwrap()).unwrap(),
    }
    w.flush().unwrap();
    0
}

fn write_scenario(path: &str, blocks: &[Vec<&DefEntry>]) {
    let mut f = std::io::BufWriter::new(std::fs::File::create(path).expect("create scenario"));
    for b in blocks {
        writeln!(f, "begin").unwrap();
        for d in b { writeln!(f, "tdef {}", fmt_def(d)).unwrap(); }
        writeln!(f, "end").unwrap();
    }
    f.flush().unwrap();
}

fn write_text_scenario(dir: &str, id: &str, text: &str) {
    let path = format!("{}/{}.units", dir, id);
    std::fs::write(&path, text).unwrap();
    std::fs::write(format!("{}/{}.tdefs", dir, id), format!("text {}\n", hex(&path))).unwrap();
}

/// a scenario that loads `base` text and then currency data from `json`
fn write_json_scenario(dir: &str, id: &str, base: &str, json: &str, cur_units: &str) {
    let bpath = format!("{}/{}.base.units", dir, id);
    std::fs::write(&bpath, base).unwrap();
    let jpath = format!("{}/{}.json", dir, id);
    std::fs::write(&jpath, json).unwrap();
    let upath = format!("{}/{}.currency.units", dir, id);
    std::fs::write(&upath, cur_units).unwrap();
    // the model reads the JSON in line form; what the typed deserializer rejects is `jsonerror`
    // (on a thread with a very large stack: the typed deserializer parses every expression text recursively)
    let js = json.to_string();
    let jd = std::thread::Builder::new().stack_size(2 << 30).spawn(move || {
        let typed: Result<Vec<DefEntry>, _> = serde_json::from_str(&js);
        if typed.is_ok() { crate::loaddump::jsondefs_text(&js) } else { "jsonerror\n".to_string() }
    }).unwrap().join().unwrap_or_else(|_| "jsonerror\n".to_string());
    std::fs::write(format!("{}.jdefs", jpath), jd).unwrap();
    std::fs::write(format!("{}/{}.tdefs", dir, id), format!("text {}\ncurrency {} {}\n", hex(&bpath), hex(&jpath), hex(&upath))).unwrap();
}

fn mutate_lines(rng: &mut Rng, text: &str, n: u64) -> String {
    let mut lines: Vec<String> = text.lines().map(|l| l.to_string()).collect();
    for _ in 0..n {
        if lines.is_empty() { break; }
        let a = rng.below(lines.len() as u64) as usize;
        let b = rng.below(lines.len() as u64) as usize;
        match rng.below(7) {
            0 => { lines.remove(a); }
            1 => { let l = lines[a].clone(); lines.insert(b, l); }
            2 => lines.swap(a, b),
            3 | 4 => {
                // token level
                let mut toks: Vec<String> = lines[a].split_whitespace().map(|t| t.to_string()).collect();
                if toks.is_empty() { continue; }
                let i = rng.below(toks.len() as u64) as usize;
                let j = rng.below(toks.len() as u64) as usize;
                match rng.below(4) { 0 => { toks.remove(i); } 1 => { let t = toks[i].clone(); toks.insert(j, t); } 2 => toks.swap(i, j),
                    _ => { let t = (*rng.pick(&["{", "}", "!", "??", "(", ")", "^", "|", "/", "-", "+", "*", "!category", "!endcategory", "!symbol", "!unknown", "\"", "\\u", "\\u{110000}", "0", "1e999999", "1|0", "#"])).to_string(); toks.insert(i, t); } }
                lines[a] = toks.join(" ");
            }
            5 => {
                // character level
                let mut cs: Vec<char> = lines[a].chars().collect();
                if cs.is_empty() { continue; }
                let i = rng.below(cs.len() as u64) as usize;
                match rng.below(3) { 0 => { cs.remove(i); } 1 => cs.insert(i, *rng.pick(&['{', '}', '(', ')', '"', '\\', '#', '!', '?', '^', '\u{0}', '\u{e9}', '\u{2126}', '\t', '\r'])), _ => { let c = cs[i]; cs.insert(i, c); } }
                lines[a] = cs.into_iter().collect();
            }
            _ => { let l = lines.len(); lines.truncate(a.max(1).min(l)); }
        }
    }
    lines.join("\n") + "\n"
}

fn random_units_text(rng: &mut Rng) -> String {
    let mut t = String::new();
    let n = 5 + rng.below(40);
    let name = |rng: &mut Rng| -> String { match rng.below(8) { 0 => "m".into(), 1 => "s".into(), 2 => "kg".into(), 3 => format!("u{}", rng.below(n)), 4 => format!("kilou{}", rng.below(n)), 5 => format!("u{}s", rng.below(n)), 6 => format!("{}", rng.below(7)), _ => format!("{}.{}e{}", rng.below(9), rng.below(99), rng.range(-4, 5)) } };
    let expr = |rng: &mut Rng| -> String {
        let a = name(rng); let b = name(rng);
        match rng.below(12) { 0 => format!("{} {}", a, b), 1 => format!("{} / {}", a, b), 2 => format!("{}^{}", a, rng.range(-3, 4)), 3 => format!("{} + {}", a, b), 4 => format!("{}|{}", rng.below(4), rng.below(4)),
            5 => format!("-{}", a), 6 => format!("({} {}) / ({} - {})", a, b, b, a), 7 => format!("{} per {}", a, b), 8 => format!("sqrt({})", a), 9 => format!("{}^({}|{})", a, rng.below(3), rng.below(3)), 10 => format!("{} * {}", a, b), _ => a }
    };
    t.push_str("m !\ns !\nkg !kilogram\nkilo- 1e3\nk- kilo\n");
    let mut in_cat = false;
    for j in 0..n {
        match rng.below(16) {
            0 => { if in_cat { t.push_str("!endcategory\n"); } t.push_str(&format!("!category cat{} \"Category {}\"\n", rng.below(4), j)); in_cat = true; }
            1 => { t.push_str("!endcategory\n"); in_cat = false; }
            2 => t.push_str(&format!("?? documentation for the next entry {}\n", j)),
            3 => t.push_str(&format!("pf{}- {}\n", rng.below(3), expr(rng))),
            4 => t.push_str(&format!("PF{}-- pf{}\n", rng.below(3), rng.below(3))),
            5 => t.push_str(&format!("q{} ? {}\n", rng.below(5), *rng.pick(&["m", "s", "kg", "m / s", "q0 q1", "q2^2", "m^0", "1", "q9", "2 m", "m + s"]))),
            6 => {
                t.push_str(&format!("sub{} {{\n", rng.below(6)));
                for _ in 0..rng.below(4) {
                    if rng.chance(1, 4) { t.push_str("    ?? property doc\n"); }
                    if rng.chance(1, 2) { t.push_str(&format!("    prop{} out{} {} / in{} {}\n", rng.below(4), rng.below(3), expr(rng), rng.below(3), expr(rng))); }
                    else if rng.chance(1, 3) { t.push_str(&format!("    u{} const u{} {}\n", rng.below(n), rng.below(n), expr(rng))); }
                    else { t.push_str(&format!("    const{} name{} {}\n", rng.below(4), rng.below(3), expr(rng))); }
                }
                if !rng.chance(1, 10) { t.push_str("}\n"); }
            }
            7 => t.push_str(&format!("!symbol sub{} S{}\n", rng.below(6), rng.below(4))),
            8 => t.push_str(&format!("u{} !\n", rng.below(n))),
            9 => t.push_str(&format!("u{} !long{}\n", j, rng.below(n))),
            10 => t.push_str(&format!("# a comment {}\n", j)),
            _ => t.push_str(&format!("u{} {}\n", if rng.chance(1, 8) { rng.below(n) } else { j }, expr(rng))),
        }
    }
    t
}

fn unit(name: &str, expr: &str) -> DefEntry {
    let mut it = rink_core::loader::gnu_units::TokenIterator::new(expr).peekable();
    let e = rink_core::loader::gnu_units::parse_expr(&mut it);
    DefEntry { name: name.to_string(), def: Rc::new(Def::Unit { expr: ExprString(e) }), doc: None, category: None }
}

fn text_defs(text: &str) -> Vec<DefEntry> { rink_core::loader::gnu_units::parse_str(text).defs }

pub fn run(o: &Opts) -> i32 {
    let kind = o.extra.iter().find_map(|x| x.strip_prefix("--kind=")).unwrap_or("c08").to_string();
    let dir = format!("{}/scen", o.out);
    let _ = std::fs::remove_dir_all(&dir);
    std::fs::create_dir_all(&dir).unwrap();
    let mut rng = Rng::new(o.seed);
    let base_text = rink_core::DEFAULT_FILE.unwrap();
    let cur_text = rink_core::CURRENCY_FILE.unwrap();
    let json = std::fs::read_to_string("/repo/core/tests/currency.snapshot.json").unwrap_or_default();
    let base: Vec<DefEntry> = text_defs(base_text);
    let mut names: Vec<(String, String)> = vec![]; // (scenario id, description)
    let mut add = |id: String, desc: String, blocks: Vec<Vec<&DefEntry>>, names: &mut Vec<(String, String)>| {
        write_scenario(&format!("{}/{}.tdefs", dir, id), &blocks);
        names.push((id, desc));
    };
    match kind.as_str() {
        "c08" => {
            write_text_scenario(&dir, "bundled", base_text);
            names.push(("bundled".into(), "definitions.units (as compiled into rink-core)".into()));
            write_json_scenario(&dir, "bundled+currency", base_text, &json, cur_text);
            names.push(("bundled+currency".into(), "definitions.units, then load_currency(snapshot, currency.units)".into()));
            write_text_scenario(&dir, "bundled-again", base_text);
            names.push(("bundled-again".into(), "definitions.units, a second process (determinism)".into()));
            // the same through the tree form (separates the parser from the loader)
            add("bundled-tree".into(), "definitions.units as parsed definitions".into(), vec![base.iter().collect()], &mut names);
        }
        "c12" => {
            // unique names: keep the last declaration of a category id that is declared more than once
            let mut seen = std::collections::BTreeSet::new();
            let mut uniq: Vec<&DefEntry> = vec![];
            for d in base.iter().rev() {
                let ns = match *d.def { Def::Prefix { .. } => 1, Def::Quantity { .. } => 2, Def::Category { .. } => 3, _ => 0 };
                if seen.insert((ns, d.name.clone())) { uniq.push(d); }
            }
            uniq.reverse();
            let n = uniq.len();
            add("identity".into(), "original order".into(), vec![uniq.clone()], &mut names);
            let mut rev = uniq.clone(); rev.reverse();
            add("reversed".into(), "reversed".into(), vec![rev], &mut names);
            for (i, k) in [n / 3, 2 * n / 3].iter().enumerate() { let mut r = uniq.clone(); r.rotate_left(*k); add(format!("rot{}", i), format!("rotated by {}", k), vec![r], &mut names); }
            let nsh = if o.thorough { 40 } else { 3 };
            for i in 0..nsh {
                let mut r = uniq.clone();
                for j in (1..r.len()).rev() { let k = rng.below(j as u64 + 1) as usize; r.swap(j, k); }
                add(format!("shuffle{}", i), format!("random permutation #{}", i), vec![r], &mut names);
            }
            // the bundled text split into 1..3 files at category boundaries, in every file order
            {
                // the premise of C12 is uniquely named definitions: a category id declared twice
                // (the bundled file declares `japanese` twice) gets one display name
                let mut last: std::collections::BTreeMap<String, String> = Default::default();
                for l in base_text.lines() { if let Some(rest) = l.strip_prefix("!category ") { last.insert(rest.split_whitespace().next().unwrap_or("").to_string(), l.to_string()); } }
                let uniq_text: String = base_text.lines().map(|l| match l.strip_prefix("!category ") {
                    Some(rest) => last.get(rest.split_whitespace().next().unwrap_or("")).cloned().unwrap_or_else(|| l.to_string()),
                    None => l.to_string(),
                }).collect::<Vec<_>>().join("\n");
                let lines: Vec<&str> = uniq_text.lines().collect();
                let cuts: Vec<usize> = lines.iter().enumerate().filter(|(i, l)| l.starts_with("!category") && *i > 0 && lines[..*i].iter().rev().find(|x| x.starts_with('!')).map(|x| x.starts_with("!endcategory")).unwrap_or(false)).map(|(i, _)| i).collect();
                let nsplit = if o.thorough { 12 } else { 3 };
                for k in 0..nsplit {
                    let mut cs: Vec<usize> = vec![];
                    let parts = 2 + (k % 2);
                    while cs.len() < parts - 1 { let c = *rng.pick(&cuts); if !cs.contains(&c) { cs.push(c); } }
                    cs.sort();
                    let mut files = vec![]; let mut prev = 0;
                    for c in cs.iter().chain(std::iter::once(&lines.len())) { files.push(lines[prev..*c].join("\n") + "\n"); prev = *c; }
                    let mut order: Vec<usize> = (0..files.len()).collect();
                    if k > 0 { for j in (1..order.len()).rev() { let q = rng.below(j as u64 + 1) as usize; order.swap(j, q); } if order.iter().enumerate().all(|(a, b)| a == *b) { order.reverse(); } }
                    let mut paths = vec![];
                    for (j, f) in files.iter().enumerate() { let path = format!("{}/split{}.{}.units", dir, k, j); std::fs::write(&path, f).unwrap(); paths.push(path); }
                    let id = format!("split{}", k);
                    std::fs::write(format!("{}/{}.tdefs", dir, id), format!("multitext {}\n", order.iter().map(|j| hex(&paths[*j])).collect::<Vec<_>>().join(" "))).unwrap();
                    names.push((id, format!("definitions.units split into {} files at lines {:?}, loaded in file order {:?}", files.len(), cs, order)));
                }
            }
            // generated databases: deep chains and wide fans, permuted
            let mut gen: Vec<DefEntry> = vec![DefEntry { name: "b0".into(), def: Rc::new(Def::BaseUnit { long_name: Some("base0".into()) }), doc: None, category: None }];
            for i in 1..300 { gen.push(unit(&format!("chain{}", i), &if i == 1 { "2 b0".to_string() } else { format!("3 chain{}", i - 1) })); }
            for i in 0..200 { gen.push(unit(&format!("fan{}", i), &format!("chain{} chain{} / chain{}", 1 + rng.below(299), 1 + rng.below(299), 1 + rng.below(299)))); }
            // a chain whose alphabetically first name depends on all the others (the dependency sort enters it from the dependent end)
            for i in 0..400 { gen.push(unit(&format!("link{:03}", i), &if i == 399 { "5 b0".to_string() } else { format!("2 link{:03}", i + 1) })); }
            // references to a base unit by its long name, from names sorting before and after the base unit's own
            gen.push(unit("abc0", "3 base0")); gen.push(unit("zbc0", "4 base0 abc0")); gen.push(unit("abd0", "7 kilobase0s"));
            gen.push(DefEntry { name: "kilo".into(), def: Rc::new(Def::Prefix { expr: ExprString(rink_core::ast::Expr::new_const(rink_core::types::Numeric::from(1000))), is_long: true }), doc: None, category: None });
            gen.push(unit("usesprefix", "kilochain7 + 1 chain8"));
            // names that can be read in more than one way: overlapping prefixes (`d` + `am` / `da` + `m`),
            // prefix + plural, unit vs prefix vs quantity of one name, categories and docs on every kind
            let mkp = |n: &str, v: &str, long: bool| { let mut it = rink_core::loader::gnu_units::TokenIterator::new(v).peekable(); DefEntry { name: n.into(), def: Rc::new(Def::Prefix { expr: ExprString(rink_core::loader::gnu_units::parse_expr(&mut it)), is_long: long }), doc: Some(format!("doc of prefix {}", n)), category: None } };
            gen.push(DefEntry { name: "lengths".into(), def: Rc::new(Def::Category { display_name: "Lengths".into() }), doc: None, category: None });
            gen.push(DefEntry { name: "m".into(), def: Rc::new(Def::BaseUnit { long_name: Some("meter".into()) }), doc: Some("the metre".into()), category: Some("lengths".into()) });
            gen.push(DefEntry { name: "am".into(), def: Rc::new(Def::BaseUnit { long_name: None }), doc: None, category: Some("lengths".into()) });
            gen.push(mkp("d", "1|10", false)); gen.push(mkp("da", "10", false)); gen.push(mkp("deci", "d", true)); gen.push(mkp("a", "1|1000", false)); gen.push(mkp("ab", "7", false));
            // chemical formulas and element symbols used by names that sort before the elements they need
            {
                let mkprop = |name: &str, inn: &str, i: &str, outn: &str, o: &str| { let mut a = rink_core::loader::gnu_units::TokenIterator::new(i).peekable(); let mut b = rink_core::loader::gnu_units::TokenIterator::new(o).peekable();
                    Property { name: name.into(), input_name: inn.into(), output_name: outn.into(), doc: None, input: ExprString(rink_core::loader::gnu_units::parse_expr(&mut a)), output: ExprString(rink_core::loader::gnu_units::parse_expr(&mut b)) } };
                let bu = |n: &str| DefEntry { name: n.into(), def: Rc::new(Def::BaseUnit { long_name: None }), doc: None, category: None };
                gen.push(bu("kg")); gen.push(bu("mol"));
                gen.push(DefEntry { name: "zirkon".into(), doc: None, category: None, def: Rc::new(Def::Substance { symbol: Some("Zq".into()), properties: vec![mkprop("molar_mass", "amount", "1 mol", "mass", "5 kg")] }) });
                gen.push(DefEntry { name: "yttrum".into(), doc: None, category: None, def: Rc::new(Def::Substance { symbol: Some("Yq".into()), properties: vec![mkprop("molar_mass", "amount", "1 mol", "mass", "7 kg")] }) });
                gen.push(unit("aaformula", "Zq2Yq")); gen.push(unit("zzformula", "Zq3")); gen.push(unit("aaelement", "3 Yq"));
            }
            // a unit and a quantity of one name, each with its own doc (reported as a doc conflict; which doc is kept must
            // not depend on the order of the list)
            { let mut d = unit("span", "2 m"); d.doc = Some("the unit span".into()); gen.push(d);
              let mut it = rink_core::loader::gnu_units::TokenIterator::new("m^3").peekable();
              gen.push(DefEntry { name: "span".into(), def: Rc::new(Def::Quantity { expr: ExprString(rink_core::loader::gnu_units::parse_expr(&mut it)) }), doc: Some("the quantity span".into()), category: None }); }
            // a unit and a prefix of one name, and a prefix alias that refers to the prefix
            gen.push(unit("twin", "3 m")); gen.push(mkp("twin", "1000", false)); gen.push(mkp("tw", "twin", false)); gen.push(unit("abtwin", "2 twm")); gen.push(unit("zztwin", "2 twinm + 1 twin"));
            // the plural of a one-letter unit, used by a name that sorts before it
            gen.push(unit("z", "3 m")); gen.push(unit("batch", "12 zs"));
            // an identifier in an exponent, defined under a name that sorts after its user
            gen.push(unit("aexp", "2^zzexp m")); gen.push(unit("zzexp", "3")); gen.push(unit("aexp2", "(3 m)^(zzexp - 1)"));
            // a name that is both prefix + unit and the plural of another unit (`ks` = k + s, not the plural of the unit k)
            gen.push(DefEntry { name: "s".into(), def: Rc::new(Def::BaseUnit { long_name: None }), doc: None, category: None });
            gen.push(mkp("k", "1000", false)); gen.push(unit("k", "5 m")); gen.push(unit("aab", "3 ks")); gen.push(unit("zab", "3 ks"));
            gen.push(unit("bc", "3 m")); gen.push(unit("c", "5 am")); gen.push(unit("mas", "11 m")); gen.push(unit("ma", "13 am"));
            for (n, e) in [("amb1", "1 dam"), ("amb2", "2 abc"), ("amb3", "3 mas"), ("amb4", "4 dmas"), ("amb5", "5 dams"), ("amb6", "decimeter + 1 dm"), ("amb7", "meter / am"), ("amb8", "damb1"), ("amb9", "2 amb8s")] {
                let mut d = unit(n, e); d.category = Some("lengths".into()); d.doc = Some(format!("doc of {}", n)); gen.push(d);
            }
            { let mut it = rink_core::loader::gnu_units::TokenIterator::new("m").peekable(); gen.push(DefEntry { name: "length".into(), def: Rc::new(Def::Quantity { expr: ExprString(rink_core::loader::gnu_units::parse_expr(&mut it)) }), doc: None, category: None }); }
            { let mut it = rink_core::loader::gnu_units::TokenIterator::new("length^2").peekable(); gen.push(DefEntry { name: "area".into(), def: Rc::new(Def::Quantity { expr: ExprString(rink_core::loader::gnu_units::parse_expr(&mut it)) }), doc: None, category: None }); }
            let g0: Vec<&DefEntry> = gen.iter().collect();
            add("gen-identity".into(), "generated chain/fan database".into(), vec![g0.clone()], &mut names);
            let mut g1 = g0.clone(); g1.reverse();
            add("gen-reversed".into(), "generated database, reversed (every reference is a forward reference)".into(), vec![g1], &mut names);
            for i in 0..(if o.thorough { 20 } else { 3 }) {
                let mut r = g0.clone();
                for j in (1..r.len()).rev() { let k = rng.below(j as u64 + 1) as usize; r.swap(j, k); }
                add(format!("gen-shuffle{}", i), format!("generated database, random permutation #{}", i), vec![r], &mut names);
            }
        }
        "c07" => {
            // name resolution while a substance block is loaded: Context::lookup consults the block's own
            // names (temporaries) before the database
            let bu = |n: &str| DefEntry { name: n.into(), def: Rc::new(Def::BaseUnit { long_name: None }), doc: None, category: None };
            let sub = |name: &str, props: Vec<(&str, &str, &str, &str, &str)>| DefEntry { name: name.into(), doc: None, category: None, def: Rc::new(Def::Substance { symbol: None,
                properties: props.into_iter().map(|(n, inn, i, outn, o)| { let mut a = rink_core::loader::gnu_units::TokenIterator::new(i).peekable(); let mut b = rink_core::loader::gnu_units::TokenIterator::new(o).peekable();
                    Property { name: n.into(), input_name: inn.into(), output_name: outn.into(), doc: None, input: ExprString(rink_core::loader::gnu_units::parse_expr(&mut a)), output: ExprString(rink_core::loader::gnu_units::parse_expr(&mut b)) } }).collect() }) };
            let a = vec![bu("m"), bu("kg"), unit("len", "6 m"), unit("mass", "7 m"),
                sub("thing", vec![("size", "sizein", "1", "len", "10 m"), ("double", "din", "1", "dout", "2 len"), ("weight", "win", "1", "mass", "3 kg"), ("dens", "volume", "1 m^3", "densout", "mass")])];
            add("shadow-unit".into(), "a property named like a unit shadows it inside its substance".into(), vec![a.iter().collect()], &mut names);
            let b = vec![bu("m"), bu("s"), unit("year", "31557600 s"), unit("mas", "3 m"),
                sub("planet", vec![("mass", "massin", "1", "massout", "5 m^3"), ("year", "yin", "1", "yout", "2 s"), ("spin", "spinin", "1", "spinout", "1 / year"), ("ratio", "rin", "1", "rout", "mass / yout")])];
            add("shadow-plural".into(), "property names that also read as a plural / an exact unit".into(), vec![b.iter().collect()], &mut names);
            // the same on top of the bundled database (`mass` reads as the plural of `mas`, `year` is a unit)
            let mut c: Vec<DefEntry> = text_defs(base_text);
            c.push(sub("c07planet", vec![("mass", "massin", "1", "massout", "6 kg"), ("volume", "volin", "1", "volout", "2 m^3"), ("year", "yearin", "1", "yearout", "10 s"), ("density", "din", "1", "dout", "massout / volout"), ("spin", "sin", "1", "sout", "1 / yearout"), ("rho", "rin", "1", "rout", "mass / volume")]));
            add("shadow-bundled".into(), "a user substance on top of the bundled database whose property names collide with database names".into(), vec![c.iter().collect()], &mut names);
        }
        _ => {
            // c13: hostile definition lists
            let mut scen: Vec<(String, String, Vec<DefEntry>)> = vec![];
            let bu = |n: &str| DefEntry { name: n.into(), def: Rc::new(Def::BaseUnit { long_name: None }), doc: None, category: None };
            let pre = |n: &str, e: &str, long: bool| { let mut it = rink_core::loader::gnu_units::TokenIterator::new(e).peekable(); DefEntry { name: n.into(), def: Rc::new(Def::Prefix { expr: ExprString(rink_core::loader::gnu_units::parse_expr(&mut it)), is_long: long }), doc: None, category: None } };
            let qty = |n: &str, e: &str| { let mut it = rink_core::loader::gnu_units::TokenIterator::new(e).peekable(); DefEntry { name: n.into(), def: Rc::new(Def::Quantity { expr: ExprString(rink_core::loader::gnu_units::parse_expr(&mut it)) }), doc: None, category: None } };
            scen.push(("cycle2".into(), "a = b, b = a".into(), vec![unit("a", "b"), unit("b", "a")]));
            scen.push(("selfcycle".into(), "a = a".into(), vec![unit("a", "2 a")]));
            for len in [3usize, 50, 1000, if o.thorough { 6000 } else { 3000 }] {
                let mut v = vec![]; for i in 0..len { v.push(unit(&format!("c{}", i), &format!("2 c{}", (i + 1) % len))); }
                scen.push((format!("cycle{}", len), format!("cycle of length {}", len), v));
                let mut v = vec![bu("m")]; for i in 0..len { v.push(unit(&format!("al{}", i), &if i == 0 { "m".to_string() } else { format!("al{}", i - 1) })); }
                scen.push((format!("alias{}", len), format!("alias chain of length {} (reversed: deepest recursion)", len), v.into_iter().rev().collect()));
            }
            scen.push(("prefix-cycle".into(), "prefix cycle".into(), vec![pre("foo", "bar", true), pre("bar", "foo", true)]));
            scen.push(("prefix-div0".into(), "prefix 1|0".into(), vec![pre("foo", "1|0", true), bu("m"), unit("x", "foom")]));
            scen.push(("prefix-pow".into(), "prefix 0^-1".into(), vec![pre("foo", "0^-1", true)]));
            scen.push(("prefix-hugepow".into(), "prefix 10^99999999999".into(), vec![pre("foo", "10^99999999999", true)]));
            scen.push(("quantity-cycle".into(), "quantity cycle".into(), vec![qty("qa", "qb"), qty("qb", "qa")]));
            scen.push(("quantity-overflow".into(), "quantity exponent overflow".into(), vec![bu("m"), qty("big", "m^9223372036854775807"), qty("bigger", "big^2")]));
            scen.push(("quantity-zero".into(), "quantity m^0".into(), vec![bu("m"), qty("nothing", "m^0"), qty("dimensionless", "1")]));
            scen.push(("quantity-conflict".into(), "two quantities of one dimensionality".into(), vec![bu("m"), qty("length", "m"), qty("distance", "m")]));
            scen.push(("dup-units".into(), "duplicate unit names".into(), vec![bu("m"), unit("x", "2 m"), unit("x", "3 m")]));
            scen.push(("missing".into(), "reference to a missing unit".into(), vec![unit("x", "2 nosuch"), unit("y", "3 x")]));
            scen.push(("error-def".into(), "Def::Error entry".into(), vec![DefEntry { name: "bad".into(), def: Rc::new(Def::Error { message: "boom".into() }), doc: None, category: None }]));
            let subst = |name: &str, props: Vec<(&str, &str, &str, &str, &str)>| DefEntry { name: name.into(), doc: None, category: None, def: Rc::new(Def::Substance { symbol: None,
                properties: props.into_iter().map(|(n, inn, i, outn, o)| { let mut a = rink_core::loader::gnu_units::TokenIterator::new(i).peekable(); let mut b = rink_core::loader::gnu_units::TokenIterator::new(o).peekable();
                    Property { name: n.into(), input_name: inn.into(), output_name: outn.into(), doc: None, input: ExprString(rink_core::loader::gnu_units::parse_expr(&mut a)), output: ExprString(rink_core::loader::gnu_units::parse_expr(&mut b)) } }).collect() }) };
            scen.push(("subst-zero-output".into(), "substance property with zero output".into(), vec![bu("kg"), bu("m"), subst("stuff", vec![("dens", "volume", "1 m^3", "mass", "0 kg")])]));
            scen.push(("subst-zero-input".into(), "substance property with zero input".into(), vec![bu("kg"), bu("m"), subst("stuff", vec![("dens", "volume", "0 m^3", "mass", "5 kg")])]));
            scen.push(("subst-negative".into(), "negative property".into(), vec![bu("kg"), bu("m"), subst("stuff", vec![("dens", "volume", "1 m^3", "mass", "-5 kg")])]));
            scen.push(("subst-cycle".into(), "substance property referring to itself".into(), vec![bu("kg"), subst("stuff", vec![("p", "a", "1 kg", "b", "p of stuff")])]));
            scen.push(("subst-missing".into(), "substance property with unknown unit".into(), vec![subst("stuff", vec![("p", "a", "1 nosuch", "b", "2 nosuch")])]));
            scen.push(("subst-conflict".into(), "conflicting property names".into(), vec![bu("kg"), bu("m"), subst("stuff", vec![("dens", "volume", "1 m^3", "mass", "5 kg"), ("dens2", "volume", "1 m^3", "mass", "6 kg")])]));
            // names inside a substance block shadow the database while the block is loaded (Context::lookup
            // consults the temporaries first)
            scen.push(("subst-shadow".into(), "a property named like a unit shadows it inside its substance".into(), vec![bu("m"), bu("kg"), unit("len", "6 m"), unit("mass", "7 m"),
                subst("thing", vec![("size", "sizein", "1", "len", "10 m"), ("double", "din", "1", "dout", "2 len"), ("weight", "win", "1", "mass", "3 kg"), ("dens", "volume", "1 m^3", "densout", "mass")])]));
            scen.push(("subst-partial-fail".into(), "a substance block that fails after a property named like a unit was evaluated".into(), vec![bu("kg"), unit("weight", "5 kg"), unit("zzz", "2 weight"),
                subst("zz_bad", vec![("first", "fin", "1", "weight", "2 kg"), ("broken", "bin", "1", "bout", "3 nosuchunit")])]));
            scen.push(("degree-missing".into(), "temperature suffix without its constants".into(), vec![unit("t", "5")]));
            // random grammar-directed lists
            let nrand = if o.thorough { 400 } else { 40 };
            for i in 0..nrand {
                let mut v = vec![bu("m"), bu("s"), bu("kg")];
                let n = 3 + rng.below(25);
                for j in 0..n {
                    let r = |rng: &mut Rng| -> String { match rng.below(6) { 0 => "m".into(), 1 => "s".into(), 2 => "kg".into(), 3 => format!("u{}", rng.below(n)), 4 => format!("{}", rng.below(5)), _ => format!("pf{}u{}", rng.below(3), rng.below(n)) } };
                    let e = match rng.below(7) { 0 => format!("{} {}", r(&mut rng), r(&mut rng)), 1 => format!("{} / {}", r(&mut rng), r(&mut rng)), 2 => format!("{}^{}", r(&mut rng), rng.range(-3, 3)), 3 => format!("{} + {}", r(&mut rng), r(&mut rng)),
                        4 => format!("{}|{}", rng.below(4), rng.below(4)), 5 => format!("-{}", r(&mut rng)), _ => r(&mut rng) };
                    match rng.below(10) {
                        0 => v.push(pre(&format!("pf{}", rng.below(3)), &format!("{}^{}", rng.below(12), rng.range(-3, 4)), rng.chance(1, 2))),
                        1 => v.push(qty(&format!("q{}", j), &format!("{} {}^{}", *rng.pick(&["m", "s", "kg", "q0", "q1"]), *rng.pick(&["m", "s", "kg"]), rng.range(-2, 3)))),
                        2 => v.push(subst(&format!("sub{}", j), vec![("p", "a", "1 m^3", "b", Box::leak(e.clone().into_boxed_str()))])),
                        _ => v.push(unit(&format!("u{}", j), &e)),
                    }
                }
                for k in (1..v.len()).rev() { let q = rng.below(k as u64 + 1) as usize; v.swap(k, q); }
                scen.push((format!("rand{}", i), "random definition list".into(), v));
            }
            // mutated bundled database: entries deleted, duplicated, swapped
            let nmut = if o.thorough { 30 } else { 4 };
            for i in 0..nmut {
                let mut v: Vec<DefEntry> = text_defs(base_text);
                for _ in 0..(5 + rng.below(40)) {
                    let a = rng.below(v.len() as u64) as usize; let b = rng.below(v.len() as u64) as usize;
                    match rng.below(3) { 0 => { v.remove(a); } 1 => { let all = text_defs(base_text); let n = all.len(); let d = all.into_iter().nth(a % n).unwrap(); v.insert(b.min(v.len()), d); } _ => v.swap(a, b) }
                }
                scen.push((format!("mut{}", i), "bundled database with entries deleted / duplicated / swapped".into(), v));
            }
            // keep the scenarios alive while writing
            for (id, desc, v) in &scen { add(id.clone(), desc.clone(), vec![v.iter().collect()], &mut names); }
            // ---- text level: the real entry points (`load_definitions`, `load_currency`)
            let ntext = if o.thorough { 60 } else { 6 };
            for i in 0..ntext {
                let k = [3u64, 30, 300][i % 3];
                write_text_scenario(&dir, &format!("textmut{}", i), &mutate_lines(&mut rng, base_text, k));
                names.push((format!("textmut{}", i), format!("definitions.units with {} line/token/character mutations", k)));
            }
            let nrt = if o.thorough { 600 } else { 60 };
            for i in 0..nrt {
                let mut t = random_units_text(&mut rng);
                if rng.chance(1, 3) { let k = 1 + rng.below(4); t = mutate_lines(&mut rng, &t, k); }
                write_text_scenario(&dir, &format!("textrand{}", i), &t);
                names.push((format!("textrand{}", i), "grammar-directed random definitions file".into()));
            }
            for (i, t) in ["", "\n", "{", "}", "a {", "a { b", "a { b c", "a { b c d /", "a { b c d / e", "!category", "!category x", "!category x \"", "!endcategory", "!symbol", "!symbol H", "??", "?? doc", "x", "x !", "x !y\nx !y", "x- ", "x-- y", "a ? ", "a ? b ^ c", "a 1 /", "a (", "a )", "a 1e", "a \\u", "a \\u{", "a \"unterminated", "a #", "a 1 # c\n  continued", "a\tb", "a b\r\nc d\r\n", "\u{feff}a 1", "a 0x", "a 1|", "a |1", "a ^", "a 2^^3", "a -", "a --1", "a 1 per", "a sqrt(", "a f(1,", "a 1,2", "a !", "! x", "!include foo", "a { } }", "m !\n!symbol foo Xx\nfoo {\n    molar_mass mass 5 m / amount 1\n}\nzbar Xx2\n", "a 1\na 2\na- 3\na- 4\na ? m\na ? s",
                           "m !\nmile 5280. m\n", "m !\na 1.e3 m\n", "a 0.", "m !\na 3.m", "a .", "a ..", "a 1..2", "a .e5", "a 5.e", "a 1.5.", "a- 10.", "m !\nq ? m^2.\n", "m !\nfoo {\n  w const x 2. m\n}\n"].iter().enumerate() {
                write_text_scenario(&dir, &format!("edge{}", i), t);
                names.push((format!("edge{}", i), format!("edge text {:?}", t)));
            }
            // exponents at the limits of i64 / i32 in quantities, prefixes and units; machine-float zeros in substances
            let deep = |n: usize| -> Vec<(String, String)> { vec![
                (format!("minus-run-{}", n), format!("m !\nfoo {}1 m\nbar 2 foo\n", "-".repeat(n))),
                (format!("sum-{}", n), format!("m !\nfoo {}1 m\nbar 2 foo\n", "1 m + ".repeat(n))),
                (format!("parens-{}", n), format!("m !\nfoo {}1 m{}\nbar 2 foo\n", "(".repeat(n), ")".repeat(n))),
                (format!("blanks-{}", n), format!("m !\nfoo{}1 m\nbar 2 foo\n", " ".repeat(n))),
                (format!("continuations-{}", n), format!("m !\nfoo 1 {}m\nbar 2 foo\n", "\\\n".repeat(n))),
                (format!("continuations-crlf-{}", n), format!("m !\r\nfoo 1 {}m\r\nbar 2 foo\r\n", "\\\r\n".repeat(n))),
                (format!("pow-chain-{}", n), format!("m !\nfoo 2{} m\nbar 2 foo\n", "^1".repeat(n))),
                (format!("juxt-{}", n), format!("m !\nfoo {}\nbar 2 foo\n", "m ".repeat(n))),
                (format!("frac-chain-{}", n), format!("m !\nfoo 1{} m\nbar 2 foo\n", " / 2".repeat(n))),
                // every expression site of a substance block
                (format!("const-parens-{}", n), format!("m !\nfoo {{\n    weight const w {}1 m{}\n}}\nbar 2 m\n", "(".repeat(n), ")".repeat(n))),
                (format!("const-minus-{}", n), format!("m !\nfoo {{\n    weight const w {}1 m\n}}\nbar 2 m\n", "-".repeat(n))),
                (format!("const-pipe-{}", n), format!("m !\nfoo {{\n    weight const w 1{} m\n}}\nbar 2 m\n", "|1".repeat(n))),
                (format!("ratio-out-{}", n), format!("m !\nkg !\nfoo {{\n    dens mass {}1 kg{} / volume 1 m^3\n}}\nbar 2 m\n", "(".repeat(n), ")".repeat(n))),
                (format!("ratio-in-{}", n), format!("m !\nkg !\nfoo {{\n    dens mass 1 kg / volume {}1 m^3\n}}\nbar 2 m\n", "-".repeat(n))),
            ] };
            let mut more: Vec<(String, String)> = vec![
                ("quantity-div-limit".into(), "m !\nhuge ? m^9223372036854775807 / m^-9223372036854775807\nok ? m^2\n".into()),
                ("quantity-mul-limit".into(), "m !\nhuge ? m^9223372036854775807 m^9223372036854775807\nhuge2 ? m^9223372036854775807 * m\nok ? m^2\n".into()),
                ("quantity-pow-limit".into(), "m !\nhuge ? (m^4611686018427387904)^2\nhuge2 ? (m^3037000500)^3037000500\nneg ? -(m^-9223372036854775807 / m)\nok ? m^2\n".into()),
                ("quantity-neg-limit".into(), "m !\nlow ? m^-9223372036854775808\nlow2 ? 1 / m^9223372036854775807 / m\nlow3 ? -(m^9223372036854775807) / m / m\nok ? m^2\n".into()),
                ("unit-exp-limit".into(), "m !\nbig (((((((m^49)^73)^127)^337)^92737)^649657))\nbigger big m\nbig2 big big\nsmall 1 / big / m\nok 2 m\n".into()),
                ("float-zero-input".into(), "m !\nkg !\nfoam {\n    density mass 1 kg / volume 0^(1|2) m^3\n}\nok 2 m\n".into()),
                ("float-zero-output".into(), "m !\nkg !\nfoam {\n    density mass 0^(1|2) kg / volume 1 m^3\n    weight const 0^(1|3) kg\n}\nok 2 m\n".into()),
                ("float-nan-property".into(), "m !\nkg !\nfoam {\n    density mass ln(-1) kg / volume 1 m^3\n    fluff mass 1 kg / volume ln(0) m^3\n}\nok 2 m\n".into()),
            ];
            for (i, e) in ["1^-2147483648", "2^2147483648", "(1|1)^-2147483648", "0^-2147483648", "1^2147483647", "0^2147483647", "(-1)^-2147483648", "10^-2147483649", "1^(-2147483648)", "2^-99999999999999999999", "(-1)^-2147483647", "1e2147483648", "-1^-2147483648"].iter().enumerate() {
                more.push((format!("prefix-exp-{}", i), format!("m !\nfoo- {}\nfoom2 3 foom\nok 2 m\n", e)));
            }
            for n in [150usize, 400, 3000, 20000] { more.extend(deep(n)); }
            // (the lexer-level shapes are cheap: very long runs of them in the quick tier too)
            more.extend(deep(300_000).into_iter().filter(|(id, _)| id.starts_with("continuations") || id.starts_with("blanks")));
            if o.thorough { more.extend(deep(100_000)); }
            for (id, t) in &more {
                write_text_scenario(&dir, id, t);
                names.push((id.clone(), format!("edge text {:?}", t.chars().take(70).collect::<String>())));
            }
            // ---- currency JSON
            let entries: Vec<serde_json::Value> = serde_json::from_str::<serde_json::Value>(&json).ok().and_then(|v| v.as_array().cloned()).unwrap_or_default();
            let mut jn = 0;
            let mut addj = |id: String, desc: String, j: String, names: &mut Vec<(String, String)>| { write_json_scenario(&dir, &id, base_text, &j, cur_text); names.push((id, desc)); };
            for cut in [0usize, 1, 2, 10, json.len() / 3, json.len() / 2, json.len().saturating_sub(2), json.len().saturating_sub(1)] {
                let mut c = cut.min(json.len()); while !json.is_char_boundary(c) { c -= 1; }
                addj(format!("jsoncut{}", jn), format!("currency JSON truncated to {} bytes", c), json[..c].to_string(), &mut names); jn += 1;
            }
            for (i, j) in ["null", "{}", "[]", "[1]", "[null]", "[{}]", "\"x\"", "[{\"name\":1}]", "[{\"name\":\"x\",\"type\":\"unit\"}]", "[{\"name\":\"x\",\"type\":\"unit\",\"expr\":5}]",
                           "[{\"name\":\"x\",\"doc\":null,\"category\":null,\"type\":\"unit\",\"expr\":\"1 +\"}]", "[{\"name\":\"x\",\"doc\":null,\"category\":null,\"type\":\"nosuch\",\"expr\":\"1\"}]",
                           "[{\"name\":\"x\",\"doc\":null,\"category\":null,\"type\":\"unit\",\"expr\":\"1 / 0\"}]", "[{\"name\":\"x\",\"doc\":null,\"category\":null,\"type\":\"unit\",\"expr\":\"x\"}]",
                           "[{\"name\":\"x\",\"doc\":null,\"category\":null,\"type\":\"prefix\",\"expr\":\"1|0\",\"isLong\":true}]", "[{\"name\":\"x\",\"doc\":null,\"category\":null,\"type\":\"prefix\",\"expr\":\"2\",\"isLong\":\"yes\"}]",
                           "[{\"name\":\"USD\",\"doc\":null,\"category\":null,\"type\":\"unit\",\"expr\":\"2 EUR\"},{\"name\":\"EUR\",\"doc\":null,\"category\":null,\"type\":\"unit\",\"expr\":\"2 USD\"}]",
                           "[{\"name\":\"x\",\"doc\":null,\"category\":null,\"type\":\"substance\",\"symbol\":null,\"properties\":[{\"name\":\"p\",\"doc\":null,\"inputName\":\"a\",\"input\":\"1 kg\",\"outputName\":\"b\",\"output\":\"0 kg\"}]}]",
                           "[{\"name\":\"x\",\"doc\":null,\"category\":null,\"type\":\"quantity\",\"expr\":\"m^99999999999999999999\"}]", "[{\"name\":\"x\",\"doc\":null,\"category\":null,\"type\":\"baseUnit\",\"longName\":7}]"].iter().enumerate() {
                addj(format!("jsonedge{}", i), format!("currency JSON {}", j), j.to_string(), &mut names);
            }
            for n in [150usize, 2000, 20000] {
                for (k, e) in [format!("{}1{}", "(".repeat(n), ")".repeat(n)), format!("{}1", "-".repeat(n)), format!("{}1", "1 + ".repeat(n))].iter().enumerate() {
                    let j = serde_json::json!([{"name": "x", "doc": null, "category": null, "type": "unit", "expr": e}]).to_string();
                    addj(format!("jsondeep{}-{}", n, k), format!("currency JSON with an expression nested {} deep", n), j, &mut names);
                }
            }
            // definitions that use a temperature scale (only JSON can: the definitions lexer has no such token) on top of
            // databases that lack the scale's constants, or define them in another unit
            for (i, (base, j)) in [
                ("K !kelvin\n", r#"[{"name":"bodytemp","doc":null,"category":null,"type":"unit","expr":"37 degC"}]"#),
                ("K !kelvin\nzerocelsius 273.15 K\n", r#"[{"name":"bodytemp","doc":null,"category":null,"type":"unit","expr":"37 degC"}]"#),
                ("K !kelvin\nm !meter\nzerocelsius 273.15 m\n", r#"[{"name":"bodytemp","doc":null,"category":null,"type":"unit","expr":"37 degC"}]"#),
                ("K !kelvin\n", r#"[{"name":"zerocelsius","doc":null,"category":null,"type":"unit","expr":"273.15 K"},{"name":"bodytemp","doc":null,"category":null,"type":"unit","expr":"37 degC"},{"name":"hot","doc":null,"category":null,"type":"unit","expr":"451 degF"}]"#),
                ("K !kelvin\nzerofahrenheit 255 K\ndegfahrenheit 5|9 K\n", r#"[{"name":"warm","doc":null,"category":null,"type":"unit","expr":"98 °F + 1 K"},{"name":"odd","doc":null,"category":null,"type":"unit","expr":"3 K degF"}]"#),
            ].iter().enumerate() {
                write_json_scenario(&dir, &format!("jsondegree{}", i), base, j, "");
                names.push((format!("jsondegree{}", i), format!("currency JSON {} on the definitions {:?}", j.chars().take(60).collect::<String>(), base)));
            }
            let njm = if o.thorough { 40 } else { 6 };
            for i in 0..njm {
                let mut es = entries.clone();
                for _ in 0..(1 + rng.below(12)) {
                    if es.is_empty() { break; }
                    let a = rng.below(es.len() as u64) as usize; let b = rng.below(es.len() as u64) as usize;
                    match rng.below(6) {
                        0 => { es.remove(a); }
                        1 => { let e = es[a].clone(); es.insert(b, e); }
                        2 => es.swap(a, b),
                        3 => { let key = *rng.pick(&["name", "type", "expr", "doc", "category"]); if let Some(o) = es[a].as_object_mut() { o.remove(key); } }
                        4 => { let key = *rng.pick(&["name", "type", "expr", "doc", "category"]); let v = rng.pick(&[serde_json::json!(null), serde_json::json!(1), serde_json::json!([]), serde_json::json!({}), serde_json::json!("1 / 0"), serde_json::json!("("), serde_json::json!("USD"), serde_json::json!(true)]).clone(); if let Some(o) = es[a].as_object_mut() { o.insert(key.to_string(), v); } }
                        _ => { if let Some(o) = es[a].as_object_mut() { o.insert("expr".into(), serde_json::json!(format!("{} {}", rng.below(9), *rng.pick(&["USD", "EUR", "JPY", "nosuch", "m", "1|0", "BTC"])))); } }
                    }
                }
                addj(format!("jsonmut{}", i), "currency snapshot with entries deleted / duplicated / swapped / type-confused".into(), serde_json::Value::Array(es).to_string(), &mut names);
            }
        }
    }
    drop(add);
    // run the children in parallel
    let exe = std::env::current_exe().unwrap();
    let ids: Vec<String> = names.iter().map(|x| x.0.clone()).collect();
    let next = std::sync::Arc::new(std::sync::Mutex::new(0usize));
    let ids = std::sync::Arc::new(ids);
    let mut hs = vec![];
    for _ in 0..14 {
        let (next, ids, dir, exe) = (next.clone(), ids.clone(), dir.clone(), exe.clone());
        hs.push(std::thread::spawn(move || loop {
            let k = { let mut n = next.lock().unwrap(); let k = *n; *n += 1; k };
            if k >= ids.len() { break; }
            let scen = format!("{}/{}.tdefs", dir, ids[k]);
            let outp = format!("{}/{}.impl.dump", dir, ids[k]);
            let f = std::fs::File::create(format!("{}/{}.impl.stdout", dir, ids[k])).unwrap();
            let _ = std::fs::remove_file(&outp);
            let child = std::process::Command::new(&exe).arg("loadone").arg("--input").arg(&scen).env("RUST_BACKTRACE", "0").env("RKH_DUMP", &outp).stderr(std::process::Stdio::null()).stdout(f).spawn();
            let verdict = match child {
                Ok(mut ch) => {
                    let t0 = std::time::Instant::now();
                    loop {
                        match ch.try_wait() {
                            Ok(Some(st)) => break if st.success() { None } else { Some(format!("abort {:?}\n", st)) },
                            Ok(None) => { if t0.elapsed().as_secs() > 120 { let _ = ch.kill(); let _ = ch.wait(); break Some("timeout\n".to_string()); } std::thread::sleep(std::time::Duration::from_millis(5)); }
                            Err(e) => break Some(format!("abort wait {}\n", e)),
                        }
                    }
                }
                Err(e) => Some(format!("abort spawn {}\n", e)),
            };
            if let Some(v) = verdict { std::fs::write(&outp, v).unwrap(); }
            else if !std::path::Path::new(&outp).exists() { std::fs::write(&outp, "abort no dump\n").unwrap(); }
        }));
    }
    for h in hs { h.join().unwrap(); }
    crate::util::write_json(&format!("{}/scenarios.json", o.out), &serde_json::json!(names.iter().map(|(a, b)| serde_json::json!({"id": a, "desc": b})).collect::<Vec<_>>()));
    0
}
